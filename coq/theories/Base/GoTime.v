(* time.ParseDuration (Go 1.23), ported statement by statement. *)
From F1 Require Import Base.Prelude Base.F64 Base.GoStr.

Definition two63 : Z := 2 ^ 63.

(* leadingInt: consumes [0-9]*; None = overflow error *)
Fixpoint leading_int (x : Z) (s : str) : option (Z * str) :=
  match s with
  | c :: r =>
    if is_digit c then
      if two63 / 10 <? x then None
      else let x' := x * 10 + (c - 48) in
           if two63 <? x' then None else leading_int x' r
    else Some (x, s)
  | [] => Some (x, [])
  end.

(* leadingFraction: consumes [0-9]*, value x and scale 10^k as float64; digits
   beyond overflow are skipped *)
Fixpoint leading_fraction (x : Z) (scale : f64) (overflow : bool) (s : str) : Z * f64 * str :=
  match s with
  | c :: r =>
    if is_digit c then
      if overflow then leading_fraction x scale true r
      else if (two63 - 1) / 10 <? x then leading_fraction x scale true r
      else let y := x * 10 + (c - 48) in
           if two63 <? y then leading_fraction x scale true r
           else leading_fraction y (f_mul scale (f_of_Z 10)) false r
    else (x, scale, s)
  | [] => (x, scale, [])
  end.

(* unit name: the bytes up to the next '.' or digit *)
Fixpoint take_unit (s : str) : str * str :=
  match s with
  | c :: r => if (c =? 46) || is_digit c then ([], s)
              else let '(u, rest) := take_unit r in (c :: u, rest)
  | [] => ([], [])
  end.

Definition unit_of (u : str) : option Z :=
  if str_eqb u [110; 115] then Some 1                       (* ns *)
  else if str_eqb u [117; 115] then Some 1000               (* us *)
  else if str_eqb u [194; 181; 115] then Some 1000          (* µs U+00B5 *)
  else if str_eqb u [206; 188; 115] then Some 1000          (* μs U+03BC *)
  else if str_eqb u [109; 115] then Some 1000000            (* ms *)
  else if str_eqb u [115] then Some 1000000000              (* s *)
  else if str_eqb u [109] then Some 60000000000             (* m *)
  else if str_eqb u [104] then Some 3600000000000           (* h *)
  else None.

(* uint64(f) for 0 <= f < 2^63 is the truncation; out of range is implementation
   specific and not reachable here (f*unit/scale <= 3.6e12 * 2^63-ish is bounded by the checks) *)
Fixpoint pd_loop (fuel : nat) (d : Z) (s : str) : option Z :=
  match fuel with
  | O => None
  | S fuel' =>
    match s with
    | [] => Some d
    | c :: _ =>
      if negb ((c =? 46) || is_digit c) then None else
      match leading_int 0 s with
      | None => None
      | Some (v, s1) =>
        let pre := negb (Nat.eqb (length s1) (length s)) in
        let '(f, scale, s2, post) :=
          match s1 with
          | 46 :: r => let '(f, scale, s2) := leading_fraction 0 f_one false r in
                       (f, scale, s2, negb (Nat.eqb (length s2) (length r)))
          | _ => (0, f_one, s1, false)
          end in
        if negb pre && negb post then None else
        let '(u, s3) := take_unit s2 in
        match u with
        | [] => None
        | _ =>
          match unit_of u with
          | None => None
          | Some unit =>
            if two63 / unit <? v then None else
            let v1 := v * unit in
            let v2 := if 0 <? f
                      then v1 + f_to_int (f_mul (f_of_Z f) (f_div (f_of_Z unit) scale))
                      else v1 in
            if two63 <? v2 then None else
            let d' := d + v2 in
            if two63 <? d' then None else pd_loop fuel' d' s3
          end
        end
      end
    end
  end.

Definition parse_duration (s : str) : option Z :=
  let '(neg, s1) := match s with
                    | 45 :: r => (true, r)
                    | 43 :: r => (false, r)
                    | _ => (false, s)
                    end in
  if str_eqb s1 [48] then Some 0 else
  match s1 with
  | [] => None
  | _ => match pd_loop (S (length s1)) 0 s1 with
         | None => None
         | Some d => if neg then Some (- d) else if two63 - 1 <? d then None else Some d
         end
  end.
