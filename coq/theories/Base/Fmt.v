(* fmt / time.Duration formatting, ported from Go for exactly the verbs the
   templates use: %5d %5s %0.2f, Duration.String/Round/Seconds. *)
From Coq Require Import String.
From F1 Require Import Base.Prelude Base.F64 Base.GoStr.
From Flocq Require Import IEEE754.BinarySingleNaN.

(* decimal digits of a non-negative integer, with fuel (number of digits <= fuel) *)
Fixpoint digits_fuel (fuel : nat) (z : Z) (acc : str) : str :=
  match fuel with
  | O => acc
  | S f => let acc' := (48 + z mod 10) :: acc in
           if z / 10 =? 0 then acc' else digits_fuel f (z / 10) acc'
  end.

(* strconv.Itoa / %d *)
Definition itoa (z : Z) : str :=
  if z <? 0 then 45 :: digits_fuel 400 (- z) [] else digits_fuel 400 z [].

Fixpoint spaces (n : nat) : str := match n with O => [] | S k => 32 :: spaces k end.

(* number of runes in a UTF-8 string: bytes that are not continuation bytes *)
Definition rune_count (s : str) : nat :=
  length (filter (fun c => negb ((128 <=? c) && (c <? 192))) s).

(* %Nd / %Ns: right-justified in a field of N runes *)
Definition pad_left (width : nat) (s : str) : str := spaces (width - rune_count s) ++ s.

(* digits of v zero-padded on the left to exactly prec digits *)
Fixpoint frac_digits (prec : nat) (v : Z) (acc : str) : str :=
  match prec with
  | O => acc
  | S p => frac_digits p (v / 10) ((48 + v mod 10) :: acc)
  end.

Fixpoint strip_trailing_zeros_rev (r : str) : str :=
  match r with
  | 48 :: t => strip_trailing_zeros_rev t
  | _ => r
  end.

(* fmtFrac: ".12345" without trailing zeros, "" when the fraction is zero *)
Definition fmt_frac (v : Z) (prec : nat) : str :=
  let ds := rev (strip_trailing_zeros_rev (rev (frac_digits prec (v mod 10 ^ Z.of_nat prec) []))) in
  match ds with [] => [] | _ => 46 :: ds end.

Definition sec : Z := 1000000000.

(* time.Duration.String *)
Definition duration_string (d : Z) : str :=
  let neg := d <? 0 in
  let u := Z.abs d in
  let body :=
    if u <? sec then
      if u =? 0 then [48; 115]
      else if u <? 1000 then itoa u ++ [110; 115]
      else if u <? 1000000 then itoa (u / 1000) ++ fmt_frac u 3 ++ [194; 181; 115]
      else itoa (u / 1000000) ++ fmt_frac u 6 ++ [109; 115]
    else
      let secs := u / sec in
      let s_part := itoa (secs mod 60) ++ fmt_frac u 9 ++ [115] in
      let mins := secs / 60 in
      if mins =? 0 then s_part
      else let m_part := itoa (mins mod 60) ++ [109] in
           let hours := mins / 60 in
           if hours =? 0 then m_part ++ s_part
           else itoa hours ++ [104] ++ m_part ++ s_part in
  if neg then 45 :: body else body.

(* Duration.Round(m) for m > 0, half away from zero; overflow cannot occur for |d| < 2^62 *)
Definition duration_round (d m : Z) : Z :=
  if m <=? 0 then d else
  let r := Z.rem d m in
  if d <? 0 then
    let r' := - r in
    if r' + r' <? m then d + r' else d - m + r'
  else
    if r + r <? m then d - r else d + m - r.

(* Duration.Seconds() *)
Definition duration_seconds (d : Z) : f64 :=
  f_add (f_of_Z (Z.quot d sec)) (f_div (f_of_Z (Z.rem d sec)) (f_of_Z sec)).

(* uint64(f) on amd64 *)
Definition f_to_uint64 (x : f64) : Z :=
  if f_lt x (f_of_Z (2 ^ 63)) then (f_to_int x) mod 2 ^ 64
  else (f_to_int (f_sub x (f_of_Z (2 ^ 63))) + 2 ^ 63) mod 2 ^ 64.

(* %0.2f of a float64: the exact binary value rounded to two decimals, ties
   to even (strconv's shortest/exact decimal conversion rounds the exact value) *)
Definition round_half_even_div (n d : Z) : Z :=
  let q := n / d in let r := n mod d in
  if 2 * r <? d then q else if d <? 2 * r then q + 1 else if Z.even q then q else q + 1.

(* the magnitude of x in hundredths, rounded as %0.2f rounds it (finite x) *)
Definition f2_centi (x : f64) : Z :=
  match x with
  | B754_finite _ m e _ =>
    let mz := Zpos m in
    if 0 <=? e then mz * 2 ^ e * 100 else round_half_even_div (mz * 100) (2 ^ (- e))
  | _ => 0
  end.

Definition fmt_f2 (x : f64) : str :=
  match x with
  | B754_nan => s_of "NaN"
  | B754_infinity false => s_of "+Inf"
  | B754_infinity true => s_of "-Inf"
  | B754_zero s => (if s then [45] else []) ++ s_of "0.00"
  | B754_finite s m e _ =>
    let q := f2_centi x in
    (if s then [45] else []) ++ itoa (q / 100) ++ [46] ++ frac_digits 2 (q mod 100) []
  end.
