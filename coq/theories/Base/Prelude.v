(* Shared conventions for every model: integers are Z, crashes are values. *)
From Coq Require Export List ZArith Bool Lia.
Export ListNotations.
Open Scope Z_scope.

(* Every model function that can fail returns one of three outcomes:
   a value, a reported error (the Go function returned err != nil), or a
   crash (the Go code would panic: nil dereference, slice bounds, integer
   division by zero, NewTicker(d<=0), make with negative length ...). *)
Inductive res (A : Type) : Type :=
| Ok (a : A)
| Err
| Crash.
Arguments Ok {A} a.
Arguments Err {A}.
Arguments Crash {A}.

Definition res_bind {A B} (r : res A) (f : A -> res B) : res B :=
  match r with Ok a => f a | Err => Err | Crash => Crash end.

Definition res_map {A B} (f : A -> B) (r : res A) : res B :=
  match r with Ok a => Ok (f a) | Err => Err | Crash => Crash end.

Definition is_crash {A} (r : res A) : bool :=
  match r with Crash => true | _ => false end.

Definition is_ok {A} (r : res A) : bool :=
  match r with Ok _ => true | _ => false end.

Definition zsum (l : list Z) : Z := fold_right Z.add 0 l.

Lemma zsum_app l1 l2 : zsum (l1 ++ l2) = zsum l1 + zsum l2.
Proof.
  unfold zsum. induction l1 as [|x l1 IH]; cbn [app fold_right]; [lia|].
  rewrite IH. lia.
Qed.

Lemma zsum_cons x l : zsum (x :: l) = x + zsum l.
Proof. reflexivity. Qed.

Definition zmax_list (l : list Z) : Z := fold_right Z.max 0 l.

(* Number of elements satisfying a boolean predicate, as Z. *)
Fixpoint zcount {A} (p : A -> bool) (l : list A) : Z :=
  match l with
  | [] => 0
  | x :: r => (if p x then 1 else 0) + zcount p r
  end.

Lemma zcount_app {A} (p : A -> bool) l1 l2 :
  zcount p (l1 ++ l2) = zcount p l1 + zcount p l2.
Proof. induction l1 as [|x l1 IH]; cbn [zcount app]; [lia|]. rewrite IH. lia. Qed.

Lemma zcount_nonneg {A} (p : A -> bool) l : 0 <= zcount p l.
Proof. induction l as [|x l IH]; cbn [zcount]; [lia|]. destruct (p x); lia. Qed.

Lemma firstn_app_exact {A} (n : nat) (l1 l2 : list A) :
  length l1 = n -> firstn n (l1 ++ l2) = l1.
Proof.
  intros <-. rewrite firstn_app, Nat.sub_diag, firstn_all. cbn [firstn].
  apply app_nil_r.
Qed.

Lemma skipn_app_exact {A} (a b : nat) (l1 l2 : list A) :
  length l1 = a -> skipn (a + b) (l1 ++ l2) = skipn b l2.
Proof.
  intros <-. rewrite skipn_app. rewrite skipn_all2 by lia. cbn [app].
  f_equal. lia.
Qed.
