(* Go's float64 modelled exactly with Flocq's IEEE-754 binary64
   (BinarySingleNaN: one NaN, which is all Go programs can observe through
   arithmetic and comparisons). Every operation below is the Go operation it
   is named after; each is differentially tested against Go by the harness
   (stage "f64" of the C10 check). *)
From Coq Require Import ZArith Bool Lia.
From Flocq Require Import Core.Zaux IEEE754.BinarySingleNaN.
Open Scope Z_scope.

Definition prec := 53.
Definition emax := 1024.

Lemma prec_gt_0_64 : FLX.Prec_gt_0 prec.
Proof. unfold FLX.Prec_gt_0, prec. reflexivity. Defined.
Lemma prec_lt_emax_64 : Prec_lt_emax prec emax.
Proof. unfold Prec_lt_emax, prec, emax. reflexivity. Defined.
#[global] Existing Instance prec_gt_0_64.
#[global] Existing Instance prec_lt_emax_64.

Definition f64 := binary_float prec emax.

Definition f_norm (m e : Z) : f64 := binary_normalize prec emax _ _ mode_NE m e false.

(* float64(int64 x) *)
Definition f_of_Z (z : Z) : f64 := f_norm z 0.

Definition f_zero : f64 := B754_zero false.
Definition f_nan : f64 := B754_nan.

Definition f_add (x y : f64) : f64 := Bplus mode_NE x y.
Definition f_sub (x y : f64) : f64 := Bminus mode_NE x y.
Definition f_mul (x y : f64) : f64 := Bmult mode_NE x y.
Definition f_div (x y : f64) : f64 := Bdiv mode_NE x y.
Definition f_neg (x : f64) : f64 := Bopp x.

Definition f_lt (x y : f64) : bool := Bltb x y.
Definition f_le (x y : f64) : bool := Bleb x y.
Definition f_eq (x y : f64) : bool := Beqb x y.

Definition f_is_nan (x : f64) : bool := is_nan x.
Definition f_is_finite (x : f64) : bool := is_finite x.

(* math.Floor, math.Ceil, math.Trunc, math.Round (half away from zero) *)
Definition f_floor (x : f64) : f64 := Bnearbyint mode_DN x.
Definition f_ceil (x : f64) : f64 := Bnearbyint mode_UP x.
Definition f_trunc (x : f64) : f64 := Bnearbyint mode_ZR x.
Definition f_round (x : f64) : f64 := Bnearbyint mode_NA x.

Definition min_int64 : Z := - 2 ^ 63.

(* int(x) / int64(x) on amd64 (CVTTSD2SQ): truncation; NaN, infinities and
   out-of-range values give the "integer indefinite" value -2^63. *)
Definition f_to_int (x : f64) : Z :=
  if is_finite x then
    let t := Btrunc x in
    if (t <? 2 ^ 63) && (min_int64 <=? t) then t else min_int64
  else min_int64.

(* math.Max with Go's special cases *)
Definition f_is_posinf (x : f64) : bool :=
  match x with B754_infinity false => true | _ => false end.
Definition f_is_zero (x : f64) : bool :=
  match x with B754_zero _ => true | _ => false end.
Definition f_signbit (x : f64) : bool := Bsign x.

Definition f_max (x y : f64) : f64 :=
  if f_is_posinf x || f_is_posinf y then B754_infinity false
  else if is_nan x || is_nan y then B754_nan
  else if f_is_zero x && f_is_zero y then (if f_signbit x then y else x)
  else if f_lt y x then x else y.

(* IEEE-754 binary64 bit pattern <-> f64 (the harness passes floats as the
   integer math.Float64bits gives, never as decimals). NaN is canonicalised
   to 0x7FF8000000000001 by the harness on both sides. *)
Definition nan_bits : Z := 9221120237041090561.

Definition f_of_bits (b : Z) : f64 :=
  let s := Z.odd (b / 2 ^ 63) in
  let e := (b / 2 ^ 52) mod 2 ^ 11 in
  let m := b mod 2 ^ 52 in
  if e =? 2047 then (if m =? 0 then B754_infinity s else B754_nan)
  else if e =? 0 then
    (if m =? 0 then B754_zero s
     else binary_normalize prec emax _ _ mode_NE (if s then - m else m) (-1074) s)
  else binary_normalize prec emax _ _ mode_NE
         (if s then - (m + 2 ^ 52) else m + 2 ^ 52) (e - 1075) s.

Definition f_to_bits (x : f64) : Z :=
  match x with
  | B754_zero s => if s then 2 ^ 63 else 0
  | B754_infinity s => (if s then 2 ^ 63 else 0) + 2047 * 2 ^ 52
  | B754_nan => nan_bits
  | B754_finite s m e _ =>
    let mz := Zpos m in
    (if s then 2 ^ 63 else 0) +
    (if mz <? 2 ^ 52 then mz else (e + 1075) * 2 ^ 52 + (mz - 2 ^ 52))
  end.

(* Frequently used constants *)
Definition f_one : f64 := f_of_Z 1.
Definition f_100 : f64 := f_of_Z 100.
