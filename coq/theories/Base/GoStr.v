(* Go strings as byte lists; bytewise lexicographic order (sort.Strings). *)
From Coq Require Import String Ascii.
From F1 Require Import Base.Prelude.
From Coq Require Import Sorting.Permutation.

Definition str := list Z.

Definition s_of (s : string) : str :=
  map (fun c => Z.of_nat (nat_of_ascii c)) (list_ascii_of_string s).

Definition str_eq_dec : forall a b : str, {a = b} + {a <> b} := list_eq_dec Z.eq_dec.
Definition str_eqb (a b : str) : bool := if str_eq_dec a b then true else false.

Lemma str_eqb_eq a b : str_eqb a b = true <-> a = b.
Proof. unfold str_eqb. destruct (str_eq_dec a b); split; congruence. Qed.

Fixpoint str_ltb (a b : str) : bool :=
  match a, b with
  | [], [] => false
  | [], _ :: _ => true
  | _ :: _, [] => false
  | x :: a', y :: b' => if x <? y then true else if y <? x then false else str_ltb a' b'
  end.

(* insertion sort, stable, generic in the strict order *)
Section Sort.
Context {A : Type} (ltb : A -> A -> bool).
Fixpoint insert (x : A) (l : list A) : list A :=
  match l with
  | [] => [x]
  | y :: r => if ltb x y then x :: l else y :: insert x r
  end.
Definition isort (l : list A) : list A := fold_right insert [] l.

Lemma insert_perm x l : Permutation (insert x l) (x :: l).
Proof.
  induction l as [|y r IH]; cbn; [reflexivity|].
  destruct (ltb x y); [reflexivity|].
  rewrite IH. apply perm_swap.
Qed.

Lemma isort_perm l : Permutation (isort l) l.
Proof.
  induction l as [|x l IH]; cbn; [reflexivity|].
  rewrite insert_perm. constructor. exact IH.
Qed.
End Sort.

Definition sort_strs (l : list str) : list str := isort str_ltb l.
