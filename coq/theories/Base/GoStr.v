(* Go strings as byte lists; bytewise lexicographic order (sort.Strings). *)
From Coq Require Import String Ascii.
From F1 Require Import Base.Prelude.
From Coq Require Import Sorting.Permutation.

Definition str := list Z.

Definition s_of (s : string) : str :=
  map (fun c => Z.of_nat (nat_of_ascii c)) (list_ascii_of_string s).

Definition str_eq_dec : forall a b : str, {a = b} + {a <> b} := list_eq_dec Z.eq_dec.
Definition str_eqb (a b : str) : bool := if str_eq_dec a b then true else false.

Lemma str_eqb_eq a b : str_eqb a b = true <-> a = b.
Proof. unfold str_eqb. destruct (str_eq_dec a b); split; congruence. Qed.

Fixpoint str_ltb (a b : str) : bool :=
  match a, b with
  | [], [] => false
  | [], _ :: _ => true
  | _ :: _, [] => false
  | x :: a', y :: b' => if x <? y then true else if y <? x then false else str_ltb a' b'
  end.

(* insertion sort, stable, generic in the strict order *)
Section Sort.
Context {A : Type} (ltb : A -> A -> bool).
Fixpoint insert (x : A) (l : list A) : list A :=
  match l with
  | [] => [x]
  | y :: r => if ltb x y then x :: l else y :: insert x r
  end.
Definition isort (l : list A) : list A := fold_right insert [] l.

Lemma insert_perm x l : Permutation (insert x l) (x :: l).
Proof.
  induction l as [|y r IH]; cbn; [reflexivity|].
  destruct (ltb x y); [reflexivity|].
  rewrite IH. apply perm_swap.
Qed.

Lemma isort_perm l : Permutation (isort l) l.
Proof.
  induction l as [|x l IH]; cbn; [reflexivity|].
  rewrite insert_perm. constructor. exact IH.
Qed.
End Sort.

Definition sort_strs (l : list str) : list str := isort str_ltb l.

(* ---------------------------------------------------------------- strings / strconv ports *)

Definition is_digit (c : Z) : bool := (48 <=? c) && (c <=? 57).

(* strings.Index(s, sep) for a one-byte separator: index of the first occurrence *)
Fixpoint index_byte (c : Z) (s : str) : option nat :=
  match s with
  | [] => None
  | x :: r => if x =? c then Some O else option_map S (index_byte c r)
  end.

(* strings.Split(s, sep) for a one-byte separator *)
Fixpoint split_byte (c : Z) (s : str) : list str :=
  match s with
  | [] => [[]]
  | x :: r =>
    match split_byte c r with
    | [] => [[x]]                      (* unreachable: split never returns [] *)
    | p :: ps => if x =? c then [] :: p :: ps else (x :: p) :: ps
    end
  end.

(* strings.TrimSpace restricted to ASCII white space ('\t' '\n' '\v' '\f' '\r' ' ');
   the generators of the harness stay inside ASCII for the strings they compare. *)
Definition is_space (c : Z) : bool := ((9 <=? c) && (c <=? 13)) || (c =? 32).
Fixpoint trim_left (s : str) : str :=
  match s with
  | x :: r => if is_space x then trim_left r else s
  | [] => []
  end.
Definition trim_space (s : str) : str := rev (trim_left (rev (trim_left s))).

Definition max_int64 : Z := 2 ^ 63 - 1.
Definition min_int64' : Z := - 2 ^ 63.

Fixpoint digits_val (acc : Z) (s : str) : option Z :=
  match s with
  | [] => Some acc
  | x :: r => if is_digit x then digits_val (acc * 10 + (x - 48)) r else None
  end.

(* strconv.Atoi on a 64-bit platform: [+-]?[0-9]+ within int64 *)
Definition atoi (s : str) : option Z :=
  let '(neg, body) := match s with
                      | 43 :: r => (false, r)
                      | 45 :: r => (true, r)
                      | _ => (false, s)
                      end in
  match body with
  | [] => None
  | _ => match digits_val 0 body with
         | None => None
         | Some v => let v' := if neg then - v else v in
                     if (min_int64' <=? v') && (v' <=? max_int64) then Some v' else None
         end
  end.
