(* Boolean equalities used by the per-run in-kernel cross-check of the
   extracted code (lib/xcheck.py writes a file of [check] terms evaluated by
   vm_compute and compared with what the OCaml driver answered). *)
From F1 Require Import Base.Prelude.

Definition zl_eqb (a b : list Z) : bool := if list_eq_dec Z.eq_dec a b then true else false.

Definition res_eqb {A} (eqb : A -> A -> bool) (a b : res A) : bool :=
  match a, b with
  | Ok x, Ok y => eqb x y
  | Err, Err => true
  | Crash, Crash => true
  | _, _ => false
  end.

Definition opt_eqb {A} (eqb : A -> A -> bool) (a b : option A) : bool :=
  match a, b with Some x, Some y => eqb x y | None, None => true | _, _ => false end.

Definition pair_eqb {A B} (ea : A -> A -> bool) (eb : B -> B -> bool) (a b : A * B) : bool :=
  ea (fst a) (fst b) && eb (snd a) (snd b).

Fixpoint list_eqb {A} (eqb : A -> A -> bool) (a b : list A) : bool :=
  match a, b with
  | [], [] => true
  | x :: a', y :: b' => eqb x y && list_eqb eqb a' b'
  | _, _ => false
  end.

Fixpoint false_indexes (i : nat) (l : list bool) : list nat :=
  match l with
  | [] => []
  | true :: r => false_indexes (S i) r
  | false :: r => i :: false_indexes (S i) r
  end.
