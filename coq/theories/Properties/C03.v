(* C03 — max-iterations is a hard ceiling; iteration ids are unique and
   gapless. Only property theorems; proofs in Proofs/PoolIds.v, PoolFinal.v. *)
From F1 Require Import Base.Prelude Model.Pool Proofs.PoolBase Proofs.PoolIds Proofs.PoolFinal.
From Coq Require Import Sorting.Permutation.
From F1 Require Import Model.ContPool Proofs.ContPoolProofs.

(* In every reachable state the ids handed out are exactly k, k-1, ..., 1;
   the ids of started bodies together with those a worker is about to start
   are a permutation of them (no id twice, none skipped); with a limit N > 0,
   k <= N. *)
Theorem C03_ids_inv : forall n maxit ticks sched,
  let s := pexec (pinit n maxit ticks) sched in
  ids_issued s = rdesc (length (ids_issued s)) /\
  Permutation (ids_started s ++ flat_map transit (workers s)) (ids_issued s) /\
  (0 < maxiter s -> Z.of_nat (length (ids_issued s)) <= maxiter s) /\
  started s = Z.of_nat (length (ids_started s)).
Proof.
  intros n maxit ticks sched s.
  destruct (ids_exec sched _ (ids_init n maxit ticks)) as [RG IT CP PM ST _ _ _]. fold s in RG, IT, CP, PM, ST.
  unfold glen in CP. auto.
Qed.
Print Assumptions C03_ids_inv.

(* At the end of the run the ids observed are exactly 1..k for the k started
   iterations, k <= N, and k = N as soon as the limit was ever exceeded, i.e.
   whenever the trigger kept requesting work until the limit stopped it. *)
Theorem C03_exact : forall n maxit ticks sched,
  let s := pexec (pinit n maxit ticks) sched in
  pterminal s = true ->
  let k := length (ids_issued s) in
  Permutation (ids_started s) (rdesc k) /\ started s = Z.of_nat k /\
  (0 < maxiter s -> Z.of_nat k <= maxiter s) /\
  (0 < maxiter s -> maxiter s < iter s -> Z.of_nat k = maxiter s) /\
  (0 < discarded s -> 0 < maxiter s /\ Z.of_nat k = maxiter s).
Proof.
  intros n maxit ticks sched s Ht. apply terminal_ids; [apply ids_exec, ids_init|exact Ht].
Qed.
Print Assumptions C03_exact.

(* Users mode (continuous pool): the same for any number of users, any
   schedule, any cancellation from outside ... *)
Theorem C03_users_ids : forall n maxit sched,
  let s := cexec (cinit n maxit) sched in
  k_issued s = rdesc (length (k_issued s)) /\
  Permutation (k_started s ++ flat_map ktransit (k_workers s)) (k_issued s) /\
  (0 < k_max s -> Z.of_nat (length (k_issued s)) <= k_max s) /\
  (cterminal s = true -> Permutation (k_started s) (rdesc (length (k_issued s)))).
Proof.
  intros n maxit sched s.
  destruct (kids_exec sched _ (kids_init n maxit)) as [RG IT CP PM]. fold s in RG, IT, CP, PM. unfold kglen in CP.
  repeat split; auto.
  intros Ht. unfold cterminal in Ht. rewrite (k_all_done_transit _ Ht), app_nil_r in PM. rewrite <- RG. exact PM.
Qed.
Print Assumptions C03_users_ids.

(* ... and when nobody cancels from outside, users keep iterating until the
   limit stops them: a finished run with a limit N > 0 and at least one user
   has started exactly N iterations. *)
Theorem C03_users_exact : forall n maxit sched,
  no_env_cancel sched -> (0 < n)%nat ->
  let s := cexec (cinit n maxit) sched in
  cterminal s = true -> 0 < k_max s /\ Z.of_nat (length (k_issued s)) = k_max s.
Proof.
  intros n maxit sched Hne Hn s Ht.
  assert (HL : KLim s).
  { unfold s. clear s Ht. generalize (klim_init n maxit). generalize (cinit n maxit).
    induction sched as [|l ls IH]; intros st I; [exact I|].
    inversion Hne as [|? ? Hl Hls]; subst. cbn [cexec fold_left].
    destruct (cstep st l) as [st'|] eqn:E; [apply (IH Hls); eapply klim_step; eauto|apply (IH Hls); exact I]. }
  assert (Hlen : length (k_workers s) = n) by (unfold s; rewrite k_workers_length_exec; cbn; apply repeat_length).
  assert (Hd : exists i, nth_error (k_workers s) i = Some KDone).
  { unfold cterminal in Ht. destruct (k_workers s) as [|w ws] eqn:Ew; [cbn in Hlen; lia|].
    cbn [forallb] in Ht. apply andb_true_iff in Ht as [H1 _]. destruct w; try discriminate. exists 0%nat. reflexivity. }
  destruct (kl_ctx s HL (kl_done s HL Hd)) as [Hm Hlt].
  destruct (kids_exec sched _ (kids_init n maxit)) as [RG IT CP PM]. fold s in IT, CP. unfold kglen in *.
  split; [exact Hm|]. destruct IT as [IT|IT]; [specialize (CP Hm); lia|lia].
Qed.
Print Assumptions C03_users_exact.

Example C03_example :
  let s := pexec (pinit 3 2 [3])
    (repeat PTick 7 ++ repeat (PWorker 0) 5 ++ repeat (PWorker 1) 5 ++ repeat (PWorker 2) 11 ++
     repeat PStop 8 ++ repeat (PWorker 0) 3 ++ repeat (PWorker 1) 3) in
  pterminal s = true /\ ids_started s = [2; 1] /\ discarded s = 1 /\ dropped s = 0.
Proof. vm_compute. repeat split; reflexivity. Qed.
