(* C03 — max-iterations is a hard ceiling; iteration ids are unique and
   gapless. Only property theorems; proofs in Proofs/PoolIds.v, PoolFinal.v. *)
From F1 Require Import Base.Prelude Model.Pool Proofs.PoolBase Proofs.PoolIds Proofs.PoolFinal.
From Coq Require Import Sorting.Permutation.

(* In every reachable state the ids handed out are exactly k, k-1, ..., 1;
   the ids of started bodies together with those a worker is about to start
   are a permutation of them (no id twice, none skipped); with a limit N > 0,
   k <= N. *)
Theorem C03_ids_inv : forall n maxit ticks sched,
  let s := pexec (pinit n maxit ticks) sched in
  ids_issued s = rdesc (length (ids_issued s)) /\
  Permutation (ids_started s ++ flat_map transit (workers s)) (ids_issued s) /\
  (0 < maxiter s -> Z.of_nat (length (ids_issued s)) <= maxiter s) /\
  started s = Z.of_nat (length (ids_started s)).
Proof.
  intros n maxit ticks sched s.
  destruct (ids_exec sched _ (ids_init n maxit ticks)) as [RG IT CP PM ST _ _ _]. fold s in RG, IT, CP, PM, ST.
  unfold glen in CP. auto.
Qed.
Print Assumptions C03_ids_inv.

(* At the end of the run the ids observed are exactly 1..k for the k started
   iterations, k <= N, and k = N as soon as the limit was ever exceeded, i.e.
   whenever the trigger kept requesting work until the limit stopped it. *)
Theorem C03_exact : forall n maxit ticks sched,
  let s := pexec (pinit n maxit ticks) sched in
  pterminal s = true ->
  let k := length (ids_issued s) in
  Permutation (ids_started s) (rdesc k) /\ started s = Z.of_nat k /\
  (0 < maxiter s -> Z.of_nat k <= maxiter s) /\
  (0 < maxiter s -> maxiter s < iter s -> Z.of_nat k = maxiter s) /\
  (0 < discarded s -> 0 < maxiter s /\ Z.of_nat k = maxiter s).
Proof.
  intros n maxit ticks sched s Ht. apply terminal_ids; [apply ids_exec, ids_init|exact Ht].
Qed.
Print Assumptions C03_exact.

Example C03_example :
  let s := pexec (pinit 3 2 [3])
    (repeat PTick 7 ++ repeat (PWorker 0) 5 ++ repeat (PWorker 1) 5 ++ repeat (PWorker 2) 11 ++
     repeat PStop 8 ++ repeat (PWorker 0) 3 ++ repeat (PWorker 1) 3) in
  pterminal s = true /\ ids_started s = [2; 1] /\ discarded s = 1 /\ dropped s = 0.
Proof. vm_compute. repeat split; reflexivity. Qed.
