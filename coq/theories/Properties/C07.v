(* C07 — failures and panics are contained in their iteration and classified
   correctly. Only property theorems; proofs are in Proofs/TestingTProofs.v. *)
From F1 Require Import Base.Prelude Model.TestingT Proofs.TestingTProofs Proofs.TestingTConc.

(* An iteration is recorded failed iff its body marks failure: it contains
   Fail, FailNow (Fatal, failed assertion) or a panic with any value. *)
Theorem C07_classification : forall tab t body,
  snd (iteration tab t body) = marks_failure body.
Proof.
  intros tab t body. pose proof (iteration_shape tab t body) as H.
  destruct (iteration tab t body) as [[t' es] f]. destruct H as (ces & _ & _ & C). exact C.
Qed.
Print Assumptions C07_classification.

(* Clean start: whatever happened before on the handle (failure, panic, a
   teardown failure, leftover cleanups), the next iteration behaves as on a
   fresh handle: same events, same outcome. *)
Theorem C07_independent : forall tab t t' body,
  snd (fst (iteration tab t body)) = snd (fst (iteration tab t' body)) /\
  snd (iteration tab t body) = snd (iteration tab t' body).
Proof.
  intros tab t t' body. pose proof (iteration_independent tab t t' body) as H.
  destruct (iteration tab t body) as [[? ?] ?]. destruct (iteration tab t' body) as [[? ?] ?]. exact H.
Qed.
Print Assumptions C07_independent.

(* The worker survives every body and reports each iteration by its own
   outcome: for any sequence of bodies the recorded outcomes are exactly
   the per-body classifications, in order. *)
Theorem C07_worker_outcomes : forall tab t bodies,
  snd (worker tab t bodies) = map marks_failure bodies.
Proof.
  intros tab t bodies. rewrite worker_blocks. cbn [snd].
  apply map_ext. intros b. unfold iter_outcome. apply (C07_classification tab t_new b).
Qed.
Print Assumptions C07_worker_outcomes.

(* Failures reported by helper goroutines at the same time (Fail and the Error variants from
   n >= 1 goroutines the body waits for; each is a read of tearingDown followed by an atomic store,
   stepped in any order): once all of them are done the handle is marked failed, and its
   teardown flag, phase and cleanups are what they were. *)
Theorem C07_concurrent_marks : forall t n sched t' hs',
  tearing t = false -> (1 <= n)%nat ->
  hexec t (repeat HStart n) sched = (t', hs') -> all_done hs' = true ->
  failed t' = true /\ tdfailed t' = tdfailed t /\ tearing t' = false /\ stack t' = stack t.
Proof. exact concurrent_marks. Qed.
Print Assumptions C07_concurrent_marks.

Example C07_concurrent_marks_example :
  hexec t_new (repeat HStart 3) [0; 1; 1; 2; 0; 2]%nat =
  ({| failed := true; tdfailed := false; tearing := false; stack := [] |}, [HDone; HDone; HDone]) /\
  all_done [HDone; HDone; HDone] = true.
Proof. vm_compute. split; reflexivity. Qed.

(* A failure inside a cleanup does not change the iteration's outcome. *)
Example C07_example :
  let tab := fun c => match c with 0%nat => [AFail] | _ => [APanicVal] end in
  snd (worker tab t_new [[ARegister 0; ARegister 1]; [AFail]; []; [AMark 1; APanicVal]; [AFailNow]; []])
  = [false; true; false; true; true; false].
Proof. vm_compute. reflexivity. Qed.
