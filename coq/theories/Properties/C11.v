(* C11 — gaussian profile delivers the configured volume per window and
   peaks on time. Only property theorems; proofs in Proofs/GaussianProofs.v,
   Proofs/GaussianReal.v, Proofs/GaussianRiemann.v and Proofs/GaussianF64.v.

   Four layers.
   Exact layer (proved, all inputs): the remainder carry over exact rational rates a_k/D.
   Analysis layer (proved over the reals, all parameters): the density is unimodal; the left
   Riemann sum the calculator forms differs from the window's probability mass by at most one
   slot of peak density (C11_discretisation); with real arithmetic the emitted total of a window is
   within that discretisation error, and less than one carried request, of the volume (C11_volume).
   Float layer (binary64 transcription g_for/gauss_run, compared bit-for-bit with the code): the
   carry loses nothing but the rounding of one addition per tick - floor and subtraction are exact
   (C11_float_carry) - and every step emits floor(rate) or floor(rate)+1, so no tick exceeds the
   float-rate peak tick by more than one (C11_float_step, C11_peak_f64); composed with the analysis layer in C11_volume_f64.
   Oracles: math.Exp / math.Erfc. That the density and CDF values f1 computes with them are within
   eps of the real ones is a hypothesis of C11_volume_f64 (eps is Go's libm accuracy, not
   verified); the harness measures the end-to-end volume on every generated parameter set
   (predicate gauss_ok). *)
From F1 Require Import Base.Prelude Base.F64 Model.Gaussian Proofs.GaussianProofs Proofs.GaussianReal Proofs.F64Close Proofs.JitterF64 Proofs.GaussianRiemann Proofs.GaussianF64.
From Coq Require Import Reals Lra.
From Coquelicot Require Import Hierarchy RInt.
From Flocq Require Import Core.Raux IEEE754.BinarySingleNaN.
Close Scope R_scope.
Open Scope Z_scope.

(* Fractional rates are carried, not lost: over any number of ticks, for any
   non-negative exact rates a_k/D and any starting remainder b/D,
   D * (sum of outputs) + final remainder = (sum of rates) + starting
   remainder, with 0 <= remainder < D; hence
   sum r - 1 < sum out <= sum r + rem_0. Outputs are never negative. *)
Theorem C11_carry : forall D rates b os bf,
  0 < D -> 0 <= b < D -> Forall (fun a => 0 <= a) rates ->
  carry_run D b rates = (os, bf) ->
  D * zsum os + bf = zsum rates + b /\ 0 <= bf < D /\
  Forall (fun o => 0 <= o) os /\ length os = length rates.
Proof. intros D rates b os bf HD. exact (carry_telescope D HD rates b os bf). Qed.
Print Assumptions C11_carry.

(* Each tick emits the floor of its exact rate, or one more. *)
Theorem C11_step : forall D rates b os bf,
  0 < D -> 0 <= b < D -> Forall (fun a => 0 <= a) rates ->
  carry_run D b rates = (os, bf) ->
  Forall2 (fun a o => a / D <= o <= a / D + 1) rates os.
Proof. intros D rates b os bf HD. exact (carry_run_bounds D HD rates b os bf). Qed.
Print Assumptions C11_step.

(* No tick requests more than one above the tick whose exact rate is largest
   (the tick nearest the peak, by C11_unimodal). *)
Theorem C11_peak : forall D rates b os bf p ap op,
  0 < D -> 0 <= b < D -> Forall (fun a => 0 <= a) rates ->
  carry_run D b rates = (os, bf) ->
  nth_error rates p = Some ap -> nth_error os p = Some op ->
  Forall (fun a => a <= ap) rates ->
  Forall (fun o => o <= op + 1) os.
Proof.
  intros D rates b os bf p ap op HD Hb Hr Hrun Hp Ho Hmax.
  pose proof (carry_run_bounds D HD rates b os bf Hb Hr Hrun) as F.
  exact (peak_bound D HD rates os p ap op F Hp Ho Hmax).
Qed.
Print Assumptions C11_peak.

(* The density is largest at the slot nearest its mean and never negative. *)
Theorem C11_unimodal : forall mu sigma x y,
  (0 < sigma)%R -> (Rabs (x - mu) <= Rabs (y - mu))%R -> (pdf_R mu sigma y <= pdf_R mu sigma x)%R.
Proof. exact pdf_unimodal. Qed.
Print Assumptions C11_unimodal.

(* Weights: the loop of Calculator.For selects the weight with index
   (window number since the zero time) mod (number of weights). *)
Theorem C11_weight_index : forall abs repeat n,
  0 <= abs -> 0 < repeat -> (0 < n)%nat ->
  Z.of_nat (weight_loop (S n) (truncate_abs abs (repeat * Z.of_nat n)) (truncate_abs abs repeat) repeat O)
  = weight_index abs repeat (Z.of_nat n).
Proof. exact weight_index_loop. Qed.
Print Assumptions C11_weight_index.

Example C11_example :
  carry_run 10 0 [3; 4; 25; 9; 9] = ([0; 0; 3; 1; 1], 0) /\
  weight_index (3 * 86400 + 5) 86400 7 = 3.
Proof. vm_compute. split; reflexivity. Qed.

(* ---------------------------------------------------------------- discretisation error *)

(* The sum of (slot width * density at the slot's left end) over the n slots of a window differs
   from the probability mass of the window by at most one slot's worth of the peak density,
   wherever the peak lies, for every start, slot width and slot count. *)
Theorem C11_discretisation : forall mu sigma a h n,
  (0 < sigma)%R -> (0 <= h)%R ->
  (Rabs (RInt (pdf_R mu sigma) a (a + INR n * h) - lsum (pdf_R mu sigma) a h n) <= h * pdf_R mu sigma mu)%R.
Proof. exact gaussian_riemann. Qed.
Print Assumptions C11_discretisation.

(* With real arithmetic: the rates volume * (h * density) / mass, carried by the remainder loop
   from remainder 0, emit over one window a total within the discretisation error
   V * h * peak / mass above, and that plus less than one (still carried) request below, of the
   volume V (V is the configured volume times weight / mean weight when weights are given). No
   output is negative. *)
Theorem C11_volume : forall mu sigma a h V n os f,
  (0 < sigma)%R -> (0 <= h)%R -> (0 <= V)%R ->
  let mass := RInt (pdf_R mu sigma) a (a + INR n * h) in
  (0 < mass)%R ->
  rcarry 0%R (real_rates mu sigma a h V mass n) = (os, f) ->
  let disc := (V * (h * pdf_R mu sigma mu / mass))%R in
  (V - disc - 1 < IZR (zsum os) <= V + disc)%R /\ Forall (fun o => 0 <= o) os.
Proof. exact gaussian_volume. Qed.
Print Assumptions C11_volume.

(* ---------------------------------------------------------------- float carry *)

(* Calculator.For ends in fstep (for whatever rate it computed) ... *)
Theorem C11_for_is_fstep : forall c table rem now r o,
  g_for c table rem now = Some (r, o) -> exists x, (r, o) = fstep x rem.
Proof. exact g_for_fstep. Qed.
Print Assumptions C11_for_is_fstep.

(* ... and a run of fstep over finite rates in [0, 2^52] keeps the remainder in [0,1), emits no
   negative value, and loses nothing but the rounding of the additions:
   | sum out + final remainder - (sum rates + starting remainder) | <= sum (2^-53 (rate+1) + 2^-1075). *)
Theorem C11_float_carry : forall xs rem os f,
  Forall rate_ok xs -> is_finite rem = true -> (0 <= B2R rem < 1)%R ->
  frun rem xs = (os, f) ->
  is_finite f = true /\ (0 <= B2R f < 1)%R /\ Forall (fun o => 0 <= o) os /\ length os = length xs /\
  (Rabs (IZR (zsum os) + B2R f - (fsumR xs + B2R rem)) <= errb xs)%R.
Proof. exact frun_sum. Qed.
Print Assumptions C11_float_carry.

(* Each binary64 step emits the floor of its float rate or one more - rate + remainder is never
   rounded up to floor(rate)+2 (the gap to it exceeds half an ulp: both summands are floats below
   the next integer and below 1). Hence the property's own bound in the float layer: a tick whose
   float rate is not above the peak tick's requests at most one more than the peak tick. *)
Theorem C11_float_step : forall x rem,
  is_finite x = true -> is_finite rem = true ->
  (0 <= B2R x <= IZR (2 ^ 52))%R -> (0 <= B2R rem < 1)%R ->
  Zfloor (B2R x) <= snd (fstep x rem) <= Zfloor (B2R x) + 1.
Proof. exact fstep_upper. Qed.
Print Assumptions C11_float_step.

Theorem C11_peak_f64 : forall xk remk xp remp,
  is_finite xk = true -> is_finite remk = true -> is_finite xp = true -> is_finite remp = true ->
  (0 <= B2R xk <= IZR (2 ^ 52))%R -> (0 <= B2R xp <= IZR (2 ^ 52))%R ->
  (0 <= B2R remk < 1)%R -> (0 <= B2R remp < 1)%R ->
  (B2R xk <= B2R xp)%R ->
  snd (fstep xk remk) <= snd (fstep xp remp) + 1.
Proof. exact peak_f64_one. Qed.
Print Assumptions C11_peak_f64.

(* Composition: if the float rates are within a relative eps of the real rates of the window
   (the accuracy of math.Exp / math.Erfc and of the four multiplications and divisions around
   them), the total the binary64 loop emits is within
   1 + float carry error + eps * (sum of real rates) + discretisation error of the volume. *)
Theorem C11_volume_f64 : forall mu sigma a h V n xs os f eps,
  (0 < sigma)%R -> (0 <= h)%R -> (0 <= V)%R -> (0 <= eps)%R ->
  let mass := RInt (pdf_R mu sigma) a (a + INR n * h) in
  (0 < mass)%R ->
  Forall rate_ok xs ->
  Forall2 (fun x r => Rabs (B2R x - r) <= eps * r)%R xs (real_rates mu sigma a h V mass n) ->
  frun f_zero xs = (os, f) ->
  let disc := (V * (h * pdf_R mu sigma mu / mass))%R in
  (Rabs (IZR (zsum os) - V) <= 1 + errb xs + eps * (V + disc) + disc)%R.
Proof. exact gaussian_volume_f64. Qed.
Print Assumptions C11_volume_f64.

(* Non-vacuity: the float loop on the rates 0.3, 0.4, 2.5 emits 0, 0, 3 and carries on. *)
Example C11_float_carry_example :
  fst (frun f_zero (map f_of_bits [4599075939470750515; 4600877379321698714; 4612811918334230528])) = [0; 0; 3].
Proof. vm_compute. reflexivity. Qed.
