(* C11 — gaussian profile delivers the configured volume per window and
   peaks on time. Only property theorems; proofs in Proofs/GaussianProofs.v and
   Proofs/GaussianReal.v.

   Three layers. Exact layer (proved, all inputs): the remainder carry over
   exact rational rates a_k/D. Analysis layer (proved over the reals): the
   density is unimodal. Float layer (binary64 transcription g_for/gauss_run
   with exp/erfc values as oracles): compared bit-for-bit with the code;
   that it stays within n*2^-52*max(r) of the exact layer, and that the
   Riemann sum of the density equals the window's probability mass up to the
   discretisation error, are NOT proved (C11_*_partial where they would be
   needed): the harness measures both on every generated parameter set
   (predicate gauss_ok with a tolerance of one tick's worth of density at each
   window edge). *)
From F1 Require Import Base.Prelude Base.F64 Model.Gaussian Proofs.GaussianProofs Proofs.GaussianReal.
From Coq Require Import Reals.
Close Scope R_scope.
Open Scope Z_scope.

(* Fractional rates are carried, not lost: over any number of ticks, for any
   non-negative exact rates a_k/D and any starting remainder b/D,
   D * (sum of outputs) + final remainder = (sum of rates) + starting
   remainder, with 0 <= remainder < D; hence
   sum r - 1 < sum out <= sum r + rem_0. Outputs are never negative. *)
Theorem C11_carry : forall D rates b os bf,
  0 < D -> 0 <= b < D -> Forall (fun a => 0 <= a) rates ->
  carry_run D b rates = (os, bf) ->
  D * zsum os + bf = zsum rates + b /\ 0 <= bf < D /\
  Forall (fun o => 0 <= o) os /\ length os = length rates.
Proof. intros D rates b os bf HD. exact (carry_telescope D HD rates b os bf). Qed.
Print Assumptions C11_carry.

(* Each tick emits the floor of its exact rate, or one more. *)
Theorem C11_step : forall D rates b os bf,
  0 < D -> 0 <= b < D -> Forall (fun a => 0 <= a) rates ->
  carry_run D b rates = (os, bf) ->
  Forall2 (fun a o => a / D <= o <= a / D + 1) rates os.
Proof. intros D rates b os bf HD. exact (carry_run_bounds D HD rates b os bf). Qed.
Print Assumptions C11_step.

(* No tick requests more than one above the tick whose exact rate is largest
   (the tick nearest the peak, by C11_unimodal). *)
Theorem C11_peak : forall D rates b os bf p ap op,
  0 < D -> 0 <= b < D -> Forall (fun a => 0 <= a) rates ->
  carry_run D b rates = (os, bf) ->
  nth_error rates p = Some ap -> nth_error os p = Some op ->
  Forall (fun a => a <= ap) rates ->
  Forall (fun o => o <= op + 1) os.
Proof.
  intros D rates b os bf p ap op HD Hb Hr Hrun Hp Ho Hmax.
  pose proof (carry_run_bounds D HD rates b os bf Hb Hr Hrun) as F.
  exact (peak_bound D HD rates os p ap op F Hp Ho Hmax).
Qed.
Print Assumptions C11_peak.

(* The density is largest at the slot nearest its mean and never negative. *)
Theorem C11_unimodal : forall mu sigma x y,
  (0 < sigma)%R -> (Rabs (x - mu) <= Rabs (y - mu))%R -> (pdf_R mu sigma y <= pdf_R mu sigma x)%R.
Proof. exact pdf_unimodal. Qed.
Print Assumptions C11_unimodal.

(* Weights: the loop of Calculator.For selects the weight with index
   (window number since the zero time) mod (number of weights). *)
Theorem C11_weight_index : forall abs repeat n,
  0 <= abs -> 0 < repeat -> (0 < n)%nat ->
  Z.of_nat (weight_loop (S n) (truncate_abs abs (repeat * Z.of_nat n)) (truncate_abs abs repeat) repeat O)
  = weight_index abs repeat (Z.of_nat n).
Proof. exact weight_index_loop. Qed.
Print Assumptions C11_weight_index.

Example C11_example :
  carry_run 10 0 [3; 4; 25; 9; 9] = ([0; 0; 3; 1; 1], 0) /\
  weight_index (3 * 86400 + 5) 86400 7 = 3.
Proof. vm_compute. split; reflexivity. Qed.
