(* C09 — tick cadence: one rate evaluation immediately, then at most one per
   interval. Only property theorems; proofs in Proofs/TickerProofs.v.

   The Go ticker enters as a hypothesis about the times at which ticks are
   received (ticks_not_early): the j-th received tick arrives no earlier than
   j intervals after the first evaluation. That is runtime behaviour and is
   listed in the trusted base; the harness observes it one-sidedly. *)
From F1 Require Import Base.Prelude Model.Ticker Proofs.TickerProofs.

(* What the loop does: an evaluation at once, followed by its request; then,
   for every tick received before the context ends, one evaluation followed
   by one request carrying exactly the evaluated value; nothing afterwards. *)
Theorem C09_loop : forall vals t0 evs,
  exists ts,
    worker_actions vals t0 evs =
    AEval t0 (vals O) :: ARequest (vals O) ::
    flat_map (fun p => [AEval (fst p) (vals (snd p)); ARequest (vals (snd p))]) (combine ts (seq 1 (length ts))).
Proof.
  intros vals t0 evs. destruct (loop_alternates vals evs 1) as [ts H]. exists ts.
  unfold worker_actions. rewrite H. reflexivity.
Qed.
Print Assumptions C09_loop.

Theorem C09_unchanged : forall vals t0 evs,
  requests (worker_actions vals t0 evs) = eval_values (worker_actions vals t0 evs).
Proof.
  intros. unfold worker_actions. cbn [requests eval_values flat_map app]. f_equal. apply loop_requests_eq_values.
Qed.
Print Assumptions C09_unchanged.

Theorem C09_nothing_after_done : forall vals t0 pre post,
  worker_actions vals t0 (pre ++ CtxDone :: post) = worker_actions vals t0 (pre ++ [CtxDone]).
Proof. intros. unfold worker_actions. rewrite nothing_after_done. reflexivity. Qed.
Print Assumptions C09_nothing_after_done.

(* By elapsed time e since the first evaluation the loop has made at most
   1 + floor(e / interval) evaluations, whatever the scheduling delays. *)
Theorem C09_cadence : forall vals t0 interval e evs,
  0 < interval -> 0 <= e -> ticks_not_early t0 interval 1 evs ->
  count_le (t0 + e) (eval_times (worker_actions vals t0 evs)) <= 1 + e / interval.
Proof.
  intros vals t0 interval e evs Hi He Hn.
  unfold worker_actions. cbn [eval_times flat_map app]. unfold count_le. cbn [zcount].
  fold (eval_times (loop_actions vals 1 evs)).
  pose proof (loop_count vals interval t0 e Hi evs 1%nat 1 Hn ltac:(lia)) as H. unfold count_le in H.
  assert (0 <= e / interval) by (apply Z.div_pos; lia).
  destruct (t0 <=? t0 + e); lia.
Qed.
Print Assumptions C09_cadence.

(* A stage (of a config file, or any trigger that stops dur after its first evaluation) of constant
   value k requests at most k (1 + dur / interval) iterations: the count bound the harness applies
   to the iterations tagged with the stage's parameter (predicate stage_count_ok). *)
Theorem C09_stage_bound : forall k t0 interval dur evs got slack,
  0 < interval -> 0 <= dur -> 0 <= k -> 0 <= slack -> ticks_not_early t0 interval 1 evs ->
  Forall (fun t => t <= t0 + dur) (eval_times (worker_actions (fun _ => k) t0 evs)) ->
  got <= zsum (requests (worker_actions (fun _ => k) t0 evs)) + slack ->
  zsum (requests (worker_actions (fun _ => k) t0 evs)) <= k * (1 + dur / interval) /\
  stage_count_ok k interval dur got slack = true.
Proof.
  intros k t0 interval dur evs got slack Hi Hd Hk Hs Hn Hall Hg. split.
  - exact (stage_bound k t0 interval dur evs Hi Hd Hk Hn Hall).
  - exact (stage_count_sound k t0 interval dur evs got slack Hi Hd Hk Hs Hn Hall Hg).
Qed.
Print Assumptions C09_stage_bound.

Example C09_stage_bound_example :
  ticks_not_early 0 400 1 [TickDelivered 410; CtxDone] /\
  Forall (fun t => t <= 0 + 680) (eval_times (worker_actions (fun _ => 3) 0 [TickDelivered 410; CtxDone])) /\
  stage_count_ok 3 400 680 6 0 = true /\ stage_count_ok 3 400 680 9 1 = false.
Proof. cbn. repeat split; try lia; repeat constructor; lia. Qed.

Example C09_example :
  worker_actions (fun k => Z.of_nat k * 10) 1000 [TickDelivered 1100; TickDelivered 1210; CtxDone; TickDelivered 1300]
  = [AEval 1000 0; ARequest 0; AEval 1100 10; ARequest 10; AEval 1210 20; ARequest 20].
Proof. reflexivity. Qed.
