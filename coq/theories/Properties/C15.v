(* C15 — config-file plans keep exactly the unfinished stages, in order,
   defaults applied. Only property theorems; proofs in Proofs/ParseProofs.v.
   (The run-time half — stages execute one after another, parameters in the
   environment while a stage triggers and unset afterwards — is observed on
   real file-triggered runs by the harness; see the evidence.) *)
From Coq Require Import String.
From F1 Require Import Base.Prelude Base.F64 Base.GoStr Base.GoTime Model.Distribution Model.RateParse Model.ConfigFile
     Proofs.ParseProofs.

(* For every accepted config: with d_i the (default-resolved) duration of
   stage i and cum_i = d_1 + ... + d_i, the plan holds, in file order, exactly
   the stages with stage-start + cum_i after now (all of them when no
   stage-start is given); its total duration is the sum of ALL stage
   durations; the limits are mapped one-to-one. *)
Theorem C15_kept : forall c now p,
  parse_config c now = Ok p ->
  exists durs,
    Forall2 (fun s dur => fld sc_duration s (c_default c) = Some dur) (c_stages c) durs /\
    map rs_duration (p_stages p) = kept_durs (c_stage_start c) now 0 durs /\
    p_total p = zsum durs /\
    (c_stage_start c = None -> map rs_duration (p_stages p) = durs) /\
    l_max_duration (c_limits c) = Some (p_max_duration p) /\
    l_concurrency (c_limits c) = Some (p_concurrency p) /\
    l_max_iterations (c_limits c) = Some (p_max_iterations p) /\
    l_ignore_dropped (c_limits c) = Some (p_ignore_dropped p) /\
    p_max_failures p = match l_max_failures (c_limits c) with Some v => v | None => 0 end /\
    p_max_failures_rate p = match l_max_failures_rate (c_limits c) with Some v => v | None => 0 end /\
    c_scenario c = Some (p_scenario p).
Proof.
  intros c now p H. unfold parse_config in H.
  destruct (c_scenario c) as [scen|]; cbn [need] in H; [|discriminate].
  destruct (l_max_duration (c_limits c)) as [maxd|]; cbn [need] in H; [|discriminate].
  destruct (l_concurrency (c_limits c)) as [conc|]; cbn [need] in H; [|discriminate].
  destruct (conc <? 1) eqn:Ec; [discriminate|].
  destruct (l_max_iterations (c_limits c)) as [maxi|]; cbn [need] in H; [|discriminate].
  destruct (l_ignore_dropped (c_limits c)) as [ign|]; cbn [need] in H; [|discriminate].
  destruct (c_stages c) as [|s0 l0] eqn:Es; [discriminate|].
  destruct (parse_stages_loop _ _ _ _ _) as [[stages total]| |] eqn:El; cbn [res_bind] in H; try discriminate.
  injection H as <-. cbn.
  destruct (loop_spec _ _ _ _ _ _ _ El) as (durs & F & T & M & R).
  exists durs.
  split; [exact F|].
  split; [exact M|].
  split; [lia|].
  split; [intros Hn; rewrite M, Hn; apply kept_all|].
  repeat split; reflexivity.
Qed.
Print Assumptions C15_kept.

(* Every field a stage omits is taken from the default section: a stage is
   parsed from the field-wise merge of its own section and the defaults. *)
Theorem C15_defaults : forall s d dur mode,
  parse_stage s d dur mode = parse_stage (merge s d) empty_stage dur mode.
Proof. exact parse_stage_defaults. Qed.
Print Assumptions C15_defaults.

(* ... and a field the stage does give wins over the default, also when its value is the zero
   value: the jitter in force for a rate stage is the stage's own whenever it has one (0 included),
   otherwise the default section's, otherwise 0. *)
Theorem C15_stage_jitter_wins : forall s d dur mode rs,
  parse_stage s d dur mode = Ok rs -> rs_users rs = 0 ->
  rs_jitter rs = match sc_jitter s with
                 | Some j => j
                 | None => match sc_jitter d with Some j => j | None => 0 end
                 end.
Proof. exact parse_stage_jitter. Qed.
Print Assumptions C15_stage_jitter_wins.

(* When durations are non-negative the kept stages are a suffix of the file's
   stages: once a stage is kept, all later ones are. *)
Theorem C15_suffix : forall start now durs cum,
  Forall (fun d => 0 <= d) durs ->
  exists k, kept_durs start now cum durs = skipn k durs.
Proof.
  intros start now. induction durs as [|d r IH]; intros cum Hn; [exists 0%nat; reflexivity|].
  inversion Hn as [|? ? Hd Hr]; subst. cbn [kept_durs].
  destruct start as [t0|].
  - destruct (now <? t0 + (cum + d)) eqn:E.
    + (* kept: everything after is kept too *)
      exists 0%nat. cbn [skipn app]. f_equal.
      clear IH Hn. revert cum E. induction r as [|x r IHr]; intros cum E; [reflexivity|].
      inversion Hr as [|? ? Hx Hr']; subst. cbn [kept_durs].
      replace (now <? t0 + (cum + d + x)) with true by lia. cbn [app]. f_equal.
      replace (cum + d + x) with ((cum + x) + d) by lia. apply (IHr Hr'). lia.
    + destruct (IH (cum + d) Hr) as [k Hk]. exists (S k). cbn [app skipn]. exact Hk.
  - exists 0%nat. cbn [app skipn]. f_equal. apply kept_all.
Qed.
Print Assumptions C15_suffix.

Example C15_example :
  kept_durs (Some 1000) 1070 0 [30; 40; 50; 0; 10] = [50; 0; 10] /\
  kept_durs None 1070 0 [30; 40; 50] = [30; 40; 50].
Proof. vm_compute. split; reflexivity. Qed.
