(* C12 — distributing a rate over 100 ms sub-ticks neither creates nor loses
   iterations. Only the property theorems; proofs are in Proofs/. *)
From F1 Require Import Base.Prelude Base.F64 Model.Distribution Proofs.DistributionProofs.

(* Regular distribution: for every cycle length n >= 1, every non-negative
   (time-varying) rate oracle and any number k of consecutive cycles: the
   underlying rate was evaluated exactly k times, and the j-th cycle of n
   outputs sums exactly to the j-th rate, is non-negative and even. *)
Theorem C12_regular : forall (n : nat) (rate : nat -> Z) (k : nat),
  (0 < n)%nat -> (forall i, 0 <= rate i) ->
  forall st os, reg_run (Z.of_nat n) rate reg_init (k * n) = (st, os) ->
  r_evals st = k /\ length os = (k * n)%nat /\
  forall j, (j < k)%nat ->
    let c := firstn n (skipn (j * n) os) in
    zsum c = rate j /\ length c = n /\
    (forall x, In x c -> 0 <= x) /\
    (forall x y, In x c -> In y c -> x - y <= 1).
Proof.
  intros n rate k Hn Hr st os Hrun.
  destruct (reg_cycles n Hn rate Hr k reg_init eq_refl st os Hrun) as (_ & B & C & D).
  split; [exact B|]. split; [exact C|].
  intros j Hj. destruct (D j Hj) as (D1 & D2 & D3). cbn [r_evals reg_init Nat.add] in *.
  split; [exact D1|]. split; [exact D3|]. split.
  - intros x Hx. rewrite Forall_forall in D2. destruct (D2 x Hx) as [L _].
    assert (0 <= rate j / Z.of_nat n) by (apply Z.div_pos; [apply Hr|lia]). lia.
  - intros x y. exact (band_even (Z.of_nat n) (rate j) _ x y D2).
Qed.
Print Assumptions C12_regular.

(* Random distribution: the same for every random source with non-negative
   outputs, in or beyond the [0,n) range; evenness is not claimed. The run
   never crashes. *)
Theorem C12_random : forall (n : nat) (rate rand : nat -> Z) (k : nat),
  (0 < n)%nat -> (forall i, 0 <= rate i) -> (forall i, 0 <= rand i) ->
  exists st os, rnd_run (Z.of_nat n) rate rand rnd_init (k * n) = Ok (st, os) /\
  d_evals st = k /\ length os = (k * n)%nat /\
  forall j, (j < k)%nat ->
    let c := firstn n (skipn (j * n) os) in
    zsum c = rate j /\ length c = n /\ (forall x, In x c -> 0 <= x).
Proof.
  intros n rate rand k Hn Hr Hd.
  destruct (rnd_cycles n Hn rate Hr rand Hd k rnd_init eq_refl) as (st & os & Hrun & _ & B & C & D).
  exists st, os. split; [exact Hrun|]. split; [exact B|]. split; [exact C|].
  intros j Hj. destruct (D j Hj) as (D1 & D2 & D3). cbn [d_evals rnd_init Nat.add] in *.
  split; [exact D1|]. split; [exact D3|].
  intros x Hx. rewrite Forall_forall in D2. exact (D2 x Hx).
Qed.
Print Assumptions C12_random.

(* Intervals of 100 ms or less, and distribution none, pass through
   unchanged: same interval, the underlying rate's values, one evaluation per
   call. *)
Theorem C12_passthrough : forall k interval rates rands calls,
  k = DNone \/ (k <> DUnknown /\ interval <= ms100) ->
  dist_run k interval rates rands calls =
  Ok (interval, map (oracle rates) (seq 0 calls), Z.of_nat calls).
Proof.
  intros k interval rates rands calls H.
  apply pass_identity. apply pass_through. exact H.
Qed.
Print Assumptions C12_passthrough.

(* Above 100 ms the sub-tick interval is 100 ms and the cycle length is
   N = floor(interval_ms / 100) >= 1, so the two theorems above apply. *)
Theorem C12_cycle_length : forall interval,
  ms100 < interval ->
  new_distribution DRegular interval = Ok (ms100, Regular (tick_steps interval)) /\
  new_distribution DRandom interval = Ok (ms100, Random (tick_steps interval)) /\
  1 <= tick_steps interval.
Proof.
  intros interval H. unfold new_distribution.
  destruct (Z.leb_spec interval ms100); [lia|].
  repeat split. apply steps_positive. exact H.
Qed.
Print Assumptions C12_cycle_length.

(* Non-vacuity: the golden row "7 per 900 ms" and a variable-rate sequence. *)
Example C12_golden :
  dist_run DRegular (900 * 1000000) [7] [] 9 = Ok (ms100, [0;1;1;1;0;1;1;1;1], 1) /\
  dist_run DRegular (1000 * 1000000) [5;15] [] 20 =
    Ok (ms100, [0;1;0;1;0;1;0;1;0;1; 1;2;1;2;1;2;1;2;1;2], 2) /\
  dist_run DRandom (1000 * 1000000) [28] [0;1;0;0;1;0;0;0;7] 10 =
    Ok (ms100, [0;1;0;0;1;0;0;0;7;19], 1).
Proof. vm_compute. repeat split. Qed.
