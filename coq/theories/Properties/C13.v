(* C13 — jitter varies each tick but preserves the long-run total.
   Only the property theorems; proofs are in Proofs/JitterProofs.v.

   The theorems are stated on the exact layer: a run is any pair of lists
   (rates, outs) of equal length such that every step is admissible
   (run_ok: the emitted value r is within jitter percent of rate+balance, up
   to one unit of slack that covers the final rounding to an integer, 1/2,
   plus binary64 rounding of the product; and r = 0 when rate+balance < 0).
   They hold for EVERY admissible run, hence for every outcome of the random
   variation. That the binary64 implementation only produces admissible runs
   with exactly-carried balances is not proved in Coq (it is a statement about
   float rounding, hence C13_*_partial); it is checked on every step of the
   implementation's own outputs by the extracted predicate jit_ok, and the
   binary64 transcription jit_run_f64 is compared bit-for-bit. *)
From F1 Require Import Base.Prelude Base.F64 Model.Jitter Proofs.JitterProofs.

(* Zero jitter is the identity. *)
Theorem C13_identity : forall rates cs, jit_run_f64 0 rates cs = rates.
Proof. exact identity_zero. Qed.
Print Assumptions C13_identity.

(* The unapplied remainder is carried: after any number of ticks,
   (sum of rates) - (sum of outputs) is exactly the current balance. *)
Theorem C13_telescope_partial : forall jn jd rates outs,
  run_ok jn jd 0 rates outs ->
  final_bal 0 rates outs = zsum rates - zsum outs /\
  forall k b, nth_error (balances 0 rates outs) k = Some b ->
              b = zsum (firstn (S k) rates) - zsum (firstn (S k) outs).
Proof.
  intros jn jd rates outs H. pose proof (run_ok_length _ _ _ _ _ H) as Hl. split.
  - rewrite telescope by exact Hl. lia.
  - intros k b Hk. rewrite (balances_are_differences rates outs 0 k b Hl Hk). lia.
Qed.
Print Assumptions C13_telescope_partial.

(* For jitter below 100 % (jn < jd) and rates within [0, R] the running
   difference between requested and emitted totals stays within the fixed
   bound (jn*R + jd)/(jd - jn) for ever. *)
Theorem C13_bounded_partial : forall jn jd R rates outs,
  0 <= jn < jd -> Forall (fun x => 0 <= x <= R) rates ->
  run_ok jn jd 0 rates outs ->
  forall k, (k < length rates)%nat ->
    (jd - jn) * Z.abs (zsum (firstn (S k) rates) - zsum (firstn (S k) outs)) <= jn * R + jd.
Proof.
  intros jn jd R rates outs Hj HR Hok k Hk.
  pose proof (run_ok_length _ _ _ _ _ Hok) as Hl.
  assert (HR0 : 0 <= R).
  { destruct rates as [|x rs]; [cbn in Hk; lia|]. inversion HR; subst. lia. }
  assert (Hb0 : (jd - jn) * Z.abs 0 <= jn * R + jd) by (cbn; nia).
  pose proof (run_bounded rates outs jn jd R 0 Hj HR Hok Hb0) as Hb.
  assert (Hlen : length (balances 0 rates outs) = length rates).
  { clear -Hl. generalize 0 at 1. revert outs Hl.
    induction rates as [|x rates IH]; intros [|r outs] Hl b; cbn in Hl; try discriminate; [reflexivity|].
    cbn. f_equal. apply IH. lia. }
  destruct (nth_error (balances 0 rates outs) k) as [b|] eqn:E.
  - rewrite Forall_forall in Hb. pose proof (Hb b (nth_error_In _ _ E)) as Hbb.
    rewrite (balances_are_differences rates outs 0 k b Hl E) in Hbb.
    replace (0 + zsum (firstn (S k) rates) - zsum (firstn (S k) outs))
      with (zsum (firstn (S k) rates) - zsum (firstn (S k) outs)) in Hbb by lia.
    exact Hbb.
  - apply nth_error_None in E. lia.
Qed.
Print Assumptions C13_bounded_partial.

(* Outputs are non-negative integers. *)
Theorem C13_nonneg_partial : forall jn jd rates outs,
  run_ok jn jd 0 rates outs -> Forall (fun o => 0 <= o) outs.
Proof. intros jn jd rates outs H. exact (run_ok_nonneg _ _ _ _ _ H). Qed.
Print Assumptions C13_nonneg_partial.

(* The executable check used on the implementation's outputs decides run_ok. *)
Theorem C13_checker_sound : forall jn jd rates outs,
  run_ok_b jn jd 0 rates outs = true <-> run_ok jn jd 0 rates outs.
Proof. intros. apply run_ok_b_iff. Qed.
Print Assumptions C13_checker_sound.

(* Non-vacuity: the binary64 model on a real sequence (20 % jitter, cos
   factors 1, -1, 0.5) yields an admissible run. *)
Example C13_example :
  let outs := jit_run_f64 4626322717216342016 [100; 100; 100]
                [4607182418800017408; 13830554455654793216; 4602678819172646912] in
  outs = [120; 64; 128] /\ jit_ok 4626322717216342016 [100; 100; 100] outs = true.
Proof. vm_compute. split; reflexivity. Qed.
