(* C13 — jitter preserves the long-run total.
   Only the property theorems; proofs in Proofs/JitterProofs.v (exact layer)
   and Proofs/JitterF64.v (the binary64 code produces admissible runs).

   The exact layer is the recurrence of WithJitter over the integers with the
   emitted value as an oracle constrained by jitter_step_ok; its theorems hold
   for EVERY admissible run, hence for every outcome of the random variation.
   C13_f64_admissible proves from Flocq's correct-rounding theorems that the
   binary64 transcription jit_run_f64 (compared bit for bit with the
   implementation) only produces admissible runs, with the balance carried
   exactly, for every finite variation factor in [-1, 1], every jitter
   percentage that is a positive normal float below 100, and magnitudes below
   2^49; C13_f64_total composes the two. The extracted predicate jit_ok is
   additionally evaluated on every run of the implementation. *)
From Coq Require Import Reals.
From Flocq Require Import Core IEEE754.BinarySingleNaN.
From F1 Require Import Base.Prelude Base.F64 Model.Jitter Proofs.JitterProofs Proofs.JitterF64 Proofs.JitterCompose.
Local Open Scope Z_scope.

(* Zero jitter is the identity. *)
Theorem C13_identity : forall rates cs, jit_run_f64 0 rates cs = rates.
Proof. exact identity_zero. Qed.
Print Assumptions C13_identity.

(* The unapplied remainder is carried: after any number of ticks,
   (sum of rates) - (sum of outputs) is exactly the current balance. *)
Theorem C13_telescope : forall jn jd rates outs,
  run_ok jn jd 0 rates outs ->
  final_bal 0 rates outs = zsum rates - zsum outs /\
  forall k b, nth_error (balances 0 rates outs) k = Some b ->
              b = zsum (firstn (S k) rates) - zsum (firstn (S k) outs).
Proof.
  intros jn jd rates outs H. pose proof (run_ok_length _ _ _ _ _ H) as Hl. split.
  - rewrite telescope by exact Hl. lia.
  - intros k b Hk. rewrite (balances_are_differences rates outs 0 k b Hl Hk). lia.
Qed.
Print Assumptions C13_telescope.

(* For jitter below 100 % (jn < jd) and rates within [0, R] the running
   difference between requested and emitted totals stays within the fixed
   bound (jn*R + jd)/(jd - jn) for ever. *)
Theorem C13_bounded : forall jn jd R rates outs,
  0 <= jn < jd -> Forall (fun x => 0 <= x <= R) rates ->
  run_ok jn jd 0 rates outs ->
  forall k, (k < length rates)%nat ->
    (jd - jn) * Z.abs (zsum (firstn (S k) rates) - zsum (firstn (S k) outs)) <= jn * R + jd.
Proof.
  intros jn jd R rates outs Hj HR Hok k Hk.
  pose proof (run_ok_length _ _ _ _ _ Hok) as Hl.
  assert (HR0 : 0 <= R).
  { destruct rates as [|x rs]; [cbn in Hk; lia|]. inversion HR; subst. lia. }
  assert (Hb0 : (jd - jn) * Z.abs 0 <= jn * R + jd) by (cbn; nia).
  pose proof (run_bounded rates outs jn jd R 0 Hj HR Hok Hb0) as Hb.
  assert (Hlen : length (balances 0 rates outs) = length rates).
  { clear -Hl. generalize 0 at 1. revert outs Hl.
    induction rates as [|x rates IH]; intros [|r outs] Hl b; cbn in Hl; try discriminate; [reflexivity|].
    cbn. f_equal. apply IH. lia. }
  destruct (nth_error (balances 0 rates outs) k) as [b|] eqn:E.
  - rewrite Forall_forall in Hb. pose proof (Hb b (nth_error_In _ _ E)) as Hbb.
    rewrite (balances_are_differences rates outs 0 k b Hl E) in Hbb.
    replace (0 + zsum (firstn (S k) rates) - zsum (firstn (S k) outs))
      with (zsum (firstn (S k) rates) - zsum (firstn (S k) outs)) in Hbb by lia.
    exact Hbb.
  - apply nth_error_None in E. lia.
Qed.
Print Assumptions C13_bounded.

(* Outputs are non-negative integers. *)
Theorem C13_nonneg : forall jn jd rates outs,
  run_ok jn jd 0 rates outs -> Forall (fun o => 0 <= o) outs.
Proof. intros jn jd rates outs H. exact (run_ok_nonneg _ _ _ _ _ H). Qed.
Print Assumptions C13_nonneg.

(* The binary64 code only produces admissible runs (and carries the balance exactly). *)
Theorem C13_f64_admissible : forall mult_bits rates cos_bits R,
  0 <= mult_bits < 2 ^ 63 -> 1 <= (mult_bits / 2 ^ 52) mod 2 ^ 11 <= 2046 ->
  (B2R (f_of_bits mult_bits) < 100)%R ->
  Forall (fun x => 0 <= x <= R) rates ->
  Forall cos_ok (map f_of_bits cos_bits) -> length cos_bits = length rates ->
  let '(jn, jd) := frac_of_bits mult_bits in
  jn * R + jd <= (jd - jn) * (2 ^ 49 - R) ->
  run_ok jn jd 0 rates (jit_run_f64 mult_bits rates cos_bits).
Proof.
  intros mult_bits rates cos_bits R Hb He Hlt HR Hcs Hlen.
  pose proof (frac_of_bits_R mult_bits Hb He) as Hf.
  destruct (frac_of_bits mult_bits) as [jn jd]. destruct Hf as (Hjd & Fm & Hpos & Hfrac).
  intros Hbound.
  apply (run_f64_admissible mult_bits rates cos_bits jn jd R); try assumption. split; assumption.
Qed.
Print Assumptions C13_f64_admissible.

(* Composition: for the binary64 code itself, the running difference between requested and
   emitted totals stays within the fixed bound for ever, the outputs are non-negative, and the
   difference after k ticks is exactly the carried balance. *)
Theorem C13_f64_total : forall mult_bits rates cos_bits R,
  0 <= mult_bits < 2 ^ 63 -> 1 <= (mult_bits / 2 ^ 52) mod 2 ^ 11 <= 2046 ->
  (B2R (f_of_bits mult_bits) < 100)%R ->
  Forall (fun x => 0 <= x <= R) rates ->
  Forall cos_ok (map f_of_bits cos_bits) -> length cos_bits = length rates ->
  let '(jn, jd) := frac_of_bits mult_bits in
  jn * R + jd <= (jd - jn) * (2 ^ 49 - R) ->
  let outs := jit_run_f64 mult_bits rates cos_bits in
  Forall (fun o => 0 <= o) outs /\
  forall k, (k < length rates)%nat ->
    (jd - jn) * Z.abs (zsum (firstn (S k) rates) - zsum (firstn (S k) outs)) <= jn * R + jd.
Proof.
  intros mult_bits rates cos_bits R Hb He Hlt HR Hcs Hlen.
  pose proof (C13_f64_admissible mult_bits rates cos_bits R Hb He Hlt HR Hcs Hlen) as Ha.
  pose proof (frac_of_bits_R mult_bits Hb He) as Hf.
  destruct (frac_of_bits mult_bits) as [jn jd]. destruct Hf as (Hjd & Fm & Hpos & Hfrac).
  intros Hbound outs. specialize (Ha Hbound). fold outs in Ha.
  assert (Hj : 0 <= jn < jd).
  { assert (Hjd0 : (0 < IZR jd)%R) by (apply IZR_lt; exact Hjd). split.
    - apply le_IZR. rewrite Hfrac. apply Rmult_le_pos; [|apply Rlt_le; exact Hjd0].
      apply Rmult_le_pos; [apply Rlt_le; exact Hpos|]. apply Rlt_le, Rinv_0_lt_compat. apply IZR_lt. reflexivity.
    - apply lt_IZR. rewrite Hfrac. rewrite <- (Rmult_1_l (IZR jd)) at 2.
      apply Rmult_lt_compat_r; [exact Hjd0|].
      apply Rmult_lt_reg_r with 100%R; [apply IZR_lt; reflexivity|].
      unfold Rdiv. rewrite Rmult_assoc, Rinv_l, Rmult_1_r, Rmult_1_l; [exact Hlt|].
      apply Rgt_not_eq, IZR_lt. reflexivity. }
  split.
  - exact (C13_nonneg jn jd rates outs Ha).
  - exact (C13_bounded jn jd R rates outs Hj HR Ha).
Qed.
Print Assumptions C13_f64_total.

(* The hypotheses are satisfiable: 20 % jitter (bits of 20.0) is the fraction 1/5, a positive
   normal float, and rates up to 100000 per tick are far inside the magnitude condition. *)
Example C13_f64_hypotheses :
  let b := 4626322717216342016 in
  0 <= b < 2 ^ 63 /\ 1 <= (b / 2 ^ 52) mod 2 ^ 11 <= 2046 /\
  let '(jn, jd) := frac_of_bits b in
  jn * 5 = jd /\ jn * 100000 + jd <= (jd - jn) * (2 ^ 49 - 100000).
Proof. vm_compute. repeat split; discriminate. Qed.

(* The executable check used on the implementation's outputs decides run_ok. *)
Theorem C13_checker_sound : forall jn jd rates outs,
  run_ok_b jn jd 0 rates outs = true <-> run_ok jn jd 0 rates outs.
Proof. intros. apply run_ok_b_iff. Qed.
Print Assumptions C13_checker_sound.

(* Non-vacuity: the binary64 model on a real sequence (20 % jitter, cos
   factors 1, -1, 0.5) yields an admissible run. *)
Example C13_example :
  let outs := jit_run_f64 4626322717216342016 [100; 100; 100]
                [4607182418800017408; 13830554455654793216; 4602678819172646912] in
  outs = [120; 64; 128] /\ jit_ok 4626322717216342016 [100; 100; 100] outs = true.
Proof. vm_compute. split; reflexivity. Qed.

(* The bound the harness checks on the composed trigger (composed_bound_ok) is met whenever the
   difference at the end of the previous period obeys C13_bounded's bound, the current period has
   emitted at most its own value on either side, and that value is at most (R + B)(1 + j) + 1 on the
   jittered side (rate plus carried balance, varied by at most the jitter, rounded): *)
Theorem C13_composed_bound : forall jn jd R dprev part_j part_p out,
  0 <= jn < jd -> 0 <= R ->
  (jd - jn) * Z.abs dprev <= jn * R + jd ->          (* C13_bounded at the end of the previous period *)
  0 <= part_p <= R -> 0 <= part_j <= out ->          (* what the current period has emitted so far *)
  (jd - jn) * jd * out <= (jd - jn) * R * (jd + jn) + (jd + jn) * (jn * R + jd) + jd * (jd - jn) ->
  composed_bound_ok jn jd R (Z.abs (dprev + part_p - part_j)) = true.
Proof. exact composed_bound. Qed.
Print Assumptions C13_composed_bound.

(* ... and the last premise is what every admissible jitter step gives when the carried balance
   obeys C13_bounded's bound and the rate is at most R: *)
Theorem C13_step_upper : forall jn jd R bal rate r,
  0 <= jn < jd -> 0 <= rate <= R ->
  (jd - jn) * Z.abs bal <= jn * R + jd ->
  jitter_step_ok jn jd bal rate r ->
  (jd - jn) * jd * r <= (jd - jn) * R * (jd + jn) + (jd + jn) * (jn * R + jd) + jd * (jd - jn).
Proof. exact step_upper. Qed.
Print Assumptions C13_step_upper.

(* Put together over a whole history: for every run of the jitter (any rates within [0, R], any
   admissible outcome of the random variation), whatever non-negative parts each period's value -
   jittered or not - is spread into, the two running totals differ at every sub-tick of every
   period by at most the bound of composed_bound_ok. *)
Theorem C13_composed_history : forall rates outs sp sj jn jd R,
  0 <= jn < jd -> Forall (fun x => 0 <= x <= R) rates ->
  run_ok jn jd 0 rates outs ->
  Forall2 spread_ok rates sp -> Forall2 spread_ok outs sj ->
  composed_ok jn jd R 0 rates outs sp sj.
Proof.
  intros rates outs sp sj jn jd R Hj HR Hok Fp Fj.
  destruct rates as [|x rs].
  - destruct outs; cbn in Hok; [|tauto]. inversion Fp; subst. inversion Fj; subst. exact I.
  - apply composed_history; try assumption.
    apply Forall_cons_iff in HR. destruct HR as [Hx _].
    change (Z.abs 0) with 0. rewrite Z.mul_0_r.
    assert (0 <= jn * R) by (apply Z.mul_nonneg_nonneg; lia). lia.
Qed.
Print Assumptions C13_composed_history.
