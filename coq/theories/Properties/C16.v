(* C16 — exported metrics mirror the run and carry the right labels.
   Only property theorems; proofs in Proofs/MetricsProofs.v. *)
From Coq Require Import String.
From F1 Require Import Base.Prelude Base.GoStr Model.Metrics Proofs.MetricsProofs.
From Coq Require Import Sorting.Permutation.

(* Static labels: for every label map (any keys, any insertion order) the
   label names and label values of every series pair each key with its own
   value. *)
Theorem C16_pairing : forall m : labelmap, NoDup (map fst m) ->
  Permutation (combine (label_keys m) (label_values m)) m /\
  length (label_keys m) = length (label_values m).
Proof. intros m H. split; [apply pairing; exact H|apply keys_values_length]. Qed.
Print Assumptions C16_pairing.

(* Every iteration series carries the scenario name, stage "iteration", the
   result label and the static label values, under the matching names. *)
Theorem C16_series_labels : forall labels name o,
  combine (iter_label_names labels) (iter_key labels name o) =
  (l_test, name) :: (l_stage, v_iteration) :: (l_result, result_label o) ::
  combine (label_keys labels) (label_values labels).
Proof. reflexivity. Qed.
Print Assumptions C16_series_labels.

(* After any number of earlier runs on the same instance, the state after a
   run is the state that run alone produces (no mixing) ... *)
Theorem C16_no_mixing : forall labels enabled rs name sf outs,
  all_runs labels enabled (rs ++ [(name, sf, outs)]) =
  all_runs labels enabled [(name, sf, outs)].
Proof. intros. rewrite all_runs_last. reflexivity. Qed.
Print Assumptions C16_no_mixing.

(* ... in which the iteration metric holds, per result label, exactly as many
   samples as outcomes of that kind were recorded, and the setup metric holds
   exactly one sample, labelled with the setup outcome. *)
Theorem C16_counts : forall labels rs name outs o,
  let s := all_runs labels true (rs ++ [(name, false, outs)]) in
  count_of (m_iter s) (iter_key labels name o) = zcount (mout_eqb o) outs /\
  m_setup s = [(name :: v_success :: label_values labels, 1)].
Proof.
  intros labels rs name outs o s. subst s. rewrite all_runs_last.
  unfold one_run, m_reset.
  destruct (fold_iter_counts labels outs
              (rec_setup labels {| m_setup := []; m_iter := [] |} name false) name o) as [A B].
  rewrite A, B. cbn [rec_setup m_iter m_setup observe count_of find]. split; [lia|reflexivity].
Qed.
Print Assumptions C16_counts.

Theorem C16_setup_failure : forall labels enabled rs name outs,
  let s := all_runs labels enabled (rs ++ [(name, true, outs)]) in
  m_iter s = [] /\ m_setup s = [(name :: v_fail :: label_values labels, 1)].
Proof. intros. subst s. rewrite all_runs_last. split; reflexivity. Qed.
Print Assumptions C16_setup_failure.

Theorem C16_disabled : forall labels rs name outs,
  m_iter (all_runs labels false (rs ++ [(name, false, outs)])) = [].
Proof.
  intros. rewrite all_runs_last. unfold one_run. rewrite fold_iter_disabled. reflexivity.
Qed.
Print Assumptions C16_disabled.

Example C16_example :
  let m := [(s_of "zone"%string, s_of "eu"%string); (s_of "app"%string, s_of "zone"%string); (s_of "b"%string, s_of "app"%string)] in
  label_keys m = [s_of "app"%string; s_of "b"%string; s_of "zone"%string] /\
  label_values m = [s_of "zone"%string; s_of "app"%string; s_of "eu"%string].
Proof. vm_compute. split; reflexivity. Qed.
