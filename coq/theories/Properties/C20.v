(* C20 — combined scenarios run every component, in order, in setup and in
   each iteration. Only property theorems; proofs in Proofs/TestingTProofs.v.

   CombineScenarios runs the components' setup functions one after the other
   on the same handle and returns an iteration function that runs the
   components' iteration functions one after the other on the iteration's
   handle: in the model the combined bodies are the concatenations
   (combined_setup, combined_run), executed by the very run_acts/iteration of
   C06/C07 — one handle by construction. *)
From F1 Require Import Base.Prelude Model.TestingT Proofs.TestingTProofs.

(* If no component stops (FailNow / panic), every component's events appear,
   each once, in the given order — in setup and in every iteration. A plain
   Fail does not stop the later components. *)
Theorem C20_all_in_order : forall (bodies : list (list act)),
  forallb (fun b => negb (stops b)) bodies = true ->
  marks (concat bodies) = concat (map marks bodies).
Proof. exact marks_flat_all. Qed.
Print Assumptions C20_all_in_order.

(* The first component that stops ends the sequence: exactly the components
   before it and its own prefix ran; the later ones did not run; and the
   iteration (or setup) is reported failed. *)
Theorem C20_stop : forall pre b post,
  forallb (fun b => negb (stops b)) pre = true -> stops b = true ->
  marks (concat (pre ++ b :: post)) = concat (map marks pre) ++ marks b /\
  marks_failure (concat (pre ++ b :: post)) = true.
Proof.
  intros pre b post Hpre Hb. split; [apply marks_flat_stop; assumption|].
  rewrite concat_app. cbn [concat]. rewrite !marks_failure_app, (stops_failing b Hb).
  rewrite orb_true_r. reflexivity.
Qed.
Print Assumptions C20_stop.

(* Combined iteration = iteration of the concatenated bodies: outcome and
   events follow C06/C07; in particular the next iteration runs all the
   components again, whatever stopped the previous one. *)
Theorem C20_iteration : forall tab t (cs : list component),
  snd (iteration tab t (combined_run cs)) = existsb (fun c => marks_failure (snd c)) cs.
Proof.
  intros tab t cs. pose proof (iteration_shape tab t (combined_run cs)) as H.
  destruct (iteration tab t (combined_run cs)) as [[t' es] f]. destruct H as (ces & _ & _ & C).
  cbn [snd]. rewrite C. unfold combined_run. clear.
  induction cs as [|c cs IH]; [reflexivity|].
  cbn [flat_map existsb]. rewrite marks_failure_app, IH. reflexivity.
Qed.
Print Assumptions C20_iteration.

Example C20_example :
  let cs := [([AMark 0], [AMark 1]); ([AMark 2], [AMark 3; AFail]); ([AMark 4], [AMark 5; AFailNow; AMark 9]); ([AMark 6], [AMark 7])] in
  marks (combined_setup cs) = [0; 2; 4; 6]%nat /\
  marks (combined_run cs) = [1; 3; 5]%nat /\
  marks_failure (combined_run cs) = true.
Proof. vm_compute. repeat split. Qed.
