(* C05 — a run always terminates, stops triggering on time, and leaves
   nothing running. Only property theorems; proofs in Proofs/RunLifeProofs.v
   (run level: main goroutine, progress goroutine, the result's RW mutex,
   environment events; invariant and deadlock-freedom by exhaustive kernel
   evaluation over the finite set of invariant states) and Proofs/Pool*.v
   (worker pool).

   Partial, stated as such: termination is shown as deadlock-freedom (at every
   reachable state something can move, or main is waiting for an environment
   event that is bound to come: a timer, the caller, the pool - whose own
   progress is C05_pool_progress); a ranking-function proof that every fair
   schedule reaches the return is not given. Wall-clock punctuality of Go
   timers is the runtime's and is observed one-sidedly. *)
From F1 Require Import Base.Prelude Model.RunLife Proofs.RunLifeProofs
     Model.Pool Proofs.PoolBase Proofs.PoolSafety Proofs.PoolWake Proofs.PoolFinal.

(* Run level: in every reachable state the run is not wedged: Do has
   returned, or main waits for the environment, or a goroutine of the run can
   take a step. In particular the nested read locks of the final
   teardown/summary can never be cut by a late progress tick. *)
Theorem C05_no_deadlock : forall sched, wedged true (lexec true linit sched) = false.
Proof. intros sched. apply never_wedged. apply lexec_inv. apply linit_inv. Qed.
Print Assumptions C05_no_deadlock.

(* When Do has returned the progress goroutine has exited, holds no lock and
   has not run since; the final totals were taken after it exited. *)
Theorem C05_quiescent : forall sched,
  let s := lexec true linit sched in
  l_main s = MReturned ->
  l_prog s = PExited /\ l_readers s = 0 /\ l_writer s = None /\ l_fn_after_return s = 0.
Proof. intros sched s H. apply returned_quiet; [apply lexec_inv, linit_inv|exact H]. Qed.
Print Assumptions C05_quiescent.

(* Main waits for in-flight iterations only until the completion timeout: the
   wait is left as soon as the pool completed or the timeout fired. *)
Theorem C05_wait_bounded : forall s,
  l_main s = MWait -> (l_pool_done s = true \/ l_timeout s = true) ->
  exists s', main_step true s = Some s' /\ l_main s' = MFin_L.
Proof.
  intros s Hm H. unfold main_step. rewrite Hm.
  assert (E : l_pool_done s || l_timeout s = true) by (destruct H as [-> | ->]; [reflexivity|apply orb_true_r]).
  rewrite E. eexists. split; reflexivity.
Qed.
Print Assumptions C05_wait_bounded.

(* Pool level: once the pool has been told to stop (stop flag set by stop()
   after cancel / deadline, or by the limit path) no further request is ever
   accepted. *)
Theorem C05_stop_points : forall n maxit ticks sched l s',
  let s := pexec (pinit n maxit ticks) sched in
  stopflag s = true -> pstep s l = Some s' -> accepted s' = accepted s /\ stopflag s' = true.
Proof.
  intros nw maxit ticks sched l s' s Hsf H.
  pose proof (safe_exec sched _ (safe_init nw maxit ticks)) as Sf. fold s in Sf.
  pose proof (sf_t3 s Sf) as T3'.
  step_cases H; psimpl; rewrite ?Et in *; try (split; [lia|assumption]); try (split; [lia|reflexivity]); try congruence.
Qed.
Print Assumptions C05_stop_points.

(* Pool level: no lost wake-up and no deadlock: with the context cancelled,
   every non-terminal reachable state of the pool can move; a terminal state
   has every worker exited, nothing pending. *)
Theorem C05_pool_progress : forall n maxit ticks sched,
  let s := pexec (pinit n maxit ticks) sched in
  ctx_done s = true -> pterminal s = false -> exists l s', pstep s l = Some s'.
Proof.
  intros n maxit ticks sched s Hc Hn.
  apply progress; [apply safe_exec, safe_init|apply wake_exec, wake_init|exact Hc|exact Hn].
Qed.
Print Assumptions C05_pool_progress.

(* The triggering window: what Run.run computes never lies beyond what the property allows (the
   earlier of max-duration less the 10 ms guard and the trigger's own duration), so a trigger that
   finds no more than code_window left on its context satisfies the predicate the harness applies. *)
Theorem C05_trigger_window : forall max_d trig_d remaining slack,
  0 <= slack -> remaining <= code_window max_d trig_d ->
  code_window max_d trig_d <= allowed_window max_d trig_d /\ window_ok max_d trig_d remaining slack = true.
Proof.
  intros max_d trig_d remaining slack Hs Hr.
  assert (H : code_window max_d trig_d <= allowed_window max_d trig_d).
  { unfold code_window, allowed_window, guard_ns.
    destruct (0 <? trig_d) eqn:E1; destruct (trig_d <? max_d) eqn:E2; cbn [andb]; lia. }
  split; [exact H|]. unfold window_ok. lia.
Qed.
Print Assumptions C05_trigger_window.

Example C05_trigger_window_example :
  code_window 400000000 399000000 = 389000000 /\ allowed_window 400000000 399000000 = 390000000 /\
  window_ok 400000000 399000000 399000000 1000000 = false /\ window_ok 400000000 0 390000000 0 = true.
Proof. vm_compute. repeat split; reflexivity. Qed.

(* Non-vacuity: a complete run (limit reached, two progress ticks on the way,
   one of them due exactly when Stop is called) that returns. *)
Example C05_example :
  let s := lexec true linit
    ([LMain; LMain; LMain; LMain; EnvTick; LProg; LProg; LProg; LProg; LProg; LProg; LProg; LProg;
      EnvLimit; EnvPoolDone; LMain; LMain; LMain; LMain; LMain; LMain; EnvTick; LMain; LMain; LProg] ++
     repeat LProg 9 ++ repeat LMain 20) in
  l_main s = MReturned /\ l_prog s = PExited.
Proof. vm_compute. split; reflexivity. Qed.
