(* C01 — every executed iteration is counted exactly once, with its true
   outcome. Only the property theorems; proofs are in Proofs/ProgressConc.v.

   Model (Model/Progress.v, concurrent part): any number of worker threads,
   each recording any sequence of outcomes (metric Observe, then the atomic
   count operation of progress.Stats.Record); any number of periodic
   snapshotters, each collecting any number of times under the result's
   write lock (Swap(0) of the running count, Add into the lifetime count,
   Load); the final GetTotals, enabled once every iteration has completed.
   A schedule is an arbitrary list of thread choices. *)
From F1 Require Import Base.Prelude Model.Progress Proofs.ProgressConc.

(* For every program, every snapshot cadence, every interleaving: when the
   run has returned (all threads finished) the totals stored by the final
   collector are exactly the numbers of successful, failed and dropped
   iterations of the program, and the exported sample counts are the same
   three numbers (when iteration metrics are enabled; untouched otherwise). *)
Theorem C01_counts_exact : forall prog snaps metrics_on sched,
  let st := exec true metrics_on (init prog snaps) sched in
  terminal st = true ->
  result st = Some (count_kind KS prog, count_kind KF prog, count_kind KD prog) /\
  (metrics_on = true ->
   met_s (sh st) = count_kind KS prog /\ met_f (sh st) = count_kind KF prog /\
   met_d (sh st) = count_kind KD prog) /\
  (metrics_on = false -> met_s (sh st) = 0 /\ met_f (sh st) = 0 /\ met_d (sh st) = 0).
Proof.
  intros prog snaps metrics_on sched st Ht.
  apply (terminal_totals prog metrics_on st); [|exact Ht].
  apply inv_exec. apply inv_init.
Qed.
Print Assumptions C01_counts_exact.

(* Nothing is lost mid-run either: in every reachable state the lifetime
   count, the running count and what collectors have drained but not yet
   merged add up to the number of count operations executed so far. *)
Theorem C01_no_loss_mid_run : forall prog snaps metrics_on sched,
  let st := exec true metrics_on (init prog snaps) sched in
  life_s (sh st) + run_s (sh st) + sumf held_s_c (cols st) + held_s_c (fin st) = cnt_s (sh st) /\
  life_f (sh st) + run_f (sh st) + sumf held_f_c (cols st) + held_f_c (fin st) = cnt_f (sh st) /\
  drp (sh st) = cnt_d (sh st).
Proof.
  intros prog snaps metrics_on sched st.
  destruct (inv_exec prog metrics_on sched _ (inv_init prog metrics_on snaps)) as [A B C _ _ _ _ _ _ _ _ _ _].
  auto.
Qed.
Print Assumptions C01_no_loss_mid_run.

(* Non-vacuity: a concrete program with two workers and a snapshotter reaches
   a terminal state under a concrete interleaving, with the right totals. *)
Definition demo_sched : list tid :=
  [TRec 0; TCol 0; TCol 0; TRec 0; TRec 1; TCol 0; TRec 1; TCol 0; TCol 0; TCol 0; TCol 0; TCol 0; TCol 0;
   TRec 0; TRec 0; TRec 1; TRec 1; TRec 0; TRec 0;
   TFin; TFin; TFin; TFin; TFin; TFin; TFin; TFin; TFin].
Example C01_reaches_terminal :
  let st := exec true true (init [[KS; KF; KS]; [KD; KS]] [1%nat]) demo_sched in
  terminal st = true /\ result st = Some (3, 1, 1).
Proof. vm_compute. split; reflexivity. Qed.
