(* C02 — requested work is conserved: every request is started once or
   dropped once. Only property theorems; proofs in Proofs/Pool*.v.

   Model (Model/Pool.v): the ticking goroutine with ANY list of tick sizes,
   ANY number of workers, the stopping goroutine, cancellation at ANY moment,
   the max-iterations path; one step per atomic / lock / condition-variable
   operation; a schedule is an arbitrary list of thread choices. A request
   counts as made ("accepted") when a tick's swap installs it; a tick that
   finds triggering already stopped requests nothing. *)
From F1 Require Import Base.Prelude Model.Pool Proofs.PoolBase Proofs.PoolCons Proofs.PoolSafety Proofs.PoolIds
     Proofs.PoolWake Proofs.PoolFinal.

(* In every reachable state: requested = started + dropped + (dropped, being
   recorded) + silently discarded + (taken by a worker, not yet started) +
   still pending. *)
Theorem C02_conservation_inv : forall n maxit ticks sched,
  Cons (pexec (pinit n maxit ticks) sched).
Proof. intros. apply cons_exec. apply cons_init. Qed.
Print Assumptions C02_conservation_inv.

(* When everything has finished: requested = started + dropped + discarded,
   and nothing is left pending. *)
Theorem C02_conservation : forall n maxit ticks sched,
  let s := pexec (pinit n maxit ticks) sched in
  pterminal s = true ->
  accepted s = started s + dropped s + discarded s /\ counter s <= 0.
Proof.
  intros n maxit ticks sched s Ht.
  apply terminal_conservation; [apply cons_exec, cons_init|apply safe_exec, safe_init|apply wake_exec, wake_init|exact Ht].
Qed.
Print Assumptions C02_conservation.

(* Silent limit: requests superseded or drained at a moment when every id up
   to the limit had already been handed out are never recorded as dropped (by
   construction of the steps T3/S3: the decision is taken under the lock with
   the swap); once the max-iterations path has halted the pool no swap ever
   yields iterations to report as dropped (late_drops counts exactly those)
   and no tick is accepted; and a silent discard only ever happens when the
   ids are exhausted. *)
Theorem C02_limit_silent : forall n maxit ticks sched,
  let s := pexec (pinit n maxit ticks) sched in
  late_drops s = 0 /\
  (limit_halted s = true -> stopflag s = true /\ counter s <= 0) /\
  (0 < discarded s -> 0 < maxiter s /\ maxiter s <= iter s).
Proof.
  intros n maxit ticks sched s.
  destruct (safe_exec sched _ (safe_init n maxit ticks)) as [_ _ _ LH LA _].
  destruct (ids_exec sched _ (ids_init n maxit ticks)) as [_ _ _ _ _ _ DS _].
  fold s in LH, LA, DS. auto.
Qed.
Print Assumptions C02_limit_silent.

(* Non-vacuity: two workers, ticks of 3 and 2; the second tick supersedes one
   pending request (dropped once), everything else starts exactly once. *)
Example C02_example :
  let s := pexec (pinit 2 0 [3; 2])
    (repeat PTick 7 ++ repeat (PWorker 0) 5 ++ repeat (PWorker 1) 5 ++ repeat PTick 7 ++
     repeat (PWorker 0) 6 ++ repeat (PWorker 1) 6 ++ [PCancel] ++ repeat PStop 8 ++
     repeat (PWorker 0) 3 ++ repeat (PWorker 1) 3) in
  pterminal s = true /\ accepted s = 5 /\ started s = 4 /\ dropped s = 1.
Proof. vm_compute. repeat split; reflexivity. Qed.
