(* C14 — every user input is either rejected with an error or yields a
   runnable trigger. Only property theorems; proofs in Proofs/ParseProofs.v.

   The statements start at the strings (rate, stages) and at the decoded
   config value; YAML decoding and cobra/pflag flag parsing are library code
   and are not modelled (the harness feeds arbitrary bytes through them for
   crash-freedom only). *)
From Coq Require Import String.
From F1 Require Import Base.Prelude Base.F64 Base.GoStr Base.GoTime Model.Distribution Model.RateParse Model.ConfigFile
     Proofs.ParseProofs.

(* ParseRate is total: no input crashes it ... *)
Theorem C14_rate_total : forall s, parse_rate s <> Crash.
Proof. exact parse_rate_no_crash. Qed.
Print Assumptions C14_rate_total.

(* ... what it accepts is well formed: a non-negative count per a positive unit ... *)
Theorem C14_rate_wf : forall s n u, parse_rate s = Ok (n, u) -> 0 <= n /\ 0 < u.
Proof. exact parse_rate_wf. Qed.
Print Assumptions C14_rate_wf.

(* ... and means exactly what it spells: N (per second), N/<duration> (per
   that duration, as time.ParseDuration reads it) or N/<unit> (per one of
   that unit) — nothing else is accepted, everything of these shapes with a
   positive unit is. *)
Theorem C14_rate_means : forall s n u, parse_rate s = Ok (n, u) <-> spells s n u.
Proof. exact parse_rate_means. Qed.
Print Assumptions C14_rate_means.

(* Every constructor either rejects or returns a positive tick interval. *)
Theorem C14_constructors_runnable :
  (forall rate dist r, calc_constant rate dist = Ok r -> runnable_rates r) /\
  (forall a b dist dur r, calc_ramp a b dist dur = Ok r -> runnable_rates r) /\
  (forall freq stg dist r, calc_staged freq stg dist = Ok r -> runnable_rates r) /\
  (forall freq sd wok dist r, calc_gaussian freq sd wok dist = Ok r -> runnable_rates r).
Proof.
  repeat split.
  - exact calc_constant_runnable.
  - exact calc_ramp_runnable.
  - exact calc_staged_runnable.
  - exact calc_gaussian_runnable.
Qed.
Print Assumptions C14_constructors_runnable.

(* A config value is rejected, or it yields a plan in which every stage can
   run (positive tick interval, or at least one user) with at least one
   worker. It never crashes (parse_config has no Crash outcome for any
   combination of present / absent fields). *)
Theorem C14_config : forall c now p,
  parse_config c now = Ok p ->
  1 <= p_concurrency p /\ Forall runnable_stage (p_stages p).
Proof.
  intros c now p H. unfold parse_config in H.
  destruct (c_scenario c) as [scen|]; cbn [need] in H; [|discriminate].
  destruct (l_max_duration (c_limits c)) as [maxd|]; cbn [need] in H; [|discriminate].
  destruct (l_concurrency (c_limits c)) as [conc|]; cbn [need] in H; [|discriminate].
  destruct (conc <? 1) eqn:Ec; [discriminate|].
  destruct (l_max_iterations (c_limits c)) as [maxi|]; cbn [need] in H; [|discriminate].
  destruct (l_ignore_dropped (c_limits c)) as [ign|]; cbn [need] in H; [|discriminate].
  destruct (c_stages c) as [|s0 l0]; [discriminate|].
  destruct (parse_stages_loop _ _ _ _ _) as [[stages total]| |] eqn:El; cbn [res_bind] in H; try discriminate.
  injection H as <-. cbn [p_concurrency p_stages].
  destruct (loop_spec _ _ _ _ _ _ _ El) as (durs & _ & _ & _ & R).
  split; [apply Z.ltb_ge in Ec; exact Ec|exact R].
Qed.
Print Assumptions C14_config.

Theorem C14_config_total : forall c now, parse_config c now <> Crash.
Proof. exact parse_config_no_crash. Qed.
Print Assumptions C14_config_total.

(* The pinned ParseRate violated all three: machine-checked witnesses. *)
Example C14_pinned_refuted :
  parse_rate_pinned (s_of "5/") = Crash /\
  parse_rate_pinned (s_of "1/.5s") = Ok (1, 1500000000) /\
  parse_rate_pinned (s_of "1/0s") = Ok (1, 0) /\
  parse_rate (s_of "5/") = Err /\ parse_rate (s_of "1/.5s") = Ok (1, 500000000) /\ parse_rate (s_of "1/0s") = Err.
Proof. vm_compute. repeat split. Qed.

Example C14_example :
  parse_rate (s_of "10/s") = Ok (10, 1000000000) /\ parse_rate (s_of "7") = Ok (7, 1000000000) /\
  parse_rate (s_of "3/1m30s") = Ok (3, 90000000000) /\ parse_rate (s_of "2/100ms") = Ok (2, 100000000) /\
  parse_stages (s_of "0s:1, 10s:1 ,1h:200") = Ok [(0, 1); (10000000000, 1); (3600000000000, 200)].
Proof. vm_compute. repeat split. Qed.
