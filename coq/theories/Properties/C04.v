(* C04 — never more than `concurrency` iterations in flight; all workers
   usable. Only property theorems; proofs in Proofs/PoolFinal.v.

   In the model worker i owns handle i (makeIterationStatePool builds one state
   per worker and Start spawns one goroutine per state), so two bodies running
   at once hold different handles by construction; handle identity in the real
   code is observed by the harness (live set of *T pointers). *)
From F1 Require Import Base.Prelude Model.Pool Proofs.PoolBase Proofs.PoolFinal Model.ContPool Proofs.ContPoolProofs.

(* At no instant are more than `concurrency` bodies executing. *)
Theorem C04_bound : forall n maxit ticks sched,
  let s := pexec (pinit n maxit ticks) sched in
  in_flight s <= Z.of_nat n /\ length (workers s) = n.
Proof.
  intros n maxit ticks sched s.
  assert (Hl : length (workers s) = n).
  { unfold s. rewrite workers_length_exec. cbn. apply repeat_length. }
  split; [|exact Hl]. unfold in_flight. rewrite <- Hl. apply zcount_le_length.
Qed.
Print Assumptions C04_bound.

(* Users mode: the same bound for the continuous pool. *)
Theorem C04_users_bound : forall n maxit sched,
  let s := cexec (cinit n maxit) sched in
  c_in_flight s <= Z.of_nat n /\ length (k_workers s) = n.
Proof.
  intros n maxit sched s.
  assert (Hl : length (k_workers s) = n) by (unfold s; rewrite k_workers_length_exec; cbn; apply repeat_length).
  split; [|exact Hl]. unfold c_in_flight. rewrite <- Hl. apply zcount_le_length.
Qed.
Print Assumptions C04_users_bound.

(* Conversely all workers can be executing at the same time when at least
   `concurrency` requests are pending: witness schedules for pools of 1 to 4
   workers (instances checked by computation; the general statement for every
   n is observed on the real pool by the rendezvous test of the harness). *)
Definition all_busy_sched (n : nat) : list plabel :=
  repeat PTick 7 ++ flat_map (fun i => repeat (PWorker i) 5) (seq 0 n).
Example C04_all_usable_instances :
  in_flight (pexec (pinit 1 0 [1]) (all_busy_sched 1)) = 1 /\
  in_flight (pexec (pinit 2 0 [2]) (all_busy_sched 2)) = 2 /\
  in_flight (pexec (pinit 3 0 [5]) (all_busy_sched 3)) = 3 /\
  in_flight (pexec (pinit 4 0 [4]) (all_busy_sched 4)) = 4.
Proof. vm_compute. repeat split; reflexivity. Qed.
