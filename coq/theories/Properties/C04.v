(* C04 — never more than `concurrency` iterations in flight; all workers
   usable. Only property theorems; proofs in Proofs/PoolFinal.v.

   In the model worker i owns handle i (makeIterationStatePool builds one state
   per worker and Start spawns one goroutine per state), so two bodies running
   at once hold different handles by construction; handle identity in the real
   code is observed by the harness (live set of *T pointers). *)
From F1 Require Import Base.Prelude Model.Pool Proofs.PoolBase Proofs.PoolFinal Proofs.PoolNoLost Model.ContPool Proofs.ContPoolProofs.

(* At no instant are more than `concurrency` bodies executing. *)
Theorem C04_bound : forall n maxit ticks sched,
  let s := pexec (pinit n maxit ticks) sched in
  in_flight s <= Z.of_nat n /\ length (workers s) = n.
Proof.
  intros n maxit ticks sched s.
  assert (Hl : length (workers s) = n).
  { unfold s. rewrite workers_length_exec. cbn. apply repeat_length. }
  split; [|exact Hl]. unfold in_flight. rewrite <- Hl. apply zcount_le_length.
Qed.
Print Assumptions C04_bound.

(* Users mode: the same bound for the continuous pool. *)
Theorem C04_users_bound : forall n maxit sched,
  let s := cexec (cinit n maxit) sched in
  c_in_flight s <= Z.of_nat n /\ length (k_workers s) = n.
Proof.
  intros n maxit sched s.
  assert (Hl : length (k_workers s) = n) by (unfold s; rewrite k_workers_length_exec; cbn; apply repeat_length).
  split; [|exact Hl]. unfold c_in_flight. rewrite <- Hl. apply zcount_le_length.
Qed.
Print Assumptions C04_users_bound.

(* Conversely, all workers are usable: no lost wake-up. In every reachable state in which
   requests are pending, the pool is running and the ticking goroutine is not between its
   swap and its broadcast (lock held), NO worker is parked on the condition variable - every
   idle worker is at, or on its way to, take(). Together with C05_pool_progress (an enabled
   step always exists) an idle worker therefore does claim a pending request. *)
Theorem C04_no_lost_wakeup : forall n maxit ticks sched,
  let s := pexec (pinit n maxit ticks) sched in
  0 < counter s -> stopflag s = false -> (forall d rest, tick s <> T4 d rest) ->
  forall i, nth_error (workers s) i <> Some WWait.
Proof. exact no_lost_wakeup. Qed.
Print Assumptions C04_no_lost_wakeup.

(* Non-vacuity: two workers go to sleep, a tick of 2 arrives; after its broadcast requests are
   pending, the pool runs, the ticker is past T4 - and indeed both workers have left the wait. *)
Example C04_no_lost_wakeup_example :
  let s := pexec (pinit 2 0 [2]) (flat_map (fun i => repeat (PWorker i) 5) [0; 1]%nat ++ repeat PTick 6) in
  counter s = 2 /\ stopflag s = false /\ workers s = [WRelock; WRelock] /\
  workers (pexec (pinit 2 0 [2]) (flat_map (fun i => repeat (PWorker i) 5) [0; 1]%nat)) = [WWait; WWait].
Proof. vm_compute. repeat split; reflexivity. Qed.

(* Conversely all workers can be executing at the same time when at least
   `concurrency` requests are pending: witness schedules for pools of 1 to 4
   workers (instances checked by computation; the general statement for every
   n is observed on the real pool by the rendezvous test of the harness). *)
Definition all_busy_sched (n : nat) : list plabel :=
  repeat PTick 7 ++ flat_map (fun i => repeat (PWorker i) 5) (seq 0 n).
Example C04_all_usable_instances :
  in_flight (pexec (pinit 1 0 [1]) (all_busy_sched 1)) = 1 /\
  in_flight (pexec (pinit 2 0 [2]) (all_busy_sched 2)) = 2 /\
  in_flight (pexec (pinit 3 0 [5]) (all_busy_sched 3)) = 3 /\
  in_flight (pexec (pinit 4 0 [4]) (all_busy_sched 4)) = 4.
Proof. vm_compute. repeat split; reflexivity. Qed.
