(* C19 — summary and progress output state the same numbers as the result they
   render. Only property theorems; proofs in Proofs/ViewsProofs.v.

   The render functions of Model/Views.v are total Gallina functions over any
   counts, durations (zero and negative included), periods and error values;
   that they are byte-for-byte what the real templates produce - and that the
   real templates never panic - is what the correspondence check establishes
   on generated data, in both colour modes. *)
From Coq Require Import String.
From F1 Require Import Base.Prelude Base.F64 Base.GoStr Base.Fmt Model.Views Proofs.ViewsProofs Proofs.PercentProofs.

(* Every count is printed in decimal and decimal printing is exact: reading
   the digits back gives the number, whatever follows. *)
Theorem C19_decimal_roundtrip : forall n rest,
  0 <= n < 2 ^ 64 -> starts_nondigit rest ->
  read_digits (itoa n ++ rest) None = (Some n, rest).
Proof. exact itoa_roundtrip. Qed.
Print Assumptions C19_decimal_roundtrip.

(* The progress line states the counts of the data it renders: reading the
   numbers after the three markers gives exactly (successful, dropped if
   non-zero, failed), for all counts, durations, periods and period statistics. *)
Theorem C19_progress_roundtrip : forall p,
  0 <= pd_succ p < 2 ^ 64 -> 0 <= pd_drop p < 2 ^ 64 -> 0 <= pd_fail p < 2 ^ 64 ->
  read_progress (render_progress false p) =
  Some (Some (pd_succ p), (if pd_drop p =? 0 then None else Some (pd_drop p)), Some (pd_fail p)).
Proof. exact progress_roundtrip. Qed.
Print Assumptions C19_progress_roundtrip.

(* The pass/fail banner is the verdict, in both colour modes. *)
Theorem C19_banner : forall on r,
  exists rest,
    render_result on r =
    nl ++ (if rd_failed r
           then c_red (colours on) ++ c_bold (colours on) ++ c_u (colours on) ++ s_of "Load Test Failed" ++ c_reset (colours on)
           else c_green (colours on) ++ c_bold (colours on) ++ c_u (colours on) ++ s_of "Load Test Passed" ++ c_reset (colours on)) ++ rest.
Proof. exact result_banner. Qed.
Print Assumptions C19_banner.

(* The structured form carries the same counts. *)
Theorem C19_log_counts : forall p r,
  log_progress p = [pd_succ p + pd_fail p + pd_drop p; pd_succ p; pd_fail p; pd_drop p; pd_period p] /\
  snd (log_result r) =
    [(if rd_started r =? 0 then rd_succ r + rd_fail r + rd_drop r else rd_started r);
     rd_succ r; rd_fail r; rd_drop r; rd_duration r] /\
  fst (fst (log_result r)) = rd_failed r.
Proof. intros p r. repeat split. Qed.
Print Assumptions C19_log_counts.

(* Each percentage is that count's share of all iterations: `percent | printf "%0.2f"` prints
   the hundredths q = f2_centi (100*float64(val)/float64(total)) (fmt_f2_finite), and
   |q/100 - 100*val/total| <= 0.005 + 10001/2^53 (half a unit of the last printed digit, plus
   the rounding of the one binary64 division), for every 0 <= val <= total < 2^46. *)
Theorem C19_percent_close : forall val total,
  0 <= val <= total -> 0 < total < 2 ^ 46 ->
  percent_str val total = fmt_f2 (percent_f val total) /\
  let q := f2_centi (percent_f val total) in
  2 ^ 53 * Z.abs (q * total - 10000 * val) <= 2 ^ 52 * total + 10001 * total.
Proof.
  intros val total Hv Ht. split; [reflexivity|]. exact (percent_close_Z val total Hv Ht).
Qed.
Print Assumptions C19_percent_close.

Example C19_percent_example :
  percent_str 1 3 = s_of "33.33" /\ f2_centi (percent_f 1 3) = 3333 /\
  percent_str 2 3 = s_of "66.67" /\ percent_str 0 7 = s_of "0.00" /\ percent_str 7 7 = s_of "100.00".
Proof. vm_compute. repeat split; reflexivity. Qed.

Example C19_example :
  let p := {| pd_period_stats := {| ds_avg := 1500000; ds_cnt := 12; ds_min := 900000; ds_max := 2000000000 |};
              pd_duration := 61400000000; pd_succ := 1234; pd_drop := 7; pd_fail := 0; pd_period := 1000000000 |} in
  read_progress (render_progress false p) = Some (Some 1234, Some 7, Some 0) /\
  length (render_progress true p) = 127%nat.
Proof. vm_compute. split; reflexivity. Qed.
