(* C18 — the periodic progress runner fires only while running; quiescent
   after Stop. Only property theorems; proofs in Proofs/RunnerProofs.v.

   An execution is any list of labels (caller actions, environment time events,
   goroutine steps) applied to the initial state; labels that are not enabled
   are skipped, so every interleaving and every placement of Restart / Stop /
   cancel relative to ticks is covered. Premise of the model: the first
   schedule's start delay is shorter than the one-hour placeholder ticker. *)
From F1 Require Import Base.Prelude Model.Runner Proofs.RunnerProofs Proofs.RunnerTimed.

(* The function is invoked only after Start, and at most once per tick that
   the ticker of the then-active schedule delivered. *)
Theorem C18_once_per_tick : forall len ls,
  1 <= len ->
  let s := rexec true (rinit len) ls in
  fn_starts (r_trace s) <= ticks (r_trace s) /\
  (r_g s = GNone -> fn_starts (r_trace s) = 0).
Proof.
  intros len ls Hl s. destruct (rexec_inv ls (rinit len) Hl (rinit_inv len Hl)) as [[A B C D E] _].
  fold s in A, B. split; [destruct (r_tick_ready s); lia|]. intros Hg. apply (A Hg).
Qed.
Print Assumptions C18_once_per_tick.

(* "Of the currently active schedule": every function start and every tick in the trace carries
   the index of the schedule that was active at that moment (the latest (re)start before it), and
   since the latest (re)start the function started at most as often as THAT schedule's ticker
   delivered ticks: a tick left over by the previous schedule's ticker is never consumed. *)
Theorem C18_tick_of_active_schedule : forall len ls,
  let s := rexec true (rinit len) ls in
  zcount is_fn_start (since_sched (r_trace s)) <= zcount is_tick (since_sched (r_trace s)) /\
  idx_consistent (r_trace s) = true /\ active_sched (r_trace s) = r_idx s.
Proof.
  intros len ls s. destruct (rexec_fresh ls (rinit len) (rfresh_init len)) as [A B C]. fold s in A, B, C.
  split; [destruct (r_tick_ready s); lia|]. split; assumption.
Qed.
Print Assumptions C18_tick_of_active_schedule.

(* a tick pending when the next schedule starts is abandoned: the function does not run on it *)
Example C18_stale_tick_dropped :
  let s := rexec true (rinit 2) [LStart; LEnvTimer; LSelTimer; LEnvTick; LEnvTimer; LSelTimer; LSelTick] in
  r_idx s = 1 /\ fn_starts (r_trace s) = 0 /\ r_g s = GSelect.
Proof. vm_compute. repeat split. Qed.

(* Once Stop has returned, no step of any thread starts or ends the function,
   for ever (Stop stays returned). *)
Theorem C18_stop_quiescent : forall len ls l s',
  1 <= len ->
  let s := rexec true (rinit len) ls in
  r_stop s = SReturned -> rstep true s l = Some s' ->
  r_stop s' = SReturned /\ exists evs, r_trace s' = evs ++ r_trace s /\ filter is_fn_ev evs = [].
Proof.
  intros len ls l s' Hl s Hs H.
  destruct (rexec_inv ls (rinit len) Hl (rinit_inv len Hl)) as [I _].
  exact (stop_quiescent s l s' I Hs H).
Qed.
Print Assumptions C18_stop_quiescent.

(* Stop returns only when the goroutine has exited; after cancellation the
   goroutine's exit is always enabled (at the select) or one function return
   away, and once exited nothing of the runner can run. *)
Theorem C18_no_goroutine_left : forall s,
  (forall s', rstep true s LStopReturn = Some s' -> r_g s = GExited) /\
  (r_cancelled s = true ->
   (r_g s = GSelect -> exists s', rstep true s LSelDone = Some s' /\ r_g s' = GExited) /\
   (r_g s = GInFn -> exists s', rstep true s LFnEnd = Some s' /\ r_g s' = GSelect) /\
   (r_g s = GExited -> forall l, In l [LSelRestart; LSelTimer; LSelTick; LFnEnd; LSelDone; LEnvTick; LEnvTimer] ->
                                 rstep true s l = None)).
Proof. intros s. split; [intros s'; apply stop_waits|apply exit_enabled]. Qed.
Print Assumptions C18_no_goroutine_left.

(* Schedules: the next-schedule timer moves to the next schedule (the last one
   stays), Restart goes back to the first. *)
Theorem C18_schedule_progress : forall s s',
  (rstep true s LSelTimer = Some s' -> r_idx s' = (if r_idx s + 1 <? r_len s then r_idx s + 1 else r_idx s)) /\
  (1 <= r_len s -> rstep true s LSelRestart = Some s' -> r_idx s' = 0).
Proof. intros s s'. split; [apply timer_moves_on|apply restart_goes_first]. Qed.
Print Assumptions C18_schedule_progress.

(* The trace checker the harness runs on the real runner's event log (runner_trace_ok: exact
   tracking of the active schedule from the startFirst/startNext hooks, FnStart/FnEnd
   alternation, nothing before Start or after StopReturned) accepts the visible part of every
   execution of the model: an alarm of that checker is a behaviour the model does not have. *)
Theorem C18_checker_accepts_model : forall len ls,
  1 <= len ->
  runner_trace_ok len (visible_trace (r_trace (rexec true (rinit len) ls))) = true.
Proof. exact checker_accepts_model. Qed.
Print Assumptions C18_checker_accepts_model.

(* ... and it is not vacuous: it rejects a function start carrying another schedule's index,
   a function start after Stop returned, and a schedule step after Stop returned. *)
Example C18_checker_rejects :
  runner_trace_ok 2 [VStart; VNext; VFnStart 1] = false /\
  runner_trace_ok 2 [VStart; VNext; VFnStart 0; VFnEnd; VNext; VFnStart 1; VFnEnd; VFirst; VFnStart 1] = false /\
  runner_trace_ok 1 [VStart; VNext; VStopCalled; VStopReturned; VFnStart 0] = false /\
  runner_trace_ok 2 [VStart; VNext; VFnStart 0; VFnEnd; VNext; VFnStart 1; VFnEnd; VFirst; VFnStart 0; VFnEnd] = true.
Proof. vm_compute. repeat split. Qed.

(* "Moving to the next schedule after its start delay", with time: in every timed run of the model
   in which the environment's timer and ticker events never come early (texec skips a step that
   is not enabled, goes back in time, or would have the next-schedule timer fire less than the
   next schedule's start delay after the current schedule started - or, for the first, after
   New() - or the current ticker tick less than one period after it was created), the timed log
   of schedule steps and function starts is accepted by the checker the harness runs on the real
   runner's timed log. An alarm of that checker is a behaviour no such run of the model has. *)
Theorem C18_timed_checker_sound : forall delays freqs run,
  (1 <= length delays)%nat ->
  runner_timed_ok delays freqs (texec delays freqs (rinit (Z.of_nat (length delays))) 0 0 run) = true.
Proof. exact timed_checker_sound. Qed.
Print Assumptions C18_timed_checker_sound.

(* Non-vacuity: a timed run that starts the first schedule at 1, runs the function at 21, is
   restarted at 400, runs the function at 420, moves on at 1000 and runs the function at 1035;
   the attempt to move on at 700 (the timer has not fired: too early after the restart) and a
   tick at 1010 (less than a period after the second schedule began) are not steps of the model. *)
Example C18_timed_run_example :
  texec [0; 600] [20; 35] (rinit 2) 0 0
    [(LStart, 0); (LEnvTimer, 1); (LSelTimer, 1); (LEnvTick, 21); (LSelTick, 21); (LFnEnd, 22);
     (LRestart, 399); (LSelRestart, 400); (LEnvTick, 420); (LSelTick, 420); (LFnEnd, 421);
     (LEnvTimer, 700); (LSelTimer, 700); (LEnvTimer, 1000); (LSelTimer, 1000); (LEnvTick, 1010); (LSelTick, 1010);
     (LEnvTick, 1035); (LSelTick, 1035)]
  = [(8, 0, 1); (1, 0, 21); (7, 0, 400); (1, 0, 420); (8, 0, 1000); (1, 1, 1035)].
Proof. vm_compute. reflexivity. Qed.

(* The timed checker (runner_timed_ok) accepts a run in which a Restart on the first schedule
   re-arms the second schedule's start delay, and rejects the run in which the second schedule
   begins as if the Restart had not happened, as well as a function start less than a period
   after its schedule began. Times in ms: schedules (delay 0, every 20) and (delay 600, every 35). *)
Example C18_timed_checker :
  runner_timed_ok [0; 600] [20; 35] [(8,0,1); (1,0,21); (7,0,400); (1,0,420); (8,0,1000); (1,1,1035)] = true /\
  runner_timed_ok [0; 600] [20; 35] [(8,0,1); (1,0,21); (7,0,400); (1,0,420); (8,0,601); (1,1,636)] = false /\
  runner_timed_ok [0; 600] [20; 35] [(8,0,1); (1,0,15)] = false.
Proof. vm_compute. repeat split. Qed.

(* Non-vacuity: an execution that starts, runs the function twice, is stopped
   while a tick is pending, and ends with Stop returned and the goroutine gone. *)
Example C18_example :
  let s := rexec true (rinit 2)
     [LStart; LEnvTimer; LSelTimer; LEnvTick; LSelTick; LFnEnd; LEnvTick; LSelTick; LStopCancel; LStopReturn;
      LEnvTick; LFnEnd; LSelDone; LStopReturn; LEnvTick; LSelTick] in
  r_stop s = SReturned /\ r_g s = GExited /\ fn_starts (r_trace s) = 2.
Proof. vm_compute. repeat split. Qed.
