(* C10 — staged and ramp profiles are the configured piecewise-linear shapes.
   Only the property theorems; proofs are in Proofs/StagedProofs.v.

   The interpolation term  int(float64(off)/float64(dur) * float64(delta))  is
   the binary64 function interp_f64 of Model/Staged.v. The cursor theorems hold
   for it as it is. The shape theorems (within targets, monotone) are proved
   for interp_f64 itself from Flocq's correct-rounding theorems
   (Proofs/F64Facts.v), for every stage whose duration is an int64 number of
   nanoseconds (<= 2^63) and whose target difference is exactly representable
   in binary64 (|delta| < 2^53; beyond that Go's own float64(delta) conversion
   already rounds the configured target). The harness additionally evaluates
   the same facts, and closeness to the exact rational value, on every output
   of the implementation (predicate interp_ok). *)
From F1 Require Import Base.Prelude Base.F64 Model.Staged Proofs.StagedProofs Proofs.F64Facts Proofs.F64Close.

(* the (duration, target difference) pairs covered by the shape theorems *)
Definition f64_exact (dur delta : Z) : Prop := dur <= 2 ^ 63 /\ Z.abs delta < 2 ^ 53.

(* Queried at non-decreasing times, the stateful cursor of the calculator
   answers exactly like the stateless reference staged_ref at the elapsed
   time since the start — for any stage list, zero-length stages included,
   whether the start time is given or fixed by the first query. *)
Theorem C10_cursor_refines : forall l t0 ts lo,
  sorted_from lo ts = true ->
  calc_run interp_f64 (calc_new l (Some t0)) ts =
  map (fun t => staged_ref interp_f64 l (t - t0)) ts.
Proof. exact (cursor_refines_given interp_f64). Qed.
Print Assumptions C10_cursor_refines.

Theorem C10_cursor_refines_default_start : forall l t ts,
  sorted_from t (t :: ts) = true ->
  calc_run interp_f64 (calc_new l None) (t :: ts) =
  map (fun x => staged_ref interp_f64 l (x - t)) (t :: ts).
Proof. exact (cursor_refines_default interp_f64). Qed.
Print Assumptions C10_cursor_refines_default_start.

(* The stage the reference selects at elapsed time e contains e:
   0 <= offset < duration — so no division by zero is reachable and
   zero-length stages are always skipped. *)
Theorem C10_selected_stage : forall l e s r st,
  0 <= e -> advance (chain 0 l) 0 e = (s :: r, st) ->
  0 <= e - st /\ e - st + 1 <= s_dur s.
Proof. intros l e s r st He H. exact (advance_selected _ 0 e s r st He H). Qed.
Print Assumptions C10_selected_stage.

(* Stage chaining: the first stage starts at 0, each next one at the
   previous end target. *)
Theorem C10_chained : forall l,
  match chain 0 l with [] => True | s :: _ => s_from s = 0 end /\
  forall i s1 s2, nth_error (chain 0 l) i = Some s1 -> nth_error (chain 0 l) (S i) = Some s2 ->
                  s_from s2 = s_to s1.
Proof. intros l. exact (chain_chained l 0). Qed.
Print Assumptions C10_chained.

(* 0 once all stages have elapsed (non-negative durations). *)
Theorem C10_zero_after_end : forall l e,
  Forall (fun x => 0 <= fst x) l -> max_duration l <= e -> staged_ref interp_f64 l e = 0.
Proof. exact (zero_after_end interp_f64). Qed.
Print Assumptions C10_zero_after_end.

(* The reported total duration is the sum of the stage durations. *)
Theorem C10_total_duration : forall l start ts,
  snd (staged_run l start ts) = zsum (map fst l).
Proof. reflexivity. Qed.
Print Assumptions C10_total_duration.

(* Never outside the stage's two targets; monotone within a stage. *)
Theorem C10_within_targets : forall l e rem st s r,
  0 <= e -> advance (chain 0 l) 0 e = (rem, st) -> rem = s :: r ->
  f64_exact (s_dur s) (s_to s - s_from s) ->
  Z.min (s_from s) (s_to s) <= staged_ref interp_f64 l e <= Z.max (s_from s) (s_to s).
Proof.
  apply (between_targets interp_f64 f64_exact).
  - intros off dur delta [H1 H2] Ho Hd Hde. apply interp_f64_up; lia.
  - intros off dur delta [H1 H2] Ho Hd Hde. apply interp_f64_down; lia.
Qed.
Print Assumptions C10_within_targets.

Theorem C10_monotone_in_stage : forall l e1 e2 rem st s r,
  0 <= e1 <= e2 ->
  advance (chain 0 l) 0 e1 = (rem, st) -> advance (chain 0 l) 0 e2 = (rem, st) -> rem = s :: r ->
  f64_exact (s_dur s) (s_to s - s_from s) ->
  (s_from s <= s_to s -> staged_ref interp_f64 l e1 <= staged_ref interp_f64 l e2) /\
  (s_to s <= s_from s -> staged_ref interp_f64 l e2 <= staged_ref interp_f64 l e1).
Proof.
  apply (monotone_in_stage interp_f64 f64_exact).
  - intros off1 off2 dur delta [H1 H2] Ho H3 Hd Hde. apply interp_f64_mono_up; lia.
  - intros off1 off2 dur delta [H1 H2] Ho H3 Hd Hde. apply interp_f64_mono_down; lia.
Qed.
Print Assumptions C10_monotone_in_stage.

(* "Within 1 of the exact value": the value differs from the exact rational interpolation
   e = from + (to-from) * offset / duration by less than 1 + 5*|to-from|/2^53 (truncation, plus
   four binary64 roundings of relative error 2^-53 each). Over the integers, with v the value
   minus the stage's start target:  2^53 * |v*dur - offset*delta| < 2^53*dur + 5*|delta|*dur. *)
Theorem C10_close : forall l e rem st s r,
  0 <= e -> advance (chain 0 l) 0 e = (rem, st) -> rem = s :: r ->
  f64_exact (s_dur s) (s_to s - s_from s) ->
  let v := staged_ref interp_f64 l e - s_from s in
  let delta := s_to s - s_from s in
  2 ^ 53 * Z.abs (v * s_dur s - (e - st) * delta) < 2 ^ 53 * s_dur s + 5 * Z.abs delta * s_dur s.
Proof.
  intros l e rem st s r He Ha -> [Hd Hde] v delta.
  destruct (advance_selected _ _ _ _ _ _ He Ha) as [H1 H2].
  assert (Ev : v = interp_f64 (e - st) (s_dur s) delta).
  { unfold v, staged_ref. rewrite Ha. cbn [stage_rate]. fold delta. lia. }
  rewrite Ev. apply interp_f64_close; lia.
Qed.
Print Assumptions C10_close.

Theorem C10_ramp_close : forall from to dur e,
  0 < dur -> 0 <= e <= dur -> f64_exact dur (to - from) ->
  let v := ramp_ref interp_f64 from to dur e - from in
  2 ^ 53 * Z.abs (v * dur - e * (to - from)) < 2 ^ 53 * dur + 5 * Z.abs (to - from) * dur.
Proof.
  intros from to dur e Hd He [H1 H2] v.
  assert (Ev : v = interp_f64 e dur (to - from)).
  { unfold v, ramp_ref. replace (dur <? e) with false by lia. lia. }
  rewrite Ev. apply interp_f64_close; lia.
Qed.
Print Assumptions C10_ramp_close.

(* Every value the model produces satisfies the predicate the harness evaluates on the
   implementation's outputs. *)
Theorem C10_interp_ok_sound : forall off dur delta,
  0 <= off <= dur -> 0 < dur -> f64_exact dur delta ->
  interp_ok off dur delta (interp_f64 off dur delta) = true.
Proof.
  intros off dur delta Ho Hd [H1 H2]. unfold interp_ok.
  pose proof (interp_f64_close off dur delta Ho ltac:(lia) H2) as HC.
  apply andb_true_iff. split.
  - destruct (delta >=? 0) eqn:E.
    + pose proof (interp_f64_up off dur delta Ho ltac:(lia) ltac:(lia)). apply andb_true_iff. split; lia.
    + pose proof (interp_f64_down off dur delta Ho ltac:(lia) ltac:(lia)). apply andb_true_iff. split; lia.
  - apply Z.ltb_lt. exact HC.
Qed.
Print Assumptions C10_interp_ok_sound.

(* The literal reading |v - e| <= 1 is false of the binary64 term: a two-hour stage
   from 0 to 1293707, queried 4936467376307 ns after its start, yields 886991 while the exact
   value is 886992 + 49/7200000000000. (Recorded as a known finding: the excess is bounded by
   C10_close.) *)
Theorem C10_within_one_refuted : exists off dur delta,
  0 <= off <= dur /\ 0 < dur /\ f64_exact dur delta /\
  within_one off dur delta (interp_f64 off dur delta) = false.
Proof.
  exists 4936467376307, 7200000000000, 1293707.
  split; [lia|]. split; [lia|]. split; [unfold f64_exact; lia|]. vm_compute. reflexivity.
Qed.
Print Assumptions C10_within_one_refuted.

(* Ramp: same for the single segment. *)
Theorem C10_ramp_refines : forall t ts from to dur,
  sorted_from t (t :: ts) = true ->
  ramp_run interp_f64 from to dur None (t :: ts) =
  map (fun x => ramp_ref interp_f64 from to dur (x - t)) (t :: ts).
Proof. exact (ramp_run_ref_default interp_f64). Qed.
Print Assumptions C10_ramp_refines.

Theorem C10_ramp_zero_after : forall from to dur e,
  dur < e -> ramp_ref interp_f64 from to dur e = 0.
Proof. exact (ramp_zero_after interp_f64). Qed.
Print Assumptions C10_ramp_zero_after.

Theorem C10_ramp_shape : forall from to dur e1 e2,
  0 < dur -> 0 <= e1 <= e2 -> e2 <= dur -> f64_exact dur (to - from) ->
  Z.min from to <= ramp_ref interp_f64 from to dur e1 <= Z.max from to /\
  (from <= to -> ramp_ref interp_f64 from to dur e1 <= ramp_ref interp_f64 from to dur e2) /\
  (to <= from -> ramp_ref interp_f64 from to dur e2 <= ramp_ref interp_f64 from to dur e1).
Proof.
  intros from to dur e1 e2 Hd He H2 Hok. split.
  - apply (ramp_between interp_f64 f64_exact); try assumption; try lia.
    + intros off d delta [H3 H4] Ho Hdd Hde. apply interp_f64_up; lia.
    + intros off d delta [H3 H4] Ho Hdd Hde. apply interp_f64_down; lia.
  - apply (ramp_monotone interp_f64 f64_exact); try assumption; try lia.
    + intros off1 off2 d delta [H3 H4] Ho H5 Hdd Hde. apply interp_f64_mono_up; lia.
    + intros off1 off2 d delta [H3 H4] Ho H5 Hdd Hde. apply interp_f64_mono_down; lia.
Qed.
Print Assumptions C10_ramp_shape.

(* Non-vacuity: a real profile, evaluated with the binary64 model. *)
Example C10_example :
  fst (staged_run [(0, 1); (10000000000, 1); (20000000000, 20)] None
                  [1000; 5000001000; 10000001000; 20000001000; 30000001000; 30000002000])
  = [1; 1; 1; 10; 0; 0] /\
  ramp_run_f64 1 101 10000000000 [500; 2500000500; 10000000500; 10000000501] = [1; 26; 101; 0].
Proof. vm_compute. split; reflexivity. Qed.
