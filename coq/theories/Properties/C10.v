(* C10 — staged and ramp profiles are the configured piecewise-linear shapes.
   Only the property theorems; proofs are in Proofs/StagedProofs.v.

   The interpolation term  int(float64(off)/float64(dur) * float64(delta))  is
   the binary64 function interp_f64 of Model/Staged.v. The cursor theorems hold
   for it as it is. The shape theorems (within targets, monotone) are proved
   for every interpolation term that satisfies four elementary facts
   (interp_facts); that interp_f64 satisfies them is NOT yet proved in Coq
   (theorems named ..._partial): the harness checks those facts, and closeness
   to the exact rational value, on every output of the implementation
   (predicate interp_ok). *)
From F1 Require Import Base.Prelude Base.F64 Model.Staged Proofs.StagedProofs.

Record interp_facts (interp : Z -> Z -> Z -> Z) : Prop := {
  if_up : forall off dur delta,
    0 <= off <= dur -> 0 < dur -> 0 <= delta -> 0 <= interp off dur delta <= delta;
  if_down : forall off dur delta,
    0 <= off <= dur -> 0 < dur -> delta <= 0 -> delta <= interp off dur delta <= 0;
  if_mono_up : forall off1 off2 dur delta,
    0 <= off1 <= off2 -> off2 <= dur -> 0 < dur -> 0 <= delta ->
    interp off1 dur delta <= interp off2 dur delta;
  if_mono_down : forall off1 off2 dur delta,
    0 <= off1 <= off2 -> off2 <= dur -> 0 < dur -> delta <= 0 ->
    interp off2 dur delta <= interp off1 dur delta }.

(* Queried at non-decreasing times, the stateful cursor of the calculator
   answers exactly like the stateless reference staged_ref at the elapsed
   time since the start — for any stage list, zero-length stages included,
   whether the start time is given or fixed by the first query. *)
Theorem C10_cursor_refines : forall l t0 ts lo,
  sorted_from lo ts = true ->
  calc_run interp_f64 (calc_new l (Some t0)) ts =
  map (fun t => staged_ref interp_f64 l (t - t0)) ts.
Proof. exact (cursor_refines_given interp_f64). Qed.
Print Assumptions C10_cursor_refines.

Theorem C10_cursor_refines_default_start : forall l t ts,
  sorted_from t (t :: ts) = true ->
  calc_run interp_f64 (calc_new l None) (t :: ts) =
  map (fun x => staged_ref interp_f64 l (x - t)) (t :: ts).
Proof. exact (cursor_refines_default interp_f64). Qed.
Print Assumptions C10_cursor_refines_default_start.

(* The stage the reference selects at elapsed time e contains e:
   0 <= offset < duration — so no division by zero is reachable and
   zero-length stages are always skipped. *)
Theorem C10_selected_stage : forall l e s r st,
  0 <= e -> advance (chain 0 l) 0 e = (s :: r, st) ->
  0 <= e - st /\ e - st + 1 <= s_dur s.
Proof. intros l e s r st He H. exact (advance_selected _ 0 e s r st He H). Qed.
Print Assumptions C10_selected_stage.

(* Stage chaining: the first stage starts at 0, each next one at the
   previous end target. *)
Theorem C10_chained : forall l,
  match chain 0 l with [] => True | s :: _ => s_from s = 0 end /\
  forall i s1 s2, nth_error (chain 0 l) i = Some s1 -> nth_error (chain 0 l) (S i) = Some s2 ->
                  s_from s2 = s_to s1.
Proof. intros l. exact (chain_chained l 0). Qed.
Print Assumptions C10_chained.

(* 0 once all stages have elapsed (non-negative durations). *)
Theorem C10_zero_after_end : forall l e,
  Forall (fun x => 0 <= fst x) l -> max_duration l <= e -> staged_ref interp_f64 l e = 0.
Proof. exact (zero_after_end interp_f64). Qed.
Print Assumptions C10_zero_after_end.

(* The reported total duration is the sum of the stage durations. *)
Theorem C10_total_duration : forall l start ts,
  snd (staged_run l start ts) = zsum (map fst l).
Proof. reflexivity. Qed.
Print Assumptions C10_total_duration.

(* Never outside the stage's two targets; monotone within a stage. *)
Theorem C10_within_targets_partial : forall interp, interp_facts interp ->
  forall l e rem st s r,
  0 <= e -> advance (chain 0 l) 0 e = (rem, st) -> rem = s :: r ->
  Z.min (s_from s) (s_to s) <= staged_ref interp l e <= Z.max (s_from s) (s_to s).
Proof. intros interp [A B C D]. exact (between_targets interp A B). Qed.
Print Assumptions C10_within_targets_partial.

Theorem C10_monotone_in_stage_partial : forall interp, interp_facts interp ->
  forall l e1 e2 rem st s r,
  0 <= e1 <= e2 ->
  advance (chain 0 l) 0 e1 = (rem, st) -> advance (chain 0 l) 0 e2 = (rem, st) -> rem = s :: r ->
  (s_from s <= s_to s -> staged_ref interp l e1 <= staged_ref interp l e2) /\
  (s_to s <= s_from s -> staged_ref interp l e2 <= staged_ref interp l e1).
Proof. intros interp [A B C D]. exact (monotone_in_stage interp C D). Qed.
Print Assumptions C10_monotone_in_stage_partial.

(* Ramp: same for the single segment. *)
Theorem C10_ramp_refines : forall t ts from to dur,
  sorted_from t (t :: ts) = true ->
  ramp_run interp_f64 from to dur None (t :: ts) =
  map (fun x => ramp_ref interp_f64 from to dur (x - t)) (t :: ts).
Proof. exact (ramp_run_ref_default interp_f64). Qed.
Print Assumptions C10_ramp_refines.

Theorem C10_ramp_zero_after : forall from to dur e,
  dur < e -> ramp_ref interp_f64 from to dur e = 0.
Proof. exact (ramp_zero_after interp_f64). Qed.
Print Assumptions C10_ramp_zero_after.

Theorem C10_ramp_shape_partial : forall interp, interp_facts interp ->
  forall from to dur e1 e2,
  0 < dur -> 0 <= e1 <= e2 -> e2 <= dur ->
  Z.min from to <= ramp_ref interp from to dur e1 <= Z.max from to /\
  (from <= to -> ramp_ref interp from to dur e1 <= ramp_ref interp from to dur e2) /\
  (to <= from -> ramp_ref interp from to dur e2 <= ramp_ref interp from to dur e1).
Proof.
  intros interp [A B C D] from to dur e1 e2 Hd He H2. split.
  - apply (ramp_between interp A B); lia.
  - apply (ramp_monotone interp C D); lia.
Qed.
Print Assumptions C10_ramp_shape_partial.

(* Non-vacuity: a real profile, evaluated with the binary64 model. *)
Example C10_example :
  fst (staged_run [(0, 1); (10000000000, 1); (20000000000, 20)] None
                  [1000; 5000001000; 10000001000; 20000001000; 30000001000; 30000002000])
  = [1; 1; 1; 10; 0; 0] /\
  ramp_run_f64 1 101 10000000000 [500; 2500000500; 10000000500; 10000000501] = [1; 26; 101; 0].
Proof. vm_compute. split; reflexivity. Qed.
