(* C17 — iteration durations are aggregated exactly (sequential use).
   Only the property theorems; proofs are in Proofs/ProgressSeq.v.
   (The other half of C17 — where the clock is read relative to the body and
   the cleanups — is C17_measured_interval in Properties/C06.v's model of the
   iteration life cycle.) *)
From F1 Require Import Base.Prelude Model.Progress Proofs.ProgressSeq.
From Coq Require Import Sorted.

(* For any sequence of recorded positive durations per outcome, with
   snapshots and totals placed anywhere (leading, consecutive, ...): the j-th
   snapshot reports, for the lifetime, (integer mean, count, min, max) of ALL
   durations recorded before it, and for the period exactly those recorded
   since the previous snapshot; dropped counts likewise. ref_run computes that
   from the history alone. *)
Theorem C17_aggregate : forall ops, ops_pos ops ->
  stats_run stats0 ops = ref_run [] [] [] 0 ops.
Proof. exact stats_run_is_ref. Qed.
Print Assumptions C17_aggregate.

(* Lifetime counts never decrease from one snapshot to a later one. *)
Theorem C17_monotone_counts : forall ops, ops_pos ops ->
  StronglySorted snap_le (stats_run stats0 ops).
Proof. intros ops H. rewrite (stats_run_is_ref ops H). apply ref_counts_sorted. Qed.
Print Assumptions C17_monotone_counts.

(* min <= mean <= max whenever the count is positive. *)
Theorem C17_min_mean_max : forall l, l <> [] -> pos_list l ->
  let '(mean, cnt, mn, mx) := agg l in 0 < cnt /\ mn <= mean <= mx.
Proof. exact min_mean_max. Qed.
Print Assumptions C17_min_mean_max.

Example C17_example :
  stats_run stats0 [SRecord OSucc 30; SRecord OFail 7; SRecord OSucc 10; SSnapshot;
                    SRecord OSucc 25; SRecord ODrop 0; SSnapshot; SSnapshot; STotal]
  = [ (0, (20, 2, 10, 30), (20, 2, 10, 30), (7, 1, 7, 7));
      (1, (25, 1, 25, 25), (21, 3, 10, 30), (7, 1, 7, 7));
      (1, (0, 0, 0, 0), (21, 3, 10, 30), (7, 1, 7, 7));
      (1, (0, 0, 0, 0), (21, 3, 10, 30), (7, 1, 7, 7)) ].
Proof. vm_compute. reflexivity. Qed.
