(* C08 — pass/fail verdict and exit status follow the documented tolerances.
   This file contains only the property theorems; proofs are in Proofs/. *)
From F1 Require Import Base.Prelude Model.Verdict Proofs.VerdictProofs.

(* The verdict is defined (no crash, no error) for every combination of
   counts and options, zero iterations included. *)
Theorem C08_total : forall nerrs s f d o,
  exists b, failed_verdict nerrs s f d o = Ok b.
Proof. exact failed_verdict_total. Qed.
Print Assumptions C08_total.

(* ... and it is exactly the documented rule, compared as exact rationals. *)
Theorem C08_verdict : forall nerrs s f d o b,
  failed_verdict nerrs s f d o = Ok b ->
  (b = true <-> verdict_spec nerrs s f d o).
Proof. exact failed_verdict_spec. Qed.
Print Assumptions C08_verdict.

(* The CLI returns an error exactly when the verdict is "failed". *)
Theorem C08_cli : forall nerrs s f d o b,
  cli_returns_error nerrs s f d o = Ok b ->
  (b = true <-> verdict_spec nerrs s f d o).
Proof. exact cli_iff_verdict. Qed.
Print Assumptions C08_cli.

(* Non-vacuity: a concrete run on the boundary: 1 failure of 20 is exactly 5 %,
   not strictly greater, so it passes; 1 of 19 fails. *)
Example C08_boundary :
  failed_verdict 0 19 1 0 {| ign := false; mf := 0; mr := 5 |} = Ok false /\
  failed_verdict 0 18 1 0 {| ign := false; mf := 0; mr := 5 |} = Ok true /\
  failed_verdict 0 0 0 0 {| ign := false; mf := 0; mr := 5 |} = Ok false.
Proof. vm_compute. repeat split. Qed.
