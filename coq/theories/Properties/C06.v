(* C06 — lifecycle: setup once, iterations, LIFO cleanups exactly once,
   teardown last. Also the measured-interval half of C17.
   Only property theorems; proofs are in Proofs/TestingTProofs.v.

   Programs are arbitrary: any action list for setup, each body and each
   cleanup (which may fail, panic with any value, or register more cleanups). *)
From F1 Require Import Base.Prelude Model.TestingT Proofs.TestingTProofs.

(* One iteration, for ANY body, ANY cleanup table and ANY state the handle was
   left in: its events are  ClockA, BodyStart, the body's own events, BodyEnd,
   ClockB, Recorded f, then the cleanup phase, in which the cleanups registered
   by the body run exactly once each, in reverse registration order — also
   when the body fails or panics and when a cleanup fails or panics. *)
Theorem C06_iteration_cleanups : forall tab t body,
  let '(_, es, f) := iteration tab t body in
  exists ces,
    es = [EClockA; EBodyStart] ++ map EMark (marks body) ++ [EBodyEnd; EClockB; ERecorded f] ++ ces /\
    filter is_cleanup_ev ces = map ECleanup (rev (registered body)).
Proof.
  intros tab t body. pose proof (iteration_shape tab t body) as H.
  destruct (iteration tab t body) as [[t' es] f]. destruct H as (ces & A & B & _).
  exists ces. auto.
Qed.
Print Assumptions C06_iteration_cleanups.

(* A worker runs its iterations back to back: the events of the k-th
   iteration (its cleanups included) all precede the (k+1)-th BodyStart. *)
Theorem C06_worker_sequential : forall tab t bodies,
  fst (worker tab t bodies) = flat_map (iter_events tab) bodies.
Proof. intros. rewrite worker_blocks. reflexivity. Qed.
Print Assumptions C06_worker_sequential.

(* The run: setup exactly once and first; the iterations only if setup did not
   fail (Fail, FailNow or any panic); the setup's cleanups run exactly once in
   reverse order inside the teardown phase, which follows the iterations and
   precedes the return, whether or not setup failed; the run is reported failed
   iff setup failed or a setup cleanup failed. *)
Theorem C06_run_lifecycle : forall tab setup_acts,
  exists (sfailed tdf : bool) ces,
    run_do tab setup_acts =
      [ESetupStart; EClockA] ++ map EMark (marks setup_acts) ++ [EClockB; ESetupEnd; ESetupRecorded sfailed] ++
      (if sfailed then [] else [EIterations]) ++ [ETeardownStart] ++ ces ++ [ETeardownEnd; EReturn (sfailed || tdf)] /\
    sfailed = marks_failure setup_acts /\
    filter is_cleanup_ev ces = map ECleanup (rev (registered setup_acts)) /\
    tdf = existsb (fun c => marks_failure (tab c)) (rev (registered setup_acts)).
Proof. exact run_do_shape. Qed.
Print Assumptions C06_run_lifecycle.

(* C17, second half: the clock is read immediately before the body and
   immediately after it, before any cleanup runs: the measured interval
   contains the whole body and no cleanup. (Same statement as the first
   conjunct of C06_iteration_cleanups, named for C17.) *)
Theorem C17_measured_interval : forall tab t body,
  let '(_, es, f) := iteration tab t body in
  exists body_events ces,
    es = EClockA :: EBodyStart :: body_events ++ EBodyEnd :: EClockB :: ERecorded f :: ces /\
    filter is_cleanup_ev body_events = [] /\
    filter is_mark_ev body_events = body_events.
Proof.
  intros tab t body. pose proof (iteration_shape tab t body) as H.
  destruct (iteration tab t body) as [[t' es] f]. destruct H as (ces & A & _ & _).
  exists (map EMark (marks body)), ces. split; [rewrite A; reflexivity|].
  split; [apply filter_cleanup_marks|apply filter_mark_marks].
Qed.
Print Assumptions C17_measured_interval.

(* Non-vacuity: a body that registers two cleanups and then panics; cleanup 1
   panics too; both cleanups still run, last registered first. *)
Example C06_example :
  let tab := fun c => match c with 0%nat => [AMark 10] | 1%nat => [AMark 11; APanicVal; AMark 99] | _ => [] end in
  worker_obs tab [[ARegister 0; AMark 1; ARegister 1; APanicErr; AMark 2; ARegister 2]; [AMark 3]]
  = ([2; 3; 22; 1; 20; 6], [true; false]).
Proof. vm_compute. reflexivity. Qed.
