(* Terminal-state theorems and progress for the pool. *)
From F1 Require Import Base.Prelude Model.Pool Proofs.PoolBase Proofs.PoolCons Proofs.PoolSafety Proofs.PoolIds Proofs.PoolWake.
From Coq Require Import ZifyBool Lia Sorting.Permutation.

Lemma all_done_sum f l : f WDone = 0 -> forallb w_done l = true -> sumw f l = 0.
Proof.
  intros Hf. unfold sumw. induction l as [|w l IH]; intros H; [reflexivity|].
  cbn [forallb] in H. apply andb_true_iff in H as [H1 H2]. cbn [map]. rewrite zsum_cons, (IH H2).
  destruct w; cbn in H1; try discriminate. lia.
Qed.

Lemma all_done_transit l : forallb w_done l = true -> flat_map transit l = [].
Proof.
  induction l as [|w l IH]; intros H; [reflexivity|].
  cbn [forallb] in H. apply andb_true_iff in H as [H1 H2]. cbn [flat_map]. rewrite (IH H2).
  destruct w; cbn in H1; try discriminate. reflexivity.
Qed.

Lemma terminal_parts s : pterminal s = true ->
  forallb w_done (workers s) = true /\ tick s = TIdle [] /\ stopper s = SDone.
Proof.
  unfold pterminal. intros H. apply andb_true_iff in H as [H H3]. apply andb_true_iff in H as [H1 H2].
  split; [exact H1|]. split.
  - destruct (tick s) as [[|? ?]| | | | | |]; try discriminate. reflexivity.
  - destruct (stopper s); try discriminate. reflexivity.
Qed.

Theorem terminal_conservation s :
  Cons s -> Safe s -> Wake s -> pterminal s = true ->
  accepted s = started s + dropped s + discarded s /\ counter s <= 0.
Proof.
  intros C Sf Wk Ht. destruct (terminal_parts s Ht) as (Hw & Htk & Hst).
  unfold Cons in C. rewrite Htk, Hst in C. cbn [pend_t pend_s] in C.
  rewrite (all_done_sum inhand _ eq_refl Hw) in C.
  assert (Hsf : stopflag s = true) by (apply (wk_stop s Wk); rewrite Hst; reflexivity).
  assert (Hc : counter s <= 0).
  { destruct (Z.le_gt_cases (counter s) 0) as [Hle|Hgt]; [exact Hle|].
    pose proof (sf_halt s Sf Hsf ltac:(lia)) as Hh. rewrite Hst in Hh. cbn [halt_s] in Hh.
    rewrite (all_done_sum halt_w _ eq_refl Hw) in Hh. lia. }
  split; [lia|exact Hc].
Qed.

Theorem terminal_ids s :
  Ids s -> pterminal s = true ->
  let k := length (ids_issued s) in
  Permutation (ids_started s) (rdesc k) /\ started s = Z.of_nat k /\
  (0 < maxiter s -> Z.of_nat k <= maxiter s) /\
  (0 < maxiter s -> maxiter s < iter s -> Z.of_nat k = maxiter s) /\
  (0 < discarded s -> 0 < maxiter s /\ Z.of_nat k = maxiter s).
Proof.
  intros I Ht k. destruct (terminal_parts s Ht) as (Hw & _ & _).
  destruct I as [RG IT CP PM ST LP DS D0]. unfold glen in *. fold k in RG, IT, CP.
  rewrite (all_done_transit _ Hw), app_nil_r in PM.
  split; [rewrite <- RG; exact PM|].
  split; [rewrite ST; rewrite (Permutation_length PM); reflexivity|].
  split; [exact CP|]. split.
  - intros Hm Hlt. destruct IT as [IT|IT]; [specialize (CP Hm); lia|lia].
  - intros Hd. destruct (DS Hd) as [Hm Hlt]. split; [exact Hm|].
    destruct IT as [IT|IT]; [specialize (CP Hm); lia|lia].
Qed.

(* ---- C04 *)

Lemma upd_length {A} : forall (l : list A) i x, length (upd l i x) = length l.
Proof. induction l as [|y l IH]; intros [|i] x; cbn; auto. Qed.

Lemma workers_length_step s l s' : pstep s l = Some s' -> length (workers s') = length (workers s).
Proof.
  intros H. step_cases H; psimpl; rewrite ?upd_length, ?map_length; reflexivity.
Qed.

Lemma workers_length_exec : forall ls s, length (workers (pexec s ls)) = length (workers s).
Proof.
  induction ls as [|l ls IH]; intros s; [reflexivity|].
  cbn [pexec fold_left]. destruct (pstep s l) as [s'|] eqn:E; [|apply IH].
  fold (pexec s' ls). rewrite IH. eapply workers_length_step; eauto.
Qed.

Lemma zcount_le_length {A} (p : A -> bool) l : zcount p l <= Z.of_nat (length l).
Proof. induction l as [|x l IH]; cbn [zcount length]; [lia|]. destruct (p x); lia. Qed.

(* ---- progress: with the context cancelled, a non-terminal state can always move *)

Lemma sumw_pos_exists f : (forall w, 0 <= f w) -> forall l, 0 < sumw f l ->
  exists i w, nth_error l i = Some w /\ 0 < f w.
Proof.
  intros Hf. unfold sumw. induction l as [|y l IH]; intros H; [cbn in H; lia|].
  cbn [map] in H. rewrite zsum_cons in H.
  destruct (Z.lt_ge_cases 0 (f y)) as [Hy|Hy].
  - exists 0%nat, y. split; [reflexivity|exact Hy].
  - pose proof (Hf y). destruct (IH ltac:(lia)) as (i & w & A & B). exists (S i), w. split; assumption.
Qed.

Definition w_stuck (w : wpc) : Z := match w with WWait | WDone => 0 | _ => 1 end.
Lemma w_stuck_nonneg w : 0 <= w_stuck w. Proof. destruct w; cbn; lia. Qed.

Lemma not_all_done_or_waiting l :
  forallb w_done l = false -> sumw waiting l = 0 -> 0 < sumw w_stuck l.
Proof.
  unfold sumw. induction l as [|w l IH]; intros H Hw; [discriminate|].
  cbn [forallb] in H. cbn [map] in *. rewrite zsum_cons in *.
  pose proof (sumw_nonneg waiting waiting_nonneg l) as H0. unfold sumw in H0.
  pose proof (sumw_nonneg w_stuck w_stuck_nonneg l) as H1. unfold sumw in H1.
  pose proof (waiting_nonneg w).
  destruct (w_done w) eqn:Ed.
  - cbn [andb] in H. specialize (IH H ltac:(lia)). pose proof (w_stuck_nonneg w). lia.
  - destruct w; cbn [w_done waiting w_stuck] in *; try discriminate; lia.
Qed.

Theorem progress s :
  Safe s -> Wake s -> ctx_done s = true -> pterminal s = false ->
  exists l s', pstep s l = Some s'.
Proof.
  intros Sf Wk Hcd Hnt.
  pose proof (sf_mutex s Sf) as MU.
  pose proof (sumw_nonneg reg_w reg_w_nonneg (workers s)) as Hr0.
  pose proof (reg_t_bounds (tick s)) as Hrt. pose proof (reg_s_bounds (stopper s)) as Hrs.
  destruct (lock_free s) eqn:Elf.
  - (* lock free *)
    assert (Hregw : forall i w, nth_error (workers s) i = Some w -> reg_w w = 0).
    { intros i w En. pose proof (sumw_ge reg_w reg_w_nonneg _ _ _ En). pose proof (reg_w_nonneg w). lia. }
    destruct (tick s) as [[|n rest]|n rest|n rest|n rest|d rest|d rest|d rest] eqn:Et;
      try (exists PTick; cbn [pstep]; unfold tick_step; rewrite Et, ?Hcd, ?Elf; eexists; reflexivity);
      try (cbn [reg_t] in *; exfalso; lia).
    destruct (stopper s) as [| | | |d|d|d|] eqn:Est;
      try (exists PStop; cbn [pstep]; unfold stop_step; rewrite Est, ?Hcd, ?Elf; eexists; reflexivity);
      try (cbn [reg_s] in *; exfalso; lia).
    (* ticker and stopper are done: some worker is not *)
    assert (Hw : forallb w_done (workers s) = false).
    { unfold pterminal in Hnt. rewrite Et, Est in Hnt. destruct (forallb w_done (workers s)); [discriminate|reflexivity]. }
    assert (Hwait0 : sumw waiting (workers s) = 0).
    { pose proof (sumw_nonneg waiting waiting_nonneg (workers s)) as Hn.
      destruct (Z.eq_dec (sumw waiting (workers s)) 0) as [E|E]; [exact E|].
      assert (Hsf : stopflag s = true) by (apply (wk_stop s Wk); rewrite Est; reflexivity).
      pose proof (wk_wait s Wk Hsf ltac:(lia)) as Hh. rewrite Est in Hh. cbn [halt2_s] in Hh.
      destruct (sumw_pos_exists halt2_w halt2_w_nonneg (workers s) ltac:(lia)) as (i & w & En & Hp).
      pose proof (Hregw i w En) as Hz. destruct w; cbn [halt2_w reg_w] in *; lia. }
    destruct (sumw_pos_exists w_stuck w_stuck_nonneg _ (not_all_done_or_waiting _ Hw Hwait0)) as (i & w & En & Hp).
    pose proof (Hregw i w En) as Hrg.
    exists (PWorker i). cbn [pstep]. unfold worker_step. rewrite En.
    destruct w; cbn in Hp, Hrg; try lia; rewrite ?Elf;
      try (destruct (stopflag s)); try (destruct (counter s <=? 0)); try (destruct (0 <=? counter s - 1));
      try (destruct ((0 <? maxiter s) && (maxiter s <? iter s + 1))); eexists; reflexivity.
  - (* the lock is held: its holder can move *)
    destruct (Z.eq_dec (reg_t (tick s)) 1) as [Ht|Ht].
    { exists PTick. cbn [pstep]. unfold tick_step.
      destruct (tick s) as [[|n rest]|n rest|n rest|n rest|d rest|d rest|d rest]; cbn in Ht; try lia;
        try (destruct (stopflag s)); try (destruct (exhausted s)); eexists; reflexivity. }
    destruct (Z.eq_dec (reg_s (stopper s)) 1) as [Hs|Hs].
    { exists PStop. cbn [pstep]. unfold stop_step.
      destruct (stopper s); cbn in Hs; try lia; try (destruct (exhausted s)); eexists; reflexivity. }
    destruct (sumw_pos_exists reg_w reg_w_nonneg (workers s) ltac:(lia)) as (i & w & En & Hp).
    exists (PWorker i). cbn [pstep]. unfold worker_step. rewrite En.
    destruct w; cbn in Hp; try lia;
      try (destruct (stopflag s)); try (destruct (counter s <=? 0)); eexists; reflexivity.
Qed.
