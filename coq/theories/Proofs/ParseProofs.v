From Coq Require Import String.
From F1 Require Import Base.Prelude Base.F64 Base.GoStr Base.GoTime Model.Distribution Model.RateParse Model.ConfigFile.
From Coq Require Import ZifyBool Lia.

(* ---------------------------------------------------------------- rates *)

Lemma parse_rate_no_crash s : parse_rate s <> Crash.
Proof.
  unfold parse_rate.
  destruct (index_byte 47 s) as [i|].
  - destruct (atoi (firstn i s)) as [rate|]; [|discriminate].
    destruct (rate <? 0); [discriminate|].
    destruct (skipn (S i) s) as [|c r]; [discriminate|].
    destruct (parse_duration _) as [u|]; [|discriminate].
    destruct (u <=? 0); discriminate.
  - destruct (atoi s) as [rate|]; [|discriminate]. destruct (rate <? 0); discriminate.
Qed.

Lemma parse_rate_wf s n u : parse_rate s = Ok (n, u) -> 0 <= n /\ 0 < u.
Proof.
  unfold parse_rate.
  destruct (index_byte 47 s) as [i|].
  - destruct (atoi (firstn i s)) as [rate|]; [|discriminate].
    destruct (rate <? 0) eqn:E; [discriminate|].
    destruct (skipn (S i) s) as [|c r]; [discriminate|].
    destruct (parse_duration _) as [u'|]; [|discriminate].
    destruct (u' <=? 0) eqn:E2; [discriminate|]. intros H. injection H as <- <-. lia.
  - destruct (atoi s) as [rate|]; [|discriminate]. destruct (rate <? 0) eqn:E; [discriminate|].
    intros H. injection H as <- <-. unfold second. lia.
Qed.

(* what a rate string spells *)
Inductive spells : str -> Z -> Z -> Prop :=
| SpBare : forall s n,                       (* "N": N per second *)
    index_byte 47 s = None -> atoi s = Some n -> 0 <= n -> spells s n second
| SpDuration : forall s i n c r u,           (* "N/<duration>": N per that duration *)
    index_byte 47 s = Some i -> atoi (firstn i s) = Some n -> 0 <= n ->
    skipn (S i) s = c :: r -> (is_digit c = true \/ c = 46) ->
    parse_duration (c :: r) = Some u -> 0 < u -> spells s n u
| SpUnit : forall s i n c r u,               (* "N/<unit>": N per one of that unit *)
    index_byte 47 s = Some i -> atoi (firstn i s) = Some n -> 0 <= n ->
    skipn (S i) s = c :: r -> is_digit c = false -> c <> 46 ->
    parse_duration (49 :: c :: r) = Some u -> 0 < u -> spells s n u.

Lemma parse_rate_means s n u : parse_rate s = Ok (n, u) <-> spells s n u.
Proof.
  split.
  - unfold parse_rate. intros H.
    destruct (index_byte 47 s) as [i|] eqn:Ei.
    + destruct (atoi (firstn i s)) as [rate|] eqn:Ea; [|discriminate].
      destruct (rate <? 0) eqn:En; [discriminate|].
      destruct (skipn (S i) s) as [|c r] eqn:Es; [discriminate|].
      destruct (negb (is_digit c) && negb (c =? 46)) eqn:Ep.
      * destruct (parse_duration (49 :: c :: r)) as [u'|] eqn:Ed; [|discriminate].
        destruct (u' <=? 0) eqn:Eu; [discriminate|]. injection H as <- <-.
        apply andb_true_iff in Ep as [P1 P2].
        assert (Hnd : is_digit c = false) by (destruct (is_digit c); [discriminate|reflexivity]).
        eapply SpUnit; eauto; try lia.
      * destruct (parse_duration (c :: r)) as [u'|] eqn:Ed; [|discriminate].
        destruct (u' <=? 0) eqn:Eu; [discriminate|]. injection H as <- <-.
        assert (Hc : is_digit c = true \/ c = 46).
        { destruct (is_digit c) eqn:E1; [left; reflexivity|right]. cbn in Ep. lia. }
        eapply SpDuration; eauto; try lia.
    + destruct (atoi s) as [rate|] eqn:Ea; [|discriminate].
      destruct (rate <? 0) eqn:En; [discriminate|]. injection H as <- <-.
      apply SpBare; auto. lia.
  - intros H. unfold parse_rate. destruct H as [s n Hi Ha Hn | s i n c r u Hi Ha Hn Hs Hc Hd Hu | s i n c r u Hi Ha Hn Hs Hc1 Hc2 Hd Hu].
    + rewrite Hi, Ha. replace (n <? 0) with false by lia. reflexivity.
    + rewrite Hi, Ha, Hs. replace (n <? 0) with false by lia.
      assert (Hp : negb (is_digit c) && negb (c =? 46) = false).
      { destruct Hc as [Hc|Hc]; [rewrite Hc; reflexivity|subst c; destruct (is_digit 46); reflexivity]. }
      rewrite Hp, Hd. replace (u <=? 0) with false by lia. reflexivity.
    + rewrite Hi, Ha, Hs. replace (n <? 0) with false by lia.
      assert (Hp : negb (is_digit c) && negb (c =? 46) = true).
      { rewrite Hc1. cbn. destruct (c =? 46) eqn:E; [lia|reflexivity]. }
      rewrite Hp, Hd. replace (u <=? 0) with false by lia. reflexivity.
Qed.

(* ---------------------------------------------------------------- constructors *)

Lemma new_dist_positive k interval iv m :
  0 < interval -> new_distribution k interval = Ok (iv, m) -> 0 < iv.
Proof.
  intros Hp. unfold new_distribution, ms100.
  destruct k; try discriminate.
  - intros H. injection H as <- _. exact Hp.
  - destruct (interval <=? 100 * 1000000); intros H; injection H as <- _; lia.
  - destruct (interval <=? 100 * 1000000); intros H; injection H as <- _; lia.
Qed.

Lemma with_distribution_positive dist interval d total r :
  0 < interval -> with_distribution dist interval d total = Ok r -> 0 < r_interval r.
Proof.
  intros Hp. unfold with_distribution.
  destruct (new_distribution (dkind_of_str dist) interval) as [[iv m]| |] eqn:E; try discriminate.
  intros H. injection H as <-. cbn. eapply new_dist_positive; eauto.
Qed.

Lemma calc_constant_runnable rate dist r : calc_constant rate dist = Ok r -> runnable_rates r.
Proof.
  unfold calc_constant. destruct (parse_rate rate) as [[n u]| |] eqn:E; try discriminate.
  intros H. destruct (parse_rate_wf _ _ _ E). eapply with_distribution_positive; eauto.
Qed.

Lemma calc_ramp_runnable a b dist dur r : calc_ramp a b dist dur = Ok r -> runnable_rates r.
Proof.
  unfold calc_ramp. destruct (parse_rate a) as [[n u]| |] eqn:E; try discriminate.
  destruct (parse_rate b) as [[n' u']| |] eqn:E'; try discriminate.
  destruct (n =? n'); [discriminate|]. destruct (negb (u =? u')); [discriminate|].
  destruct (dur <? u); [discriminate|].
  intros H. destruct (parse_rate_wf _ _ _ E). eapply with_distribution_positive; eauto.
Qed.

Lemma calc_staged_runnable freq stg dist r : calc_staged freq stg dist = Ok r -> runnable_rates r.
Proof.
  unfold calc_staged. destruct (freq <=? 0) eqn:E; [discriminate|].
  destruct (parse_stages stg) as [l| |]; try discriminate.
  intros H. eapply with_distribution_positive; eauto. lia.
Qed.

Lemma calc_gaussian_runnable freq sd wok dist r : calc_gaussian freq sd wok dist = Ok r -> runnable_rates r.
Proof.
  unfold calc_gaussian. destruct (freq <=? 0) eqn:E; [discriminate|].
  destruct (negb wok); [discriminate|]. destruct (sd <=? 0); [discriminate|].
  intros H. eapply with_distribution_positive; eauto. lia.
Qed.

(* ---------------------------------------------------------------- config stages *)

Ltac need_tac H :=
  repeat match type of H with
  | need ?o _ = Ok _ => let E := fresh "E" in destruct o eqn:E; cbn [need] in H; [|discriminate]
  end.

Lemma parse_stage_ok s d dur mode rs :
  parse_stage s d dur mode = Ok rs -> rs_duration rs = dur /\ runnable_stage rs.
Proof.
  unfold parse_stage. intros H.
  destruct (str_eqb mode (s_of "constant")).
  { need_tac H. destruct (calc_constant _ _) as [r| |] eqn:Ec; cbn [res_bind] in H; try discriminate.
    injection H as <-. cbn. split; [reflexivity|]. left. split; [reflexivity|].
    apply (calc_constant_runnable _ _ _ Ec). }
  destruct (str_eqb mode (s_of "ramp")).
  { need_tac H. destruct (calc_ramp _ _ _ _) as [r| |] eqn:Ec; cbn [res_bind] in H; try discriminate.
    injection H as <-. cbn. split; [reflexivity|]. left. split; [reflexivity|].
    apply (calc_ramp_runnable _ _ _ _ _ Ec). }
  destruct (str_eqb mode (s_of "staged")).
  { need_tac H. destruct (calc_staged _ _ _) as [r| |] eqn:Ec; cbn [res_bind] in H; try discriminate.
    injection H as <-. cbn. split; [reflexivity|]. left. split; [reflexivity|].
    apply (calc_staged_runnable _ _ _ _ Ec). }
  destruct (str_eqb mode (s_of "gaussian")).
  { need_tac H. destruct (calc_gaussian _ _ _ _) as [r| |] eqn:Ec; cbn [res_bind] in H; try discriminate.
    injection H as <-. cbn. split; [reflexivity|]. left. split; [reflexivity|].
    apply (calc_gaussian_runnable _ _ _ _ _ Ec). }
  destruct (str_eqb mode (s_of "users")); [|discriminate].
  destruct (fld sc_concurrency s d) as [c|] eqn:Ecc; cbn [need] in H; [|discriminate].
  destruct (c <? 1) eqn:Ez; [discriminate|].
  injection H as <-. cbn. split; [reflexivity|]. right. cbn. split; [lia|reflexivity].
Qed.

(* which durations are kept, computed from the durations alone *)
Fixpoint kept_durs (start : option Z) (now cum : Z) (durs : list Z) : list Z :=
  match durs with
  | [] => []
  | dur :: r =>
    let cum' := cum + dur in
    (if match start with None => true | Some t0 => now <? t0 + cum' end then [dur] else [])
    ++ kept_durs start now cum' r
  end.

Lemma loop_spec d start now : forall l cum rs total,
  parse_stages_loop d start now cum l = Ok (rs, total) ->
  exists durs,
    Forall2 (fun s dur => fld sc_duration s d = Some dur) l durs /\
    total = cum + zsum durs /\
    map rs_duration rs = kept_durs start now cum durs /\
    Forall runnable_stage rs.
Proof.
  induction l as [|s l IH]; intros cum rs total H.
  - cbn in H. injection H as <- <-. exists []. cbn. repeat split; try constructor; lia.
  - cbn [parse_stages_loop] in H.
    destruct (fld sc_duration s d) as [dur|] eqn:Ed; cbn [need] in H; [|discriminate].
    destruct (fld sc_mode s d) as [mode|] eqn:Em; cbn [need] in H; [|discriminate].
    set (keep := match start with None => true | Some t0 => now <? t0 + (cum + dur) end) in *.
    destruct keep eqn:Ek.
    + destruct (parse_stage s d dur mode) as [r1| |] eqn:Ep; cbn [res_map res_bind] in H; try discriminate.
      destruct (parse_stages_loop d start now (cum + dur) l) as [[rest tot]| |] eqn:El; cbn [res_bind] in H; try discriminate.
      injection H as <- <-.
      destruct (IH _ _ _ El) as (durs & F & T & M & R).
      destruct (parse_stage_ok _ _ _ _ _ Ep) as [Hd Hr].
      exists (dur :: durs). split; [constructor; assumption|].
      split; [rewrite zsum_cons; lia|]. split.
      * cbn [kept_durs app map]. fold keep. rewrite Ek. cbn [app]. rewrite Hd, M. reflexivity.
      * constructor; assumption.
    + cbn [res_bind] in H.
      destruct (parse_stages_loop d start now (cum + dur) l) as [[rest tot]| |] eqn:El; cbn [res_bind] in H; try discriminate.
      injection H as <- <-.
      destruct (IH _ _ _ El) as (durs & F & T & M & R).
      exists (dur :: durs). split; [constructor; assumption|].
      split; [rewrite zsum_cons; lia|]. split.
      * cbn [kept_durs app]. fold keep. rewrite Ek. cbn [app]. exact M.
      * exact R.
Qed.

Lemma kept_all now : forall durs cum, kept_durs None now cum durs = durs.
Proof. induction durs as [|x r IH]; intros cum; cbn; [reflexivity|]. rewrite IH. reflexivity. Qed.

(* defaults: a stage is parsed from the field-wise merge of its own section
   and the default one *)
Definition merge (s d : stage_cfg) : stage_cfg :=
  {| sc_mode := fld sc_mode s d; sc_start_rate := fld sc_start_rate s d; sc_end_rate := fld sc_end_rate s d;
     sc_rate := fld sc_rate s d; sc_distribution := fld sc_distribution s d; sc_weights := fld sc_weights s d;
     sc_stages := fld sc_stages s d; sc_concurrency := fld sc_concurrency s d; sc_jitter := fld sc_jitter s d;
     sc_volume := fld sc_volume s d; sc_duration := fld sc_duration s d; sc_iter_freq := fld sc_iter_freq s d;
     sc_repeat := fld sc_repeat s d; sc_peak := fld sc_peak s d; sc_stddev := fld sc_stddev s d;
     sc_params := fld sc_params s d |}.

Definition empty_stage : stage_cfg :=
  {| sc_mode := None; sc_start_rate := None; sc_end_rate := None; sc_rate := None; sc_distribution := None;
     sc_weights := None; sc_stages := None; sc_concurrency := None; sc_jitter := None; sc_volume := None;
     sc_duration := None; sc_iter_freq := None; sc_repeat := None; sc_peak := None; sc_stddev := None;
     sc_params := None |}.

Lemma fld_merge {A} (f : stage_cfg -> option A) s d :
  f (merge s d) = fld f s d -> f empty_stage = None -> fld f (merge s d) empty_stage = fld f s d.
Proof. intros H H0. unfold fld at 1. rewrite H, H0. unfold orelse. destruct (fld f s d); reflexivity. Qed.

Lemma parse_stage_defaults s d dur mode :
  parse_stage s d dur mode = parse_stage (merge s d) empty_stage dur mode.
Proof.
  unfold parse_stage, params_of.
  rewrite !fld_merge by reflexivity. reflexivity.
Qed.

(* the jitter in force for a rate stage: the stage's own if present (even 0), else the default's *)
Lemma parse_stage_jitter s d dur mode rs :
  parse_stage s d dur mode = Ok rs -> rs_users rs = 0 ->
  rs_jitter rs = match sc_jitter s with
                 | Some j => j
                 | None => match sc_jitter d with Some j => j | None => 0 end
                 end.
Proof.
  unfold parse_stage. intros H Hu.
  assert (J : match fld sc_jitter s d with Some j => j | None => 0 end =
              match sc_jitter s with Some j => j | None => match sc_jitter d with Some j => j | None => 0 end end).
  { unfold fld, orelse. destruct (sc_jitter s); reflexivity. }
  rewrite <- J. clear J.
  repeat match type of H with
  | (if ?c then _ else _) = _ => destruct c eqn:?
  | need ?o _ = _ => destruct o; cbn [need] in H; [|discriminate]
  | res_bind ?r _ = _ => destruct r; cbn [res_bind] in H; [|discriminate|discriminate]
  | Ok _ = Ok _ => injection H as <-; cbn [rs_jitter rs_users] in *; try reflexivity; try lia
  | Err = Ok _ => discriminate
  end.
Qed.

(* ---------------------------------------------------------------- no crash *)

Lemma with_distribution_no_crash dist interval d total : with_distribution dist interval d total <> Crash.
Proof.
  unfold with_distribution, new_distribution.
  destruct (dkind_of_str dist); try discriminate; destruct (interval <=? ms100); discriminate.
Qed.

Lemma calc_constant_no_crash rate dist : calc_constant rate dist <> Crash.
Proof.
  unfold calc_constant. pose proof (parse_rate_no_crash rate).
  destruct (parse_rate rate) as [[n u]| |]; try discriminate; try congruence.
  apply with_distribution_no_crash.
Qed.

Lemma calc_ramp_no_crash a b dist dur : calc_ramp a b dist dur <> Crash.
Proof.
  unfold calc_ramp. pose proof (parse_rate_no_crash a). pose proof (parse_rate_no_crash b).
  destruct (parse_rate a) as [[n u]| |]; try discriminate; try congruence.
  destruct (parse_rate b) as [[n' u']| |]; try discriminate; try congruence.
  destruct (n =? n'); [discriminate|]. destruct (negb (u =? u')); [discriminate|].
  destruct (dur <? u); [discriminate|]. apply with_distribution_no_crash.
Qed.

Lemma parse_stages_no_crash s : parse_stages s <> Crash.
Proof.
  unfold parse_stages. induction (split_byte 44 s) as [|e es IHe]; cbn [map res_all]; [discriminate|].
  unfold parse_stage_elem at 1.
  destruct (split_byte 58 (trim_space e)) as [|a [|b [|? ?]]]; try discriminate.
  destruct (parse_duration (trim_space a)); try discriminate.
  destruct (atoi (trim_space b)); try discriminate.
  destruct (res_all _); try discriminate. congruence.
Qed.

Lemma calc_staged_no_crash freq stg dist : calc_staged freq stg dist <> Crash.
Proof.
  unfold calc_staged. destruct (freq <=? 0); [discriminate|].
  pose proof (parse_stages_no_crash stg).
  destruct (parse_stages stg); try discriminate; try congruence. apply with_distribution_no_crash.
Qed.

Lemma calc_gaussian_no_crash freq sd wok dist : calc_gaussian freq sd wok dist <> Crash.
Proof.
  unfold calc_gaussian. destruct (freq <=? 0); [discriminate|]. destruct (negb wok); [discriminate|].
  destruct (sd <=? 0); [discriminate|]. apply with_distribution_no_crash.
Qed.

Lemma res_bind_no_crash {A B} (r : res A) (k : A -> res B) :
  r <> Crash -> (forall a, k a <> Crash) -> res_bind r k <> Crash.
Proof. destruct r; cbn; auto; discriminate. Qed.

Lemma need_no_crash {A B} (o : option A) (k : A -> res B) :
  (forall a, k a <> Crash) -> need o k <> Crash.
Proof. destruct o; cbn; auto; discriminate. Qed.

Lemma parse_stage_no_crash s d dur mode : parse_stage s d dur mode <> Crash.
Proof.
  unfold parse_stage.
  destruct (str_eqb mode (s_of "constant")).
  { repeat (apply need_no_crash; intros ?). apply res_bind_no_crash; [apply calc_constant_no_crash|discriminate]. }
  destruct (str_eqb mode (s_of "ramp")).
  { repeat (apply need_no_crash; intros ?). apply res_bind_no_crash; [apply calc_ramp_no_crash|discriminate]. }
  destruct (str_eqb mode (s_of "staged")).
  { repeat (apply need_no_crash; intros ?). apply res_bind_no_crash; [apply calc_staged_no_crash|discriminate]. }
  destruct (str_eqb mode (s_of "gaussian")).
  { repeat (apply need_no_crash; intros ?). apply res_bind_no_crash; [apply calc_gaussian_no_crash|discriminate]. }
  destruct (str_eqb mode (s_of "users")); [|discriminate].
  apply need_no_crash. intros c. destruct (c <? 1); discriminate.
Qed.

Lemma loop_no_crash d start now : forall l cum, parse_stages_loop d start now cum l <> Crash.
Proof.
  induction l as [|s l IH]; intros cum; cbn [parse_stages_loop]; [discriminate|].
  apply need_no_crash. intros dur. apply need_no_crash. intros mode.
  apply res_bind_no_crash.
  - destruct (match start with None => true | Some t0 => now <? t0 + (cum + dur) end); [|discriminate].
    pose proof (parse_stage_no_crash s d dur mode). destruct (parse_stage s d dur mode); cbn; try discriminate; congruence.
  - intros here. apply res_bind_no_crash; [apply IH|]. intros [rest total]. discriminate.
Qed.

Lemma parse_config_no_crash c now : parse_config c now <> Crash.
Proof.
  unfold parse_config.
  apply need_no_crash; intros scen. apply need_no_crash; intros maxd. apply need_no_crash; intros conc.
  destruct (conc <? 1); [discriminate|].
  apply need_no_crash; intros maxi. apply need_no_crash; intros ign.
  destruct (c_stages c) as [|s0 l0] eqn:Es; [discriminate|].
  apply res_bind_no_crash; [apply loop_no_crash|]. intros [stages total]. discriminate.
Qed.
