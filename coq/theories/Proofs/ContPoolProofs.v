From F1 Require Import Base.Prelude Model.ContPool Proofs.PoolIds.
From Coq Require Import ZifyBool Lia Sorting.Permutation.

Definition ktransit (w : cpc') : list Z := match w with K2 id => [id] | _ => [] end.

Lemma kflat_upd : forall l i old x,
  nth_error l i = Some old ->
  Permutation (ktransit old ++ flat_map ktransit (cupd l i x)) (ktransit x ++ flat_map ktransit l).
Proof.
  induction l as [|y l IH]; intros i old x H; [destruct i; discriminate|].
  destruct i as [|i]; cbn in H.
  - injection H as ->. cbn [cupd flat_map]. rewrite !app_assoc. apply Permutation_app_tail. apply Permutation_app_comm.
  - cbn [cupd flat_map]. specialize (IH i old x H).
    rewrite !app_assoc.
    rewrite (Permutation_app_comm (ktransit old) (ktransit y)), (Permutation_app_comm (ktransit x) (ktransit y)).
    rewrite <- !app_assoc. apply Permutation_app_head. exact IH.
Qed.

Definition kglen (s : cstate) : Z := Z.of_nat (length (k_issued s)).

Record KIds (s : cstate) : Prop := {
  ki_range : k_issued s = rdesc (length (k_issued s));
  ki_iter : k_iter s = kglen s \/ (0 < k_max s /\ kglen s = k_max s /\ k_max s < k_iter s);
  ki_cap : 0 < k_max s -> kglen s <= k_max s;
  ki_perm : Permutation (k_started s ++ flat_map ktransit (k_workers s)) (k_issued s)
}.

Lemma kflat_repeat n : flat_map ktransit (repeat K0 n) = [].
Proof. induction n; cbn; auto. Qed.

Lemma kids_init n m : KIds (cinit n m).
Proof. constructor; unfold cinit, kglen; cbn; rewrite ?kflat_repeat; auto; try lia. Qed.

Lemma kids_step s l s' : KIds s -> cstep s l = Some s' -> KIds s'.
Proof.
  intros [RG IT CP PM] H. destruct l as [i| |]; cbn [cstep] in H.
  - destruct (nth_error (k_workers s) i) as [w|] eqn:En; [|discriminate].
    destruct w as [| |id|id| |]; try discriminate.
    + destruct (k_stop s); injection H as <-; constructor; unfold kglen in *; cbn in *; auto;
        pose proof (kflat_upd _ _ _ KDone En) as Hp; pose proof (kflat_upd _ _ _ K1 En) as Hq; cbn [ktransit app] in *;
        first [rewrite Hp; exact PM | rewrite Hq; exact PM].
    + destruct ((0 <? k_max s) && (k_max s <? k_iter s + 1)) eqn:El; injection H as <-; constructor; unfold kglen in *; cbn [k_stop k_iter k_max k_ctx_done k_workers k_started k_issued length] in *.
      * exact RG.
      * right. destruct IT as [IT|IT]; [specialize (CP ltac:(lia)); lia|lia].
      * exact CP.
      * pose proof (kflat_upd _ _ _ KCancel En) as Hp. cbn [ktransit app] in Hp. rewrite Hp. exact PM.
      * assert (Hit : k_iter s = Z.of_nat (length (k_issued s))) by (destruct IT as [IT|IT]; lia).
        cbn [rdesc]. rewrite <- RG. f_equal. lia.
      * left. assert (Hit : k_iter s = Z.of_nat (length (k_issued s))) by (destruct IT as [IT|IT]; lia). lia.
      * intros Hm. assert (Hit : k_iter s = Z.of_nat (length (k_issued s))) by (destruct IT as [IT|IT]; lia). lia.
      * pose proof (kflat_upd _ _ _ (K2 (k_iter s + 1)) En) as Hp. cbn [ktransit app] in Hp.
        rewrite Hp. rewrite <- Permutation_middle. constructor. exact PM.
    + injection H as <-. constructor; unfold kglen in *; cbn [k_stop k_iter k_max k_ctx_done k_workers k_started k_issued] in *; auto.
      pose proof (kflat_upd _ _ _ (K3 id) En) as Hp. cbn [ktransit app] in Hp.
      cbn [app]. rewrite <- PM. rewrite <- Hp. rewrite <- Permutation_middle. reflexivity.
    + injection H as <-. constructor; unfold kglen in *; cbn [k_stop k_iter k_max k_ctx_done k_workers k_started k_issued] in *; auto.
      pose proof (kflat_upd _ _ _ K0 En) as Hp. cbn [ktransit app] in Hp. rewrite Hp. exact PM.
    + injection H as <-. constructor; unfold kglen in *; cbn [k_stop k_iter k_max k_ctx_done k_workers k_started k_issued] in *; auto.
      pose proof (kflat_upd _ _ _ KDone En) as Hp. cbn [ktransit app] in Hp. rewrite Hp. exact PM.
  - destruct (k_ctx_done s && negb (k_stop s)); [|discriminate]. injection H as <-. constructor; unfold kglen in *; cbn; auto.
  - injection H as <-. constructor; unfold kglen in *; cbn; auto.
Qed.

Theorem kids_exec : forall ls s, KIds s -> KIds (cexec s ls).
Proof.
  induction ls as [|l ls IH]; intros s I; [exact I|].
  cbn [cexec fold_left]. destruct (cstep s l) as [s'|] eqn:E; [apply IH; eapply kids_step; eauto|apply IH; exact I].
Qed.

Lemma k_all_done_transit l : forallb k_done l = true -> flat_map ktransit l = [].
Proof.
  induction l as [|w l IH]; intros H; [reflexivity|].
  cbn [forallb] in H. apply andb_true_iff in H as [H1 H2]. cbn [flat_map]. rewrite (IH H2).
  destruct w; cbn in H1; try discriminate. reflexivity.
Qed.

Lemma cupd_length {A} : forall (l : list A) i x, length (cupd l i x) = length l.
Proof. induction l as [|y l IH]; intros [|i] x; cbn; auto. Qed.

Lemma k_workers_length_step s l s' : cstep s l = Some s' -> length (k_workers s') = length (k_workers s).
Proof.
  intros H. destruct l as [i| |]; cbn [cstep] in H.
  - destruct (nth_error (k_workers s) i) as [w|]; [|discriminate].
    destruct w; try discriminate; try (destruct (k_stop s)); try (destruct ((0 <? k_max s) && (k_max s <? k_iter s + 1)));
      injection H as <-; cbn; apply cupd_length.
  - destruct (k_ctx_done s && negb (k_stop s)); [|discriminate]. injection H as <-. reflexivity.
  - injection H as <-. reflexivity.
Qed.

Lemma k_workers_length_exec : forall ls s, length (k_workers (cexec s ls)) = length (k_workers s).
Proof.
  induction ls as [|l ls IH]; intros s; [reflexivity|].
  cbn [cexec fold_left]. destruct (cstep s l) as [s'|] eqn:E; [|apply IH].
  fold (cexec s' ls). rewrite IH. eapply k_workers_length_step; eauto.
Qed.

(* when nobody cancels from outside, the pool stops only because the limit was exceeded *)
Definition no_env_cancel (ls : list clabel) : Prop := Forall (fun l => l <> CCancelEnv) ls.

Record KLim (s : cstate) : Prop := {
  kl_ctx : k_ctx_done s = true -> 0 < k_max s /\ k_max s < k_iter s;
  kl_stop : k_stop s = true -> k_ctx_done s = true;
  kl_done : (exists i, nth_error (k_workers s) i = Some KDone) -> k_ctx_done s = true;
  kl_cancel : (exists i, nth_error (k_workers s) i = Some KCancel) -> 0 < k_max s /\ k_max s < k_iter s
}.

Lemma nth_cupd {A} : forall (l : list A) i j x,
  nth_error (cupd l i x) j = if Nat.eqb i j then (match nth_error l i with Some _ => Some x | None => None end) else nth_error l j.
Proof.
  induction l as [|y l IH]; intros i j x.
  - cbn. destruct i, j; cbn; try reflexivity. destruct (Nat.eqb i j); reflexivity.
  - destruct i as [|i], j as [|j]; cbn; try reflexivity. apply IH.
Qed.

Lemma klim_init n m : KLim (cinit n m).
Proof.
  constructor; unfold cinit; cbn; try discriminate.
  - intros [i H]. apply nth_error_In in H. apply repeat_spec in H. discriminate.
  - intros [i H]. apply nth_error_In in H. apply repeat_spec in H. discriminate.
Qed.

Lemma klim_step s l s' : l <> CCancelEnv -> KLim s -> cstep s l = Some s' -> KLim s'.
Proof.
  intros Hl [CT ST DN CC] H. destruct l as [i| |]; [| |congruence]; cbn [cstep] in H.
  - destruct (nth_error (k_workers s) i) as [w|] eqn:En; [|discriminate].
    assert (Hex : forall (P : cpc' -> Prop) x,
               (exists j, nth_error (cupd (k_workers s) i x) j = Some KDone) ->
               x = KDone \/ exists j, nth_error (k_workers s) j = Some KDone).
    { intros P x [j Hj]. rewrite nth_cupd in Hj. destruct (Nat.eqb i j); [|right; eauto].
      rewrite En in Hj. injection Hj as ->. left; reflexivity. }
    assert (Hexc : forall x,
               (exists j, nth_error (cupd (k_workers s) i x) j = Some KCancel) ->
               x = KCancel \/ exists j, nth_error (k_workers s) j = Some KCancel).
    { intros x [j Hj]. rewrite nth_cupd in Hj. destruct (Nat.eqb i j); [|right; eauto].
      rewrite En in Hj. injection Hj as ->. left; reflexivity. }
    destruct w as [| |id|id| |]; try discriminate;
      try (destruct (k_stop s) eqn:Es);
      try (destruct ((0 <? k_max s) && (k_max s <? k_iter s + 1)) eqn:El);
      injection H as <-; constructor; cbn [k_stop k_iter k_max k_ctx_done k_workers k_started k_issued] in *;
      try (intros Hx; destruct (CT Hx); split; lia);
      try assumption;
      try (intros Hx; destruct (Hex (fun _ => True) _ Hx) as [E|E]; [try discriminate; auto|auto]);
      try (intros Hx; destruct (Hexc _ Hx) as [E|E]; [try discriminate; try (split; lia)|destruct (CC E); split; lia]);
      try (intros _; reflexivity);
      try (intros _; destruct (CC (ex_intro _ i En)); split; lia).
  - destruct (k_ctx_done s && negb (k_stop s)) eqn:E; [|discriminate]. injection H as <-.
    apply andb_true_iff in E as [E1 E2].
    constructor; cbn; auto.
Qed.
