(* C04, the converse direction as a safety invariant: no lost wake-up. Whenever requests
   are pending (counter > 0), the pool is running and the ticking goroutine is not in the
   middle of publishing them (between its swap and its broadcast, lock held), no worker is
   parked on the condition variable: every idle worker is on its way to take a request. *)
From F1 Require Import Base.Prelude Model.Pool Proofs.PoolBase Proofs.PoolSafety Proofs.PoolWake.
From Coq Require Import ZifyBool Lia.

Definition w3b (w : wpc) : Z := match w with W3b => 1 | _ => 0 end.
Definition is_t4 (t : tpc) : Z := match t with T4 _ _ => 1 | _ => 0 end.

Lemma w3b_nonneg w : 0 <= w3b w. Proof. destruct w; cbn; lia. Qed.
Lemma w3b_le_reg w : w3b w <= reg_w w. Proof. destruct w; cbn; lia. Qed.
Lemma sum_w3b_le_reg l : sumw w3b l <= sumw reg_w l.
Proof.
  unfold sumw. induction l as [|w l IH]; cbn [map]; [cbn; lia|]. rewrite !zsum_cons. pose proof (w3b_le_reg w). lia.
Qed.

Record NoLost (s : pstate) : Prop := {
  nl_wait : 0 < counter s -> stopflag s = false -> is_t4 (tick s) = 0 -> sumw waiting (workers s) = 0;
  nl_w3b : 0 < sumw w3b (workers s) -> counter s <= 0
}.

Lemma nolost_init n m ticks : NoLost (pinit n m ticks).
Proof. constructor; unfold pinit; psimpl; cbn; rewrite ?sumw_repeat by reflexivity; lia. Qed.

Ltac nprep :=
  psimpl; rewrite ?waiting_wake, ?(sumw_wake w3b eq_refl);
  cbn [waiting w3b is_t4 wake reg_t reg_s] in *.

Lemma nolost_step s l s' : Safe s -> NoLost s -> pstep s l = Some s' -> NoLost s'.
Proof.
  intros Sf [NW NB] H.
  pose proof (sf_mutex s Sf) as MU.
  pose proof (sumw_nonneg waiting waiting_nonneg (workers s)) as Hw0.
  pose proof (sumw_nonneg w3b w3b_nonneg (workers s)) as Hb0.
  pose proof (sumw_nonneg reg_w reg_w_nonneg (workers s)) as Hr0.
  pose proof (sum_w3b_le_reg (workers s)) as Hbr.
  pose proof (reg_s_bounds (stopper s)) as Hrs.
  destruct l as [| |i|]; cbn [pstep] in H.
  - unfold tick_step in H.
    destruct (tick s) as [[|n rest]|n rest|n rest|n rest|d rest|d rest|d rest] eqn:Et; try discriminate;
      try (destruct (ctx_done s)); try (destruct (lock_free s) eqn:Elf; [|discriminate]);
      try (destruct (stopflag s) eqn:Esf); try (destruct (exhausted s));
      injection H as <-; constructor; nprep; rewrite ?Esf in *; auto;
      try (intros; lia); try (intros; discriminate);
      try (intros Hx; destruct (lock_free s); lia).
  - unfold stop_step in H.
    destruct (stopper s) as [| | | |d|d|d|] eqn:Est; try discriminate;
      try (destruct (ctx_done s); [|discriminate]); try (destruct (lock_free s); [|discriminate]);
      try (destruct (exhausted s));
      injection H as <-; constructor; nprep; auto; try (intros; lia); try (intros; discriminate).
  - unfold worker_step in H.
    destruct (nth_error (workers s) i) as [w|] eqn:En; [|discriminate].
    pose proof (sumw_ge waiting waiting_nonneg _ _ _ En) as Hgw.
    pose proof (sumw_ge w3b w3b_nonneg _ _ _ En) as Hgb.
    pose proof (nth_wake _ _ _ En) as Enw.
    destruct w as [| | | | | | | | | | | | | | | |id|id|]; try discriminate; cbn [waiting w3b wake] in Hgw, Hgb, Enw;
      try (destruct (stopflag s) eqn:Esf);
      try (destruct (lock_free s) eqn:Elf; [|discriminate]);
      try (destruct (counter s <=? 0) eqn:Ec0);
      try (destruct (0 <=? counter s - 1) eqn:Ec1);
      try (destruct ((0 <? maxiter s) && (maxiter s <? iter s + 1)) eqn:Elim);
      injection H as <-;
      (constructor; psimpl;
       rewrite ?(sumw_upd waiting _ _ _ _ En), ?(sumw_upd w3b _ _ _ _ En),
               ?(sumw_upd waiting _ _ _ _ Enw), ?(sumw_upd w3b _ _ _ _ Enw),
               ?waiting_wake, ?(sumw_wake w3b eq_refl);
       cbn [waiting w3b wake] in *; rewrite ?Esf in *;
       first [ assumption | (intros; lia) | (intros; discriminate)
             | (intros Hx Hy Hz; specialize (NW ltac:(lia) Hy Hz); lia)
             | (intros Hx Hy Hz; specialize (NB ltac:(lia)); lia)
             | (intros Hx; specialize (NB ltac:(lia)); lia) ]).
  - injection H as <-. constructor; psimpl; assumption.
Qed.

Theorem nolost_exec : forall ls s, Safe s -> NoLost s -> NoLost (pexec s ls).
Proof.
  induction ls as [|l ls IH]; intros s Sf I; [exact I|].
  cbn [pexec fold_left]. destruct (pstep s l) as [s'|] eqn:E.
  - apply IH; [eapply safe_step; eauto|eapply nolost_step; eauto].
  - apply IH; assumption.
Qed.

Theorem no_lost_wakeup n maxit ticks sched :
  let s := pexec (pinit n maxit ticks) sched in
  0 < counter s -> stopflag s = false -> (forall d rest, tick s <> T4 d rest) ->
  forall i, nth_error (workers s) i <> Some WWait.
Proof.
  intros s Hc Hs Ht i Hi.
  pose proof (nolost_exec sched (pinit n maxit ticks) (safe_init n maxit ticks) (nolost_init n maxit ticks)) as [NW _].
  fold s in NW.
  assert (T : is_t4 (tick s) = 0).
  { destruct (tick s) as [x|x y|x y|x y|d rest|x y|x y]; cbn; try reflexivity. exfalso. apply (Ht d rest). reflexivity. }
  specialize (NW Hc Hs T).
  pose proof (sumw_ge waiting waiting_nonneg _ _ _ Hi) as G. cbn [waiting] in G. lia.
Qed.
