(* C19 - the printed percentage is the count's share of all iterations: the two-decimal
   value printed by `percent | printf "%0.2f"` differs from 100*val/total by at most half a
   hundredth plus the rounding error of the single binary64 division. *)
From Coq Require Import ZArith Reals Lia Lra Bool.
From Flocq Require Import Core Relative IEEE754.BinarySingleNaN.
From F1 Require Import Base.Prelude Base.F64 Base.Fmt Model.Views Proofs.F64Facts Proofs.F64Close Proofs.JitterF64.

Local Open Scope Z_scope.

Lemma rhe_close n d : 0 < d -> 2 * Z.abs (round_half_even_div n d * d - n) <= d.
Proof.
  intros Hd. unfold round_half_even_div.
  pose proof (Z.div_mod n d ltac:(lia)) as E. pose proof (Z.mod_pos_bound n d Hd) as B.
  set (q := n / d) in *. set (r := n mod d) in *.
  destruct (2 * r <? d) eqn:E1; [nia|].
  destruct (d <? 2 * r) eqn:E2; [nia|].
  destruct (Z.even q); nia.
Qed.

Local Open Scope R_scope.

Lemma f2_centi_close (x : f64) :
  is_finite x = true -> 0 <= B2R x ->
  Rabs (IZR (f2_centi x) - 100 * B2R x) <= / 2.
Proof.
  intros Fx Hx. destruct x as [s| | |s m e Hb]; try discriminate.
  - cbn. rewrite Rmult_0_r, Rminus_0_r, Rabs_R0. lra.
  - assert (Hs : s = false).
    { destruct s; [|reflexivity]. exfalso. cbn in Hx.
      assert (F2R (Float radix2 (Z.neg m) e) < 0) by (apply F2R_lt_0; reflexivity). lra. }
    subst s. cbn [f2_centi B2R]. unfold F2R. cbn [Fnum Fexp cond_Zopp].
    destruct (0 <=? e)%Z eqn:Ee.
    + rewrite !mult_IZR. change (2 ^ e)%Z with (radix2 ^ e)%Z. rewrite IZR_Zpower by lia.
      replace (IZR (Z.pos m) * bpow radix2 e * IZR 100 - 100 * (IZR (Z.pos m) * bpow radix2 e)) with 0.
      * rewrite Rabs_R0. lra.
      * simpl (IZR 100). ring.
    + set (d := (2 ^ (- e))%Z). assert (Hd : (0 < d)%Z) by (apply Z.pow_pos_nonneg; lia).
      pose proof (rhe_close (Z.pos m * 100) d Hd) as H.
      set (q := round_half_even_div (Z.pos m * 100) d) in *.
      assert (Hd' : bpow radix2 e = / IZR d).
      { unfold d. change (2 ^ (- e))%Z with (radix2 ^ (- e))%Z. rewrite IZR_Zpower by lia.
        rewrite bpow_opp, Rinv_inv. reflexivity. }
      rewrite Hd'. assert (Hd0 : 0 < IZR d) by (apply IZR_lt; exact Hd).
      apply IZR_le in H. rewrite !mult_IZR, abs_IZR, minus_IZR, !mult_IZR in H. simpl (IZR 2) in H. simpl (IZR 100) in H.
      replace (IZR q - 100 * (IZR (Z.pos m) * / IZR d)) with ((IZR q * IZR d - IZR (Z.pos m) * 100) * / IZR d) by (field; lra).
      rewrite Rabs_mult, (Rabs_pos_eq (/ IZR d)) by (apply Rlt_le, Rinv_0_lt_compat; exact Hd0).
      apply Rmult_le_reg_r with (IZR d); [exact Hd0|].
      rewrite Rmult_assoc, Rinv_l by lra. lra.
Qed.

(* the float the template function computes *)
Definition percent_f (val total : Z) : f64 := f_div (f_mul (f_of_Z 100) (f_of_Z val)) (f_of_Z total).

Lemma percent_str_centi val total : percent_str val total = fmt_f2 (percent_f val total).
Proof. reflexivity. Qed.

Theorem percent_close val total :
  (0 <= val <= total)%Z -> (0 < total < 2 ^ 46)%Z ->
  is_finite (percent_f val total) = true /\
  Rabs (IZR (f2_centi (percent_f val total)) - 10000 * IZR val / IZR total) <= / 2 + 10001 * u53.
Proof.
  intros Hv Ht. unfold percent_f.
  destruct (f_of_Z_exact 100 ltac:(reflexivity)) as [F100 R100].
  destruct (f_of_Z_exact val ltac:(lia)) as [Fv Rv].
  destruct (f_of_Z_exact total ltac:(lia)) as [Ft Rt].
  assert (Hprod : (Z.abs (100 * val) < 2 ^ 53)%Z) by lia.
  destruct (f_mul_R (f_of_Z 100) (f_of_Z val) F100 Fv) as [Fm Rm].
  { rewrite R100, Rv, <- mult_IZR. apply small_lt_emax. rewrite rnd_Z by exact Hprod.
    rewrite <- abs_IZR. apply IZR_le. lia. }
  rewrite R100, Rv, <- mult_IZR, rnd_Z in Rm by exact Hprod.
  assert (Ht0 : 0 < IZR total) by (apply IZR_lt; lia).
  set (E := IZR (100 * val) / IZR total).
  assert (HE : 0 <= E <= 100).
  { unfold E. rewrite mult_IZR. simpl (IZR 100). split.
    - apply Rmult_le_pos; [apply Rmult_le_pos; [lra|apply IZR_le; lia]|apply Rlt_le, Rinv_0_lt_compat; exact Ht0].
    - apply Rmult_le_reg_r with (IZR total); [exact Ht0|]. unfold Rdiv. rewrite Rmult_assoc, Rinv_l by lra.
      rewrite Rmult_1_r. apply Rmult_le_compat_l; [lra|apply IZR_le; lia]. }
  pose proof (rnd_err E) as Eerr. rewrite (Rabs_pos_eq E) in Eerr by lra.
  assert (Hrn : 0 <= rnd E) by (apply rnd_nonneg; lra).
  assert (Hr100 : rnd E <= 100).
  { rewrite <- (rnd_Z 100) by reflexivity. apply rnd_le. simpl (IZR 100). lra. }
  destruct (f_div_R (f_mul (f_of_Z 100) (f_of_Z val)) (f_of_Z total) Fm) as [Fd Rd].
  { rewrite Rt. lra. }
  { rewrite Rm, Rt. fold E. rewrite Rabs_pos_eq by exact Hrn.
    eapply Rle_lt_trans; [exact Hr100|]. apply Rlt_le_trans with (bpow radix2 10); [simpl; lra|apply bpow_le; unfold emax; lia]. }
  rewrite Rm, Rt in Rd. fold E in Rd.
  split; [exact Fd|].
  pose proof (f2_centi_close _ Fd ltac:(rewrite Rd; exact Hrn)) as Hc. rewrite Rd in Hc.
  replace (10000 * IZR val / IZR total) with (100 * E) by (unfold E; rewrite mult_IZR; simpl (IZR 100); field; lra).
  apply Rabs_le_inv in Hc. apply Rabs_le_inv in Eerr.
  pose proof eta_tiny as He. assert (0 <= eta) by apply bpow_ge_0.
  assert (u53 * E <= u53 * 100) by (apply Rmult_le_compat_l; [unfold u53; lra|lra]).
  assert (Hu : 0 < u53) by (unfold u53; lra).
  assert (100 * eta <= u53) by (unfold u53; lra).
  apply Rabs_le. split; lra.
Qed.

Local Open Scope Z_scope.

(* over the integers: 2^53 * |q*total - 10000*val| <= 2^52*total + 10001*total,
   i.e. |q/100 - 100*val/total| <= 0.005 + 10001/2^53 *)
Theorem percent_close_Z val total :
  0 <= val <= total -> 0 < total < 2 ^ 46 ->
  let q := f2_centi (percent_f val total) in
  2 ^ 53 * Z.abs (q * total - 10000 * val) <= 2 ^ 52 * total + 10001 * total.
Proof.
  intros Hv Ht q. destruct (percent_close val total Hv Ht) as [_ H]. fold q in H.
  assert (Ht0 : (0 < IZR total)%R) by (apply IZR_lt; lia).
  apply le_IZR. rewrite plus_IZR, !mult_IZR, abs_IZR, minus_IZR, !mult_IZR.
  change (IZR (2 ^ 53)) with 9007199254740992%R. change (IZR (2 ^ 52)) with 4503599627370496%R.
  change (IZR 10000) with 10000%R. change (IZR 10001) with 10001%R.
  replace (IZR q * IZR total - 10000 * IZR val)%R with ((IZR q - 10000 * IZR val / IZR total) * IZR total)%R by (field; lra).
  rewrite Rabs_mult, (Rabs_pos_eq (IZR total)) by lra.
  unfold u53 in H.
  assert (K : (Rabs (IZR q - 10000 * IZR val / IZR total) * IZR total <= (/ 2 + 10001 * / 9007199254740992) * IZR total)%R).
  { apply Rmult_le_compat_r; [lra|exact H]. }
  lra.
Qed.

Lemma fmt_f2_finite s m e Hb :
  fmt_f2 (B754_finite s m e Hb) =
  (if s then [45] else []) ++ itoa (f2_centi (B754_finite s m e Hb) / 100) ++ [46] ++
  frac_digits 2 (f2_centi (B754_finite s m e Hb) mod 100) [].
Proof. reflexivity. Qed.
