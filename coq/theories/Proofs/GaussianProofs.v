From F1 Require Import Base.Prelude Base.F64 Model.Gaussian.
From Coq Require Import ZifyBool ZifyNat Lia.

Ltac Zify.zify_post_hook ::= Z.div_mod_to_equations.

Section Carry.
Variable D : Z.
Hypothesis D_pos : 0 < D.

Lemma carry_telescope : forall rates b os bf,
  0 <= b < D -> Forall (fun a => 0 <= a) rates ->
  carry_run D b rates = (os, bf) ->
  D * zsum os + bf = zsum rates + b /\ 0 <= bf < D /\
  Forall (fun o => 0 <= o) os /\ length os = length rates.
Proof.
  induction rates as [|a r IH]; intros b os bf Hb Hr H.
  - cbn in H. injection H as <- <-. cbn. repeat split; try constructor; lia.
  - cbn [carry_run carry_step] in H.
    destruct (carry_run D ((a + b) mod D) r) as [os' bf'] eqn:E.
    injection H as <- <-. inversion Hr as [|? ? Ha Hr']; subst.
    destruct (IH _ _ _ ltac:(apply Z.mod_pos_bound; lia) Hr' E) as (A & B & C & L).
    rewrite !zsum_cons. cbn [length]. repeat split; try lia.
    constructor; [|exact C]. apply Z.div_pos; lia.
Qed.

(* per tick: the output is floor or floor+1 of the exact rate *)
Lemma carry_step_bounds b a : 0 <= b < D -> 0 <= a ->
  a / D <= snd (carry_step D b a) <= a / D + 1.
Proof.
  intros Hb Ha. unfold carry_step. cbn [snd]. split.
  - apply Z.div_le_mono; lia.
  - assert ((a + b) / D <= (a + D) / D) by (apply Z.div_le_mono; lia).
    replace (a + D) with (a + 1 * D) in H by lia. rewrite Z.div_add in H by lia. lia.
Qed.

(* every output lies in [a_k / D, a_k / D + 1] *)
Lemma carry_run_bounds : forall rates b os bf,
  0 <= b < D -> Forall (fun a => 0 <= a) rates ->
  carry_run D b rates = (os, bf) ->
  Forall2 (fun a o => a / D <= o <= a / D + 1) rates os.
Proof.
  induction rates as [|a r IH]; intros b os bf Hb Hr H.
  - cbn in H. injection H as <- <-. constructor.
  - cbn [carry_run] in H. pose proof (carry_step_bounds b a Hb) as Hs.
    unfold carry_step in *. cbn [snd] in Hs.
    destruct (carry_run D ((a + b) mod D) r) as [os' bf'] eqn:E.
    injection H as <- <-. inversion Hr as [|? ? Ha Hr']; subst.
    constructor; [apply Hs; exact Ha|].
    apply (IH ((a + b) mod D) os' bf'); [apply Z.mod_pos_bound; lia|exact Hr'|exact E].
Qed.

(* no tick emits more than one above the tick with the largest rate *)
Lemma peak_bound rates os p ap op :
  Forall2 (fun a o => a / D <= o <= a / D + 1) rates os ->
  nth_error rates p = Some ap -> nth_error os p = Some op ->
  Forall (fun a => a <= ap) rates ->
  Forall (fun o => o <= op + 1) os.
Proof.
  intros F Hp Ho Hmax.
  assert (Hop : ap / D <= op).
  { clear Hmax. revert p Hp Ho. induction F as [|a o r os' H F IH]; intros p Hp Ho; [destruct p; discriminate|].
    destruct p as [|p]; cbn in Hp, Ho.
    - injection Hp as ->. injection Ho as ->. lia.
    - eapply IH; eauto. }
  clear Hp Ho. induction F as [|a o r os' H F IH]; [constructor|].
  inversion Hmax as [|? ? Ha Hm]; subst. constructor; [|apply IH; exact Hm].
  assert (a / D <= ap / D) by (apply Z.div_le_mono; lia). lia.
Qed.

End Carry.

(* weight selection: the loop of Calculator.For finds (window number) mod n *)
Lemma truncate_pos abs d : 0 < d -> truncate_abs abs d = abs - abs mod d.
Proof. intros. unfold truncate_abs. replace (d <=? 0) with false by lia. reflexivity. Qed.

Lemma weight_loop_spec : forall fuel sow start repeat i k,
  0 < repeat -> start = sow + Z.of_nat k * repeat -> (k < fuel)%nat ->
  weight_loop fuel sow start repeat i = (i + k)%nat.
Proof.
  induction fuel as [|f IH]; intros sow start repeat i k Hr Hs Hk; [lia|].
  cbn [weight_loop]. destruct (sow =? start) eqn:E.
  - assert (k = 0%nat) by nia. subst. lia.
  - destruct k as [|k]; [lia|].
    rewrite (IH (sow + repeat) start repeat (S i) k Hr ltac:(lia) ltac:(lia)). lia.
Qed.

Lemma weight_index_loop abs repeat n :
  0 <= abs -> 0 < repeat -> (0 < n)%nat ->
  Z.of_nat (weight_loop (S n) (truncate_abs abs (repeat * Z.of_nat n)) (truncate_abs abs repeat) repeat O)
  = weight_index abs repeat (Z.of_nat n).
Proof.
  intros Ha Hr Hn. rewrite !truncate_pos by nia. unfold weight_index.
  set (N := Z.of_nat n).
  set (q := abs / repeat).
  assert (Hq : abs - abs mod repeat = q * repeat) by (unfold q; lia).
  assert (Hsow : abs - abs mod (repeat * N) = (q / N) * (repeat * N)).
  { assert (Hdd : q / N = abs / (repeat * N)) by (unfold q; apply Z.div_div; lia).
    rewrite Hdd. pose proof (Z.div_mod abs (repeat * N) ltac:(nia)) as Hdm.
    set (X := abs / (repeat * N)) in *. set (Y := abs mod (repeat * N)) in *. set (RN := repeat * N) in *. lia. }
  rewrite Hq, Hsow.
  assert (Hk : q = (q / N) * N + q mod N) by (pose proof (Z.div_mod q N ltac:(lia)); lia).
  assert (0 <= q mod N < N) by (apply Z.mod_pos_bound; lia).
  rewrite (weight_loop_spec (S n) _ _ repeat O (Z.to_nat (q mod N)) Hr); [lia| |lia].
  rewrite Z2Nat.id by lia. nia.
Qed.
