(* Pool part of C05: no lost wake-up, no deadlock. *)
From F1 Require Import Base.Prelude Model.Pool Proofs.PoolBase Proofs.PoolSafety.
From Coq Require Import ZifyBool Lia.

Definition waiting (w : wpc) : Z := match w with WWait => 1 | _ => 0 end.
Definition halt2_w (w : wpc) : Z := match w with L3 | L4 => 1 | _ => 0 end.
Definition halt2_s (p : spc') : Z := match p with S3 | S4 _ => 1 | _ => 0 end.
Definition stopset (p : spc') : Z := match p with S3 | S4 _ | S5 _ | S6 _ | SDone => 1 | _ => 0 end.

Lemma waiting_nonneg w : 0 <= waiting w. Proof. destruct w; cbn; lia. Qed.
Lemma halt2_w_nonneg w : 0 <= halt2_w w. Proof. destruct w; cbn; lia. Qed.

Lemma halt2_s_nonneg p : 0 <= halt2_s p. Proof. destruct p; cbn; lia. Qed.

Lemma waiting_wake l : sumw waiting (map wake l) = 0.
Proof. unfold sumw. induction l as [|w l IH]; [reflexivity|]. cbn [map]. rewrite zsum_cons, IH. destruct w; reflexivity. Qed.

Record Wake (s : pstate) : Prop := {
  wk_stop : stopset (stopper s) = 1 -> stopflag s = true;
  wk_wait : stopflag s = true -> 0 < sumw waiting (workers s) ->
            1 <= halt2_s (stopper s) + sumw halt2_w (workers s)
}.

Lemma wake_init n m ticks : Wake (pinit n m ticks).
Proof. constructor; unfold pinit; psimpl; cbn; rewrite ?sumw_repeat by reflexivity; try discriminate; lia. Qed.

Ltac wprep0 :=
  psimpl; rewrite ?waiting_wake, ?(sumw_wake halt2_w eq_refl);
  cbn [waiting halt2_w halt2_s stopset wake] in *.

Ltac wprep En Enw :=
  psimpl;
  rewrite ?(sumw_upd waiting _ _ _ _ En), ?(sumw_upd halt2_w _ _ _ _ En),
          ?(sumw_upd waiting _ _ _ _ Enw), ?(sumw_upd halt2_w _ _ _ _ Enw),
          ?waiting_wake, ?(sumw_wake halt2_w eq_refl);
  cbn [waiting halt2_w halt2_s stopset wake] in *.

Lemma wake_step s l s' : Wake s -> pstep s l = Some s' -> Wake s'.
Proof.
  intros [WS WW] H.
  pose proof (sumw_nonneg waiting waiting_nonneg (workers s)) as Hw0.
  pose proof (sumw_nonneg halt2_w halt2_w_nonneg (workers s)) as Hh0.
  pose proof (halt2_s_nonneg (stopper s)) as Hs0.
  destruct l as [| |i|]; cbn [pstep] in H.
  - unfold tick_step in H.
    destruct (tick s) as [[|n rest]|n rest|n rest|n rest|d rest|d rest|d rest]; try discriminate;
      try (destruct (ctx_done s)); try (destruct (lock_free s); [|discriminate]); try (destruct (stopflag s) eqn:Esf); try (destruct (exhausted s));
      injection H as <-; constructor; wprep0; rewrite ?Esf in *; auto; try (intros; lia).
  - unfold stop_step in H.
    destruct (stopper s) as [| | | |d|d|d|] eqn:Est; try discriminate;
      try (destruct (ctx_done s); [|discriminate]); try (destruct (lock_free s); [|discriminate]); try (destruct (exhausted s));
      injection H as <-; constructor; wprep0; rewrite ?Est in *; cbn [halt2_s stopset] in *;
      auto; try (intros; lia); try (intros; apply WS; lia).
  - unfold worker_step in H.
    destruct (nth_error (workers s) i) as [w|] eqn:En; [|discriminate].
    pose proof (sumw_ge waiting waiting_nonneg _ _ _ En) as Hgw.
    pose proof (sumw_ge halt2_w halt2_w_nonneg _ _ _ En) as Hgh.
    pose proof (nth_wake _ _ _ En) as Enw.
    destruct w as [| | | | | | | | | | | | | | | |id|id|]; try discriminate; cbn [waiting halt2_w wake] in Hgw, Hgh, Enw;
      try (destruct (stopflag s) eqn:Esf);
      try (destruct (lock_free s) eqn:Elf; [|discriminate]);
      try (destruct (counter s <=? 0) eqn:Ec0);
      try (destruct (0 <=? counter s - 1) eqn:Ec1);
      try (destruct ((0 <? maxiter s) && (maxiter s <? iter s + 1)) eqn:Elim);
      injection H as <-;
      (constructor; wprep En Enw; rewrite ?Esf in *;
       first [ assumption | (intros; lia) | (intros; discriminate) | (intros; congruence)
             | (intros Hx Hy; specialize (WW Hx); lia)
             | (intros Hx Hy; specialize (WW eq_refl); lia) ]).
  - injection H as <-. constructor; psimpl; assumption.
Qed.

Theorem wake_exec : forall ls s, Wake s -> Wake (pexec s ls).
Proof.
  induction ls as [|l ls IH]; intros s I; [exact I|].
  cbn [pexec fold_left]. destruct (pstep s l) as [s'|] eqn:E; [apply IH; eapply wake_step; eauto|apply IH; exact I].
Qed.
