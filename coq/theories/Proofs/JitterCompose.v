(* C13 - jitter under a distribution: the running totals of the jittered and the un-jittered
   trigger at every sub-tick of every period. *)
From F1 Require Import Base.Prelude Base.F64 Model.Jitter Proofs.JitterProofs.
From Coq Require Import Lia.

Lemma composed_bound : forall jn jd R dprev part_j part_p out,
  0 <= jn < jd -> 0 <= R ->
  (jd - jn) * Z.abs dprev <= jn * R + jd ->          (* C13_bounded at the end of the previous period *)
  0 <= part_p <= R -> 0 <= part_j <= out ->          (* what the current period has emitted so far *)
  (jd - jn) * jd * out <= (jd - jn) * R * (jd + jn) + (jd + jn) * (jn * R + jd) + jd * (jd - jn) ->
  composed_bound_ok jn jd R (Z.abs (dprev + part_p - part_j)) = true.
Proof.
  intros jn jd R dprev pj pp out Hj HR Hd Hp Hq Ho. unfold composed_bound_ok. apply Z.leb_le.
  assert (A : Z.abs (dprev + pp - pj) <= Z.abs dprev + Z.max pp pj) by lia.
  assert (0 < jd - jn) by lia. assert (0 < jd) by lia.
  assert (B : (jd - jn) * jd * Z.abs (dprev + pp - pj) <= (jd - jn) * jd * (Z.abs dprev + Z.max pp pj)).
  { apply Z.mul_le_mono_nonneg_l; [nia|exact A]. }
  assert (C : (jd - jn) * jd * Z.abs dprev <= jd * (jn * R + jd)) by nia.
  assert (D : (jd - jn) * jd * Z.max pp pj <= (jd - jn) * R * (jd + jn) + (jd + jn) * (jn * R + jd) + jd * (jd - jn)).
  { destruct (Z.max_spec pp pj) as [[_ ->]|[_ ->]].
    - assert ((jd - jn) * jd * pj <= (jd - jn) * jd * out) by (apply Z.mul_le_mono_nonneg_l; nia). lia.
    - assert ((jd - jn) * jd * pp <= (jd - jn) * jd * R) by (apply Z.mul_le_mono_nonneg_l; nia). nia. }
  nia.
Qed.

Lemma step_upper : forall jn jd R bal rate r,
  0 <= jn < jd -> 0 <= rate <= R ->
  (jd - jn) * Z.abs bal <= jn * R + jd ->
  jitter_step_ok jn jd bal rate r ->
  (jd - jn) * jd * r <= (jd - jn) * R * (jd + jn) + (jd + jn) * (jn * R + jd) + jd * (jd - jn).
Proof.
  intros jn jd R bal rate r Hj Hr Hb Hs. unfold jitter_step_ok in Hs.
  assert (0 < jd - jn) by lia.
  destruct (rate + bal <? 0) eqn:E.
  - subst r. rewrite Z.mul_0_r.
    assert (0 <= (jd - jn) * R * (jd + jn)) by (apply Z.mul_nonneg_nonneg; [apply Z.mul_nonneg_nonneg|]; lia).
    assert (0 <= (jd + jn) * (jn * R + jd)) by (apply Z.mul_nonneg_nonneg; [lia|]; assert (0 <= jn * R) by (apply Z.mul_nonneg_nonneg; lia); lia).
    assert (0 <= jd * (jd - jn)) by (apply Z.mul_nonneg_nonneg; lia). lia.
  - apply Z.ltb_ge in E. destruct Hs as [Hr0 Hs].
    assert (A0 : jd * (r - (rate + bal)) <= jd * Z.abs (r - (rate + bal))) by (apply Z.mul_le_mono_nonneg_l; lia).
    assert (A : jd * r <= (jd + jn) * (rate + bal) + jd) by nia.
    assert (B : (jd - jn) * (rate + bal) <= (jd - jn) * R + (jn * R + jd)) by nia.
    assert (C : (jd - jn) * (jd * r) <= (jd - jn) * ((jd + jn) * (rate + bal) + jd)) by (apply Z.mul_le_mono_nonneg_l; lia).
    assert (D : (jd + jn) * ((jd - jn) * (rate + bal)) <= (jd + jn) * ((jd - jn) * R + (jn * R + jd))) by (apply Z.mul_le_mono_nonneg_l; lia).
    nia.
Qed.

(* what one period's value is spread into: non-negative parts adding up to it *)
Definition spread_ok (v : Z) (parts : list Z) : Prop := Forall (fun x => 0 <= x) parts /\ zsum parts = v.

Lemma prefix_sum_bounds l : Forall (fun x => 0 <= x) l -> forall m, 0 <= zsum (firstn m l) <= zsum l.
Proof.
  induction 1 as [|x l Hx _ IH]; intros m.
  - rewrite firstn_nil. cbn. lia.
  - destruct m as [|m]; cbn [firstn]; rewrite ?zsum_cons.
    + cbn. specialize (IH 0%nat). cbn [firstn] in IH. cbn in IH. lia.
    + specialize (IH m). lia.
Qed.

Lemma forall2_cons_inv {A B} (P : A -> B -> Prop) x l y l' :
  Forall2 P (x :: l) (y :: l') -> P x y /\ Forall2 P l l'.
Proof. intros H. inversion H; subst. split; assumption. Qed.

(* period by period: bal is requested minus emitted so far; inside the period m sub-ticks of either
   spread have gone out *)
Fixpoint composed_ok (jn jd R bal : Z) (rates outs : list Z) (sp sj : list (list Z)) : Prop :=
  match rates, outs, sp, sj with
  | rate :: rs, r :: os, p :: sps, j :: sjs =>
    (forall m, composed_bound_ok jn jd R (Z.abs (bal + zsum (firstn m p) - zsum (firstn m j))) = true) /\
    composed_ok jn jd R (rate + bal - r) rs os sps sjs
  | [], [], [], [] => True
  | _, _, _, _ => False
  end.

Theorem composed_history : forall rates outs sp sj jn jd R bal,
  0 <= jn < jd -> Forall (fun x => 0 <= x <= R) rates ->
  run_ok jn jd bal rates outs ->
  (jd - jn) * Z.abs bal <= jn * R + jd ->
  Forall2 spread_ok rates sp -> Forall2 spread_ok outs sj ->
  composed_ok jn jd R bal rates outs sp sj.
Proof.
  induction rates as [|rate rs IH]; intros outs sp sj jn jd R bal Hj HR Hok Hb Fp Fj.
  - destruct outs; cbn in Hok; [|tauto]. inversion Fp; subst. inversion Fj; subst. exact I.
  - destruct outs as [|r os]; cbn in Hok; [tauto|]. destruct Hok as [Hs Hrun].
    apply Forall_cons_iff in HR. destruct HR as [Hr HRs].
    destruct sp as [|p sps]; [inversion Fp|]. destruct sj as [|j sjs]; [inversion Fj|].
    apply forall2_cons_inv in Fp. destruct Fp as [[Pp Sp] Fps].
    apply forall2_cons_inv in Fj. destruct Fj as [[Pj Sj] Fjs].
    cbn [composed_ok]. split.
    + intros m.
      pose proof (prefix_sum_bounds p Pp m) as Bp. pose proof (prefix_sum_bounds j Pj m) as Bj.
      assert (HR0 : 0 <= R) by lia.
      apply (composed_bound jn jd R bal (zsum (firstn m j)) (zsum (firstn m p)) r Hj HR0 Hb); [lia|lia|].
      apply (step_upper jn jd R bal rate r Hj Hr Hb Hs).
    + apply IH; try assumption.
      apply (step_bound jn jd R bal rate r Hj Hr Hs Hb).
Qed.
