(* Lock discipline, "nothing is accepted after a halt", silent limit. *)
From F1 Require Import Base.Prelude Model.Pool Proofs.PoolBase.
From Coq Require Import ZifyBool Lia.

Definition reg_w (w : wpc) : Z := match w with W3 | W3b | W4 | L2 | L3 | L4 | L5 => 1 | _ => 0 end.
Definition reg_t (t : tpc) : Z := match t with T2 _ _ | T3 _ _ | T4 _ _ | T5 _ _ => 1 | _ => 0 end.
Definition reg_s (p : spc') : Z := match p with S2 | S3 | S4 _ | S5 _ => 1 | _ => 0 end.
Definition halt_w (w : wpc) : Z := match w with L3 => 1 | _ => 0 end.
Definition halt_s (p : spc') : Z := match p with S3 => 1 | _ => 0 end.
Definition l3w (w : wpc) : Z := match w with L3 | L4 | L5 | L6 => 1 | _ => 0 end.
Lemma l3w_nonneg w : 0 <= l3w w. Proof. destruct w; cbn; lia. Qed.

Lemma reg_w_nonneg w : 0 <= reg_w w. Proof. destruct w; cbn; lia. Qed.
Lemma halt_w_nonneg w : 0 <= halt_w w. Proof. destruct w; cbn; lia. Qed.
Lemma halt_le_reg w : halt_w w <= reg_w w. Proof. destruct w; cbn; lia. Qed.

Record Safe (s : pstate) : Prop := {
  sf_mutex : sumw reg_w (workers s) + reg_t (tick s) + reg_s (stopper s) = (if lock_free s then 0 else 1);
  sf_t3 : (match tick s with T3 _ _ => stopflag s = false | _ => True end);
  sf_halt : stopflag s = true -> 0 < counter s -> 1 <= halt_s (stopper s) + sumw halt_w (workers s);
  sf_lh : limit_halted s = true -> stopflag s = true /\ counter s <= 0;
  sf_late : late_drops s = 0;
  sf_l3 : 0 < sumw l3w (workers s) -> stopflag s = true
}.

Lemma safe_init n m ticks : Safe (pinit n m ticks).
Proof.
  constructor; unfold pinit; psimpl; cbn [lock_free plock reg_t reg_s halt_s]; rewrite ?sumw_repeat by reflexivity;
    try lia; try discriminate; auto.
Qed.

Lemma sum_halt_le_reg l : sumw halt_w l <= sumw reg_w l.
Proof.
  unfold sumw. induction l as [|w l IH]; cbn [map]; [cbn; lia|]. rewrite !zsum_cons. pose proof (halt_le_reg w). lia.
Qed.


Ltac sfin LH :=
  first
    [ assumption
    | (match goal with L3h : 0 < sumw l3w _ -> stopflag _ = true |- _ =>
         let Hx := fresh in assert (Hx := L3h ltac:(lia)); first [congruence | (intros; split; [congruence|lia])] end)
    | exact I
    | discriminate
    | lia
    | (intros; lia)
    | (intros; exfalso; lia)
    | (intros; congruence)
    | (let Hx := fresh in intros Hx; destruct (LH Hx); split; [auto; fail | lia])
    | (let Hx := fresh in intros Hx; destruct (LH Hx); split; [congruence | lia])
    | (let Hx := fresh in intros Hx; destruct (LH Hx); congruence)
    | (let Hx := fresh in intros Hx; destruct (LH Hx); lia) ].

Ltac sprep En Et Est :=
  psimpl; unfold lock_free, late in *; psimpl; rewrite ?Et, ?Est in *;
  cbn [reg_t reg_s halt_s] in *;
  rewrite ?(sumw_upd reg_w _ _ _ _ En), ?(sumw_upd halt_w _ _ _ _ En), ?(sumw_upd l3w _ _ _ _ En),
          ?(sumw_wake reg_w eq_refl), ?(sumw_wake halt_w eq_refl), ?(sumw_wake l3w eq_refl);
  cbn [reg_w halt_w l3w wake] in *.

Lemma safe_step_cancel s s' : Safe s -> pstep s PCancel = Some s' -> Safe s'.
Proof.
  intros [MU T3' HA LH LA L3'] H. cbn [pstep] in H. injection H as <-.
  constructor; psimpl; unfold lock_free in *; psimpl; assumption.
Qed.

Lemma safe_step_stop s s' : Safe s -> pstep s PStop = Some s' -> Safe s'.
Proof.
  intros [MU T3' HA LH LA L3'] H.
  pose proof (sumw_nonneg reg_w reg_w_nonneg (workers s)) as Hr0.
  pose proof (sumw_nonneg halt_w halt_w_nonneg (workers s)) as Hh0.
  pose proof (sum_halt_le_reg (workers s)) as Hhr.
  cbn [pstep] in H. unfold stop_step in H.
  destruct (stopper s) as [| | | |d|d|d|] eqn:Est; try discriminate;
    try (destruct (ctx_done s) eqn:Ecd; [|discriminate]);
    try (destruct (lock_free s) eqn:Elf; [|discriminate]);
    try (destruct (exhausted s) eqn:Eex);
    injection H as <-;
    (constructor; sprep Est Est Est;
     try (destruct (plock s) eqn:Epl); try discriminate;
     try (destruct (tick s) eqn:Et2; cbn [reg_t] in *);
     try (destruct (limit_halted s) eqn:Elh);
     sfin LH).
Qed.

Lemma safe_step_tick s s' : Safe s -> pstep s PTick = Some s' -> Safe s'.
Proof.
  intros [MU T3' HA LH LA L3'] H.
  pose proof (sumw_nonneg reg_w reg_w_nonneg (workers s)) as Hr0.
  pose proof (sumw_nonneg halt_w halt_w_nonneg (workers s)) as Hh0.
  pose proof (sum_halt_le_reg (workers s)) as Hhr.
  cbn [pstep] in H. unfold tick_step in H.
  destruct (tick s) as [[|n rest]|n rest|n rest|n rest|d rest|d rest|d rest] eqn:Et; try discriminate;
    try (destruct (ctx_done s) eqn:Ecd);
    try (destruct (lock_free s) eqn:Elf; [|discriminate]);
    try (destruct (stopflag s) eqn:Esf);
    try (destruct (exhausted s) eqn:Eex);
    injection H as <-;
    (constructor; sprep Et Et Et;
     try (destruct (plock s) eqn:Epl); try discriminate;
     try (destruct (stopper s) eqn:Est2; cbn [reg_s halt_s] in *);
     try (destruct (limit_halted s) eqn:Elh);
     sfin LH).
Qed.

Lemma reg_t_bounds t : 0 <= reg_t t <= 1. Proof. destruct t; cbn; lia. Qed.
Lemma reg_s_bounds p : 0 <= reg_s p <= 1 /\ 0 <= halt_s p <= reg_s p. Proof. destruct p; cbn; lia. Qed.

Ltac s2 LH s := first [ sfin LH | solve [destruct (plock s) eqn:?; try discriminate; sfin LH] ].
Ltac s3 LH s := first [ s2 LH s | solve [destruct (limit_halted s) eqn:?; s2 LH s] ].
Ltac s4 LH s :=
  first [ s3 LH s
        | solve [destruct (tick s) eqn:?; cbn [reg_t] in *; s3 LH s]
        | solve [destruct (stopper s) eqn:?; cbn [reg_s halt_s] in *; s3 LH s] ].

Lemma safe_step_worker s i s' : Safe s -> pstep s (PWorker i) = Some s' -> Safe s'.
Proof.
  intros [MU T3' HA LH LA L3'] H.
  pose proof (sumw_nonneg reg_w reg_w_nonneg (workers s)) as Hr0.
  pose proof (sumw_nonneg halt_w halt_w_nonneg (workers s)) as Hh0.
  pose proof (sum_halt_le_reg (workers s)) as Hhr.
  pose proof (reg_t_bounds (tick s)) as Hrt.
  pose proof (reg_s_bounds (stopper s)) as Hrs.
  cbn [pstep] in H. unfold worker_step in H.
  destruct (nth_error (workers s) i) as [w|] eqn:En; [|discriminate].
  pose proof (sumw_ge reg_w reg_w_nonneg _ _ _ En) as Hge.
  pose proof (sumw_ge halt_w halt_w_nonneg _ _ _ En) as Hgh.
  pose proof (sumw_ge l3w l3w_nonneg _ _ _ En) as Hgl.
  pose proof (sumw_nonneg l3w l3w_nonneg (workers s)) as Hl0.
  pose proof (nth_wake _ _ _ En) as Enw.
  destruct w as [| | | | | | | | | | | | | | | |id|id|]; try discriminate; cbn [reg_w halt_w l3w wake] in Hge, Hgh, Hgl, Enw;
    try (destruct (stopflag s) eqn:Esf);
    try (destruct (lock_free s) eqn:Elf; [|discriminate]);
    try (destruct (counter s <=? 0) eqn:Ec0);
    try (destruct (0 <=? counter s - 1) eqn:Ec1);
    try (destruct ((0 <? maxiter s) && (maxiter s <? iter s + 1)) eqn:Elim);
    injection H as <-;
    (constructor; sprep En En En;
     rewrite ?(sumw_upd reg_w _ _ _ _ Enw), ?(sumw_upd halt_w _ _ _ _ Enw), ?(sumw_upd l3w _ _ _ _ Enw),
             ?(sumw_wake reg_w eq_refl), ?(sumw_wake halt_w eq_refl), ?(sumw_wake l3w eq_refl);
     cbn [reg_w halt_w l3w wake] in *;
     s4 LH s).
Qed.

Lemma safe_step s l s' : Safe s -> pstep s l = Some s' -> Safe s'.
Proof.
  intros I H. destruct l.
  - eapply safe_step_tick; eauto.
  - eapply safe_step_stop; eauto.
  - eapply safe_step_worker; eauto.
  - eapply safe_step_cancel; eauto.
Qed.

Theorem safe_exec : forall ls s, Safe s -> Safe (pexec s ls).
Proof.
  induction ls as [|l ls IH]; intros s I; [exact I|].
  cbn [pexec fold_left]. destruct (pstep s l) as [s'|] eqn:E; [apply IH; eapply safe_step; eauto|apply IH; exact I].
Qed.
