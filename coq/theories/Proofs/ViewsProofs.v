From Coq Require Import String.
From F1 Require Import Base.Prelude Base.F64 Base.GoStr Base.Fmt Model.Views.
From Coq Require Import ZifyBool Lia.

Ltac Zify.zify_post_hook ::= Z.div_mod_to_equations.

Definition all_digits (s : str) : Prop := Forall (fun c => is_digit c = true) s.
Definition val_of (ds : str) (a : Z) : Z := fold_left (fun a c => a * 10 + (c - 48)) ds a.

Definition starts_nondigit (s : str) : Prop :=
  match s with [] => True | c :: _ => is_digit c = false end.

Lemma read_digits_spec : forall ds rest acc,
  all_digits ds -> ds <> [] -> starts_nondigit rest ->
  read_digits (ds ++ rest) acc = (Some (val_of ds (match acc with Some a => a | None => 0 end)), rest).
Proof.
  induction ds as [|c ds IH]; intros rest acc Hd Hne Hr; [congruence|].
  inversion Hd as [|? ? Hc Hds]; subst. cbn [app read_digits]. rewrite Hc.
  destruct ds as [|c' ds'].
  - cbn [app]. destruct rest as [|x r]; cbn [read_digits].
    + destruct acc; cbn; f_equal; f_equal; lia.
    + cbn in Hr. rewrite Hr. destruct acc; cbn; f_equal; f_equal; lia.
  - rewrite (IH rest _ Hds ltac:(congruence) Hr). destruct acc; cbn [val_of fold_left]; f_equal; f_equal; f_equal; lia.
Qed.

Lemma val_of_app ds d a : val_of (ds ++ [d]) a = val_of ds a * 10 + (d - 48).
Proof. unfold val_of. rewrite fold_left_app. reflexivity. Qed.

Lemma digits_fuel_spec : forall f z acc,
  0 <= z < 10 ^ Z.of_nat f -> (0 < f)%nat ->
  exists D, digits_fuel f z acc = D ++ acc /\ all_digits D /\ D <> [] /\ val_of D 0 = z.
Proof.
  induction f as [|f IH]; intros z acc Hz Hf; [lia|].
  cbn [digits_fuel].
  assert (Hd : is_digit (48 + z mod 10) = true) by (unfold is_digit; lia).
  destruct (z / 10 =? 0) eqn:E.
  - exists [48 + z mod 10]. repeat split; try (constructor; [exact Hd|constructor]); try congruence.
    unfold val_of. cbn [fold_left]. lia.
  - destruct f as [|f'].
    + (* fuel 1: z < 10, so z/10 = 0 *) cbn in Hz. lia.
    + assert (Hz' : 0 <= z / 10 < 10 ^ Z.of_nat (S f')).
      { replace (Z.of_nat (S (S f'))) with (Z.of_nat (S f') + 1) in Hz by lia.
        rewrite Z.pow_add_r in Hz by lia. lia. }
      destruct (IH (z / 10) ((48 + z mod 10) :: acc) Hz' ltac:(lia)) as (D & A & B & C & V).
      exists (D ++ [48 + z mod 10]). rewrite A, <- app_assoc. split; [reflexivity|].
      split; [apply Forall_app; split; [exact B|constructor; [exact Hd|constructor]]|].
      split; [destruct D; discriminate|].
      rewrite val_of_app, V. lia.
Qed.

(* Decimal rendering is read back exactly: the count printed is the count. *)
Lemma itoa_roundtrip n rest : 0 <= n < 2 ^ 64 -> starts_nondigit rest ->
  read_digits (itoa n ++ rest) None = (Some n, rest).
Proof.
  intros Hn Hr. unfold itoa. replace (n <? 0) with false by lia.
  assert (Hb : 0 <= n < 10 ^ Z.of_nat 400).
  { split; [lia|]. apply Z.lt_le_trans with (2 ^ 64); [lia|].
    change (Z.of_nat 400) with 400. apply Z.le_trans with (10 ^ 64).
    - apply Z.pow_le_mono_l. lia.
    - apply Z.pow_le_mono_r; lia. }
  destruct (digits_fuel_spec 400 n [] Hb ltac:(lia)) as (D & A & B & C & V).
  rewrite A, app_nil_r, (read_digits_spec D rest None B C Hr), V. reflexivity.
Qed.


Definition starts_nonspace (s : str) : Prop := match s with 32 :: _ => False | _ => True end.

Lemma skip_spaces_pad : forall k s, starts_nonspace s -> skip_spaces (spaces k ++ s) = s.
Proof.
  induction k as [|k IH]; intros s Hs; cbn [spaces app skip_spaces].
  - destruct s as [|c r]; [reflexivity|]. cbn in Hs. cbn [skip_spaces].
    destruct (Z.eq_dec c 32) as [->|Hne]; [destruct Hs|].
    destruct c as [|p|p]; try reflexivity. repeat (destruct p as [p|p|]; try reflexivity); congruence.
  - apply IH. exact Hs.
Qed.

(* ---------------------------------------------------------------- bytes below 226 *)

Definition lt226 (s : str) : Prop := Forall (fun c => c < 226) s.

Lemma lt226_b s : forallb (fun c => c <? 226) s = true -> lt226 s.
Proof.
  unfold lt226. rewrite forallb_forall, Forall_forall. intros H x Hx. specialize (H x Hx). lia.
Qed.

Lemma lt226_app a b : lt226 a -> lt226 b -> lt226 (a ++ b).
Proof. intros. apply Forall_app. split; assumption. Qed.

Lemma digits_fuel_lt226 : forall f z acc, lt226 acc -> lt226 (digits_fuel f z acc).
Proof.
  induction f as [|f IH]; intros z acc Ha; cbn [digits_fuel]; [exact Ha|].
  assert (H : lt226 ((48 + z mod 10) :: acc)) by (constructor; [lia|exact Ha]).
  destruct (z / 10 =? 0); [exact H|apply IH; exact H].
Qed.

Lemma itoa_lt226 z : lt226 (itoa z).
Proof.
  unfold itoa. destruct (z <? 0).
  - constructor; [lia|]. apply digits_fuel_lt226. constructor.
  - apply digits_fuel_lt226. constructor.
Qed.

Lemma spaces_lt226 k : lt226 (spaces k).
Proof. induction k; cbn; constructor; [lia|assumption]. Qed.

Lemma pad_left_lt226 k s : lt226 s -> lt226 (pad_left k s).
Proof. intros. unfold pad_left. apply lt226_app; [apply spaces_lt226|assumption]. Qed.

Lemma frac_digits_lt226 : forall p v acc, lt226 acc -> lt226 (frac_digits p v acc).
Proof.
  induction p as [|p IH]; intros v acc Ha; cbn [frac_digits]; [exact Ha|].
  apply IH. constructor; [lia|exact Ha].
Qed.

Lemma strip_lt226 : forall r, lt226 r -> lt226 (strip_trailing_zeros_rev r).
Proof.
  induction r as [|c r IH]; intros H; [constructor|].
  inversion H; subst. cbn [strip_trailing_zeros_rev].
  destruct c as [|p|p]; try exact H.
  repeat (destruct p as [p|p|]; try exact H). apply IH. assumption.
Qed.

Lemma rev_lt226 r : lt226 r -> lt226 (rev r).
Proof. unfold lt226. intros. apply Forall_rev. assumption. Qed.

Lemma fmt_frac_lt226 v p : lt226 (fmt_frac v p).
Proof.
  unfold fmt_frac.
  set (ds := rev (strip_trailing_zeros_rev (rev (frac_digits p (v mod 10 ^ Z.of_nat p) [])))).
  assert (lt226 ds).
  { apply rev_lt226, strip_lt226, rev_lt226, frac_digits_lt226. constructor. }
  destruct ds; [constructor|]. constructor; [lia|assumption].
Qed.

Ltac lt226_lit :=
  match goal with
  | |- lt226 (s_of _) => apply lt226_b; vm_compute; reflexivity
  | |- lt226 [] => constructor
  | |- lt226 (_ :: _) => unfold lt226; repeat (apply Forall_cons; [lia|]); apply Forall_nil
  end.

Ltac lt226_tac :=
  repeat first
    [ apply lt226_app
    | apply itoa_lt226
    | apply fmt_frac_lt226
    | apply pad_left_lt226
    | apply spaces_lt226
    | lt226_lit ].

Lemma duration_string_lt226 d : lt226 (duration_string d).
Proof.
  unfold duration_string.
  set (u := Z.abs d).
  assert (Hbody : lt226
    (if u <? sec then
      if u =? 0 then [48; 115]
      else if u <? 1000 then itoa u ++ [110; 115]
      else if u <? 1000000 then itoa (u / 1000) ++ fmt_frac u 3 ++ [194; 181; 115]
      else itoa (u / 1000000) ++ fmt_frac u 6 ++ [109; 115]
    else
      let secs := u / sec in
      let s_part := itoa (secs mod 60) ++ fmt_frac u 9 ++ [115] in
      let mins := secs / 60 in
      if mins =? 0 then s_part
      else let m_part := itoa (mins mod 60) ++ [109] in
           let hours := mins / 60 in
           if hours =? 0 then m_part ++ s_part
           else itoa hours ++ [104] ++ m_part ++ s_part)).
  { destruct (u <? sec).
    - destruct (u =? 0); [lt226_tac|]. destruct (u <? 1000); [lt226_tac|].
      destruct (u <? 1000000); lt226_tac.
    - cbv zeta. destruct (u / sec / 60 =? 0); [lt226_tac|].
      destruct (u / sec / 60 / 60 =? 0); lt226_tac. }
  destruct (d <? 0); [constructor; [lia|exact Hbody]|exact Hbody].
Qed.

Lemma dsnap_string_lt226 d : lt226 (dsnap_string d).
Proof. unfold dsnap_string. repeat apply lt226_app; try apply duration_string_lt226; lt226_tac. Qed.

(* ---------------------------------------------------------------- searching for a marker *)

Definition marker3 (m : str) : Prop := exists b c, m = [226; b; c] /\ b < 226 /\ c < 226.

Lemma marker_check : marker3 check_mark. Proof. exists 156, 148. repeat split; lia. Qed.
Lemma marker_drop : marker3 drop_mark. Proof. exists 166, 184. repeat split; lia. Qed.
Lemma marker_cross : marker3 cross_mark. Proof. exists 156, 152. repeat split; lia. Qed.

Lemma str_eqb_false a b : a <> b -> str_eqb a b = false.
Proof. intros H. destruct (str_eqb a b) eqn:E; [apply str_eqb_eq in E; congruence|reflexivity]. Qed.

(* found right after a prefix free of the marker's lead byte *)
Lemma find_after_hit : forall p m r fuel, marker3 m -> lt226 p -> (length p < fuel)%nat ->
  find_after m fuel (p ++ m ++ r) = Some r.
Proof.
  induction p as [|x p IH]; intros m r fuel Hm Hp Hf.
  - destruct fuel as [|fuel]; [cbn in Hf; lia|]. cbn [app find_after].
    destruct Hm as (b & c & -> & _). cbn [length firstn skipn app].
    rewrite (proj2 (str_eqb_eq _ _) eq_refl). reflexivity.
  - destruct fuel as [|fuel]; [cbn in Hf; lia|]. cbn [app find_after].
    inversion Hp as [|? ? Hx Hp']; subst.
    destruct Hm as (b & c & Em & Hb & Hc). subst m. cbn [length firstn].
    rewrite str_eqb_false.
    + apply IH; [exists b, c; auto|assumption|cbn in Hf; lia].
    + destruct (p ++ [226; b; c] ++ r) as [|y [|z t]]; cbn; intros E; injection E; intros; lia.
Qed.

(* not found in a text whose only lead byte belongs to a different marker *)
Lemma find_after_none_plain : forall q m fuel, marker3 m -> lt226 q -> find_after m fuel q = None.
Proof.
  induction q as [|x q IH]; intros m fuel Hm Hq; destruct fuel as [|fuel]; cbn [find_after]; try reflexivity.
  - destruct Hm as (b & c & -> & _). cbn. reflexivity.
  - inversion Hq as [|? ? Hx Hq']; subst.
    destruct Hm as (b & c & Em & Hb & Hc). subst m. cbn [length firstn].
    rewrite str_eqb_false.
    + apply IH; [exists b, c; auto|assumption].
    + destruct q as [|y [|z t]]; cbn; intros E; injection E; intros; lia.
Qed.

Lemma find_after_miss : forall p m m' q fuel, marker3 m -> marker3 m' -> m <> m' ->
  lt226 p -> lt226 q -> find_after m fuel (p ++ m' ++ q) = None.
Proof.
  induction p as [|x p IH]; intros m m' q fuel Hm Hm' Hne Hp Hq.
  - cbn [app].
    destruct Hm as (b & c & -> & Hb & Hc). destruct Hm' as (b' & c' & -> & Hb' & Hc').
    destruct fuel as [|f1]; [reflexivity|]. cbn [app find_after length firstn].
    rewrite str_eqb_false by congruence.
    destruct f1 as [|f2]; [reflexivity|]. cbn [find_after length firstn].
    rewrite str_eqb_false by (destruct q as [|y t]; cbn; intros E; injection E; intros; lia).
    destruct f2 as [|f3]; [reflexivity|]. cbn [find_after length firstn].
    rewrite str_eqb_false by (destruct q as [|y [|z t]]; cbn; intros E; injection E; intros; lia).
    apply find_after_none_plain; [exists b, c; auto|assumption].
  - destruct fuel as [|fuel]; [reflexivity|]. cbn [app find_after].
    inversion Hp as [|? ? Hx Hp']; subst.
    destruct Hm as (b & c & Em & Hb & Hc). subst m. cbn [length firstn].
    rewrite str_eqb_false.
    + apply IH; auto. exists b, c; auto.
    + destruct (p ++ m' ++ q) as [|y [|z t]]; cbn; intros E; injection E; intros; lia.
Qed.

(* ---------------------------------------------------------------- reading the counts back *)

Lemma itoa_head n : 0 <= n < 2 ^ 64 -> exists c r, itoa n = c :: r /\ is_digit c = true.
Proof.
  intros Hn. unfold itoa. replace (n <? 0) with false by lia.
  assert (Hb : 0 <= n < 10 ^ Z.of_nat 400).
  { split; [lia|]. apply Z.lt_le_trans with (2 ^ 64); [lia|].
    change (Z.of_nat 400) with 400. apply Z.le_trans with (10 ^ 64).
    - apply Z.pow_le_mono_l. lia.
    - apply Z.pow_le_mono_r; lia. }
  destruct (digits_fuel_spec 400 n [] Hb ltac:(lia)) as (D & A & B & C & V).
  rewrite A, app_nil_r. destruct D as [|c r]; [congruence|]. inversion B; subst. eauto.
Qed.

Lemma digit_nonspace c r : is_digit c = true -> starts_nonspace (c :: r).
Proof.
  intros Hc. cbn. unfold is_digit in Hc.
  destruct c as [|q|q]; try exact I. repeat (destruct q as [q|q|]; try exact I). cbn in Hc. discriminate.
Qed.

Lemma read_number m p n rest :
  marker3 m -> lt226 p -> 0 <= n < 2 ^ 64 -> starts_nondigit rest ->
  read_after m (p ++ m ++ [32] ++ pad_left 5 (itoa n) ++ rest) = Some (Some n, rest).
Proof.
  intros Hm Hp Hn Hr. unfold read_after.
  rewrite find_after_hit; auto.
  - unfold pad_left.
    set (k := (5 - rune_count (itoa n))%nat).
    replace ([32] ++ (spaces k ++ itoa n) ++ rest) with (spaces (S k) ++ (itoa n ++ rest))
      by (cbn [spaces app]; rewrite <- app_assoc; reflexivity).
    destruct (itoa_head n Hn) as (c & r & E & Hc).
    rewrite skip_spaces_pad.
    + rewrite (itoa_roundtrip n rest Hn Hr). reflexivity.
    + rewrite E. cbn [app]. apply digit_nonspace. exact Hc.
  - rewrite !app_length. lia.
Qed.

Definition tail_q (p : progress_data) : str :=
  s_of " (" ++ itoa (rate_fn (pd_period p) (ds_cnt (pd_period_stats p))) ++ s_of "/s)   " ++ dsnap_string (pd_period_stats p).

Lemma tail_q_lt226 p : lt226 (tail_q p).
Proof. unfold tail_q. repeat first [apply dsnap_string_lt226 | apply duration_string_lt226 | apply lt226_app | lt226_tac]. Qed.

Definition head_p (p : progress_data) : str :=
  [91] ++ pad_left 5 (duration_string (duration_round (pd_duration p) sec)) ++ [93; 32; 32].

Lemma head_p_lt226 p : lt226 (head_p p).
Proof.
  unfold head_p. repeat first [apply duration_string_lt226 | apply pad_left_lt226 | apply lt226_app | lt226_tac].
Qed.

(* the plain (no colour) progress line in normal form *)
Lemma render_progress_plain p :
  render_progress false p =
  head_p p ++ check_mark ++ [32] ++ pad_left 5 (itoa (pd_succ p)) ++
  ([32; 32] ++
   (if pd_drop p =? 0 then [] else drop_mark ++ [32] ++ pad_left 5 (itoa (pd_drop p)) ++ [32; 32]) ++
   cross_mark ++ [32] ++ pad_left 5 (itoa (pd_fail p)) ++ tail_q p).
Proof.
  unfold render_progress, time_tag, head_p, tail_q, colours. cbn [c_reset c_cyan c_green c_yellow c_red c_lblack].
  change (s_of "  ") with [32; 32]. change (s_of " ") with [32]. change (s_of "(") with [40].
  change (s_of " (") with [32; 40]. change (s_of "/s)") with [47; 115; 41]. change (s_of "   ") with [32; 32; 32].
  change (s_of "/s)   ") with [47; 115; 41; 32; 32; 32].
  destruct (pd_drop p =? 0); cbn [app]; rewrite <- ?app_assoc; cbn [app]; reflexivity.
Qed.

Theorem progress_roundtrip p :
  0 <= pd_succ p < 2 ^ 64 -> 0 <= pd_drop p < 2 ^ 64 -> 0 <= pd_fail p < 2 ^ 64 ->
  read_progress (render_progress false p) =
  Some (Some (pd_succ p), (if pd_drop p =? 0 then None else Some (pd_drop p)), Some (pd_fail p)).
Proof.
  intros Hs Hd Hf. rewrite render_progress_plain. unfold read_progress.
  rewrite (read_number check_mark (head_p p) (pd_succ p) _ marker_check (head_p_lt226 p) Hs) by exact eq_refl.
  assert (Htail : starts_nondigit (tail_q p)) by (unfold tail_q; cbn; reflexivity).
  destruct (pd_drop p =? 0) eqn:Ed.
  - cbn [app].
    assert (Hmiss : read_after drop_mark ([32; 32] ++ cross_mark ++ [32] ++ pad_left 5 (itoa (pd_fail p)) ++ tail_q p) = None).
    { unfold read_after. rewrite find_after_miss; auto using marker_drop, marker_cross.
      - discriminate.
      - lt226_tac.
      - repeat first [apply tail_q_lt226 | apply lt226_app | lt226_tac]. }
    change ([32; 32] ++ cross_mark ++ [32] ++ pad_left 5 (itoa (pd_fail p)) ++ tail_q p)
      with ([32; 32] ++ cross_mark ++ [32] ++ pad_left 5 (itoa (pd_fail p)) ++ tail_q p) in *.
    cbn [app] in Hmiss. rewrite Hmiss.
    pose proof (read_number cross_mark [32; 32] (pd_fail p) (tail_q p) marker_cross ltac:(lt226_tac) Hf Htail) as Hc.
    cbn [app] in Hc. rewrite Hc. reflexivity.
  - pose proof (read_number drop_mark [32; 32] (pd_drop p)
                  ([32; 32] ++ cross_mark ++ [32] ++ pad_left 5 (itoa (pd_fail p)) ++ tail_q p)
                  marker_drop ltac:(lt226_tac) Hd eq_refl) as Hdr.
    rewrite <- !app_assoc in *. cbn [app] in *. rewrite Hdr.
    pose proof (read_number cross_mark [32; 32] (pd_fail p) (tail_q p) marker_cross ltac:(lt226_tac) Hf Htail) as Hc.
    cbn [app] in Hc. rewrite Hc. reflexivity.
Qed.

(* the banner of the summary is the verdict *)
Lemma result_banner on r :
  exists rest,
    render_result on r =
    nl ++ (if rd_failed r
           then c_red (colours on) ++ c_bold (colours on) ++ c_u (colours on) ++ s_of "Load Test Failed" ++ c_reset (colours on)
           else c_green (colours on) ++ c_bold (colours on) ++ c_u (colours on) ++ s_of "Load Test Passed" ++ c_reset (colours on)) ++ rest.
Proof. unfold render_result. eexists. reflexivity. Qed.
