(* Shared lemmas for the pool invariants. *)
From F1 Require Import Base.Prelude Model.Pool.
From Coq Require Import ZifyBool Lia.

Definition sumw (f : wpc -> Z) (l : list wpc) : Z := zsum (map f l).

Lemma sumw_upd f : forall l i old x,
  nth_error l i = Some old -> sumw f (upd l i x) = sumw f l - f old + f x.
Proof.
  induction l as [|y l IH]; intros i old x H; [destruct i; discriminate|].
  destruct i as [|i]; cbn in H.
  - injection H as ->. unfold sumw. cbn [upd map]. rewrite !zsum_cons. lia.
  - unfold sumw in *. cbn [upd map]. rewrite !zsum_cons, (IH i old x H). lia.
Qed.

Lemma sumw_wake f : f WRelock = f WWait -> forall l, sumw f (map wake l) = sumw f l.
Proof.
  intros Hf. unfold sumw. induction l as [|w l IH]; [reflexivity|].
  cbn [map]. rewrite !zsum_cons, IH. destruct w; cbn [wake]; try lia.
Qed.

Lemma sumw_nonneg f : (forall w, 0 <= f w) -> forall l, 0 <= sumw f l.
Proof.
  intros Hf. unfold sumw. induction l as [|w l IH]; cbn [map]; [cbn; lia|].
  rewrite zsum_cons. pose proof (Hf w). lia.
Qed.

Lemma sumw_repeat f w n : f w = 0 -> sumw f (repeat w n) = 0.
Proof. intros H. unfold sumw. induction n as [|n IH]; cbn [repeat map]; [reflexivity|]. rewrite zsum_cons, IH. lia. Qed.

Lemma nth_wake l i w : nth_error l i = Some w -> nth_error (map wake l) i = Some (wake w).
Proof. intros H. rewrite nth_error_map, H. reflexivity. Qed.

Lemma sumw_ge f : (forall w, 0 <= f w) -> forall l i w, nth_error l i = Some w -> f w <= sumw f l.
Proof.
  intros Hf. induction l as [|y l IH]; intros i w H; [destruct i; discriminate|].
  unfold sumw in *. cbn [map]. rewrite zsum_cons. destruct i as [|i]; cbn in H.
  - injection H as ->. pose proof (sumw_nonneg f Hf l). unfold sumw in *. lia.
  - specialize (IH i w H). pose proof (Hf y). lia.
Qed.

Ltac psimpl :=
  cbn [counter stopflag plock iter maxiter ctx_done workers tick stopper accepted started dropped discarded
       limit_halted late_drops ids_started ids_issued
       set_w set_tick set_stopper set_lock set_counter set_stopflag set_ctx_done add_ghost issue_id bump_iter start_id] in *.

(* case analysis of one step: leaves one goal per enabled step kind with the
   post-state substituted *)
Ltac step_cases H :=
  match type of H with
  | pstep ?s ?l = Some ?s' =>
    destruct l as [| |i|]; cbn [pstep] in H;
    [ unfold tick_step in H; destruct (tick s) as [[|n rest]|n rest|n rest|n rest|d rest|d rest|d rest] eqn:Et;
      try discriminate;
      try (destruct (ctx_done s) eqn:Ecd);
      try (destruct (lock_free s) eqn:Elf; [|discriminate]);
      try (destruct (stopflag s) eqn:Esf);
      try (destruct (exhausted s) eqn:Eex);
      injection H as <-
    | unfold stop_step in H; destruct (stopper s) as [| | | |d|d|d|] eqn:Est; try discriminate;
      try (destruct (ctx_done s) eqn:Ecd; [|discriminate]);
      try (destruct (lock_free s) eqn:Elf; [|discriminate]);
      try (destruct (exhausted s) eqn:Eex);
      injection H as <-
    | unfold worker_step in H; destruct (nth_error (workers s) i) as [w|] eqn:En; [|discriminate];
      destruct w as [| | | | | | | | | | | | | | | |id|id|]; try discriminate;
      try (destruct (stopflag s) eqn:Esf);
      try (destruct (lock_free s) eqn:Elf; [|discriminate]);
      try (destruct (counter s <=? 0) eqn:Ec0);
      try (destruct (0 <=? counter s - 1) eqn:Ec1);
      try (destruct ((0 <? maxiter s) && (maxiter s <? iter s + 1)) eqn:Elim);
      injection H as <-
    | injection H as <- ]
  end.
