From F1 Require Import Base.Prelude Model.Runner.
From Coq Require Import ZifyBool Lia.

Definition fn_starts (tr : list rev) : Z := zcount is_fn_start tr.
Definition ticks (tr : list rev) : Z := zcount is_tick tr.

Record RInv (s : rstate) : Prop := {
  ri_nostart : r_g s = GNone -> fn_starts (r_trace s) = 0 /\ r_stop s = SIdle;
  ri_ticks : fn_starts (r_trace s) + (if r_tick_ready s then 1 else 0) <= ticks (r_trace s);
  ri_stop : r_stop s = SReturned -> r_g s = GExited;
  ri_idx : -1 <= r_idx s < r_len s;
  ri_idx_fn : forall k, In (EvFnStart k) (r_trace s) -> 0 <= k < r_len s -> True
}.

Lemma zcount_cons {A} (p : A -> bool) x l : zcount p (x :: l) = (if p x then 1 else 0) + zcount p l.
Proof. reflexivity. Qed.

Ltac rsimpl := cbn [r_len r_idx r_tick_ready r_timer_armed r_timer_ready r_restart_buf r_cancelled r_g r_stop r_trace
                    upd_g app] in *.

Lemma sched_start_inv s index :
  RInv s -> r_g s <> GNone -> -1 <= index -> (r_stop s = SReturned -> False) ->
  RInv (sched_start s index []).
Proof.
  intros [A B C D E] Hg Hi Hs. unfold sched_start.
  destruct (r_len s <=? index) eqn:El; constructor; rsimpl; auto;
    unfold fn_starts, ticks in *; rewrite ?zcount_cons in *; cbn [is_fn_start is_tick] in *;
    try (intros Hx; exfalso; auto; fail);
    try (destruct (r_tick_ready s); lia);
    try lia.
Qed.

Ltac rfin :=
  try (let Hx := fresh in intros Hx;
       match goal with Cc : r_stop _ = SReturned -> _ |- _ => specialize (Cc Hx); congruence end);
  try (intros; exfalso; congruence);
  try (intros; congruence);
  try (unfold fn_starts, ticks in *; rewrite ?zcount_cons in *; cbn [is_fn_start is_tick] in *;
       try (destruct (r_tick_ready _)); try split; try lia; try congruence; try (intros; congruence)).

Theorem rstep_inv s l s' : 1 <= r_len s -> RInv s -> rstep true s l = Some s' -> RInv s' /\ r_len s' = r_len s.
Proof.
  intros Hlen I H.
  destruct l; cbn [rstep] in H.
  - (* LStart *) destruct (r_g s) eqn:Eg; try discriminate. injection H as <-.
    destruct I as [A B C D E]. destruct (A Eg) as [A1 A2].
    split; [|reflexivity]. constructor; rsimpl; auto; rfin.
  - (* LRestart *) destruct (r_restart_buf s); [discriminate|]. injection H as <-.
    destruct I as [A B C D E]. split; [|reflexivity]. constructor; rsimpl; auto; rfin.
    all: try (intros Hg; destruct (A Hg); rfin).
  - (* LStopCancel *)
    destruct (r_g s) eqn:Eg; try discriminate; destruct (r_stop s) eqn:Es; try discriminate; injection H as <-;
      destruct I as [A B C D E]; (split; [|reflexivity]); constructor; rsimpl; auto; rfin.
  - (* LStopReturn *)
    destruct (r_stop s) eqn:Es; try discriminate.
    destruct (stopped_closed true s) eqn:Ec; [|discriminate]. injection H as <-.
    destruct I as [A B C D E]. split; [|reflexivity]. unfold stopped_closed in Ec.
    destruct (r_g s) eqn:Eg; try discriminate.
    constructor; rsimpl; auto; rfin.
  - (* LCancel *) injection H as <-. destruct I as [A B C D E]. split; [|reflexivity]. constructor; rsimpl; auto; rfin.
    all: try (intros Hg; destruct (A Hg); rfin).
  - (* LEnvTick *)
    destruct (r_g s) eqn:Eg; try discriminate; destruct (r_tick_ready s) eqn:Et; try discriminate;
      destruct (r_idx s <? 0) eqn:Ei; try discriminate; cbn [orb] in H; injection H as <-;
      destruct I as [A B C D E]; (split; [|reflexivity]); constructor; rsimpl; auto; rfin;
      try (intros Hx; specialize (C Hx); congruence);
      try (intros Hg; destruct (A Eg); rfin).
  - (* LEnvTimer *)
    destruct (r_g s) eqn:Eg; try discriminate; destruct (r_timer_armed s) eqn:Et; try discriminate; injection H as <-;
      destruct I as [A B C D E]; (split; [|reflexivity]); constructor; rsimpl; auto; rfin;
      try (intros Hx; specialize (C Hx); congruence);
      try (intros Hg; destruct (A Eg); rfin).
  - (* LSelRestart *)
    destruct (r_g s) eqn:Eg; try discriminate. destruct (r_restart_buf s) eqn:Er; [|discriminate]. injection H as <-.
    split.
    + apply sched_start_inv; rsimpl; try lia; try congruence.
      * destruct I as [A B C D E]. constructor; rsimpl; auto; rfin.
      * intros Hx. destruct I as [A B C D E]. rewrite (C Hx) in Eg. discriminate.
    + unfold sched_start. rsimpl. destruct (r_len s <=? 0); reflexivity.
  - (* LSelTimer *)
    destruct (r_g s) eqn:Eg; try discriminate. destruct (r_timer_ready s) eqn:Er; [|discriminate]. injection H as <-.
    split.
    + apply sched_start_inv; rsimpl; try congruence.
      * destruct I as [A B C D E]. constructor; rsimpl; auto; rfin.
      * destruct I as [A B C D E]. lia.
      * intros Hx. destruct I as [A B C D E]. rewrite (C Hx) in Eg. discriminate.
    + unfold sched_start. rsimpl. destruct (r_len s <=? r_idx s + 1); reflexivity.
  - (* LSelTick *)
    destruct (r_g s) eqn:Eg; try discriminate. destruct (r_tick_ready s) eqn:Et; [|discriminate]. injection H as <-.
    destruct I as [A B C D E]. split; [|reflexivity]. constructor; rsimpl; auto; rfin.
    all: try (intros Hx; specialize (C Hx); congruence).
  - (* LFnEnd *)
    destruct (r_g s) eqn:Eg; try discriminate. injection H as <-.
    destruct I as [A B C D E]. split; [|reflexivity]. constructor; rsimpl; auto; rfin.
    all: try (intros Hx; specialize (C Hx); congruence).
  - (* LSelDone *)
    destruct (r_g s) eqn:Eg; try discriminate. destruct (r_cancelled s); [|discriminate]. injection H as <-.
    destruct I as [A B C D E]. split; [|reflexivity]. constructor; rsimpl; auto; rfin.
Qed.

Lemma rinit_inv len : 1 <= len -> RInv (rinit len).
Proof. intros H. constructor; cbn; auto; try lia; try discriminate. Qed.

Theorem rexec_inv : forall ls s, 1 <= r_len s -> RInv s -> RInv (rexec true s ls) /\ r_len (rexec true s ls) = r_len s.
Proof.
  induction ls as [|l ls IH]; intros s Hl I; [split; [exact I|reflexivity]|].
  cbn [rexec fold_left]. destruct (rstep true s l) as [s'|] eqn:E.
  - destruct (rstep_inv s l s' Hl I E) as [I' L'].
    destruct (IH s' ltac:(lia) I') as [A B]. split; [exact A|]. unfold rexec in B. rewrite B. exact L'.
  - apply IH; assumption.
Qed.

(* once Stop has returned no step of anybody produces a function event, and
   Stop stays returned *)
Theorem stop_quiescent s l s' :
  RInv s -> r_stop s = SReturned -> rstep true s l = Some s' ->
  r_stop s' = SReturned /\ exists evs, r_trace s' = evs ++ r_trace s /\ filter is_fn_ev evs = [].
Proof.
  intros I Hs H. pose proof (ri_stop s I Hs) as Hg.
  destruct l; cbn [rstep] in H; rewrite ?Hg, ?Hs in H; try discriminate.
  - destruct (r_restart_buf s); [discriminate|]. injection H as <-. rsimpl. split; [first [exact Hs|reflexivity]|].
    exists [EvRestart]. split; reflexivity.
  - injection H as <-. rsimpl. split; [first [exact Hs|reflexivity]|]. exists [EvCancel]. split; reflexivity.
Qed.

(* after cancellation the goroutine can always leave: the exit case of the
   select is enabled whenever it is at the select, and a running function
   returns to the select *)
Theorem exit_enabled s :
  r_cancelled s = true ->
  (r_g s = GSelect -> exists s', rstep true s LSelDone = Some s' /\ r_g s' = GExited) /\
  (r_g s = GInFn -> exists s', rstep true s LFnEnd = Some s' /\ r_g s' = GSelect) /\
  (r_g s = GExited -> forall l, In l [LSelRestart; LSelTimer; LSelTick; LFnEnd; LSelDone; LEnvTick; LEnvTimer] ->
                                rstep true s l = None).
Proof.
  intros Hc. repeat split.
  - intros Hg. cbn [rstep]. rewrite Hg, Hc. eexists. split; reflexivity.
  - intros Hg. cbn [rstep]. rewrite Hg. eexists. split; reflexivity.
  - intros Hg l Hl. cbn in Hl.
    repeat (destruct Hl as [<-|Hl]; [cbn [rstep]; rewrite Hg; reflexivity|]). destruct Hl.
Qed.

(* Stop only returns once the goroutine is gone *)
Theorem stop_waits s s' : rstep true s LStopReturn = Some s' -> r_g s = GExited.
Proof.
  cbn [rstep]. destruct (r_stop s); try discriminate. unfold stopped_closed.
  destruct (r_g s); try discriminate. reflexivity.
Qed.

(* schedule progress *)
Lemma timer_moves_on s s' : rstep true s LSelTimer = Some s' ->
  r_idx s' = (if r_idx s + 1 <? r_len s then r_idx s + 1 else r_idx s).
Proof.
  cbn [rstep]. destruct (r_g s); try discriminate. destruct (r_timer_ready s); [|discriminate].
  intros H. injection H as <-. unfold sched_start. rsimpl.
  destruct (r_len s <=? r_idx s + 1) eqn:E; rsimpl; destruct (r_idx s + 1 <? r_len s) eqn:E2; lia.
Qed.

Lemma restart_goes_first s s' : 1 <= r_len s -> rstep true s LSelRestart = Some s' -> r_idx s' = 0.
Proof.
  intros Hl. cbn [rstep]. destruct (r_g s); try discriminate. destruct (r_restart_buf s); [|discriminate].
  intros H. injection H as <-. unfold sched_start. rsimpl.
  destruct (r_len s <=? 0) eqn:E; rsimpl; lia.
Qed.

(* ---- a function start consumes a tick of the ticker of the schedule active at that moment:
   the ticker is new at every (re)start of a schedule, so a tick delivered by an earlier
   schedule's ticker is never taken for one of the current schedule *)

Record RFresh (s : rstate) : Prop := {
  rf_fresh : zcount is_fn_start (since_sched (r_trace s)) + (if r_tick_ready s then 1 else 0)
             <= zcount is_tick (since_sched (r_trace s));
  rf_active : active_sched (r_trace s) = r_idx s;
  rf_idx : idx_consistent (r_trace s) = true
}.

Lemma rfresh_init len : RFresh (rinit len).
Proof. constructor; cbn; [lia|reflexivity|reflexivity]. Qed.

Lemma sched_start_fresh s index : RFresh s -> RFresh (sched_start s index []).
Proof.
  intros [A B C]. unfold sched_start. destruct (r_len s <=? index); constructor; rsimpl;
    cbn [since_sched active_sched idx_consistent zcount]; auto; lia.
Qed.

Ltac ffin :=
  cbn [since_sched active_sched idx_consistent]; rewrite ?zcount_cons; cbn [is_fn_start is_tick];
  try match goal with |- context [if r_tick_ready ?s then _ else _] => destruct (r_tick_ready s) end;
  try lia; auto.

Theorem rstep_fresh s l s' : RFresh s -> rstep true s l = Some s' -> RFresh s'.
Proof.
  intros I H. destruct l; cbn [rstep] in H.
  - destruct (r_g s); try discriminate. injection H as <-. destruct I as [A B C]. constructor; rsimpl; ffin.
  - destruct (r_restart_buf s); [discriminate|]. injection H as <-. destruct I as [A B C]. constructor; rsimpl; ffin.
  - destruct (r_g s); try discriminate; destruct (r_stop s); try discriminate; injection H as <-;
      destruct I as [A B C]; constructor; rsimpl; ffin.
  - destruct (r_stop s); try discriminate. destruct (stopped_closed true s); [|discriminate]. injection H as <-.
    destruct I as [A B C]. constructor; rsimpl; ffin.
  - injection H as <-. destruct I as [A B C]. constructor; rsimpl; ffin.
  - destruct (r_g s); try discriminate; destruct (r_tick_ready s) eqn:Et; try discriminate;
      destruct (r_idx s <? 0) eqn:Ei; try discriminate; cbn [orb] in H; injection H as <-;
      destruct I as [A B C]; constructor; rsimpl; cbn [since_sched active_sched idx_consistent];
      rewrite ?zcount_cons; cbn [is_fn_start is_tick]; try lia; auto;
      rewrite B, Z.eqb_refl; exact C.
  - destruct (r_g s); try discriminate; destruct (r_timer_armed s); try discriminate; injection H as <-;
      destruct I as [A B C]; constructor; rsimpl; ffin.
  - destruct (r_g s); try discriminate. destruct (r_restart_buf s); [|discriminate]. injection H as <-.
    apply sched_start_fresh. destruct I as [A B C]. constructor; rsimpl; auto.
  - destruct (r_g s); try discriminate. destruct (r_timer_ready s); [|discriminate]. injection H as <-.
    apply sched_start_fresh. destruct I as [A B C]. constructor; rsimpl; auto.
  - destruct (r_g s); try discriminate. destruct (r_tick_ready s) eqn:Et; [|discriminate]. injection H as <-.
    destruct I as [A B C]. constructor; rsimpl; cbn [since_sched active_sched idx_consistent];
      rewrite ?zcount_cons; cbn [is_fn_start is_tick]; try lia; auto;
      try (rewrite B, Z.eqb_refl; exact C).
  - destruct (r_g s); try discriminate. injection H as <-. destruct I as [A B C]. constructor; rsimpl; ffin.
  - destruct (r_g s); try discriminate. destruct (r_cancelled s); [|discriminate]. injection H as <-.
    destruct I as [A B C]. constructor; rsimpl; ffin.
Qed.

Theorem rexec_fresh : forall ls s, RFresh s -> RFresh (rexec true s ls).
Proof.
  induction ls as [|l ls IH]; intros s I; [exact I|].
  cbn [rexec fold_left]. destruct (rstep true s l) as [s'|] eqn:E.
  - apply IH. eapply rstep_fresh; eauto.
  - apply IH. exact I.
Qed.

(* ---- the harness's trace checker accepts every visible trace of the model *)

Fixpoint chk_after (c0 : chk) (tr : list rev) : option chk :=
  match tr with
  | [] => Some c0
  | e :: r => match chk_after c0 r with
              | Some c => match visible e with Some v => chk_step c v | None => Some c end
              | None => None
              end
  end.

Lemma chk_run_app c l1 l2 :
  chk_run c (l1 ++ l2) = match fold_left (fun oc e => match oc with Some c => chk_step c e | None => None end) l1 (Some c) with
                         | Some c' => chk_run c' l2 | None => false end.
Proof.
  revert c. induction l1 as [|e l1 IH]; intros c; [reflexivity|].
  cbn [app chk_run fold_left]. destruct (chk_step c e) as [c'|].
  - apply IH.
  - clear. induction l1 as [|x l1 IH]; [reflexivity|]. cbn [fold_left]. exact IH.
Qed.

Lemma fold_none l : fold_left (fun oc e => match oc with Some c => chk_step c e | None => None end) l None = None.
Proof. induction l as [|x l IH]; [reflexivity|]. cbn [fold_left]. exact IH. Qed.

Lemma chk_after_fold c0 tr :
  chk_after c0 tr =
  fold_left (fun oc e => match oc with Some c => chk_step c e | None => None end) (visible_trace tr) (Some c0).
Proof.
  unfold visible_trace. induction tr as [|e tr IH]; [reflexivity|].
  cbn [chk_after List.rev]. rewrite flat_map_app, fold_left_app, <- IH.
  destruct (chk_after c0 tr) as [c|].
  - cbn [flat_map]. destruct (visible e) as [v|]; reflexivity.
  - cbn [flat_map]. destruct (visible e) as [v|]; reflexivity.
Qed.

Lemma chk_after_ok c0 tr c : chk_after c0 tr = Some c -> chk_run c0 (visible_trace tr) = true.
Proof.
  intros H. rewrite chk_after_fold in H.
  rewrite <- (app_nil_r (visible_trace tr)), chk_run_app, H. reflexivity.
Qed.

(* the checker's state mirrors the model's *)
Record CRel (s : rstate) (c : chk) : Prop := {
  cr_started : k_started c = match r_g s with GNone => false | _ => true end;
  cr_infn : k_infn c = match r_g s with GInFn => true | _ => false end;
  cr_stopped : k_stopped c = true -> r_g s = GExited;
  cr_idx : k_idx c = r_idx s;
  cr_len : k_len c = r_len s;
  cr_tick : r_tick_ready s = true -> 0 <= r_idx s
}.

Lemma crel_init len : CRel (rinit len) (chk_init len).
Proof. constructor; cbn; auto; discriminate. Qed.

Theorem rstep_crel s l s' c :
  1 <= r_len s -> RInv s -> CRel s c -> chk_after (chk_init (r_len s)) (r_trace s) = Some c ->
  rstep true s l = Some s' ->
  exists c', chk_after (chk_init (r_len s)) (r_trace s') = Some c' /\ CRel s' c'.
Proof.
  intros Hlen I R Hc H. destruct R as [R1 R2 R3 R4 R5 R6]. destruct I as [A B C D E].
  destruct l; cbn [rstep] in H.
  - (* LStart *) destruct (r_g s) eqn:Eg; try discriminate. injection H as <-. rsimpl.
    cbn [chk_after visible]. rewrite Hc. cbn [chk_step]. rewrite R1. eexists. split; [reflexivity|].
    constructor; cbn; auto. intros Hx. specialize (R3 Hx). discriminate.
  - (* LRestart *) destruct (r_restart_buf s); [discriminate|]. injection H as <-. rsimpl.
    cbn [chk_after visible]. rewrite Hc. cbn [chk_step]. exists c. split; [reflexivity|]. constructor; assumption.
  - (* LStopCancel *)
    destruct (r_g s) eqn:Eg; try discriminate; destruct (r_stop s) eqn:Es; try discriminate; injection H as <-; rsimpl;
      cbn [chk_after visible]; rewrite Hc; cbn [chk_step]; exists c; (split; [reflexivity|]); constructor; rsimpl; auto.
  - (* LStopReturn *)
    destruct (r_stop s) eqn:Es; try discriminate. destruct (stopped_closed true s) eqn:Ec; [|discriminate].
    injection H as <-. rsimpl. unfold stopped_closed in Ec. destruct (r_g s) eqn:Eg; try discriminate.
    cbn [chk_after visible]. rewrite Hc. cbn [chk_step]. rewrite R2. eexists. split; [reflexivity|].
    constructor; cbn; auto.
  - (* LCancel *) injection H as <-. rsimpl.
    cbn [chk_after visible]. rewrite Hc. cbn [chk_step]. exists c. split; [reflexivity|]. constructor; assumption.
  - (* LEnvTick *)
    destruct (r_g s) eqn:Eg; try discriminate; destruct (r_tick_ready s) eqn:Et; try discriminate;
      destruct (r_idx s <? 0) eqn:Ei; try discriminate; cbn [orb] in H; injection H as <-; rsimpl;
      cbn [chk_after visible]; rewrite Hc; exists c; (split; [reflexivity|]); constructor; rsimpl; auto; intros; lia.
  - (* LEnvTimer *)
    destruct (r_g s) eqn:Eg; try discriminate; destruct (r_timer_armed s); try discriminate; injection H as <-; rsimpl;
      cbn [chk_after visible]; rewrite Hc; exists c; (split; [reflexivity|]); constructor; rsimpl; auto.
  - (* LSelRestart *)
    destruct (r_g s) eqn:Eg; try discriminate. destruct (r_restart_buf s); [|discriminate]. injection H as <-.
    unfold sched_start. rsimpl. replace (r_len s <=? 0) with false by lia. rsimpl.
    cbn [chk_after visible app]. rewrite Hc. cbn [chk_step]. unfold chk_at_select. rewrite R1, R2.
    assert (Hst : k_stopped c = false).
    { destruct (k_stopped c) eqn:Ek; [|reflexivity]. specialize (R3 eq_refl). congruence. }
    rewrite Hst. cbn [andb negb]. eexists. split; [reflexivity|].
    constructor; cbn; auto; try (intros; discriminate).
    rewrite R5. replace (r_len s <=? 0) with false by lia. reflexivity.
  - (* LSelTimer *)
    destruct (r_g s) eqn:Eg; try discriminate. destruct (r_timer_ready s); [|discriminate]. injection H as <-.
    assert (Hst : k_stopped c = false).
    { destruct (k_stopped c) eqn:Ek; [|reflexivity]. specialize (R3 eq_refl). congruence. }
    unfold sched_start. rsimpl. destruct (r_len s <=? r_idx s + 1) eqn:El; rsimpl;
      cbn [chk_after visible app]; rewrite Hc; cbn [chk_step]; unfold chk_at_select; rewrite R1, R2, Hst; cbn [andb negb];
      (eexists; split; [reflexivity|]); constructor; cbn; auto; try (intros; discriminate);
      rewrite R5, R4, El; reflexivity.
  - (* LSelTick *)
    destruct (r_g s) eqn:Eg; try discriminate. destruct (r_tick_ready s) eqn:Et; [|discriminate]. injection H as <-. rsimpl.
    assert (Hst : k_stopped c = false).
    { destruct (k_stopped c) eqn:Ek; [|reflexivity]. specialize (R3 eq_refl). congruence. }
    cbn [chk_after visible]. rewrite Hc. cbn [chk_step]. unfold chk_at_select. rewrite R1, R2, Hst, R4, R5.
    specialize (R6 eq_refl).
    replace (r_idx s =? r_idx s) with true by lia. replace (0 <=? r_idx s) with true by lia.
    replace (r_idx s <? r_len s) with true by lia. cbn [andb negb]. eexists. split; [reflexivity|].
    constructor; cbn; auto; try (intros; discriminate).
  - (* LFnEnd *)
    destruct (r_g s) eqn:Eg; try discriminate. injection H as <-. rsimpl.
    assert (Hst : k_stopped c = false).
    { destruct (k_stopped c) eqn:Ek; [|reflexivity]. specialize (R3 eq_refl). congruence. }
    cbn [chk_after visible app]. rewrite Hc. cbn [chk_step]. rewrite R2, Hst. cbn [andb negb].
    eexists. split; [reflexivity|]. constructor; cbn; auto; try (intros; discriminate).
  - (* LSelDone *)
    destruct (r_g s) eqn:Eg; try discriminate. destruct (r_cancelled s); [|discriminate]. injection H as <-. rsimpl.
    cbn [chk_after app]. rewrite Hc. exists c. split; [reflexivity|]. constructor; rsimpl; auto.
Qed.

Theorem rexec_crel : forall ls s c,
  1 <= r_len s -> RInv s -> CRel s c -> chk_after (chk_init (r_len s)) (r_trace s) = Some c ->
  exists c', chk_after (chk_init (r_len s)) (r_trace (rexec true s ls)) = Some c'.
Proof.
  induction ls as [|l ls IH]; intros s c Hl I R Hc; [exists c; exact Hc|].
  cbn [rexec fold_left]. destruct (rstep true s l) as [s'|] eqn:E.
  - destruct (rstep_crel s l s' c Hl I R Hc E) as (c' & Hc' & R').
    destruct (rstep_inv s l s' Hl I E) as [I' L'].
    rewrite <- L' in Hc'. rewrite <- L'.
    apply (IH s' c'); try assumption. lia.
  - apply (IH s c); assumption.
Qed.

Theorem checker_accepts_model len ls :
  1 <= len -> runner_trace_ok len (visible_trace (r_trace (rexec true (rinit len) ls))) = true.
Proof.
  intros Hl. unfold runner_trace_ok.
  destruct (rexec_crel ls (rinit len) (chk_init len) Hl (rinit_inv len Hl) (crel_init len) eq_refl) as (c' & Hc').
  cbn [rinit r_len] in Hc'. eapply chk_after_ok. exact Hc'.
Qed.
