(* C01: invariants of the concurrent counting model, for every schedule. *)
From F1 Require Import Base.Prelude Model.Progress.
From Coq Require Import ZifyBool Lia.

Definition held_s_c (c : cpc) : Z := match c with CAddS _ h => h | _ => 0 end.
Definition held_f_c (c : cpc) : Z := match c with CAddF _ _ h => h | _ => 0 end.
Definition region_c (c : cpc) : Z := match c with CLock _ => 0 | _ => 1 end.

Definition kcount (k : kind) (l : list kind) : Z := zcount (kind_eqb k) l.
Definition rem_k (k : kind) (r : rpc) : Z :=
  match r with
  | RObserve todo => kcount k todo
  | RCount k' rest => (if kind_eqb k k' then 1 else 0) + kcount k rest
  end.
(* metric observations made whose count operation has not happened yet *)
Definition obs_k (k : kind) (r : rpc) : Z :=
  match r with
  | RObserve _ => 0
  | RCount k' _ => if kind_eqb k k' then 1 else 0
  end.

Definition sumf {A} (f : A -> Z) (l : list A) : Z := zsum (map f l).

Lemma sumf_upd {A} (f : A -> Z) : forall (l : list A) i old x,
  nth_error l i = Some old -> sumf f (upd l i x) = sumf f l - f old + f x.
Proof.
  induction l as [|y l IH]; intros i old x H.
  - destruct i; discriminate.
  - destruct i as [|i]; cbn in H.
    + injection H as ->. unfold sumf. cbn [upd map]. rewrite !zsum_cons. lia.
    + unfold sumf in *. cbn [upd map]. rewrite !zsum_cons. rewrite (IH i old x H). lia.
Qed.

Lemma sumf_nonneg {A} (f : A -> Z) : forall l, (forall x, 0 <= f x) -> 0 <= sumf f l.
Proof.
  intros l Hf. unfold sumf. induction l as [|z l IHl]; cbn [map]; [cbn; lia|].
  rewrite zsum_cons. pose proof (Hf z). lia.
Qed.

Lemma sumf_nonneg_zero {A} (f : A -> Z) : forall l,
  (forall x, 0 <= f x) -> sumf f l = 0 -> forall x, In x l -> f x = 0.
Proof.
  induction l as [|y l IH]; intros Hf H x Hin; [destruct Hin|].
  unfold sumf in *. cbn [map] in H. rewrite zsum_cons in H.
  assert (0 <= zsum (map f l)).
  { clear -Hf. induction l as [|z l IHl]; cbn [map]; [cbn; lia|]. rewrite zsum_cons. pose proof (Hf z). lia. }
  pose proof (Hf y).
  destruct Hin as [<-|Hin]; [lia|]. apply IH; auto. lia.
Qed.

Lemma region_nonneg c : 0 <= region_c c.
Proof. destruct c; cbn; lia. Qed.

Lemma region_zero_held c : region_c c = 0 -> held_s_c c = 0 /\ held_f_c c = 0.
Proof. destruct c; cbn; intros; try lia. Qed.

Lemma upd_length {A} : forall (l : list A) i x, length (upd l i x) = length l.
Proof. induction l as [|y l IH]; intros [|i] x; cbn; auto. Qed.

Lemma forallb_upd {A} (p : A -> bool) : forall (l : list A) i x,
  forallb p l = true -> p x = true -> forallb p (upd l i x) = true.
Proof.
  induction l as [|y l IH]; intros [|i] x H Hx; cbn in *; auto;
    apply andb_true_iff in H as [H1 H2]; apply andb_true_iff; split; auto.
Qed.

Lemma done_no_step m s r : rec_done r = true -> rec_step m s r = None.
Proof. destruct r as [[|k l]|k l]; cbn; intros; try discriminate; reflexivity. Qed.

Lemma all_done_nth : forall l i r, forallb rec_done l = true -> nth_error l i = Some r -> rec_done r = true.
Proof.
  intros l i r H Hn. rewrite forallb_forall in H. apply H. eapply nth_error_In; eauto.
Qed.

Section Inv.
Variable prog : list (list kind).
Variable metrics_on : bool.

Record Inv (st : state) : Prop := {
  i_s : life_s (sh st) + run_s (sh st) + sumf held_s_c (cols st) + held_s_c (fin st) = cnt_s (sh st);
  i_f : life_f (sh st) + run_f (sh st) + sumf held_f_c (cols st) + held_f_c (fin st) = cnt_f (sh st);
  i_d : drp (sh st) = cnt_d (sh st);
  i_ms : met_s (sh st) = if metrics_on then cnt_s (sh st) + sumf (obs_k KS) (recs st) else 0;
  i_mf : met_f (sh st) = if metrics_on then cnt_f (sh st) + sumf (obs_k KF) (recs st) else 0;
  i_md : met_d (sh st) = if metrics_on then cnt_d (sh st) + sumf (obs_k KD) (recs st) else 0;
  i_mutex : sumf region_c (cols st) + region_c (fin st) = if lock (sh st) then 1 else 0;
  i_rs : cnt_s (sh st) + sumf (rem_k KS) (recs st) = count_kind KS prog;
  i_rf : cnt_f (sh st) + sumf (rem_k KF) (recs st) = count_kind KF prog;
  i_rd : cnt_d (sh st) + sumf (rem_k KD) (recs st) = count_kind KD prog;
  i_fin_done : region_c (fin st) = 1 -> all_recs_done st = true;
  i_fin : match fin st with
          | CLock (S O) => result st = None
          | CLock O => all_recs_done st = true /\
                       result st = Some (cnt_s (sh st), cnt_f (sh st), cnt_d (sh st))
          | CLock _ => False
          | CSwapS n => n = O
          | CAddS n h => n = O /\ run_s (sh st) = 0
          | CResetS n => False
          | CLoadS n => n = O /\ run_s (sh st) = 0
          | CSwapF n ls => n = O /\ ls = cnt_s (sh st)
          | CAddF n ls h => n = O /\ ls = cnt_s (sh st) /\ run_f (sh st) = 0
          | CResetF n ls => False
          | CLoadF n ls => n = O /\ ls = cnt_s (sh st) /\ run_f (sh st) = 0
          | CLoadD n ls lf => n = O /\ ls = cnt_s (sh st) /\ lf = cnt_f (sh st)
          | CUnlock n ls lf d => n = O /\ ls = cnt_s (sh st) /\ lf = cnt_f (sh st) /\ d = cnt_d (sh st)
          end;
  i_cols_nopinned : Forall (fun c => match c with CResetS _ | CResetF _ _ => False | _ => True end) (cols st)
}.

Lemma kcount_map_RObserve k : forall p, sumf (rem_k k) (map RObserve p) = count_kind k p.
Proof.
  unfold sumf, count_kind. induction p as [|l p IH]; [reflexivity|].
  cbn [map]. rewrite !zsum_cons. rewrite IH. reflexivity.
Qed.

Lemma obs_map_RObserve k : forall p, sumf (obs_k k) (map RObserve p) = 0.
Proof.
  unfold sumf. induction p as [|l p IH]; [reflexivity|]. cbn [map]. rewrite zsum_cons, IH. reflexivity.
Qed.

Lemma sumf_map_CLock f : (forall n, f (CLock n) = 0) -> forall l, sumf f (map CLock l) = 0.
Proof.
  intros Hf. unfold sumf. induction l as [|n l IH]; [reflexivity|]. cbn [map]. rewrite zsum_cons, IH, Hf. reflexivity.
Qed.

Lemma inv_init snaps : Inv (init prog snaps).
Proof.
  constructor; cbn [init sh recs cols fin result shared0 run_s life_s run_f life_f drp met_s met_f met_d
                      lock cnt_s cnt_f cnt_d held_s_c held_f_c region_c];
    rewrite ?kcount_map_RObserve, ?obs_map_RObserve, ?sumf_map_CLock by reflexivity;
    try lia; try reflexivity; try (destruct metrics_on; reflexivity); try (intros; discriminate).
  induction snaps as [|n l IH]; constructor; auto.
Qed.

(* when the final collector is in its critical region no other thread can move *)
Lemma fin_region_cols_idle st :
  Inv st -> region_c (fin st) = 1 ->
  lock (sh st) = true /\ forall c, In c (cols st) -> region_c c = 0.
Proof.
  intros I Hr. pose proof (i_mutex st I) as Hm. rewrite Hr in Hm.
  assert (Hnn : 0 <= sumf region_c (cols st)) by (apply sumf_nonneg, region_nonneg).
  destruct (lock (sh st)); [|lia]. split; [reflexivity|].
  apply sumf_nonneg_zero; [apply region_nonneg|lia].
Qed.

Lemma cols_idle_held st :
  (forall c, In c (cols st) -> region_c c = 0) ->
  sumf held_s_c (cols st) = 0 /\ sumf held_f_c (cols st) = 0.
Proof.
  intros H. unfold sumf. induction (cols st) as [|c l IH]; [split; reflexivity|].
  cbn [map]. rewrite !zsum_cons.
  destruct (region_zero_held c (H c (or_introl eq_refl))) as [A B].
  destruct IH as [C D]; [intros c' Hc'; apply H; right; exact Hc'|]. lia.
Qed.

Ltac sh_simpl :=
  cbn [sh recs cols fin result set_lock set_run_s set_life_s set_run_f set_life_f
       run_s life_s run_f life_f drp met_s met_f met_d lock cnt_s cnt_f cnt_d] in *.

Lemma step_rec_inv st i st' :
  Inv st -> step true metrics_on st (TRec i) = Some st' -> Inv st'.
Proof.
  intros I H. cbn [step] in H.
  destruct (nth_error (recs st) i) as [r|] eqn:En; [|discriminate].
  destruct (rec_step metrics_on (sh st) r) as [[s' r']|] eqn:Es; [|discriminate].
  injection H as <-.
  (* the final collector cannot be in its region: r would be done *)
  assert (Hfin : region_c (fin st) = 0).
  { destruct (Z.eq_dec (region_c (fin st)) 1) as [E|E].
    - pose proof (i_fin_done st I E) as Hd. unfold all_recs_done in Hd.
      rewrite (done_no_step _ _ _ (all_done_nth _ _ _ Hd En)) in Es. discriminate.
    - destruct (fin st); cbn in *; lia. }
  assert (Hnotdone : all_recs_done st = true -> False).
  { intros Hd. unfold all_recs_done in Hd.
    rewrite (done_no_step _ _ _ (all_done_nth _ _ _ Hd En)) in Es. discriminate. }
  destruct I as [Is If Id Ims Imf Imd Imu Irs Irf Ird Ifd Ifin Icp].
  destruct r as [[|k todo]|k rest]; cbn [rec_step] in Es; try discriminate; injection Es as <- <-.
  - (* Observe *)
    constructor; sh_simpl;
      rewrite ?(sumf_upd _ _ _ _ _ En); cbn [rem_k obs_k zcount]; unfold kcount in *; cbn [zcount];
      try (destruct metrics_on, k; sh_simpl; cbn [kind_eqb]; lia);
      try exact Icp;
      try (intros Hr; rewrite Hr in Hfin; lia).
    destruct (fin st) as [[|[|n]]| | | | | | | | | |]; cbn in Hfin; try lia; sh_simpl.
    exact Ifin.
  - (* Count *)
    constructor; sh_simpl;
      rewrite ?(sumf_upd _ _ _ _ _ En); cbn [rem_k obs_k zcount]; unfold kcount in *; cbn [zcount];
      try (destruct metrics_on, k; sh_simpl; cbn [kind_eqb]; lia);
      try exact Icp;
      try (intros Hr; rewrite Hr in Hfin; lia).
    destruct (fin st) as [[|[|n]]| | | | | | | | | |]; cbn in Hfin; try lia; sh_simpl.
    exact Ifin.
Qed.

Lemma Forall_upd {A} (P : A -> Prop) : forall (l : list A) i x,
  Forall P l -> P x -> Forall P (upd l i x).
Proof.
  induction l as [|y l IH]; intros [|i] x H Hx; cbn; auto; inversion H; subst; constructor; auto.
Qed.

Lemma col_enabled_fin_idle st i c r :
  Inv st -> nth_error (cols st) i = Some c -> col_step true (sh st) c = Some r -> region_c (fin st) = 0.
Proof.
  intros I En Es.
  destruct (Z.eq_dec (region_c (fin st)) 1) as [E|E].
  - destruct (fin_region_cols_idle st I E) as [Hl Hc].
    pose proof (Hc c (nth_error_In _ _ En)) as Hz.
    destruct c as [[|n]| | | | | | | | | |]; cbn in Hz; try lia; cbn in Es; [discriminate|].
    rewrite Hl in Es. discriminate.
  - destruct (fin st); cbn in *; lia.
Qed.

Lemma step_col_inv st i st' :
  Inv st -> step true metrics_on st (TCol i) = Some st' -> Inv st'.
Proof.
  intros I H. cbn [step] in H.
  destruct (nth_error (cols st) i) as [c|] eqn:En; [|discriminate].
  destruct (col_step true (sh st) c) as [[[s' c'] res]|] eqn:Es; [|discriminate].
  injection H as <-.
  pose proof (col_enabled_fin_idle st i c _ I En Es) as Hfin.
  assert (Hc_ok : match c with CResetS _ | CResetF _ _ => False | _ => True end).
  { pose proof (i_cols_nopinned st I) as Hp. rewrite Forall_forall in Hp. apply Hp. eapply nth_error_In; eauto. }
  assert (Hreg : 0 <= sumf region_c (cols st)) by (apply sumf_nonneg, region_nonneg).
  assert (Hreg_c : region_c c <= sumf region_c (cols st)).
  { clear -En. revert i En. unfold sumf. induction (cols st) as [|y l IH]; intros [|i] En; cbn in En; try discriminate.
    - injection En as ->. cbn [map]. rewrite zsum_cons.
      pose proof (sumf_nonneg region_c l region_nonneg). unfold sumf in *. lia.
    - cbn [map]. rewrite zsum_cons. specialize (IH i En). pose proof (region_nonneg y). lia. }
  destruct I as [Is If Id Ims Imf Imd Imu Irs Irf Ird Ifd Ifin Icp].
  assert (Hfin_keep : forall sh', cnt_s sh' = cnt_s (sh st) -> cnt_f sh' = cnt_f (sh st) -> cnt_d sh' = cnt_d (sh st) ->
            run_s sh' = run_s sh' -> True) by auto.
  destruct c as [[|n]|n|n h|n|n|n ls|n ls h|n ls|n ls|n ls lf|n ls lf d];
    cbn [col_step] in Es; try discriminate; try (exfalso; exact Hc_ok);
    try (destruct (lock (sh st)) eqn:El; [discriminate|]);
    injection Es as <- <- <-;
    (constructor; sh_simpl;
      rewrite ?(sumf_upd _ _ _ _ _ En); cbn [held_s_c held_f_c region_c] in *;
      try lia;
      try (destruct metrics_on; lia);
      try (intros Hr; rewrite Hr in Hfin; lia);
      try (apply Forall_upd; [exact Icp|exact I]);
      try (rewrite ?El in *; destruct (lock (sh st)); lia);
      try (destruct (fin st) as [[|[|m]]| | | | | | | | | |]; cbn in Hfin; try lia; sh_simpl; exact Ifin)).
Qed.

Lemma step_fin_inv st st' :
  Inv st -> step true metrics_on st TFin = Some st' -> Inv st'.
Proof.
  intros I H. cbn [step] in H.
  destruct (all_recs_done st) eqn:Ed; [|discriminate].
  destruct (col_step true (sh st) (fin st)) as [[[s' c'] res]|] eqn:Es; [|discriminate].
  injection H as <-.
  assert (Hidle : region_c (fin st) = 1 ->
                  sumf held_s_c (cols st) = 0 /\ sumf held_f_c (cols st) = 0 /\ lock (sh st) = true).
  { intros Hr. destruct (fin_region_cols_idle st I Hr) as [Hl Hc].
    destruct (cols_idle_held st Hc). tauto. }
  assert (Hreg : 0 <= sumf region_c (cols st)) by (apply sumf_nonneg, region_nonneg).
  destruct I as [Is If Id Ims Imf Imd Imu Irs Irf Ird Ifd Ifin Icp].
  unfold all_recs_done in *.
  destruct (fin st) as [[|[|n]]|n|n h|n|n|n ls|n ls h|n ls|n ls|n ls lf|n ls lf d];
    cbn [col_step] in Es; try discriminate; try (exfalso; exact Ifin);
    try (destruct (lock (sh st)) eqn:El; [discriminate|]);
    injection Es as <- <- <-;
    try (destruct (Hidle eq_refl) as (Hh1 & Hh2 & Hl));
    (constructor; sh_simpl; cbn [held_s_c held_f_c region_c] in *;
      try lia;
      try (destruct metrics_on; lia);
      try exact Icp;
      try (intros _; exact Ed);
      try (rewrite ?El, ?Hl in *; lia);
      try (repeat split; try exact Ed; try lia; try (f_equal; f_equal; lia); try (destruct Ifin; lia))).
  destruct Ifin as (Hn & Ha & Hb & Hc). subst n ls lf d. split; [exact Ed|reflexivity].
Qed.

Theorem inv_exec sched : forall st, Inv st -> Inv (exec true metrics_on st sched).
Proof.
  induction sched as [|t sched IH]; intros st I; [exact I|].
  cbn [exec fold_left]. apply IH.
  destruct (step true metrics_on st t) as [st'|] eqn:Es; [|exact I].
  destruct t as [i|i|].
  - eapply step_rec_inv; eauto.
  - eapply step_col_inv; eauto.
  - eapply step_fin_inv; eauto.
Qed.

Lemma done_rem_zero k : forall l, forallb rec_done l = true -> sumf (rem_k k) l = 0 /\ sumf (obs_k k) l = 0.
Proof.
  unfold sumf. induction l as [|r l IH]; intros H; [split; reflexivity|].
  cbn [forallb] in H. apply andb_true_iff in H as [H1 H2]. destruct (IH H2) as [A B].
  cbn [map]. rewrite !zsum_cons, A, B.
  destruct r as [[|k' t]|k' t]; cbn in H1; try discriminate. cbn. split; reflexivity.
Qed.

Theorem terminal_totals st :
  Inv st -> terminal st = true ->
  result st = Some (count_kind KS prog, count_kind KF prog, count_kind KD prog) /\
  (metrics_on = true ->
   met_s (sh st) = count_kind KS prog /\ met_f (sh st) = count_kind KF prog /\ met_d (sh st) = count_kind KD prog) /\
  (metrics_on = false -> met_s (sh st) = 0 /\ met_f (sh st) = 0 /\ met_d (sh st) = 0).
Proof.
  intros I Ht. unfold terminal in Ht.
  apply andb_true_iff in Ht as [Ht Hf]. apply andb_true_iff in Ht as [Hr Hc].
  destruct I as [Is If Id Ims Imf Imd Imu Irs Irf Ird Ifd Ifin Icp].
  destruct (done_rem_zero KS _ Hr) as [A1 B1].
  destruct (done_rem_zero KF _ Hr) as [A2 B2].
  destruct (done_rem_zero KD _ Hr) as [A3 B3].
  destruct (fin st) as [[|n]| | | | | | | | | |]; cbn in Hf; try discriminate.
  destruct Ifin as [_ Hres]. rewrite Hres.
  split; [f_equal; f_equal; [f_equal|]; lia|].
  split; intros Hm; rewrite Hm in *; repeat split; lia.
Qed.

End Inv.
