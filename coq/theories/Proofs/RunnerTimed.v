(* C18 - the timed checker is sound for the model under "timers and tickers never fire early".

   A timed run is a list of (label, time) with the model's labels; a step is skipped when it is
   not enabled, when its time lies before the previous step's, or - for the two environment
   events - when it would come early: the next-schedule timer fires no earlier than the start
   delay of the schedule it leads to after it was armed (at the start of the current schedule, or
   in New() for the first), the current ticker delivers a tick no earlier than one period after
   it was created (at the start of its schedule). The visible timed events are what the harness
   logs: (7, _, t) when the goroutine takes a restart, (8, _, t) when it takes the timer,
   (1, k, t) when it starts the function on a tick of schedule k. Every such run is accepted by
   runner_timed_ok. *)
From F1 Require Import Base.Prelude Model.Runner.
From Coq Require Import ZifyBool Lia.

Definition dl (l : list Z) (i : Z) : Z := nth (Z.to_nat i) l 0.

Definition tstep (delays freqs : list Z) (s : rstate) (tstart last : Z) (l : rlabel) (t : Z)
  : option (rstate * Z * list (Z * Z * Z)) :=
  if t <? last then None else
  match l with
  | LEnvTimer =>
    if tstart + dl delays (r_idx s + 1) <=? t
    then match rstep true s l with Some s' => Some (s', tstart, []) | None => None end
    else None
  | LEnvTick =>
    if tstart + dl freqs (r_idx s) <=? t
    then match rstep true s l with Some s' => Some (s', tstart, []) | None => None end
    else None
  | LSelRestart => match rstep true s l with Some s' => Some (s', t, [(7, 0, t)]) | None => None end
  | LSelTimer =>
    match rstep true s l with
    | Some s' => Some (s', (if r_idx s + 1 <? r_len s then t else tstart), [(8, 0, t)])
    | None => None
    end
  | LSelTick => match rstep true s l with Some s' => Some (s', tstart, [(1, r_idx s, t)]) | None => None end
  | _ => match rstep true s l with Some s' => Some (s', tstart, []) | None => None end
  end.

Fixpoint texec (delays freqs : list Z) (s : rstate) (tstart last : Z) (run : list (rlabel * Z)) : list (Z * Z * Z) :=
  match run with
  | [] => []
  | (l, t) :: r =>
    match tstep delays freqs s tstart last l t with
    | Some (s', ts', evs) => evs ++ texec delays freqs s' ts' t r
    | None => texec delays freqs s tstart last r
    end
  end.

Record TInv (delays freqs : list Z) (s : rstate) (tstart last : Z) : Prop := {
  ti_timer : r_timer_ready s = true -> tstart + dl delays (r_idx s + 1) <= last /\ r_idx s + 1 < r_len s;
  ti_tick : r_tick_ready s = true -> tstart + dl freqs (r_idx s) <= last /\ 0 <= r_idx s;
  ti_armed : r_timer_armed s = true -> r_idx s + 1 < r_len s;
  ti_len : Z.of_nat (length delays) = r_len s /\ 1 <= r_len s;
  ti_idx : -1 <= r_idx s
}.

Ltac tsimpl := cbn [r_len r_idx r_tick_ready r_timer_armed r_timer_ready r_restart_buf r_cancelled r_g r_stop r_trace
                    upd_g app] in *.

Lemma tinit delays freqs len : Z.of_nat (length delays) = len -> 1 <= len -> TInv delays freqs (rinit len) 0 0.
Proof. intros Hl H1. constructor; cbn; try discriminate; try lia. Qed.

(* the fields the invariant speaks about are unchanged by the step *)
Ltac same IT IK IA IL I1 II Et :=
  split; [constructor; tsimpl;
          [ let Hx := fresh in intros Hx; destruct (IT Hx); split; lia
          | let Hx := fresh in intros Hx; destruct (IK Hx); split; lia
          | exact IA | split; [exact IL|exact I1] | exact II ]
         | split; [exact Et|tsimpl; auto] ].

(* one step: the invariant is kept and the emitted events extend an accepted log *)
Lemma tstep_sound delays freqs s tstart last l t s' ts' evs rest :
  TInv delays freqs s tstart last ->
  tstep delays freqs s tstart last l t = Some (s', ts', evs) ->
  TInv delays freqs s' ts' t /\ last <= t /\
  (timed_run delays freqs (r_idx s') ts' rest = true -> timed_run delays freqs (r_idx s) tstart (evs ++ rest) = true).
Proof.
  intros I H. unfold tstep in H. destruct (t <? last) eqn:Et; [discriminate|]. apply Z.ltb_ge in Et.
  destruct I as [IT IK IA [IL I1] II].
  destruct l; cbn [rstep] in H.
  - (* LStart *) destruct (r_g s); try discriminate. injection H as <- <- <-.
    same IT IK IA IL I1 II Et.
  - (* LRestart *) destruct (r_restart_buf s); [discriminate|]. injection H as <- <- <-.
    same IT IK IA IL I1 II Et.
  - (* LStopCancel *) destruct (r_g s); try discriminate; destruct (r_stop s); try discriminate; injection H as <- <- <-;
      same IT IK IA IL I1 II Et.
  - (* LStopReturn *) destruct (r_stop s); try discriminate. destruct (stopped_closed true s); [|discriminate]. injection H as <- <- <-.
    same IT IK IA IL I1 II Et.
  - (* LCancel *) injection H as <- <- <-.
    same IT IK IA IL I1 II Et.
  - (* LEnvTick *)
    destruct (tstart + dl freqs (r_idx s) <=? t) eqn:Ef; [|discriminate]. apply Z.leb_le in Ef.
    destruct (r_g s); try discriminate;
      (destruct (r_tick_ready s || (r_idx s <? 0)) eqn:Eo; [discriminate|]; injection H as <- <- <-;
       apply Bool.orb_false_iff in Eo; destruct Eo as [_ Ei]; apply Z.ltb_ge in Ei;
       split; [constructor; tsimpl;
               [ intros Hx; destruct (IT Hx); split; lia | intros _; split; lia | exact IA | split; [exact IL|exact I1] | exact II ]
              | split; [exact Et|tsimpl; auto] ]).
  - (* LEnvTimer *)
    destruct (tstart + dl delays (r_idx s + 1) <=? t) eqn:Ef; [|discriminate]. apply Z.leb_le in Ef.
    destruct (r_g s); try discriminate;
      (destruct (r_timer_armed s) eqn:Ea; [|discriminate]; injection H as <- <- <-;
       split; [constructor; tsimpl;
               [ intros _; split; [lia|apply IA; reflexivity] | intros Hx; destruct (IK Hx); split; lia | discriminate
               | split; [exact IL|exact I1] | exact II ]
              | split; [exact Et|tsimpl; auto] ]).
  - (* LSelRestart *)
    destruct (r_g s); try discriminate. destruct (r_restart_buf s); [|discriminate]. injection H as <- <- <-.
    unfold sched_start. tsimpl. destruct (r_len s <=? 0) eqn:El; [lia|]. tsimpl.
    split; [constructor; tsimpl;
            [ discriminate | discriminate | intros Hx; apply Z.ltb_lt in Hx; lia | split; [exact IL|exact I1] | lia ]|].
    split; [exact Et|]. intros Hr. cbn [app timed_run]. exact Hr.
  - (* LSelTimer *)
    destruct (r_g s); try discriminate. destruct (r_timer_ready s) eqn:Er; [|discriminate]. injection H as <- <- <-.
    destruct (IT eq_refl) as [T1 T2].
    unfold sched_start. tsimpl. destruct (r_len s <=? r_idx s + 1) eqn:El; [lia|]. tsimpl.
    assert (E2 : (r_idx s + 1 <? r_len s) = true) by lia. rewrite E2.
    split; [constructor; tsimpl;
            [ discriminate | discriminate | intros Hx; apply Z.ltb_lt in Hx; lia | split; [exact IL|exact I1] | lia ]|].
    split; [exact Et|]. intros Hr. cbn [app timed_run].
    assert (E3 : (r_idx s + 1 <? Z.of_nat (length delays)) = true) by lia. rewrite E3.
    fold (dl delays (r_idx s + 1)).
    assert (E4 : (tstart + dl delays (r_idx s + 1) <=? t) = true) by lia. rewrite E4. cbn [andb]. exact Hr.
  - (* LSelTick *)
    destruct (r_g s); try discriminate. destruct (r_tick_ready s) eqn:Er; [|discriminate]. injection H as <- <- <-.
    destruct (IK eq_refl) as [K1 K2].
    split; [constructor; tsimpl;
            [ intros Hx; destruct (IT Hx); split; lia | discriminate | exact IA | split; [exact IL|exact I1] | exact II ]|].
    split; [exact Et|]. tsimpl. intros Hr. cbn [app timed_run].
    change (1 =? 7) with false. change (1 =? 8) with false. change (1 =? 1) with true. cbv iota.
    rewrite Z.eqb_refl. fold (dl freqs (r_idx s)).
    assert (E4 : (tstart + dl freqs (r_idx s) <=? t) = true) by lia. rewrite E4. cbn [andb]. exact Hr.
  - (* LFnEnd *) destruct (r_g s); try discriminate. injection H as <- <- <-.
    same IT IK IA IL I1 II Et.
  - (* LSelDone *) destruct (r_g s); try discriminate. destruct (r_cancelled s); [|discriminate]. injection H as <- <- <-.
    same IT IK IA IL I1 II Et.
Qed.

Theorem texec_accepted delays freqs run : forall s tstart last,
  TInv delays freqs s tstart last ->
  timed_run delays freqs (r_idx s) tstart (texec delays freqs s tstart last run) = true.
Proof.
  induction run as [|[l t] r IH]; intros s tstart last I; cbn [texec]; [reflexivity|].
  destruct (tstep delays freqs s tstart last l t) as [[[s' ts'] evs]|] eqn:E.
  - destruct (tstep_sound delays freqs s tstart last l t s' ts' evs (texec delays freqs s' ts' t r) I E) as (I' & _ & K).
    apply K. apply IH. exact I'.
  - apply IH. exact I.
Qed.

Theorem timed_checker_sound delays freqs run :
  (1 <= length delays)%nat ->
  runner_timed_ok delays freqs (texec delays freqs (rinit (Z.of_nat (length delays))) 0 0 run) = true.
Proof.
  intros Hl. unfold runner_timed_ok.
  exact (texec_accepted delays freqs run (rinit (Z.of_nat (length delays))) 0 0 (tinit delays freqs _ eq_refl ltac:(lia))).
Qed.
