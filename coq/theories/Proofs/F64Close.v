(* Closeness of the binary64 interpolation term to the exact rational value:
   four correctly rounded operations, each with relative error at most 2^-53,
   then truncation. *)
From Coq Require Import ZArith Reals Lia Lra Bool.
From Flocq Require Import Core Relative IEEE754.BinarySingleNaN.
From F1 Require Import Base.F64 Model.Staged Proofs.F64Facts.

Local Open Scope R_scope.

Definition u53 : R := / 9007199254740992.   (* 2^-53 *)

Lemma cube_up u : 0 <= u <= / 1000 -> (1 + u) * (1 + u) * (1 + u) <= 1 + 3004 / 1000 * u.
Proof. intros H. nra. Qed.

Lemma cube_down u : 0 <= u <= / 1000 -> 1 - 3 * u <= (1 - u) * (1 - u) * (1 - u).
Proof. intros H. nra. Qed.

Lemma four_err_gen u a b c d : 0 <= u <= / 1000 ->
  Rabs a <= u -> Rabs b <= u -> Rabs c <= u -> Rabs d <= u ->
  Rabs ((1 + a) * (1 + c) * (1 + d) / (1 + b) - 1) <= 5 * u.
Proof.
  intros Hu Ha Hb Hc Hd.
  apply Rabs_le_inv in Ha, Hb, Hc, Hd.
  assert (Hb1 : 0 < 1 + b) by lra.
  set (N := (1 + a) * (1 + c) * (1 + d)).
  assert (NU : N <= (1 + u) * (1 + u) * (1 + u)).
  { unfold N. apply Rmult_le_compat; try lra.
    - apply Rmult_le_pos; lra.
    - apply Rmult_le_compat; lra. }
  assert (NL : (1 - u) * (1 - u) * (1 - u) <= N).
  { unfold N. apply Rmult_le_compat; try lra.
    - apply Rmult_le_pos; lra.
    - apply Rmult_le_compat; lra. }
  pose proof (cube_up u Hu) as CU. pose proof (cube_down u Hu) as CD.
  replace (N / (1 + b) - 1) with ((N - (1 + b)) / (1 + b)) by (field; lra).
  apply Rabs_le. split.
  - apply Rmult_le_reg_r with (1 + b); [exact Hb1|]. unfold Rdiv. rewrite Rmult_assoc, Rinv_l by lra. nra.
  - apply Rmult_le_reg_r with (1 + b); [exact Hb1|]. unfold Rdiv. rewrite Rmult_assoc, Rinv_l by lra. nra.
Qed.

Lemma four_err a b c d :
  Rabs a <= u53 -> Rabs b <= u53 -> Rabs c <= u53 -> Rabs d <= u53 ->
  Rabs ((1 + a) * (1 + c) * (1 + d) / (1 + b) - 1) <= 5 * u53.
Proof. apply four_err_gen. unfold u53. lra. Qed.

Lemma half_ulp : / 2 * bpow radix2 (- prec + 1) = u53.
Proof.
  unfold u53. change (- prec + 1)%Z with (- 52)%Z.
  change (bpow radix2 (-52)) with (/ IZR (Z.pow_pos 2 52)).
  change (Z.pow_pos 2 52) with 4503599627370496%Z. field.
Qed.

Lemma rnd_rel x : bpow radix2 (-1022) <= Rabs x -> exists e, Rabs e <= u53 /\ rnd x = x * (1 + e).
Proof.
  intros H.
  destruct (relative_error_N_FLT_ex radix2 (SpecFloat.emin prec emax) prec prec_gt_0_64
              (fun x => negb (Z.even x)) x H) as (e & He & Hr).
  exists e. rewrite half_ulp in He. split; [exact He|exact Hr].
Qed.

Lemma rnd_rel0 x : x = 0 \/ bpow radix2 (-1022) <= Rabs x -> exists e, Rabs e <= u53 /\ rnd x = x * (1 + e).
Proof.
  intros [->|H]; [|apply rnd_rel; exact H].
  exists 0. split; [rewrite Rabs_R0; unfold u53; lra|rewrite rnd_0; ring].
Qed.

Lemma pos_Z_big (z : Z) : (1 <= z)%Z -> bpow radix2 (-1022) <= Rabs (IZR z).
Proof.
  intros H. rewrite Rabs_pos_eq by (apply IZR_le; lia).
  apply Rle_trans with 1; [|apply IZR_le; lia].
  change 1 with (bpow radix2 0). apply bpow_le. lia.
Qed.

Lemma format_m63 : generic_format radix2 fexp64 (bpow radix2 (-63)).
Proof.
  unfold fexp64, SpecFloat.fexp. apply generic_format_FLT_bpow.
  - exact prec_gt_0_64.
  - unfold SpecFloat.emin, emax, prec. lia.
Qed.

Lemma rnd_m63 : rnd (bpow radix2 (-63)) = bpow radix2 (-63).
Proof. unfold rnd. apply round_generic; auto with typeclass_instances. apply format_m63. Qed.

Lemma pow63_bpow : IZR (2 ^ 63) = bpow radix2 63.
Proof. change (IZR (2 ^ 63)) with (IZR (Zpower radix2 63)). apply IZR_Zpower. lia. Qed.

Theorem interp_R_close off dur delta :
  (0 <= off <= dur)%Z -> (0 < dur <= 2 ^ 63)%Z -> (Z.abs delta < 2 ^ 53)%Z ->
  let E := IZR off * IZR delta / IZR dur in
  Rabs (interp_R off dur delta - E) <= 5 * u53 * Rabs E.
Proof.
  intros Ho Hd Hde E. unfold interp_R.
  assert (Hdur0 : 0 < IZR dur) by (apply IZR_lt; lia).
  destruct (Z.eq_dec off 0) as [->|Hoff].
  { unfold E. rewrite rnd_0. unfold Rdiv at 1. rewrite Rmult_0_l, rnd_0, Rmult_0_l, rnd_0.
    replace (0 * IZR delta / IZR dur) with 0 by (unfold Rdiv; ring).
    replace (0 / IZR dur) with 0 by (unfold Rdiv; ring).
    replace (0 - 0) with 0 by ring. rewrite Rabs_R0. lra. }
  destruct (Z.eq_dec delta 0) as [->|Hdel].
  { unfold E. rewrite Rmult_0_r, rnd_0.
    replace (IZR off * 0 / IZR dur) with 0 by (unfold Rdiv; ring).
    replace (0 / IZR dur) with 0 by (unfold Rdiv; ring).
    replace (0 - 0) with 0 by ring. rewrite Rabs_R0. lra. }
  destruct (rnd_rel (IZR off) (pos_Z_big off ltac:(lia))) as (a & Ha & Ra).
  destruct (rnd_rel (IZR dur) (pos_Z_big dur ltac:(lia))) as (b & Hb & Rb).
  pose proof (A_bounds off dur 0%Z Ho) as [A0 AB]. cbv zeta in A0, AB.
  pose proof (B_ge_1 dur 0%Z Hd) as B1. cbv zeta in B1.
  assert (A1 : 1 <= rnd (IZR off)) by (rewrite <- rnd_1; apply rnd_le, IZR_le; lia).
  assert (B63 : rnd (IZR dur) <= bpow radix2 63).
  { rewrite <- pow63_bpow, <- rnd_pow63. apply rnd_le, IZR_le. lia. }
  assert (Hq : bpow radix2 (-63) <= rnd (IZR off) / rnd (IZR dur)).
  { apply Rmult_le_reg_r with (rnd (IZR dur)); [lra|].
    unfold Rdiv. rewrite Rmult_assoc, Rinv_l, Rmult_1_r by lra.
    apply Rle_trans with (bpow radix2 (-63) * bpow radix2 63).
    - apply Rmult_le_compat_l; [apply bpow_ge_0|exact B63].
    - rewrite <- bpow_plus. simpl. lra. }
  destruct (rnd_rel (rnd (IZR off) / rnd (IZR dur))) as (c & Hc & Rc).
  { rewrite Rabs_pos_eq by (eapply Rle_trans; [apply bpow_ge_0|exact Hq]).
    eapply Rle_trans; [|exact Hq]. apply bpow_le. lia. }
  assert (Q63 : bpow radix2 (-63) <= rnd (rnd (IZR off) / rnd (IZR dur))).
  { rewrite <- rnd_m63. apply rnd_le. exact Hq. }
  assert (D1 : 1 <= Rabs (IZR delta)).
  { rewrite <- abs_IZR. apply IZR_le. lia. }
  destruct (rnd_rel (rnd (rnd (IZR off) / rnd (IZR dur)) * IZR delta)) as (d & Hdd & Rd).
  { rewrite Rabs_mult. rewrite (Rabs_pos_eq (rnd _)) by (eapply Rle_trans; [apply bpow_ge_0|exact Q63]).
    apply Rle_trans with (bpow radix2 (-63) * 1).
    - rewrite Rmult_1_r. apply bpow_le. lia.
    - apply Rmult_le_compat; [apply bpow_ge_0|lra|exact Q63|exact D1]. }
  rewrite Rd, Rc, Ra, Rb.
  assert (Hb1 : 0 < 1 + b).
  { apply Rabs_le_inv in Hb. unfold u53 in Hb. lra. }
  replace (IZR off * (1 + a) / (IZR dur * (1 + b)) * (1 + c) * IZR delta * (1 + d) - E)
    with (E * ((1 + a) * (1 + c) * (1 + d) / (1 + b) - 1)) by (unfold E; field; lra).
  rewrite Rabs_mult, Rmult_comm. apply Rmult_le_compat_r; [apply Rabs_pos|].
  apply four_err; assumption.
Qed.

Lemma Ztrunc_close x : Rabs (IZR (Ztrunc x) - x) < 1.
Proof.
  destruct (Rle_lt_dec 0 x) as [H|H].
  - rewrite Ztrunc_floor by exact H. pose proof (Zfloor_lb x). pose proof (Zfloor_ub x).
    apply Rabs_lt. lra.
  - rewrite Ztrunc_ceil by lra. pose proof (Zceil_ub x). pose proof (Zceil_lb x).
    apply Rabs_lt. lra.
Qed.

Theorem interp_f64_close_R off dur delta :
  (0 <= off <= dur)%Z -> (0 < dur <= 2 ^ 63)%Z -> (Z.abs delta < 2 ^ 53)%Z ->
  Rabs (IZR (interp_f64 off dur delta) - IZR off * IZR delta / IZR dur)
  < 1 + 5 * u53 * Rabs (IZR delta).
Proof.
  intros Ho Hd Hde. rewrite interp_f64_R by assumption.
  pose proof (interp_R_close off dur delta Ho Hd Hde) as HC. cbv zeta in HC.
  pose proof (Ztrunc_close (interp_R off dur delta)) as HT.
  set (E := IZR off * IZR delta / IZR dur) in *.
  set (P := interp_R off dur delta) in *.
  assert (HE : Rabs E <= Rabs (IZR delta)).
  { unfold E. assert (Hdur0 : 0 < IZR dur) by (apply IZR_lt; lia).
    replace (IZR off * IZR delta / IZR dur) with (IZR delta * (IZR off / IZR dur)) by (field; lra).
    rewrite Rabs_mult. rewrite <- (Rmult_1_r (Rabs (IZR delta))) at 2.
    apply Rmult_le_compat_l; [apply Rabs_pos|].
    assert (0 <= IZR off) by (apply IZR_le; lia).
    assert (IZR off <= IZR dur) by (apply IZR_le; lia).
    rewrite Rabs_pos_eq.
    - apply Rmult_le_reg_r with (IZR dur); [exact Hdur0|]. unfold Rdiv. rewrite Rmult_assoc, Rinv_l by lra. lra.
    - apply Rmult_le_pos; [assumption|]. apply Rlt_le, Rinv_0_lt_compat. exact Hdur0. }
  replace (IZR (Ztrunc P) - E) with ((IZR (Ztrunc P) - P) + (P - E)) by ring.
  eapply Rle_lt_trans; [apply Rabs_triang|].
  assert (5 * u53 * Rabs E <= 5 * u53 * Rabs (IZR delta)).
  { apply Rmult_le_compat_l; [unfold u53; lra|exact HE]. }
  lra.
Qed.

(* the same over the integers: 2^53 * |v*dur - off*delta| < 2^53 * dur + 5 * |delta| * dur *)
Theorem interp_f64_close off dur delta :
  (0 <= off <= dur)%Z -> (0 < dur <= 2 ^ 63)%Z -> (Z.abs delta < 2 ^ 53)%Z ->
  (2 ^ 53 * Z.abs (interp_f64 off dur delta * dur - off * delta) < 2 ^ 53 * dur + 5 * Z.abs delta * dur)%Z.
Proof.
  intros Ho Hd Hde.
  pose proof (interp_f64_close_R off dur delta Ho Hd Hde) as H.
  set (v := interp_f64 off dur delta) in *.
  assert (Hdur0 : 0 < IZR dur) by (apply IZR_lt; lia).
  apply lt_IZR. rewrite plus_IZR, !mult_IZR, abs_IZR, minus_IZR, !mult_IZR, abs_IZR.
  change (IZR (2 ^ 53)) with 9007199254740992. change (IZR 5) with 5.
  replace (IZR v * IZR dur - IZR off * IZR delta) with ((IZR v - IZR off * IZR delta / IZR dur) * IZR dur) by (field; lra).
  rewrite Rabs_mult, (Rabs_pos_eq (IZR dur)) by lra.
  unfold u53 in H.
  assert (K : Rabs (IZR v - IZR off * IZR delta / IZR dur) * IZR dur
              < (1 + 5 * / 9007199254740992 * Rabs (IZR delta)) * IZR dur).
  { apply Rmult_lt_compat_r; assumption. }
  replace (9007199254740992 * IZR dur + 5 * Rabs (IZR delta) * IZR dur)
    with (9007199254740992 * ((1 + 5 * / 9007199254740992 * Rabs (IZR delta)) * IZR dur)) by field.
  rewrite <- Rmult_assoc, (Rmult_comm 9007199254740992), Rmult_assoc.
  rewrite (Rmult_comm (Rabs _)).
  nra.
Qed.
