(* Analysis layer of C11, second half: the discretisation error. The calculator adds up the
   density at the left end of every tick slot times the slot width (a left Riemann sum); the
   normaliser divides by the probability mass of the window (the integral of the density over the
   window). For a unimodal function the two differ by at most one slot's worth of the peak value:

      - h * (f mu - f (a + n h))  <=  integral_a^{a+n h} f  -  sum_{k<n} h * f (a + k h)
                                  <=  h * (f mu - f a)

   for every start a, slot width h > 0 and slot count n, wherever the peak mu lies (inside the
   window or not). Proved over the reals with Coquelicot's Riemann integral. *)
From Coq Require Import Reals Lra Lia.
From Coquelicot Require Import Coquelicot.
From F1 Require Import Proofs.GaussianReal.
Open Scope R_scope.

Section Unimodal.
  Variable f : R -> R.
  Variable mu : R.
  Hypothesis Hinc : forall x y, x <= y -> y <= mu -> f x <= f y.
  Hypothesis Hdec : forall x y, mu <= x -> x <= y -> f y <= f x.
  Hypothesis Hcont : forall x, continuous f x.
  Hypothesis Hpos : forall x, 0 <= f x.

  Lemma f_le_peak x : f x <= f mu.
  Proof. destruct (Rle_dec x mu); [apply Hinc; lra|apply Hdec; lra]. Qed.

  (* the largest value of f on [u, v] *)
  Definition W (u v : R) : R :=
    if Rle_dec v mu then f v else if Rle_dec mu u then f u else f mu.

  Lemma W_upper u v x : u <= x <= v -> f x <= W u v.
  Proof.
    intros Hx. unfold W. destruct (Rle_dec v mu); [apply Hinc; lra|].
    destruct (Rle_dec mu u); [apply Hdec; lra|apply f_le_peak].
  Qed.

  Lemma W_le_peak u v : W u v <= f mu.
  Proof. unfold W. destruct (Rle_dec v mu); [apply f_le_peak|]. destruct (Rle_dec mu u); [apply f_le_peak|lra]. Qed.

  Lemma W_mono u v w : u <= v -> v <= w -> W u v <= W u w.
  Proof.
    intros Huv Hvw. unfold W.
    destruct (Rle_dec v mu), (Rle_dec w mu); try lra.
    - apply Hinc; lra.
    - destruct (Rle_dec mu u); [|apply f_le_peak]. apply Hdec; lra.
  Qed.

  Lemma f_lower u v x : u <= x <= v -> Rmin (f u) (f v) <= f x.
  Proof.
    intros Hx. destruct (Rle_dec x mu).
    - eapply Rle_trans; [apply Rmin_l|]. apply Hinc; lra.
    - eapply Rle_trans; [apply Rmin_r|]. apply Hdec; lra.
  Qed.

  Lemma ex_int a b : ex_RInt f a b.
  Proof. apply (ex_RInt_continuous (V := R_CompleteNormedModule)). intros x _. apply Hcont. Qed.

  (* one slot *)
  Lemma cell_upper u h : 0 <= h -> RInt f u (u + h) <= h * W u (u + h).
  Proof.
    intros Hh.
    replace (h * W u (u + h)) with (RInt (fun _ => W u (u + h)) u (u + h)).
    2:{ rewrite RInt_const. unfold scal; simpl; unfold mult; simpl. ring. }
    apply RInt_le; [lra|apply ex_int|apply ex_RInt_const|].
    intros x Hx. apply W_upper. lra.
  Qed.

  Lemma cell_lower u h : 0 <= h -> h * Rmin (f u) (f (u + h)) <= RInt f u (u + h).
  Proof.
    intros Hh.
    replace (h * Rmin (f u) (f (u + h))) with (RInt (fun _ => Rmin (f u) (f (u + h))) u (u + h)).
    2:{ rewrite RInt_const. unfold scal; simpl; unfold mult; simpl. ring. }
    apply RInt_le; [lra|apply ex_RInt_const|apply ex_int|].
    intros x Hx. apply f_lower. lra.
  Qed.

  (* the left Riemann sum over n slots of width h starting at a *)
  Fixpoint lsum (a h : R) (n : nat) : R :=
    match n with O => 0 | S k => lsum a h k + h * f (a + INR k * h) end.

  Lemma riemann_bounds a h n : 0 <= h ->
    RInt f a (a + INR n * h) - lsum a h n <= h * (W a (a + INR n * h) - f a) /\
    lsum a h n - RInt f a (a + INR n * h) <= h * (W a (a + INR n * h) - f (a + INR n * h)).
  Proof.
    intros Hh. induction n as [|n [IHu IHl]].
    - simpl. replace (a + 0 * h) with a by ring. rewrite RInt_point.
      assert (HW : W a a = f a).
      { unfold W. destruct (Rle_dec a mu); [reflexivity|]. destruct (Rle_dec mu a); [reflexivity|lra]. }
      rewrite HW. unfold zero; simpl. split; lra.
    - set (xn := a + INR n * h) in *.
      assert (Hx1 : a + INR (S n) * h = xn + h) by (rewrite S_INR; unfold xn; ring).
      rewrite Hx1.
      assert (Hxn : a <= xn) by (unfold xn; pose proof (pos_INR n); nra).
      assert (Hch : RInt f a (xn + h) = RInt f a xn + RInt f xn (xn + h)).
      { symmetry. apply (RInt_Chasles (V := R_CompleteNormedModule)); apply ex_int. }
      rewrite Hch. cbn [lsum]. fold xn.
      pose proof (cell_upper xn h Hh) as Hcu. pose proof (cell_lower xn h Hh) as Hcl.
      pose proof (W_mono a xn (xn + h) Hxn ltac:(lra)) as Hm.
      split.
      + (* W a xn - f a + W xn (xn+h) - f xn <= W a (xn+h) - f a *)
        assert (Hk : W a xn + W xn (xn + h) - f xn <= W a (xn + h)).
        { unfold W at 1 2. destruct (Rle_dec xn mu).
          - destruct (Rle_dec (xn + h) mu).
            + unfold W. destruct (Rle_dec (xn + h) mu); lra.
            + destruct (Rle_dec mu xn).
              * unfold W. destruct (Rle_dec (xn + h) mu); [lra|].
                destruct (Rle_dec mu a); [|pose proof (f_le_peak xn); lra].
                pose proof (Hdec a xn ltac:(lra) ltac:(lra)). lra.
              * unfold W. destruct (Rle_dec (xn + h) mu); [lra|]. destruct (Rle_dec mu a); lra.
          - destruct (Rle_dec (xn + h) mu); [lra|]. destruct (Rle_dec mu xn); [|lra].
            destruct (Rle_dec mu a).
            + unfold W. destruct (Rle_dec (xn + h) mu); [lra|]. destruct (Rle_dec mu a); lra.
            + unfold W. destruct (Rle_dec (xn + h) mu); [lra|]. destruct (Rle_dec mu a); lra. }
        nra.
      + (* W a xn - f xn + max 0 (f xn - f (xn+h)) <= W a (xn+h) - f (xn+h) *)
        assert (Hk : W a xn - f xn + (f xn - Rmin (f xn) (f (xn + h))) <= W a (xn + h) - f (xn + h)).
        { unfold Rmin. destruct (Rle_dec (f xn) (f (xn + h))) as [Hle|Hgt]; [|lra].
          unfold W. destruct (Rle_dec xn mu), (Rle_dec (xn + h) mu); try lra.
          - destruct (Rle_dec mu a); [|pose proof (f_le_peak (xn + h)); lra].
            pose proof (Hdec a (xn + h) ltac:(lra) ltac:(lra)). pose proof (Hdec a xn ltac:(lra) ltac:(lra)).
            pose proof (Hinc a xn ltac:(lra) ltac:(lra)). lra.
          - destruct (Rle_dec mu a).
            + pose proof (Hdec xn (xn + h) ltac:(lra) ltac:(lra)). lra.
            + pose proof (Hdec xn (xn + h) ltac:(lra) ltac:(lra)). lra. }
        nra.
  Qed.

  Theorem riemann_close a h n : 0 <= h ->
    Rabs (RInt f a (a + INR n * h) - lsum a h n) <= h * f mu.
  Proof.
    intros Hh. destruct (riemann_bounds a h n Hh) as [Hu Hl].
    pose proof (W_le_peak a (a + INR n * h)) as Hp.
    pose proof (Rmult_le_pos h (f mu - W a (a + INR n * h)) Hh ltac:(lra)) as H1.
    pose proof (Rmult_le_pos h (f a) Hh (Hpos a)) as H2.
    pose proof (Rmult_le_pos h (f (a + INR n * h)) Hh (Hpos _)) as H3.
    apply Rabs_le. split; nra.
  Qed.
End Unimodal.

(* ---------------------------------------------------------------- the Gaussian density *)

Lemma abs_le_left x y mu : x <= y -> y <= mu -> Rabs (y - mu) <= Rabs (x - mu).
Proof. intros. rewrite !Rabs_left1 by lra. lra. Qed.

Lemma abs_le_right x y mu : mu <= x -> x <= y -> Rabs (x - mu) <= Rabs (y - mu).
Proof. intros. rewrite !Rabs_right by lra. lra. Qed.

Lemma pdf_continuous mu sigma x : 0 < sigma -> continuous (pdf_R mu sigma) x.
Proof.
  intros Hs. apply (ex_derive_continuous (V := R_NormedModule)). unfold pdf_R. auto_derive.
  assert (0 < sqrt (2 * PI)) by (apply sqrt_lt_R0; pose proof PI_RGT_0; lra).
  repeat split; try (apply Rgt_not_eq; nra); auto.
Qed.

Theorem gaussian_riemann mu sigma a h n : 0 < sigma -> 0 <= h ->
  Rabs (RInt (pdf_R mu sigma) a (a + INR n * h) - lsum (pdf_R mu sigma) a h n) <= h * pdf_R mu sigma mu.
Proof.
  intros Hs Hh. apply riemann_close; [| |intros x; apply pdf_continuous; exact Hs|intros x; apply pdf_nonneg; exact Hs|exact Hh].
  - intros x y H1 H2. apply pdf_unimodal; [exact Hs|apply abs_le_left; assumption].
  - intros x y H1 H2. apply pdf_unimodal; [exact Hs|apply abs_le_right; assumption].
Qed.

(* ---------------------------------------------------------------- the carry over the reals *)

From Flocq Require Import Core.Raux.
From F1 Require Import Base.Prelude.
Local Open Scope R_scope.

(* Calculator.For's tail over the reals: emit the floor of rate + remainder, carry the rest *)
Fixpoint rcarry (rem : R) (rs : list R) : list Z * R :=
  match rs with
  | [] => ([], rem)
  | r :: t => let s := r + rem in let o := Zfloor s in
              let '(os, f) := rcarry (s - IZR o) t in (o :: os, f)
  end.

Definition rsum (l : list R) : R := fold_right Rplus 0 l.

Lemma rsum_app l1 l2 : rsum (l1 ++ l2) = rsum l1 + rsum l2.
Proof. unfold rsum. induction l1 as [|x l IH]; cbn [app fold_right]; [lra|rewrite IH; lra]. Qed.

Lemma rcarry_sum rs : forall rem os f, rcarry rem rs = (os, f) ->
  IZR (zsum os) + f = rsum rs + rem /\
  (0 <= rem < 1 -> Forall (fun r => 0 <= r) rs -> 0 <= f < 1 /\ Forall (fun o => (0 <= o)%Z) os).
Proof.
  induction rs as [|r t IH]; intros rem os f H; cbn [rcarry] in H.
  - injection H as <- <-. cbn. split; [lra|]. intros; split; [assumption|constructor].
  - destruct (rcarry (r + rem - IZR (Zfloor (r + rem))) t) as [os' f'] eqn:E. injection H as <- <-.
    destruct (IH _ _ _ E) as [S P]. rewrite zsum_cons, plus_IZR. unfold rsum in *. cbn [fold_right]. split; [lra|].
    intros Hrem Hrs. inversion Hrs as [|? ? Hr Ht]; subst.
    pose proof (Zfloor_lb (r + rem)) as Hl. pose proof (Zfloor_ub (r + rem)) as Hu.
    destruct (P ltac:(lra) Ht) as [Pf Po]. split; [exact Pf|]. constructor; [|exact Po].
    apply Zfloor_lub. simpl. lra.
Qed.

(* the real rates of one window: volume * (slot width * density at the slot's left end) / mass *)
Definition real_rates (mu sigma a h V mass : R) (n : nat) : list R :=
  map (fun k => V * (h * pdf_R mu sigma (a + INR k * h)) / mass) (seq 0 n).

Lemma real_rates_sum mu sigma a h V mass n :
  rsum (real_rates mu sigma a h V mass n) = V * lsum (pdf_R mu sigma) a h n / mass.
Proof.
  unfold real_rates. induction n as [|n IH].
  - cbn. unfold Rdiv. ring.
  - rewrite seq_S, map_app, rsum_app, IH. cbn [map lsum rsum fold_right Nat.add]. unfold Rdiv. ring.
Qed.

Lemma real_rates_nonneg mu sigma a h V mass n :
  0 < sigma -> 0 <= h -> 0 <= V -> 0 < mass -> Forall (fun r => 0 <= r) (real_rates mu sigma a h V mass n).
Proof.
  intros Hs Hh HV Hm. unfold real_rates. apply Forall_forall. intros r Hr. apply in_map_iff in Hr.
  destruct Hr as (k & <- & _). pose proof (pdf_nonneg mu sigma (a + INR k * h) Hs).
  apply Rmult_le_pos; [|left; apply Rinv_0_lt_compat; exact Hm].
  apply Rmult_le_pos; [exact HV|]. apply Rmult_le_pos; assumption.
Qed.

(* Over one window of n slots of width h the emitted total differs from the volume V by less
   than one request (the remainder still carried) plus the discretisation error
   V * h * (peak density) / (probability mass of the window). *)
Theorem gaussian_volume mu sigma a h V n os f :
  0 < sigma -> 0 <= h -> 0 <= V ->
  let mass := RInt (pdf_R mu sigma) a (a + INR n * h) in
  0 < mass ->
  rcarry 0 (real_rates mu sigma a h V mass n) = (os, f) ->
  let disc := V * (h * pdf_R mu sigma mu / mass) in
  V - disc - 1 < IZR (zsum os) <= V + disc /\ Forall (fun o => (0 <= o)%Z) os.
Proof.
  intros Hs Hh HV mass Hm Hrun disc.
  destruct (rcarry_sum _ _ _ _ Hrun) as [S P].
  destruct (P ltac:(lra) (real_rates_nonneg mu sigma a h V mass n Hs Hh HV Hm)) as [Pf Po].
  split; [|exact Po]. rewrite real_rates_sum in S.
  pose proof (gaussian_riemann mu sigma a h n Hs Hh) as G. fold mass in G. apply Rabs_le_inv in G.
  set (L := lsum (pdf_R mu sigma) a h n) in *. set (M := pdf_R mu sigma mu) in *.
  assert (E : V * L / mass = V + V * ((L - mass) / mass)) by (field; lra).
  assert (Hi : 0 < / mass) by (apply Rinv_0_lt_compat; exact Hm).
  assert (B1 : (L - mass) / mass <= h * M / mass).
  { unfold Rdiv. apply Rmult_le_compat_r; lra. }
  assert (B2 : - (h * M / mass) <= (L - mass) / mass).
  { replace (- (h * M / mass)) with ((- (h * M)) * / mass) by (unfold Rdiv; ring).
    unfold Rdiv. apply Rmult_le_compat_r; lra. }
  unfold disc. fold M. nra.
Qed.
