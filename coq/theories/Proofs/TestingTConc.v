(* C07 - failures reported by several helper goroutines at the same time: whatever the interleaving
   of their steps, once they are all done the handle is marked failed (outside teardown), and
   nothing else about it has changed. *)
From F1 Require Import Base.Prelude Model.TestingT.
From Coq Require Import Lia.

Definition hinv (t0 t : tstate) (hs : list hpc) : Prop :=
  tearing t = false /\ tdfailed t = tdfailed t0 /\ stack t = stack t0 /\
  Forall (fun h => h <> HRead true) hs /\
  (failed t0 = true \/ Exists (fun h => h = HDone) hs -> failed t = true).

Lemma set_nth_forall {A} (P : A -> Prop) : forall (l : list A) i x, Forall P l -> P x -> Forall P (set_nth l i x).
Proof.
  induction l as [|y l IH]; intros i x Hl Hx; [constructor|].
  inversion Hl as [|? ? Hy Hr]; subst. destruct i as [|j]; cbn [set_nth]; constructor; auto.
Qed.

Lemma set_nth_exists {A} (P : A -> Prop) : forall (l : list A) i x y,
  nth_error l i = Some y -> Exists P (set_nth l i x) -> P x \/ Exists P l.
Proof.
  induction l as [|z l IH]; intros i x y Hn He; [destruct i; discriminate|].
  destruct i as [|j]; cbn [set_nth nth_error] in *.
  - inversion He as [? ? H|? ? H]; subst; [left; exact H|right; apply Exists_cons_tl; exact H].
  - inversion He as [? ? H|? ? H]; subst; [right; apply Exists_cons_hd; exact H|].
    destruct (IH j x y Hn H) as [K|K]; [left; exact K|right; apply Exists_cons_tl; exact K].
Qed.

Lemma nth_error_forall {A} (P : A -> Prop) : forall (l : list A) i x, Forall P l -> nth_error l i = Some x -> P x.
Proof.
  induction l as [|y l IH]; intros i x Hl Hn; [destruct i; discriminate|].
  inversion Hl as [|? ? Hy Hr]; subst. destruct i as [|j]; cbn [nth_error] in Hn; [injection Hn as <-; exact Hy|eauto].
Qed.

Lemma nth_error_exists {A} (P : A -> Prop) : forall (l : list A) i x, nth_error l i = Some x -> P x -> Exists P l.
Proof.
  induction l as [|y l IH]; intros i x Hn Hp; [destruct i; discriminate|].
  destruct i as [|j]; cbn [nth_error] in Hn; [injection Hn as <-; apply Exists_cons_hd; exact Hp|apply Exists_cons_tl; eauto].
Qed.

Lemma hstep_inv t0 t hs i h t' h' :
  hinv t0 t hs -> nth_error hs i = Some h -> hstep t h = (t', h') -> hinv t0 t' (set_nth hs i h').
Proof.
  intros (Ht & Hd & Hs & Hr & Hf) Hn Hstep.
  pose proof (nth_error_forall _ _ _ _ Hr Hn) as Hh.
  destruct h as [|td|]; cbn [hstep] in Hstep.
  - (* the read: tearing is false *)
    injection Hstep as <- <-. rewrite Ht.
    repeat split; auto.
    + apply set_nth_forall; [exact Hr|discriminate].
    + intros [K|K]; [apply Hf; left; exact K|].
      destruct (set_nth_exists _ _ _ _ _ Hn K) as [E|E]; [discriminate|apply Hf; right; exact E].
  - destruct td; [exfalso; apply Hh; reflexivity|].
    injection Hstep as <- <-. cbn [tearing tdfailed stack failed].
    repeat split; auto. apply set_nth_forall; [exact Hr|discriminate].
  - injection Hstep as <- <-.
    repeat split; auto.
    + apply set_nth_forall; [exact Hr|discriminate].
    + intros [K|K]; [apply Hf; left; exact K|].
      apply Hf. right. apply (nth_error_exists (fun h => h = HDone) _ _ _ Hn eq_refl).
Qed.

Lemma hexec_inv t0 : forall sched t hs t' hs',
  hinv t0 t hs -> hexec t hs sched = (t', hs') -> hinv t0 t' hs'.
Proof.
  induction sched as [|i r IH]; intros t hs t' hs' I H; cbn [hexec] in H.
  - injection H as <- <-. exact I.
  - destruct (nth_error hs i) as [h|] eqn:En; [|eauto].
    destruct (hstep t h) as [t1 h1] eqn:Es. eapply IH; [|exact H]. eapply hstep_inv; eauto.
Qed.

Lemma hinv_init t n : tearing t = false -> hinv t t (repeat HStart n).
Proof.
  intros Ht. repeat split; auto.
  - apply Forall_forall. intros h Hin. apply repeat_spec in Hin. subst. discriminate.
  - intros [K|K]; [exact K|]. apply Exists_exists in K. destruct K as (h & Hin & E).
    apply repeat_spec in Hin. subst. discriminate.
Qed.

Lemma hexec_length : forall sched t hs t' hs', hexec t hs sched = (t', hs') -> length hs' = length hs.
Proof.
  assert (L : forall A (l : list A) i x, length (set_nth l i x) = length l).
  { induction l as [|y l IHl]; intros i x; [reflexivity|]. destruct i; cbn [set_nth length]; [reflexivity|]. rewrite IHl. reflexivity. }
  induction sched as [|i r IH]; intros t hs t' hs' H; cbn [hexec] in H.
  - injection H as <- <-. reflexivity.
  - destruct (nth_error hs i) as [h|]; [|eauto]. destruct (hstep t h) as [t1 h1]. rewrite (IH _ _ _ _ H). apply L.
Qed.

Theorem concurrent_marks t n sched t' hs' :
  tearing t = false -> (1 <= n)%nat ->
  hexec t (repeat HStart n) sched = (t', hs') -> all_done hs' = true ->
  failed t' = true /\ tdfailed t' = tdfailed t /\ tearing t' = false /\ stack t' = stack t.
Proof.
  intros Ht Hn H Hdone.
  destruct (hexec_inv t sched t (repeat HStart n) t' hs' (hinv_init t n Ht) H) as (I1 & I2 & I3 & _ & I5).
  repeat split; auto. apply I5. right.
  pose proof (hexec_length _ _ _ _ _ H) as L. rewrite repeat_length in L.
  destruct hs' as [|h r]; [cbn in L; lia|].
  cbn [all_done forallb] in Hdone. apply andb_prop in Hdone. destruct Hdone as [Hh _].
  apply Exists_cons_hd. destruct h; try discriminate. reflexivity.
Qed.
