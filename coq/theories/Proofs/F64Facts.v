(* Real-number facts about the binary64 operations used by the interpolation
   term of the staged and ramp triggers: every operation is correctly rounded
   (Flocq), rounding is monotone and leaves representable values alone. *)
From Coq Require Import ZArith Reals Lia Lra Bool.
From Flocq Require Import Core IEEE754.BinarySingleNaN.
From F1 Require Import Base.F64 Model.Staged.

Local Open Scope R_scope.

Definition fexp64 : Z -> Z := SpecFloat.fexp prec emax.
Definition rnd (x : R) : R := round radix2 fexp64 (round_mode mode_NE) x.

#[local] Instance fexp64_valid : Valid_exp fexp64.
Proof. unfold fexp64, SpecFloat.fexp. apply FLT_exp_valid. exact prec_gt_0_64. Qed.

#[local] Instance rnd_valid : Valid_rnd (round_mode mode_NE).
Proof. apply valid_rnd_round_mode. Qed.

Lemma rnd_le x y : x <= y -> rnd x <= rnd y.
Proof. intros H. unfold rnd. apply round_le; auto with typeclass_instances. Qed.

Lemma rnd_0 : rnd 0 = 0.
Proof. unfold rnd. apply round_0. auto with typeclass_instances. Qed.

Lemma format_Z z : (Z.abs z < 2 ^ 53)%Z -> generic_format radix2 fexp64 (IZR z).
Proof.
  intros H. unfold fexp64, SpecFloat.fexp. apply generic_format_FLT.
  apply (FLT_spec radix2 _ _ _ (Float radix2 z 0)).
  - unfold F2R. simpl. lra.
  - simpl. exact H.
  - simpl. unfold SpecFloat.emin, emax, prec. lia.
Qed.

Lemma rnd_Z z : (Z.abs z < 2 ^ 53)%Z -> rnd (IZR z) = IZR z.
Proof. intros H. unfold rnd. apply round_generic; auto with typeclass_instances. apply format_Z. exact H. Qed.

Lemma rnd_1 : rnd 1 = 1.
Proof. apply (rnd_Z 1). reflexivity. Qed.

Lemma format_pow63 : generic_format radix2 fexp64 (IZR (2 ^ 63)).
Proof.
  unfold fexp64, SpecFloat.fexp. apply generic_format_FLT.
  apply (FLT_spec radix2 _ _ _ (Float radix2 1 63)).
  - unfold F2R. simpl. lra.
  - simpl. reflexivity.
  - simpl. unfold SpecFloat.emin, emax, prec. lia.
Qed.

Lemma rnd_pow63 : rnd (IZR (2 ^ 63)) = IZR (2 ^ 63).
Proof. unfold rnd. apply round_generic; auto with typeclass_instances. apply format_pow63. Qed.

Lemma rnd_opp x : rnd (- x) = - rnd x.
Proof. unfold rnd. apply round_NE_opp. Qed.

Lemma pow63_lt_emax : IZR (2 ^ 63) < bpow radix2 emax.
Proof.
  change (IZR (2 ^ 63)) with (IZR (Zpower radix2 63)). rewrite IZR_Zpower by lia.
  apply bpow_lt. unfold emax. lia.
Qed.

(* float64(int64 z) is finite and is the rounding of z *)
Lemma f_of_Z_R z : (Z.abs z <= 2 ^ 63)%Z ->
  is_finite (f_of_Z z) = true /\ B2R (f_of_Z z) = rnd (IZR z).
Proof.
  intros H. unfold f_of_Z, f_norm.
  pose proof (binary_normalize_correct prec emax prec_gt_0_64 prec_lt_emax_64 mode_NE z 0 false) as C.
  cbv zeta in C.
  assert (E : F2R (Float radix2 z 0) = IZR z) by (unfold F2R; simpl; lra).
  rewrite E in C. fold fexp64 in C. fold (rnd (IZR z)) in C.
  assert (B : Rabs (rnd (IZR z)) <= IZR (2 ^ 63)).
  { apply Rabs_le. split.
    - rewrite <- rnd_pow63, <- rnd_opp. apply rnd_le. rewrite <- opp_IZR. apply IZR_le. lia.
    - rewrite <- rnd_pow63. apply rnd_le. apply IZR_le. lia. }
  rewrite Rlt_bool_true in C by (eapply Rle_lt_trans; [exact B|exact pow63_lt_emax]).
  destruct C as (C1 & C2 & _). split; assumption.
Qed.

Lemma f_div_R x y :
  is_finite x = true -> B2R y <> 0 -> Rabs (rnd (B2R x / B2R y)) < bpow radix2 emax ->
  is_finite (f_div x y) = true /\ B2R (f_div x y) = rnd (B2R x / B2R y).
Proof.
  intros Fx Hy Hb. unfold f_div.
  pose proof (Bdiv_correct prec emax prec_gt_0_64 prec_lt_emax_64 mode_NE x y Hy) as C.
  fold fexp64 in C. fold (rnd (B2R x / B2R y)) in C.
  rewrite Rlt_bool_true in C by exact Hb.
  destruct C as (C1 & C2 & _). split; [rewrite C2; exact Fx|exact C1].
Qed.

Lemma f_mul_R x y :
  is_finite x = true -> is_finite y = true -> Rabs (rnd (B2R x * B2R y)) < bpow radix2 emax ->
  is_finite (f_mul x y) = true /\ B2R (f_mul x y) = rnd (B2R x * B2R y).
Proof.
  intros Fx Fy Hb. unfold f_mul.
  pose proof (Bmult_correct prec emax prec_gt_0_64 prec_lt_emax_64 mode_NE x y) as C.
  fold fexp64 in C. fold (rnd (B2R x * B2R y)) in C.
  rewrite Rlt_bool_true in C by exact Hb.
  destruct C as (C1 & C2 & _). split; [rewrite C2, Fx, Fy; reflexivity|exact C1].
Qed.

Lemma Btrunc_R (x : f64) : Btrunc x = Ztrunc (B2R x).
Proof.
  apply eq_IZR. rewrite (Btrunc_correct prec emax prec_lt_emax_64 x). apply round_FIX_IZR.
Qed.

(* ---- the interpolation term over the reals *)

Definition interp_R (off dur delta : Z) : R :=
  rnd (rnd (rnd (IZR off) / rnd (IZR dur)) * IZR delta).

Section Interp.
Variables off dur delta : Z.
Hypothesis Hoff : (0 <= off <= dur)%Z.
Hypothesis Hdur : (0 < dur <= 2 ^ 63)%Z.
Hypothesis Hdelta : (Z.abs delta < 2 ^ 53)%Z.

Let A := rnd (IZR off).
Let Bv := rnd (IZR dur).
Let Q := rnd (A / Bv).

Lemma A_bounds : 0 <= A <= Bv.
Proof.
  unfold A, Bv. split.
  - rewrite <- rnd_0. apply rnd_le. apply IZR_le. lia.
  - apply rnd_le. apply IZR_le. lia.
Qed.

Lemma B_ge_1 : 1 <= Bv.
Proof. unfold Bv. rewrite <- rnd_1. apply rnd_le. apply IZR_le. lia. Qed.

Lemma quot_bounds : 0 <= A / Bv <= 1.
Proof.
  pose proof A_bounds as [HA HB]. pose proof B_ge_1 as H1.
  assert (0 < Bv) by lra. split.
  - apply Rmult_le_pos; [exact HA|]. apply Rlt_le, Rinv_0_lt_compat. assumption.
  - apply Rmult_le_reg_r with Bv; [assumption|]. unfold Rdiv. rewrite Rmult_assoc, Rinv_l by lra. lra.
Qed.

Lemma Q_bounds : 0 <= Q <= 1.
Proof.
  pose proof quot_bounds as [H0 H1]. unfold Q. split.
  - rewrite <- rnd_0. apply rnd_le. exact H0.
  - rewrite <- rnd_1. apply rnd_le. exact H1.
Qed.

Lemma delta_R_bound : Rabs (IZR delta) <= IZR (2 ^ 53).
Proof. rewrite <- abs_IZR. apply IZR_le. lia. Qed.

Lemma P_abs_bound : Rabs (interp_R off dur delta) <= IZR (2 ^ 53).
Proof.
  unfold interp_R. fold A Bv Q. pose proof Q_bounds as [Q0 Q1]. pose proof delta_R_bound as HD.
  assert (HR : rnd (IZR (2 ^ 53)) = IZR (2 ^ 53)).
  { unfold rnd. apply round_generic; auto with typeclass_instances.
    unfold fexp64, SpecFloat.fexp. apply generic_format_FLT.
    apply (FLT_spec radix2 _ _ _ (Float radix2 1 53)).
    - unfold F2R. simpl. lra.
    - simpl. reflexivity.
    - simpl. unfold SpecFloat.emin, emax, prec. lia. }
  apply Rabs_le_inv in HD. destruct HD as [HD1 HD2].
  apply Rabs_le. split.
  - rewrite <- HR, <- rnd_opp. apply rnd_le. nra.
  - rewrite <- HR. apply rnd_le. nra.
Qed.

Lemma pow53_lt_emax : IZR (2 ^ 53) < bpow radix2 emax.
Proof.
  change (IZR (2 ^ 53)) with (IZR (Zpower radix2 53)). rewrite IZR_Zpower by lia.
  apply bpow_lt. unfold emax. lia.
Qed.

Lemma interp_f64_R : interp_f64 off dur delta = Ztrunc (interp_R off dur delta).
Proof.
  unfold interp_f64.
  destruct (f_of_Z_R off ltac:(lia)) as [Fa Ra].
  destruct (f_of_Z_R dur ltac:(lia)) as [Fb Rb].
  destruct (f_of_Z_R delta ltac:(lia)) as [Fd Rd].
  rewrite rnd_Z in Rd by exact Hdelta.
  fold A in Ra. fold Bv in Rb.
  pose proof B_ge_1 as HB1. pose proof Q_bounds as [Q0 Q1].
  destruct (f_div_R (f_of_Z off) (f_of_Z dur) Fa) as [Fq Rq].
  { rewrite Rb. lra. }
  { rewrite Ra, Rb. fold Q. rewrite Rabs_pos_eq by exact Q0.
    eapply Rle_lt_trans; [exact Q1|]. change 1 with (bpow radix2 0). apply bpow_lt. unfold emax. lia. }
  rewrite Ra, Rb in Rq. fold Q in Rq.
  destruct (f_mul_R _ (f_of_Z delta) Fq Fd) as [Fp Rp].
  { rewrite Rq, Rd. eapply Rle_lt_trans; [exact P_abs_bound|exact pow53_lt_emax]. }
  rewrite Rq, Rd in Rp.
  unfold f_to_int. rewrite Fp, Btrunc_R, Rp. fold (interp_R off dur delta).
  pose proof P_abs_bound as HP. apply Rabs_le_inv in HP. destruct HP as [HP1 HP2].
  assert (T1 : (Ztrunc (interp_R off dur delta) <= 2 ^ 53)%Z).
  { rewrite <- (Ztrunc_IZR (2 ^ 53)). apply Ztrunc_le. exact HP2. }
  assert (T2 : (- 2 ^ 53 <= Ztrunc (interp_R off dur delta))%Z).
  { rewrite <- (Ztrunc_IZR (- 2 ^ 53)). apply Ztrunc_le. rewrite opp_IZR. exact HP1. }
  assert (L1 : (Ztrunc (interp_R off dur delta) <? 2 ^ 63)%Z = true) by (apply Z.ltb_lt; lia).
  assert (L2 : (min_int64 <=? Ztrunc (interp_R off dur delta))%Z = true) by (apply Z.leb_le; unfold min_int64; lia).
  change (rnd (Q * IZR delta)) with (interp_R off dur delta). rewrite L1, L2. reflexivity.
Qed.

End Interp.

(* ---- the four shape facts of the interpolation term, for int64 durations and targets
   whose difference is exactly representable (|delta| < 2^53) *)

Lemma interp_R_up off dur delta :
  (0 <= off <= dur)%Z -> (0 < dur <= 2 ^ 63)%Z -> (0 <= delta < 2 ^ 53)%Z ->
  0 <= interp_R off dur delta <= IZR delta.
Proof.
  intros Ho Hd Hde. pose proof (Q_bounds off dur 0%Z Ho Hd) as [Q0 Q1]. cbv zeta in Q0, Q1.
  assert (D0 : 0 <= IZR delta) by (apply IZR_le; lia).
  unfold interp_R. split.
  - rewrite <- rnd_0. apply rnd_le. apply Rmult_le_pos; assumption.
  - rewrite <- (rnd_Z delta) at 2 by lia. apply rnd_le. nra.
Qed.

Lemma interp_R_down off dur delta :
  (0 <= off <= dur)%Z -> (0 < dur <= 2 ^ 63)%Z -> (- 2 ^ 53 < delta <= 0)%Z ->
  IZR delta <= interp_R off dur delta <= 0.
Proof.
  intros Ho Hd Hde. pose proof (Q_bounds off dur 0%Z Ho Hd) as [Q0 Q1]. cbv zeta in Q0, Q1.
  assert (D0 : IZR delta <= 0) by (apply IZR_le; lia).
  unfold interp_R. split.
  - rewrite <- (rnd_Z delta) at 1 by lia. apply rnd_le. nra.
  - rewrite <- rnd_0. apply rnd_le. nra.
Qed.

Lemma Q_mono off1 off2 dur :
  (0 <= off1 <= off2)%Z -> (off2 <= dur)%Z -> (0 < dur <= 2 ^ 63)%Z ->
  rnd (rnd (IZR off1) / rnd (IZR dur)) <= rnd (rnd (IZR off2) / rnd (IZR dur)).
Proof.
  intros H1 H2 Hd. apply rnd_le.
  pose proof (B_ge_1 dur 0%Z Hd) as HB. cbv zeta in HB.
  assert (HA : rnd (IZR off1) <= rnd (IZR off2)) by (apply rnd_le, IZR_le; lia).
  unfold Rdiv. apply Rmult_le_compat_r; [|exact HA].
  apply Rlt_le, Rinv_0_lt_compat. lra.
Qed.

Lemma interp_R_mono_up off1 off2 dur delta :
  (0 <= off1 <= off2)%Z -> (off2 <= dur)%Z -> (0 < dur <= 2 ^ 63)%Z -> (0 <= delta)%Z ->
  interp_R off1 dur delta <= interp_R off2 dur delta.
Proof.
  intros H1 H2 Hd Hde. unfold interp_R. apply rnd_le.
  apply Rmult_le_compat_r; [apply IZR_le; lia|]. apply Q_mono; assumption.
Qed.

Lemma interp_R_mono_down off1 off2 dur delta :
  (0 <= off1 <= off2)%Z -> (off2 <= dur)%Z -> (0 < dur <= 2 ^ 63)%Z -> (delta <= 0)%Z ->
  interp_R off2 dur delta <= interp_R off1 dur delta.
Proof.
  intros H1 H2 Hd Hde. unfold interp_R. apply rnd_le.
  pose proof (Q_mono off1 off2 dur H1 H2 Hd) as HQ.
  assert (D0 : IZR delta <= 0) by (apply IZR_le; lia). nra.
Qed.

Local Open Scope Z_scope.

Theorem interp_f64_up off dur delta :
  0 <= off <= dur -> 0 < dur <= 2 ^ 63 -> 0 <= delta < 2 ^ 53 ->
  0 <= interp_f64 off dur delta <= delta.
Proof.
  intros Ho Hd Hde. rewrite interp_f64_R by lia.
  destruct (interp_R_up off dur delta Ho Hd Hde) as [A B]. split.
  - rewrite <- (Ztrunc_IZR 0). apply Ztrunc_le. exact A.
  - rewrite <- (Ztrunc_IZR delta) at 2. apply Ztrunc_le. exact B.
Qed.

Theorem interp_f64_down off dur delta :
  0 <= off <= dur -> 0 < dur <= 2 ^ 63 -> - 2 ^ 53 < delta <= 0 ->
  delta <= interp_f64 off dur delta <= 0.
Proof.
  intros Ho Hd Hde. rewrite interp_f64_R by lia.
  destruct (interp_R_down off dur delta Ho Hd Hde) as [A B]. split.
  - rewrite <- (Ztrunc_IZR delta) at 1. apply Ztrunc_le. exact A.
  - rewrite <- (Ztrunc_IZR 0). apply Ztrunc_le. exact B.
Qed.

Theorem interp_f64_mono_up off1 off2 dur delta :
  0 <= off1 <= off2 -> off2 <= dur -> 0 < dur <= 2 ^ 63 -> 0 <= delta < 2 ^ 53 ->
  interp_f64 off1 dur delta <= interp_f64 off2 dur delta.
Proof.
  intros H1 H2 Hd Hde. rewrite !interp_f64_R by lia. apply Ztrunc_le.
  apply interp_R_mono_up; lia.
Qed.

Theorem interp_f64_mono_down off1 off2 dur delta :
  0 <= off1 <= off2 -> off2 <= dur -> 0 < dur <= 2 ^ 63 -> - 2 ^ 53 < delta <= 0 ->
  interp_f64 off2 dur delta <= interp_f64 off1 dur delta.
Proof.
  intros H1 H2 Hd Hde. rewrite !interp_f64_R by lia. apply Ztrunc_le.
  apply interp_R_mono_down; lia.
Qed.
