(* C17: the sequential aggregate arithmetic of internal/progress. *)
From F1 Require Import Base.Prelude Model.Progress.
From Coq Require Import ZifyBool Lia.

Definition pos_list (l : list Z) : Prop := Forall (fun x => 0 < x) l.

Definition acc_of (l : list Z) : acc :=
  {| a_sum := zsum l; a_cnt := Z.of_nat (length l); a_min := lmin l; a_max := lmax l |}.

Lemma fold_min_le : forall r x, fold_left Z.min r x <= x.
Proof. induction r as [|y r IH]; intros x; cbn; [lia|]. specialize (IH (Z.min x y)). lia. Qed.

Lemma fold_min_pos : forall r x, 0 < x -> pos_list r -> 0 < fold_left Z.min r x.
Proof.
  induction r as [|y r IH]; intros x Hx Hr; cbn; [lia|].
  inversion Hr; subst. apply IH; [lia|assumption].
Qed.

Lemma fold_max_ge : forall r x, x <= fold_left Z.max r x.
Proof. induction r as [|y r IH]; intros x; cbn; [lia|]. specialize (IH (Z.max x y)). lia. Qed.

Lemma fold_min_assoc : forall r a b, fold_left Z.min r (Z.min a b) = Z.min a (fold_left Z.min r b).
Proof.
  induction r as [|y r IH]; intros a b; cbn; [reflexivity|].
  rewrite <- IH. f_equal. lia.
Qed.

Lemma fold_max_assoc : forall r a b, fold_left Z.max r (Z.max a b) = Z.max a (fold_left Z.max r b).
Proof.
  induction r as [|y r IH]; intros a b; cbn; [reflexivity|].
  rewrite <- IH. f_equal. lia.
Qed.

Lemma lmin_pos l : l <> [] -> pos_list l -> 0 < lmin l.
Proof. destruct l as [|x r]; [congruence|]. intros _ H. inversion H; subst. cbn. apply fold_min_pos; assumption. Qed.

Lemma lmax_nonneg l : pos_list l -> 0 <= lmax l.
Proof.
  destruct l as [|x r]; intros H; cbn; [lia|]. inversion H; subst.
  pose proof (fold_max_ge r x). lia.
Qed.

Lemma lmin_app l1 l2 : l1 <> [] -> l2 <> [] -> lmin (l1 ++ l2) = Z.min (lmin l1) (lmin l2).
Proof.
  destruct l1 as [|x r]; [congruence|]. destruct l2 as [|y s]; [congruence|]. intros _ _.
  cbn [lmin app]. rewrite fold_left_app. cbn [fold_left].
  rewrite fold_min_assoc. reflexivity.
Qed.

Lemma lmax_app l1 l2 : l1 <> [] -> l2 <> [] -> lmax (l1 ++ l2) = Z.max (lmax l1) (lmax l2).
Proof.
  destruct l1 as [|x r]; [congruence|]. destruct l2 as [|y s]; [congruence|]. intros _ _.
  cbn [lmax app]. rewrite fold_left_app. cbn [fold_left].
  rewrite fold_max_assoc. reflexivity.
Qed.

Lemma acc_add_of l x : pos_list l -> 0 < x -> acc_add (acc_of l) x = acc_of (l ++ [x]).
Proof.
  intros Hl Hx. unfold acc_add, acc_of. cbn [a_sum a_cnt a_min a_max].
  rewrite zsum_app, app_length. cbn [length zsum fold_right].
  destruct l as [|y r].
  - cbn. f_equal; try lia. destruct (0 <? x) eqn:E; lia.
  - assert (Hne : y :: r <> []) by congruence.
    rewrite (lmin_app (y :: r) [x] Hne ltac:(congruence)).
    rewrite (lmax_app (y :: r) [x] Hne ltac:(congruence)).
    pose proof (lmin_pos _ Hne Hl). cbn [lmin lmax fold_left] in *.
    f_equal; try lia.
    + destruct ((fold_left Z.min r y =? 0) || (x <? fold_left Z.min r y)) eqn:E; lia.
    + destruct (fold_left Z.max r y <? x) eqn:E; lia.
Qed.

Lemma acc_update_of l1 l2 : pos_list l1 -> pos_list l2 ->
  acc_update (acc_of l1) (acc_of l2) = acc_of (l1 ++ l2).
Proof.
  intros H1 H2. unfold acc_update, acc_of. cbn [a_sum a_cnt a_min a_max].
  rewrite zsum_app, app_length.
  destruct l1 as [|x r]; destruct l2 as [|y s].
  - cbn. reflexivity.
  - cbn [app lmin lmax length zsum fold_right]. pose proof (lmax_nonneg _ H2). cbn [lmax] in *.
    f_equal; try lia. destruct (0 <? fold_left Z.max s y) eqn:E; lia.
  - rewrite app_nil_r. pose proof (lmax_nonneg _ H1). pose proof (lmin_pos (x :: r) ltac:(congruence) H1).
    cbn [lmin lmax length zsum fold_right] in *. f_equal; try lia.
    + destruct ((fold_left Z.min r x =? 0) || ((0 <? fold_left Z.min r x) && (0 <? 0))) eqn:E; lia.
    + destruct (fold_left Z.max r x <? 0) eqn:E; lia.
  - assert (N1 : x :: r <> []) by congruence. assert (N2 : y :: s <> []) by congruence.
    rewrite (lmin_app _ _ N1 N2), (lmax_app _ _ N1 N2).
    pose proof (lmin_pos _ N1 H1). pose proof (lmin_pos _ N2 H2).
    set (m1 := lmin (x :: r)) in *. set (m2 := lmin (y :: s)) in *.
    set (M1 := lmax (x :: r)) in *. set (M2 := lmax (y :: s)) in *.
    f_equal; try lia.
    + destruct ((m1 =? 0) || ((m2 <? m1) && (0 <? m2))) eqn:E; lia.
    + destruct (M1 <? M2) eqn:E; lia.
Qed.

Lemma acc_snapshot_of l : acc_snapshot (acc_of l) = agg l.
Proof.
  unfold acc_snapshot, acc_of, agg. cbn [a_sum a_cnt a_min a_max].
  destruct l as [|x r]; [reflexivity|].
  replace (Z.of_nat (length (x :: r)) =? 0) with false by (cbn [length]; lia). reflexivity.
Qed.

(* representation invariant *)
Definition rep_ds (d : dstats) (pre per : list Z) : Prop :=
  d_life d = acc_of pre /\ d_run d = acc_of per.

Lemma ds_collect_rep d pre per : pos_list pre -> pos_list per -> rep_ds d pre per ->
  let '(d', ps, ls) := ds_collect d in
  rep_ds d' (pre ++ per) [] /\ ps = agg per /\ ls = agg (pre ++ per).
Proof.
  intros H1 H2 [A B]. unfold ds_collect. rewrite A, B, acc_update_of by assumption.
  rewrite !acc_snapshot_of. repeat split; reflexivity.
Qed.

Fixpoint ops_pos (ops : list sop) : Prop :=
  match ops with
  | [] => True
  | SRecord OSucc ns :: r | SRecord OFail ns :: r => 0 < ns /\ ops_pos r
  | _ :: r => ops_pos r
  end.

Lemma pos_app l x : pos_list l -> 0 < x -> pos_list (l ++ [x]).
Proof. intros. apply Forall_app. split; [assumption|]. constructor; [assumption|constructor]. Qed.

Lemma stats_run_ref : forall ops s pre_s per_s pre_f per_f d,
  ops_pos ops ->
  pos_list pre_s -> pos_list per_s -> pos_list pre_f -> pos_list per_f ->
  rep_ds (st_s s) pre_s per_s -> rep_ds (st_f s) pre_f per_f -> st_d s = d ->
  stats_run s ops = ref_run (pre_s ++ per_s) per_s (pre_f ++ per_f) d ops.
Proof.
  induction ops as [|op ops IH]; intros s pre_s per_s pre_f per_f d Hp P1 P2 P3 P4 Rs Rf Hd; [reflexivity|].
  destruct op as [o ns| |].
  - cbn [stats_run ref_run].
    destruct o; cbn [stats_record ops_pos] in *; try destruct Hp as [Hns Hp].
    + rewrite (IH _ pre_s (per_s ++ [ns]) pre_f per_f d); auto.
      * rewrite app_assoc. reflexivity.
      * apply pos_app; assumption.
      * destruct Rs as [A B]. split; cbn [st_s ds_record d_life d_run]; [assumption|].
        rewrite B. apply acc_add_of; assumption.
    + rewrite (IH _ pre_s per_s pre_f (per_f ++ [ns]) d); auto.
      * rewrite app_assoc. reflexivity.
      * apply pos_app; assumption.
      * destruct Rf as [A B]. split; cbn [st_f ds_record d_life d_run]; [assumption|].
        rewrite B. apply acc_add_of; assumption.
    + rewrite (IH _ pre_s per_s pre_f per_f (d + 1)); auto. cbn. lia.
    + rewrite (IH _ pre_s per_s pre_f per_f d); auto.
  - cbn [stats_run ref_run ops_pos] in *. unfold stats_collect.
    pose proof (ds_collect_rep _ _ _ P1 P2 Rs) as Cs.
    pose proof (ds_collect_rep _ _ _ P3 P4 Rf) as Cf.
    destruct (ds_collect (st_s s)) as [[ds ps] ls]. destruct (ds_collect (st_f s)) as [[df pf] lf].
    destruct Cs as (R1 & E1 & E2). destruct Cf as (R2 & E3 & E4). subst.
    f_equal.
    rewrite (IH _ (pre_s ++ per_s) [] (pre_f ++ per_f) [] (st_d s)); auto.
    + rewrite !app_nil_r. reflexivity.
    + apply Forall_app; split; assumption.
    + constructor.
    + apply Forall_app; split; assumption.
    + constructor.
  - cbn [stats_run ref_run ops_pos] in *. unfold stats_collect.
    pose proof (ds_collect_rep _ _ _ P1 P2 Rs) as Cs.
    pose proof (ds_collect_rep _ _ _ P3 P4 Rf) as Cf.
    destruct (ds_collect (st_s s)) as [[ds ps] ls]. destruct (ds_collect (st_f s)) as [[df pf] lf].
    destruct Cs as (R1 & E1 & E2). destruct Cf as (R2 & E3 & E4). subst.
    f_equal.
    rewrite (IH _ (pre_s ++ per_s) [] (pre_f ++ per_f) [] (st_d s)); auto.
    + rewrite !app_nil_r. reflexivity.
    + apply Forall_app; split; assumption.
    + constructor.
    + apply Forall_app; split; assumption.
    + constructor.
Qed.

Theorem stats_run_is_ref ops : ops_pos ops -> stats_run stats0 ops = ref_run [] [] [] 0 ops.
Proof.
  intros H. apply (stats_run_ref ops stats0 [] [] [] [] 0); auto; try constructor; reflexivity.
Qed.

(* min <= mean <= max for a non-empty list of positive durations *)
Lemma fold_min_le_all : forall r x y, In y (x :: r) -> fold_left Z.min r x <= y.
Proof.
  induction r as [|z r IH]; intros x y Hin; cbn in *.
  - destruct Hin as [<-|[]]. lia.
  - destruct Hin as [<-|[<-|Hin]].
    + pose proof (fold_min_le r (Z.min x z)). lia.
    + pose proof (fold_min_le r (Z.min x z)). lia.
    + apply IH. right. exact Hin.
Qed.

Lemma fold_max_ge_all : forall r x y, In y (x :: r) -> y <= fold_left Z.max r x.
Proof.
  induction r as [|z r IH]; intros x y Hin; cbn in *.
  - destruct Hin as [<-|[]]. lia.
  - destruct Hin as [<-|[<-|Hin]].
    + pose proof (fold_max_ge r (Z.max x z)). lia.
    + pose proof (fold_max_ge r (Z.max x z)). lia.
    + apply IH. right. exact Hin.
Qed.

Lemma zsum_bounds l lo hi : (forall y, In y l -> lo <= y <= hi) ->
  lo * Z.of_nat (length l) <= zsum l <= hi * Z.of_nat (length l).
Proof.
  induction l as [|x l IH]; intros H; [cbn; lia|].
  rewrite zsum_cons. cbn [length].
  specialize (IH (fun y Hy => H y (or_intror Hy))). pose proof (H x (or_introl eq_refl)). nia.
Qed.

Theorem min_mean_max l : l <> [] -> pos_list l ->
  let '(mean, cnt, mn, mx) := agg l in 0 < cnt /\ mn <= mean <= mx.
Proof.
  intros Hne Hp. unfold agg. destruct l as [|x r]; [congruence|].
  set (n := Z.of_nat (length (x :: r))).
  assert (Hn : 0 < n) by (unfold n; cbn [length]; lia).
  split; [exact Hn|].
  pose proof (zsum_bounds (x :: r) (lmin (x :: r)) (lmax (x :: r))
                (fun y Hy => conj (fold_min_le_all r x y Hy) (fold_max_ge_all r x y Hy))) as Hb.
  fold n in Hb.
  assert (0 <= zsum (x :: r)).
  { pose proof (lmin_pos (x :: r) Hne Hp). nia. }
  rewrite Z.quot_div_nonneg by lia.
  split.
  - apply Z.div_le_lower_bound; lia.
  - apply Z.div_le_upper_bound; lia.
Qed.

(* lifetime counts never decrease *)
From Coq Require Import Sorted.

Definition snap_cnt_s (sn : snap) : Z := let '(_, _, (_, c, _, _), _) := sn in c.
Definition snap_cnt_f (sn : snap) : Z := let '(_, _, _, (_, c, _, _)) := sn in c.
Definition snap_drop (sn : snap) : Z := let '(d, _, _, _) := sn in d.

Lemma ref_counts_ge : forall ops a p f d sn, In sn (ref_run a p f d ops) ->
  Z.of_nat (length a) <= snap_cnt_s sn /\ Z.of_nat (length f) <= snap_cnt_f sn /\ d <= snap_drop sn.
Proof.
  induction ops as [|op ops IH]; intros a p f d sn Hin; [destruct Hin|].
  destruct op as [o ns| |]; cbn [ref_run] in Hin.
  - destruct o; specialize (IH _ _ _ _ _ Hin); rewrite ?app_length in IH; cbn [length] in IH; lia.
  - destruct Hin as [<-|Hin]; [cbn; lia|]. apply (IH _ _ _ _ _ Hin).
  - destruct Hin as [<-|Hin]; [cbn; lia|]. apply (IH _ _ _ _ _ Hin).
Qed.

Definition snap_le (x y : snap) : Prop :=
  snap_cnt_s x <= snap_cnt_s y /\ snap_cnt_f x <= snap_cnt_f y /\ snap_drop x <= snap_drop y.

Lemma ref_counts_sorted : forall ops a p f d, StronglySorted snap_le (ref_run a p f d ops).
Proof.
  induction ops as [|op ops IH]; intros a p f d; [constructor|].
  destruct op as [o ns| |]; cbn [ref_run].
  - destruct o; apply IH.
  - constructor; [apply IH|]. rewrite Forall_forall. intros sn Hin.
    destruct (ref_counts_ge _ _ _ _ _ _ Hin) as (A & B & C). unfold snap_le. cbn. lia.
  - constructor; [apply IH|]. rewrite Forall_forall. intros sn Hin.
    destruct (ref_counts_ge _ _ _ _ _ _ Hin) as (A & B & C). unfold snap_le. cbn. lia.
Qed.
