(* Analysis layer of C11: the Gaussian density is unimodal around its mean,
   which discharges the premise "the tick nearest the peak has the largest
   rate" of the peak bound, for the exact (real) density. *)
From Coq Require Import Reals Lra.
Open Scope R_scope.

Definition pdf_R (mu sigma x : R) : R :=
  exp (- ((x - mu) * (x - mu)) / (2 * (sigma * sigma))) / (sigma * sqrt (2 * PI)).

Lemma exp_le_mono a b : a <= b -> exp a <= exp b.
Proof. intros [H|H]; [left; apply exp_increasing; exact H|right; rewrite H; reflexivity]. Qed.

Theorem pdf_unimodal mu sigma x y :
  0 < sigma -> Rabs (x - mu) <= Rabs (y - mu) -> pdf_R mu sigma y <= pdf_R mu sigma x.
Proof.
  intros Hs Habs. unfold pdf_R.
  assert (Hsq : (x - mu) * (x - mu) <= (y - mu) * (y - mu)).
  { apply Rsqr_le_abs_1 in Habs. unfold Rsqr in Habs. exact Habs. }
  assert (Hden : 0 < sigma * sqrt (2 * PI)).
  { apply Rmult_lt_0_compat; [exact Hs|]. apply sqrt_lt_R0. pose proof PI_RGT_0. lra. }
  apply Rmult_le_compat_r; [left; apply Rinv_0_lt_compat; exact Hden|].
  apply exp_le_mono.
  assert (H2 : 0 < 2 * (sigma * sigma)) by (assert (0 < sigma * sigma) by (apply Rmult_lt_0_compat; assumption); lra).
  unfold Rdiv. apply Rmult_le_compat_r; [left; apply Rinv_0_lt_compat; exact H2|]. lra.
Qed.

Theorem pdf_nonneg mu sigma x : 0 < sigma -> 0 <= pdf_R mu sigma x.
Proof.
  intros Hs. unfold pdf_R. apply Rmult_le_pos; [left; apply exp_pos|].
  left. apply Rinv_0_lt_compat. apply Rmult_lt_0_compat; [exact Hs|].
  apply sqrt_lt_R0. pose proof PI_RGT_0. lra.
Qed.
