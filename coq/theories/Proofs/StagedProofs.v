From F1 Require Import Base.Prelude Base.F64 Model.Staged.
From Coq Require Import ZifyBool Lia.

Lemma sorted_from_all : forall ts lo, sorted_from lo ts = true -> Forall (fun x => lo <= x) ts.
Proof.
  induction ts as [|t ts IH]; intros lo H; [constructor|].
  cbn [sorted_from] in H. apply andb_true_iff in H as [H1 H2].
  constructor; [lia|].
  specialize (IH t H2). eapply Forall_impl; [|exact IH]. cbn. intros; lia.
Qed.

Lemma sorted_from_tail : forall ts lo t, sorted_from lo (t :: ts) = true -> sorted_from t ts = true.
Proof. intros ts lo t H. cbn [sorted_from] in H. apply andb_true_iff in H. tauto. Qed.

Section Cursor.
Variable interp : Z -> Z -> Z -> Z.

Definition rate_at (rem : list stg) (st t : Z) : Z :=
  let '(rm, s) := advance rem st t in stage_rate interp rm s t.

(* If a prefix of stages has been passed at time e, it stays passed later. *)
Lemma advance_later : forall rem st e e' rem' st',
  advance rem st e = (rem', st') -> e <= e' ->
  advance rem st e' = advance rem' st' e'.
Proof.
  induction rem as [|s r IH]; intros st e e' rem' st' H Hle.
  - cbn in H. injection H as <- <-. reflexivity.
  - cbn [advance] in H. destruct (s_dur s <? e - st + 1) eqn:E.
    + cbn [advance]. replace (s_dur s <? e' - st + 1) with true by lia.
      eapply IH; eauto.
    + injection H as <- <-. reflexivity.
Qed.

Lemma advance_shift : forall rm s x d,
  advance rm (s - d) (x - d) = let '(a, b) := advance rm s x in (a, b - d).
Proof.
  induction rm as [|q r IH]; intros s x d; [reflexivity|].
  cbn [advance]. replace (x - d - (s - d) + 1) with (x - s + 1) by lia.
  destruct (s_dur q <? x - s + 1); [|reflexivity].
  replace (s - d + s_dur q) with (s + s_dur q - d) by lia. apply IH.
Qed.

Lemma rate_at_shift rem st t d : rate_at rem (st - d) (t - d) = rate_at rem st t.
Proof.
  unfold rate_at. rewrite advance_shift. destruct (advance rem st t) as [rm s].
  unfold stage_rate. destruct rm as [|q r]; [reflexivity|].
  replace (t - d - (s - d)) with (t - s) by lia. reflexivity.
Qed.

Lemma calc_run_rate_at : forall ts rem st lo,
  sorted_from lo ts = true ->
  calc_run interp {| c_rem := rem; c_start := Some st |} ts = map (rate_at rem st) ts.
Proof.
  induction ts as [|t ts IH]; intros rem st lo Hs; [reflexivity|].
  cbn [calc_run map]. unfold calc_rate. cbn [c_rem c_start].
  destruct (advance rem st t) as [rem1 st1] eqn:Ha.
  f_equal.
  - unfold rate_at. rewrite Ha. reflexivity.
  - rewrite (IH rem1 st1 t (sorted_from_tail _ _ _ Hs)).
    apply map_ext_in. intros t' Hin.
    pose proof (sorted_from_all _ _ (sorted_from_tail _ _ _ Hs)) as Hall.
    rewrite Forall_forall in Hall. specialize (Hall t' Hin).
    unfold rate_at. rewrite (advance_later _ _ _ t' _ _ Ha Hall). reflexivity.
Qed.

Lemma staged_ref_rate_at l e : staged_ref interp l e = rate_at (chain 0 l) 0 e.
Proof. reflexivity. Qed.

(* The stateful cursor refines the stateless reference. *)
Lemma cursor_refines_given : forall l t0 ts lo,
  sorted_from lo ts = true ->
  calc_run interp (calc_new l (Some t0)) ts = map (fun t => staged_ref interp l (t - t0)) ts.
Proof.
  intros l t0 ts lo Hs. unfold calc_new. rewrite (calc_run_rate_at ts _ _ lo Hs).
  apply map_ext. intros t. rewrite staged_ref_rate_at.
  rewrite <- (rate_at_shift (chain 0 l) t0 t t0). replace (t0 - t0) with 0 by lia. reflexivity.
Qed.

Lemma cursor_refines_default : forall l t ts,
  sorted_from t (t :: ts) = true ->
  calc_run interp (calc_new l None) (t :: ts) = map (fun x => staged_ref interp l (x - t)) (t :: ts).
Proof.
  intros l t ts Hs.
  rewrite <- (cursor_refines_given l t (t :: ts) t Hs).
  reflexivity.
Qed.

(* ---- the selected stage *)

Definition durs_nonneg (rem : list stg) : Prop := Forall (fun s => 0 <= s_dur s) rem.

(* advance selects a stage in which 0 <= offset < duration *)
Lemma advance_selected : forall rem st e s r st',
  st <= e -> advance rem st e = (s :: r, st') ->
  0 <= e - st' /\ e - st' + 1 <= s_dur s.
Proof.
  induction rem as [|q rem IH]; intros st e s r st' Hle H.
  - cbn in H. discriminate.
  - cbn [advance] in H. destruct (s_dur q <? e - st + 1) eqn:E.
    + eapply IH; [|exact H]. lia.
    + injection H as <- <- <-. lia.
Qed.

Lemma advance_after_end : forall rem st e,
  durs_nonneg rem -> st + zsum (map s_dur rem) <= e ->
  fst (advance rem st e) = [].
Proof.
  induction rem as [|q rem IH]; intros st e Hn H; [reflexivity|].
  cbn [advance]. cbn [map] in H. rewrite zsum_cons in H.
  inversion Hn as [|? ? Hq Hr]; subst.
  assert (0 <= zsum (map s_dur rem)).
  { clear -Hr. induction Hr as [|x l Hx Hl IHl]; cbn [map]; [cbn; lia|]. rewrite zsum_cons. lia. }
  replace (s_dur q <? e - st + 1) with true by lia.
  apply IH; [exact Hr|lia].
Qed.

Lemma chain_durs : forall l p, map s_dur (chain p l) = map fst l.
Proof. induction l as [|[d t] l IH]; intros p; [reflexivity|]. cbn. f_equal. apply IH. Qed.

Lemma chain_durs_nonneg : forall l p, Forall (fun x => 0 <= fst x) l -> durs_nonneg (chain p l).
Proof.
  induction l as [|[d t] l IH]; intros p H; [constructor|].
  inversion H; subst. constructor; [assumption|]. apply IH. assumption.
Qed.

(* Stage chaining: each stage starts where the previous one ended. *)
Lemma chain_chained : forall l p,
  match chain p l with
  | [] => True
  | s :: _ => s_from s = p
  end /\
  forall i s1 s2, nth_error (chain p l) i = Some s1 -> nth_error (chain p l) (S i) = Some s2 ->
                  s_from s2 = s_to s1.
Proof.
  induction l as [|[d t] l IH]; intros p.
  - split; [exact I|]. intros i s1 s2 H. destruct i; discriminate.
  - cbn [chain]. split; [reflexivity|].
    intros i s1 s2 H1 H2. destruct i as [|i].
    + cbn in H1. injection H1 as <-. cbn in H2.
      destruct (IH t) as [Hh _]. destruct (chain t l) as [|q r]; [discriminate|].
      cbn in H2. injection H2 as <-. exact Hh.
    + cbn in H1, H2. destruct (IH t) as [_ Ht]. eapply Ht; eauto.
Qed.

(* ---- shape, for any interpolation term with the stated elementary facts *)

(* ok dur delta: the (duration, target difference) pairs for which the facts are known *)
Variable ok : Z -> Z -> Prop.
Hypothesis interp_up : forall off dur delta, ok dur delta ->
  0 <= off <= dur -> 0 < dur -> 0 <= delta -> 0 <= interp off dur delta <= delta.
Hypothesis interp_down : forall off dur delta, ok dur delta ->
  0 <= off <= dur -> 0 < dur -> delta <= 0 -> delta <= interp off dur delta <= 0.
Hypothesis interp_mono_up : forall off1 off2 dur delta, ok dur delta ->
  0 <= off1 <= off2 -> off2 <= dur -> 0 < dur -> 0 <= delta ->
  interp off1 dur delta <= interp off2 dur delta.
Hypothesis interp_mono_down : forall off1 off2 dur delta, ok dur delta ->
  0 <= off1 <= off2 -> off2 <= dur -> 0 < dur -> delta <= 0 ->
  interp off2 dur delta <= interp off1 dur delta.

Lemma between_targets : forall l e rem st s r,
  0 <= e -> advance (chain 0 l) 0 e = (rem, st) -> rem = s :: r ->
  ok (s_dur s) (s_to s - s_from s) ->
  Z.min (s_from s) (s_to s) <= staged_ref interp l e <= Z.max (s_from s) (s_to s).
Proof.
  intros l e rem st s r He Ha -> Hok.
  unfold staged_ref. rewrite Ha. cbn [stage_rate].
  destruct (advance_selected _ _ _ _ _ _ He Ha) as [H1 H2].
  destruct (Z.le_ge_cases 0 (s_to s - s_from s)) as [Hd|Hd].
  - pose proof (interp_up (e - st) (s_dur s) _ Hok ltac:(lia) ltac:(lia) Hd). lia.
  - pose proof (interp_down (e - st) (s_dur s) _ Hok ltac:(lia) ltac:(lia) Hd). lia.
Qed.

Lemma monotone_in_stage : forall l e1 e2 rem st s r,
  0 <= e1 <= e2 ->
  advance (chain 0 l) 0 e1 = (rem, st) -> advance (chain 0 l) 0 e2 = (rem, st) -> rem = s :: r ->
  ok (s_dur s) (s_to s - s_from s) ->
  (s_from s <= s_to s -> staged_ref interp l e1 <= staged_ref interp l e2) /\
  (s_to s <= s_from s -> staged_ref interp l e2 <= staged_ref interp l e1).
Proof.
  intros l e1 e2 rem st s r He H1 H2 -> Hok.
  unfold staged_ref. rewrite H1, H2. cbn [stage_rate].
  destruct (advance_selected _ 0 e1 _ _ _ ltac:(lia) H1) as [A1 A2].
  destruct (advance_selected _ 0 e2 _ _ _ ltac:(lia) H2) as [B1 B2].
  split; intros Hd.
  - pose proof (interp_mono_up (e1 - st) (e2 - st) (s_dur s) (s_to s - s_from s) Hok
                  ltac:(lia) ltac:(lia) ltac:(lia) ltac:(lia)). lia.
  - pose proof (interp_mono_down (e1 - st) (e2 - st) (s_dur s) (s_to s - s_from s) Hok
                  ltac:(lia) ltac:(lia) ltac:(lia) ltac:(lia)). lia.
Qed.

Lemma zero_after_end : forall l e,
  Forall (fun x => 0 <= fst x) l -> max_duration l <= e -> staged_ref interp l e = 0.
Proof.
  intros l e Hn He. unfold staged_ref.
  pose proof (advance_after_end (chain 0 l) 0 e (chain_durs_nonneg l 0 Hn)) as H.
  rewrite chain_durs in H. specialize (H ltac:(unfold max_duration in He; lia)).
  destruct (advance (chain 0 l) 0 e) as [rem st]. cbn in H. subst rem. reflexivity.
Qed.

(* ---- ramp *)

Lemma ramp_run_ref : forall ts from to dur t0 lo,
  sorted_from lo ts = true ->
  ramp_run interp from to dur (Some t0) ts = map (fun t => ramp_ref interp from to dur (t - t0)) ts.
Proof.
  induction ts as [|t ts IH]; intros from to dur t0 lo Hs; [reflexivity|].
  cbn [ramp_run ramp_rate map]. f_equal.
  - unfold ramp_ref. replace (t0 + dur <? t) with (dur <? t - t0) by lia. reflexivity.
  - apply (IH _ _ _ _ t). eapply sorted_from_tail; eauto.
Qed.

Lemma ramp_run_ref_default : forall t ts from to dur,
  sorted_from t (t :: ts) = true ->
  ramp_run interp from to dur None (t :: ts) =
  map (fun x => ramp_ref interp from to dur (x - t)) (t :: ts).
Proof.
  intros t ts from to dur Hs.
  rewrite <- (ramp_run_ref (t :: ts) from to dur t t Hs). reflexivity.
Qed.

Lemma ramp_between : forall from to dur e,
  0 < dur -> 0 <= e <= dur -> ok dur (to - from) ->
  Z.min from to <= ramp_ref interp from to dur e <= Z.max from to.
Proof.
  intros from to dur e Hd He Hok. unfold ramp_ref.
  replace (dur <? e) with false by lia.
  destruct (Z.le_ge_cases 0 (to - from)) as [H|H].
  - pose proof (interp_up e dur _ Hok ltac:(lia) Hd H). lia.
  - pose proof (interp_down e dur _ Hok ltac:(lia) Hd H). lia.
Qed.

Lemma ramp_monotone : forall from to dur e1 e2,
  0 < dur -> 0 <= e1 <= e2 -> e2 <= dur -> ok dur (to - from) ->
  (from <= to -> ramp_ref interp from to dur e1 <= ramp_ref interp from to dur e2) /\
  (to <= from -> ramp_ref interp from to dur e2 <= ramp_ref interp from to dur e1).
Proof.
  intros from to dur e1 e2 Hd He H2 Hok. unfold ramp_ref.
  replace (dur <? e1) with false by lia. replace (dur <? e2) with false by lia.
  split; intros H.
  - pose proof (interp_mono_up e1 e2 dur (to - from) Hok ltac:(lia) ltac:(lia) Hd ltac:(lia)). lia.
  - pose proof (interp_mono_down e1 e2 dur (to - from) Hok ltac:(lia) ltac:(lia) Hd ltac:(lia)). lia.
Qed.

Lemma ramp_zero_after : forall from to dur e, dur < e -> ramp_ref interp from to dur e = 0.
Proof. intros. unfold ramp_ref. replace (dur <? e) with true by lia. reflexivity. Qed.

End Cursor.
