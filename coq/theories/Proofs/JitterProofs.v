From F1 Require Import Base.Prelude Base.F64 Model.Jitter.
From Coq Require Import ZifyBool Lia.

Fixpoint final_bal (bal : Z) (rates outs : list Z) : Z :=
  match rates, outs with
  | rate :: rates', r :: outs' => final_bal (rate + bal - r) rates' outs'
  | _, _ => bal
  end.

Lemma telescope : forall rates outs bal,
  length rates = length outs ->
  final_bal bal rates outs = bal + zsum rates - zsum outs.
Proof.
  induction rates as [|x rates IH]; intros [|r outs] bal Hl; cbn in Hl; try discriminate.
  - cbn. lia.
  - cbn [final_bal]. rewrite IH by lia. rewrite !zsum_cons. lia.
Qed.

Lemma run_ok_length : forall rates outs jn jd bal,
  run_ok jn jd bal rates outs -> length rates = length outs.
Proof.
  induction rates as [|x rates IH]; intros [|r outs] jn jd bal H; cbn in H; try tauto.
  destruct H as [_ H]. cbn. f_equal. eapply IH; eauto.
Qed.

Lemma run_ok_nonneg : forall rates outs jn jd bal,
  run_ok jn jd bal rates outs -> Forall (fun o => 0 <= o) outs.
Proof.
  induction rates as [|x rates IH]; intros [|r outs] jn jd bal H; cbn in H; try tauto; try constructor.
  - destruct H as [H _]. unfold jitter_step_ok in H.
    destruct (x + bal <? 0); lia.
  - destruct H as [_ H]. eapply IH; eauto.
Qed.

Lemma step_bound jn jd R bal rate r :
  0 <= jn < jd -> 0 <= rate <= R ->
  jitter_step_ok jn jd bal rate r ->
  (jd - jn) * Z.abs bal <= jn * R + jd ->
  (jd - jn) * Z.abs (rate + bal - r) <= jn * R + jd.
Proof.
  intros Hj Hr Hok Hb. unfold jitter_step_ok in Hok.
  destruct (rate + bal <? 0) eqn:E.
  - subst r. assert (Z.abs (rate + bal - 0) <= Z.abs bal) by lia. nia.
  - destruct Hok as [Hr0 Hok].
    set (b' := Z.abs (rate + bal - r)) in *.
    assert (Hb' : b' = Z.abs (r - (rate + bal))) by (unfold b'; lia).
    rewrite <- Hb' in Hok.
    set (D := jd - jn) in *. set (B := jn * R + jd) in *.
    assert (H1 : jd * b' <= B + jn * Z.abs bal) by (unfold B; nia).
    assert (H2 : D * (jd * b') <= D * B + jn * (D * Z.abs bal)) by nia.
    assert (H3 : D * (jd * b') <= jd * B) by (unfold D in *; nia).
    assert (0 <= b') by (unfold b'; lia).
    nia.
Qed.

Lemma run_bounded : forall rates outs jn jd R bal,
  0 <= jn < jd -> Forall (fun x => 0 <= x <= R) rates ->
  run_ok jn jd bal rates outs ->
  (jd - jn) * Z.abs bal <= jn * R + jd ->
  Forall (fun b => (jd - jn) * Z.abs b <= jn * R + jd) (balances bal rates outs).
Proof.
  induction rates as [|x rates IH]; intros [|r outs] jn jd R bal Hj HR Hok Hb; cbn in Hok; try tauto;
    try constructor.
  - inversion HR as [|? ? Hx Hrest]; subst. destruct Hok as [Hs _]. eapply step_bound; eauto.
  - inversion HR as [|? ? Hx Hrest]; subst. destruct Hok as [Hs Hrun].
    eapply IH; eauto. eapply step_bound; eauto.
Qed.

Lemma balances_are_differences : forall rates outs bal k b,
  length rates = length outs ->
  nth_error (balances bal rates outs) k = Some b ->
  b = bal + zsum (firstn (S k) rates) - zsum (firstn (S k) outs).
Proof.
  induction rates as [|x rates IH]; intros [|r outs] bal k b Hl H; cbn in Hl; try discriminate.
  - destruct k; discriminate.
  - cbn [balances] in H. destruct k as [|k].
    + cbn in H. injection H as <-. cbn. lia.
    + cbn [nth_error] in H. rewrite (IH outs _ k b ltac:(lia) H).
      cbn [firstn]. rewrite !zsum_cons. lia.
Qed.

Lemma run_ok_b_iff : forall rates outs jn jd bal,
  run_ok_b jn jd bal rates outs = true <-> run_ok jn jd bal rates outs.
Proof.
  induction rates as [|x rates IH]; intros [|r outs] jn jd bal; cbn; try tauto; try (split; [discriminate|tauto]).
  rewrite andb_true_iff, IH. unfold step_ok_b, jitter_step_ok.
  destruct (x + bal <? 0); [rewrite Z.eqb_eq; tauto|].
  rewrite andb_true_iff, !Z.leb_le. tauto.
Qed.

Lemma identity_zero : forall rates cs, jit_run_f64 0 rates cs = rates.
Proof. intros. reflexivity. Qed.
