From F1 Require Import Base.Prelude Model.TestingT.
From Coq Require Import Lia.

Definition is_cleanup_ev (e : ev) : bool := match e with ECleanup _ => true | _ => false end.
Definition is_mark_ev (e : ev) : bool := match e with EMark _ => true | _ => false end.

Definition is_stopping (a : act) : bool :=
  match a with AFailNow | APanicErr | APanicVal => true | _ => false end.
Definition stops (acts : list act) : bool := existsb is_stopping acts.

(* cleanups registered by the executed prefix of a body *)
Fixpoint registered (acts : list act) : list nat :=
  match acts with
  | [] => []
  | ARegister c :: r => c :: registered r
  | AFailNow :: _ | APanicErr :: _ | APanicVal :: _ => []
  | _ :: r => registered r
  end.

(* marks logged by the executed prefix *)
Fixpoint marks (acts : list act) : list nat :=
  match acts with
  | [] => []
  | AMark n :: r => n :: marks r
  | AFailNow :: _ | APanicErr :: _ | APanicVal :: _ => []
  | _ :: r => marks r
  end.

Lemma t_fail_stack t : stack (t_fail t) = stack t.
Proof. unfold t_fail. destruct (tearing t); reflexivity. Qed.
Lemma t_fail_tearing t : tearing (t_fail t) = tearing t.
Proof. unfold t_fail. destruct (tearing t); reflexivity. Qed.

Lemma run_acts_facts : forall acts t,
  let '(t', es, x) := run_acts t acts in
  stack t' = stack t ++ registered acts /\
  es = map EMark (marks acts) /\
  tearing t' = tearing t /\
  ((x = XNormal) <-> stops acts = false).
Proof.
  induction acts as [|a acts IH]; intros t.
  - cbn. rewrite app_nil_r. repeat split; auto.
  - destruct a; cbn [run_acts registered marks stops existsb is_stopping orb].
    + specialize (IH (t_register t c)). destruct (run_acts (t_register t c) acts) as [[t' es] x].
      destruct IH as (A & B & C & D). cbn [t_register stack tearing] in *.
      rewrite <- app_assoc in A. repeat split; auto; apply D.
    + specialize (IH (t_fail t)). destruct (run_acts (t_fail t) acts) as [[t' es] x].
      destruct IH as (A & B & C & D). rewrite t_fail_stack in A. rewrite t_fail_tearing in C.
      repeat split; auto; apply D.
    + rewrite t_fail_stack, t_fail_tearing, app_nil_r. repeat split; auto; discriminate.
    + rewrite app_nil_r. repeat split; auto; discriminate.
    + rewrite app_nil_r. repeat split; auto; discriminate.
    + specialize (IH t). destruct (run_acts t acts) as [[t' es] x].
      destruct IH as (A & B & C & D). cbn [map]. repeat split; auto; try apply D. rewrite B. reflexivity.
Qed.

(* failure flag after a guarded body, outside teardown *)
Lemma run_acts_failed : forall acts t, tearing t = false ->
  let '(t', _, x) := run_acts t acts in
  failed (check_results t' x) = failed t || existsb is_failing acts /\
  tdfailed (check_results t' x) = tdfailed t.
Proof.
  induction acts as [|a acts IH]; intros t Ht.
  - cbn. rewrite orb_false_r. auto.
  - destruct a; cbn [run_acts existsb is_failing orb].
    + apply (IH (t_register t c)). exact Ht.
    + specialize (IH (t_fail t)). rewrite t_fail_tearing in IH. specialize (IH Ht).
      destruct (run_acts (t_fail t) acts) as [[t' es] x].
      unfold t_fail in IH. rewrite Ht in IH. cbn [failed tdfailed] in IH. rewrite orb_true_r. exact IH.
    + cbn [check_results]. unfold t_fail. rewrite Ht. cbn. rewrite orb_true_r. auto.
    + cbn [check_results]. unfold t_fail. rewrite Ht. cbn. rewrite orb_true_r. auto.
    + cbn [check_results]. unfold t_fail. rewrite Ht. cbn. rewrite orb_true_r. auto.
    + specialize (IH t Ht). destruct (run_acts t acts) as [[t' es] x]. exact IH.
Qed.

(* inside teardown a failing cleanup sets tdfailed, never failed *)
Lemma run_acts_tearing : forall acts t, tearing t = true ->
  let '(t', _, x) := run_acts t acts in
  failed (check_results t' x) = failed t /\
  tdfailed (check_results t' x) = tdfailed t || existsb is_failing acts /\
  tearing (check_results t' x) = true.
Proof.
  induction acts as [|a acts IH]; intros t Ht.
  - cbn. rewrite orb_false_r. auto.
  - destruct a; cbn [run_acts existsb is_failing orb].
    + apply (IH (t_register t c)). exact Ht.
    + specialize (IH (t_fail t)). rewrite t_fail_tearing in IH. specialize (IH Ht).
      destruct (run_acts (t_fail t) acts) as [[t' es] x].
      unfold t_fail in IH. rewrite Ht in IH. cbn [failed tdfailed] in IH. rewrite orb_true_r. exact IH.
    + cbn [check_results]. unfold t_fail. rewrite Ht. cbn. rewrite orb_true_r. auto.
    + cbn [check_results]. unfold t_fail. rewrite Ht. cbn. rewrite orb_true_r. auto.
    + cbn [check_results]. unfold t_fail. rewrite Ht. cbn. rewrite orb_true_r. auto.
    + specialize (IH t Ht). destruct (run_acts t acts) as [[t' es] x]. exact IH.
Qed.

Lemma check_results_stack t x : stack (check_results t x) = stack t.
Proof. destruct x; cbn; auto using t_fail_stack. Qed.

Section Tab.
Variable tab : nat -> list act.

Lemma guarded_events t acts : snd (guarded t acts) = map EMark (marks acts).
Proof.
  unfold guarded. pose proof (run_acts_facts acts t) as H.
  destruct (run_acts t acts) as [[t' es] x]. cbn. tauto.
Qed.

Lemma filter_cleanup_marks l : filter is_cleanup_ev (map EMark l) = [].
Proof. induction l; cbn; auto. Qed.

Lemma filter_mark_marks l : filter is_mark_ev (map EMark l) = map EMark l.
Proof. induction l; cbn; auto. f_equal; auto. Qed.

(* Every cleanup of the stack snapshot runs exactly once, in order, whatever
   the cleanups do (fail, panic, register). *)
Lemma teardown_loop_cleanups : forall todo t,
  tearing t = true ->
  let '(t', es) := teardown_loop tab t todo in
  filter is_cleanup_ev es = map ECleanup todo /\
  failed t' = failed t /\
  tdfailed t' = tdfailed t || existsb (fun c => marks_failure (tab c)) todo /\
  tearing t' = true.
Proof.
  induction todo as [|c todo IH]; intros t Ht.
  - cbn. rewrite orb_false_r. auto.
  - cbn [teardown_loop]. unfold guarded.
    pose proof (run_acts_tearing (tab c) t Ht) as H1.
    pose proof (run_acts_facts (tab c) t) as H2.
    destruct (run_acts t (tab c)) as [[t1 es1] x1].
    destruct H1 as (A1 & A2 & A3). destruct H2 as (_ & B & _ & _).
    specialize (IH (check_results t1 x1) A3).
    destruct (teardown_loop tab (check_results t1 x1) todo) as [t2 es2].
    destruct IH as (C1 & C2 & C3 & C4).
    cbn [filter is_cleanup_ev map existsb]. rewrite filter_app, B, filter_cleanup_marks, C1.
    cbn [app]. repeat split; auto; try congruence.
    rewrite C3, A2. unfold marks_failure. rewrite orb_assoc. reflexivity.
Qed.

Lemma teardown_cleanups t :
  let '(t', es) := teardown tab t in
  filter is_cleanup_ev es = map ECleanup (rev (stack t)) /\
  failed t' = failed t /\
  tdfailed t' = tdfailed t || existsb (fun c => marks_failure (tab c)) (rev (stack t)).
Proof.
  unfold teardown.
  pose proof (teardown_loop_cleanups (rev (stack t))
                {| failed := failed t; tdfailed := tdfailed t; tearing := true; stack := stack t |} eq_refl) as H.
  destruct (teardown_loop tab _ (rev (stack t))) as [t' es]. cbn in H. tauto.
Qed.

(* ---- one iteration *)

Lemma iteration_shape t body :
  let '(t', es, f) := iteration tab t body in
  exists ces,
    es = [EClockA; EBodyStart] ++ map EMark (marks body) ++ [EBodyEnd; EClockB; ERecorded f] ++ ces /\
    filter is_cleanup_ev ces = map ECleanup (rev (registered body)) /\
    f = marks_failure body.
Proof.
  unfold iteration, t_reset, guarded.
  pose proof (run_acts_facts body t_new) as H1.
  pose proof (run_acts_failed body t_new eq_refl) as H2.
  destruct (run_acts t_new body) as [[t1 es1] x1].
  destruct H1 as (A & B & C & D). destruct H2 as (E & F).
  pose proof (teardown_cleanups (check_results t1 x1)) as H3.
  destruct (teardown tab (check_results t1 x1)) as [t2 ces].
  destruct H3 as (G & _ & _).
  exists ces. rewrite B. split; [reflexivity|]. split.
  - rewrite G, check_results_stack, A. reflexivity.
  - rewrite E. reflexivity.
Qed.

Lemma iteration_independent t t' body :
  let '(_, es, f) := iteration tab t body in
  let '(_, es', f') := iteration tab t' body in es = es' /\ f = f'.
Proof.
  unfold iteration, t_reset.
  destruct (guarded t_new body) as [t1 es1]. destruct (teardown tab t1) as [t2 ces]. auto.
Qed.

Definition iter_events (body : list act) : list ev := snd (fst (iteration tab t_new body)).
Definition iter_outcome (body : list act) : bool := snd (iteration tab t_new body).

Lemma worker_blocks : forall bodies t,
  worker tab t bodies = (flat_map iter_events bodies, map iter_outcome bodies).
Proof.
  induction bodies as [|b bodies IH]; intros t; [reflexivity|].
  cbn [worker flat_map map].
  pose proof (iteration_independent t t_new b) as Hi.
  unfold iter_events, iter_outcome.
  destruct (iteration tab t b) as [[t1 es] f]. destruct (iteration tab t_new b) as [[t1' es'] f'].
  destruct Hi as [-> ->]. rewrite (IH t1). reflexivity.
Qed.

(* ---- the run *)

Lemma run_do_shape setup_acts :
  exists (sfailed tdf : bool) ces,
    run_do tab setup_acts =
      [ESetupStart; EClockA] ++ map EMark (marks setup_acts) ++ [EClockB; ESetupEnd; ESetupRecorded sfailed] ++
      (if sfailed then [] else [EIterations]) ++ [ETeardownStart] ++ ces ++ [ETeardownEnd; EReturn (sfailed || tdf)] /\
    sfailed = marks_failure setup_acts /\
    filter is_cleanup_ev ces = map ECleanup (rev (registered setup_acts)) /\
    tdf = existsb (fun c => marks_failure (tab c)) (rev (registered setup_acts)).
Proof.
  unfold run_do, setup, guarded.
  pose proof (run_acts_facts setup_acts t_new) as H1.
  pose proof (run_acts_failed setup_acts t_new eq_refl) as H2.
  destruct (run_acts t_new setup_acts) as [[t1 es1] x1].
  destruct H1 as (A & B & C & D). destruct H2 as (E & F).
  pose proof (teardown_cleanups (check_results t1 x1)) as H3.
  destruct (teardown tab (check_results t1 x1)) as [t2 ces].
  destruct H3 as (G & H & I).
  exists (failed (check_results t1 x1)), (tdfailed t2), ces.
  rewrite B. split.
  - rewrite <- !app_assoc. reflexivity.
  - split; [rewrite E; reflexivity|]. split.
    + rewrite G, check_results_stack, A. reflexivity.
    + rewrite I, F, check_results_stack, A. reflexivity.
Qed.

End Tab.

(* ---- combine *)

Lemma run_acts_app_normal : forall a1 a2 t t1 es1,
  run_acts t a1 = (t1, es1, XNormal) ->
  run_acts t (a1 ++ a2) = let '(t2, es2, x) := run_acts t1 a2 in (t2, es1 ++ es2, x).
Proof.
  induction a1 as [|a a1 IH]; intros a2 t t1 es1 H.
  - cbn in H. injection H as <- <-. cbn. destruct (run_acts t a2) as [[? ?] ?]. reflexivity.
  - destruct a; cbn [run_acts app] in *; try discriminate.
    + apply IH. exact H.
    + apply IH. exact H.
    + destruct (run_acts t a1) as [[t' es'] x'] eqn:E. injection H as <- <- ->.
      rewrite (IH a2 t t' es' E). destruct (run_acts t' a2) as [[? ?] ?]. reflexivity.
Qed.

Lemma run_acts_app_stop : forall a1 a2 t,
  stops a1 = true -> run_acts t (a1 ++ a2) = run_acts t a1.
Proof.
  induction a1 as [|a a1 IH]; intros a2 t H; [discriminate|].
  destruct a; cbn [run_acts app stops existsb is_stopping orb] in *; try reflexivity.
  - apply IH. exact H.
  - apply IH. exact H.
  - rewrite (IH a2 t H). reflexivity.
Qed.

Lemma marks_app_normal a1 a2 : stops a1 = false -> marks (a1 ++ a2) = marks a1 ++ marks a2.
Proof.
  induction a1 as [|a a1 IH]; intros H; [reflexivity|].
  destruct a; cbn [stops existsb is_stopping orb marks app] in *; try discriminate; auto.
  rewrite IH by exact H. reflexivity.
Qed.

Lemma marks_app_stop a1 a2 : stops a1 = true -> marks (a1 ++ a2) = marks a1.
Proof.
  induction a1 as [|a a1 IH]; intros H; [discriminate|].
  destruct a; cbn [stops existsb is_stopping orb marks app] in *; auto.
  rewrite IH by exact H. reflexivity.
Qed.

(* all components run, in order, when none stops *)
Lemma marks_flat_all (bodies : list (list act)) :
  forallb (fun b => negb (stops b)) bodies = true ->
  marks (concat bodies) = concat (map marks bodies).
Proof.
  induction bodies as [|b bodies IH]; intros H; [reflexivity|].
  cbn [forallb] in H. apply andb_true_iff in H as [H1 H2].
  cbn [concat map]. rewrite marks_app_normal by (destruct (stops b); [discriminate|reflexivity]).
  rewrite IH by exact H2. reflexivity.
Qed.

(* the first stopping component ends the sequence: later ones do not run *)
Lemma marks_flat_stop (pre : list (list act)) (b : list act) (post : list (list act)) :
  forallb (fun b => negb (stops b)) pre = true -> stops b = true ->
  marks (concat (pre ++ b :: post)) = concat (map marks pre) ++ marks b.
Proof.
  induction pre as [|p pre IH]; intros H Hb.
  - cbn [app concat map]. apply marks_app_stop. exact Hb.
  - cbn [forallb] in H. apply andb_true_iff in H as [H1 H2].
    cbn [app concat map]. rewrite marks_app_normal by (destruct (stops p); [discriminate|reflexivity]).
    rewrite IH by assumption. rewrite app_assoc. reflexivity.
Qed.

Lemma stops_failing acts : stops acts = true -> marks_failure acts = true.
Proof.
  unfold stops, marks_failure. rewrite !existsb_exists. intros [a [Hin Ha]]. exists a. split; [exact Hin|].
  destruct a; cbn in *; auto; discriminate.
Qed.

Lemma marks_failure_app a b : marks_failure (a ++ b) = marks_failure a || marks_failure b.
Proof. unfold marks_failure. apply existsb_app. Qed.

Lemma flat_map_concat {A B} (f : A -> list B) l : flat_map f l = concat (map f l).
Proof. induction l; cbn; auto. f_equal; auto. Qed.
