From F1 Require Import Base.Prelude Base.GoStr Model.Metrics.
From Coq Require Import Sorting.Permutation Lia.

Lemma combine_map {A B} (f : A -> B) l : combine l (map f l) = map (fun k => (k, f k)) l.
Proof. induction l; cbn; auto. f_equal; auto. Qed.

Lemma lookup_own (m : labelmap) : NoDup (map fst m) ->
  forall kv, In kv m -> lookup (fst kv) m = snd kv.
Proof.
  induction m as [|[k v] m IH]; intros Hnd kv Hin; [destruct Hin|].
  inversion Hnd as [|? ? Hk Hnd']; subst.
  unfold lookup. cbn [find fst].
  destruct Hin as [<-|Hin].
  - cbn [fst snd]. replace (str_eqb k k) with true by (symmetry; apply str_eqb_eq; reflexivity). reflexivity.
  - destruct (str_eqb k (fst kv)) eqn:E.
    + apply str_eqb_eq in E. exfalso. apply Hk. rewrite E. apply in_map. exact Hin.
    + apply (IH Hnd' kv Hin).
Qed.

(* every key is paired with its own value, whatever the insertion order *)
Lemma pairing (m : labelmap) : NoDup (map fst m) ->
  Permutation (combine (label_keys m) (label_values m)) m.
Proof.
  intros Hnd. unfold label_values. rewrite combine_map.
  transitivity (map (fun k => (k, lookup k m)) (map fst m)).
  - apply Permutation_map. apply isort_perm.
  - rewrite map_map.
    assert (H : map (fun x => (fst x, lookup (fst x) m)) m = m).
    { transitivity (map (fun x : str * str => x) m); [|apply map_id].
      apply map_ext_in. intros [k v] Hin.
      rewrite (lookup_own m Hnd (k, v) Hin). reflexivity. }
    rewrite H. reflexivity.
Qed.

Lemma keys_values_length m : length (label_keys m) = length (label_values m).
Proof. unfold label_values. rewrite map_length. reflexivity. Qed.

(* ---- counts *)

Arguments vec_eqb : simpl never.
Arguments str_eqb : simpl never.

Lemma vec_eqb_eq a b : vec_eqb a b = true <-> a = b.
Proof. unfold vec_eqb. destruct (list_eq_dec str_eq_dec a b); split; congruence. Qed.

Lemma count_observe f key key' :
  count_of (observe f key) key' = count_of f key' + (if vec_eqb key key' then 1 else 0).
Proof.
  induction f as [|[k n] f IH]; cbn [observe].
  - unfold count_of. cbn. destruct (vec_eqb key key'); cbn; lia.
  - destruct (vec_eqb k key) eqn:E.
    + apply vec_eqb_eq in E. subst k. unfold count_of. cbn.
      destruct (vec_eqb key key'); cbn; lia.
    + unfold count_of in *. cbn.
      destruct (vec_eqb k key') eqn:E'.
      * apply vec_eqb_eq in E'. subst k.
        replace (vec_eqb key key') with false; [lia|].
        destruct (vec_eqb key key') eqn:E2; [|reflexivity]. apply vec_eqb_eq in E2. subst.
        rewrite (proj2 (vec_eqb_eq key' key') eq_refl) in E. discriminate.
      * exact IH.
Qed.

Definition mout_eqb (a b : mout) : bool :=
  match a, b with MSucc, MSucc | MFail, MFail | MDrop, MDrop => true | _, _ => false end.

Lemma result_label_inj a b : result_label a = result_label b -> a = b.
Proof. destruct a, b; cbn; intros H; try reflexivity; discriminate. Qed.

Section Counts.
Variable labels : labelmap.

Definition iter_key (name : str) (o : mout) : list str :=
  name :: v_iteration :: result_label o :: label_values labels.

Lemma fold_iter_counts : forall outs s name o,
  count_of (m_iter (fold_left (fun st x => rec_iter labels true st name x) outs s)) (iter_key name o) =
  count_of (m_iter s) (iter_key name o) + zcount (mout_eqb o) outs /\
  m_setup (fold_left (fun st x => rec_iter labels true st name x) outs s) = m_setup s.
Proof.
  induction outs as [|x outs IH]; intros s name o; cbn [fold_left zcount]; [split; [lia|reflexivity]|].
  destruct (IH (rec_iter labels true s name x) name o) as [A B]. rewrite A, B.
  unfold rec_iter. cbn [m_iter m_setup]. rewrite count_observe. split; [|reflexivity].
  unfold iter_key.
  destruct (mout_eqb o x) eqn:E.
  - assert (o = x) by (destruct o, x; cbn in E; congruence). subst.
    rewrite (proj2 (vec_eqb_eq _ _) eq_refl). lia.
  - destruct (vec_eqb (name :: v_iteration :: result_label x :: label_values labels)
                      (name :: v_iteration :: result_label o :: label_values labels)) eqn:E2; [|lia].
    apply vec_eqb_eq in E2. injection E2 as E3. apply result_label_inj in E3. subst.
    destruct o; discriminate.
Qed.

Lemma fold_iter_disabled : forall outs s name,
  fold_left (fun st x => rec_iter labels false st name x) outs s = s.
Proof. induction outs as [|x outs IH]; intros s name; cbn [fold_left]; [reflexivity|]. unfold rec_iter at 2. apply IH. Qed.

End Counts.

(* the state after a sequence of runs depends on the last run only *)
Lemma all_runs_last labels enabled rs name sf outs :
  all_runs labels enabled (rs ++ [(name, sf, outs)]) =
  one_run labels enabled {| m_setup := []; m_iter := [] |} name sf outs.
Proof.
  unfold all_runs. rewrite fold_left_app. cbn [fold_left].
  unfold one_run, m_reset. reflexivity.
Qed.
