From F1 Require Import Base.Prelude Model.Verdict.

Lemma spec_b_iff nerrs s f d o :
  verdict_spec_b nerrs s f d o = true <-> verdict_spec nerrs s f d o.
Proof.
  unfold verdict_spec_b, verdict_spec.
  rewrite !orb_true_iff, !andb_true_iff, !negb_true_iff,
          !Z.ltb_lt, !Z.eqb_eq.
  tauto.
Qed.

Lemma failed_verdict_total nerrs s f d o :
  exists b, failed_verdict nerrs s f d o = Ok b.
Proof. unfold failed_verdict. eexists; reflexivity. Qed.

Lemma failed_verdict_spec nerrs s f d o b :
  failed_verdict nerrs s f d o = Ok b ->
  (b = true <-> verdict_spec nerrs s f d o).
Proof.
  unfold failed_verdict. intros H. injection H as <-.
  rewrite <- spec_b_iff. unfold verdict_spec_b, iterations.
  replace (f + s + d) with (s + f + d) by lia.
  replace (f * 100) with (100 * f) by lia.
  tauto.
Qed.

Lemma cli_iff_verdict nerrs s f d o b :
  cli_returns_error nerrs s f d o = Ok b ->
  (b = true <-> verdict_spec nerrs s f d o).
Proof.
  unfold cli_returns_error. destruct (0 <? nerrs) eqn:E.
  - intros H. injection H as <-. apply Z.ltb_lt in E.
    unfold verdict_spec. tauto.
  - apply failed_verdict_spec.
Qed.

(* Pinned code: the two refutation witnesses. *)
Lemma pinned_crash :
  failed_verdict_pinned 0 0 0 0 {| ign := false; mf := 0; mr := 5 |} = Crash.
Proof. vm_compute. reflexivity. Qed.

Lemma pinned_truncates :
  failed_verdict_pinned 0 16 1 0 {| ign := false; mf := 0; mr := 5 |} = Ok false
  /\ verdict_spec 0 16 1 0 {| ign := false; mf := 0; mr := 5 |}.
Proof. split; [vm_compute; reflexivity|]. unfold verdict_spec; cbn. lia. Qed.
