(* C05, run level: the invariant and the no-deadlock theorem are established
   by exhaustive enumeration of the (finite) set of states satisfying the
   invariant, evaluated inside the kernel (vm_compute) and lifted to all
   reachable states. *)
From F1 Require Import Base.Prelude Model.RunLife.
From Coq Require Import ZifyBool Lia.

Scheme Equality for who.
Scheme Equality for mpc.
Scheme Equality for ppc.

Definition rd_m (m : mpc) : Z :=
  match m with
  | MDisp_U => 1
  | MTd_R2 => 1 | MTd_U2 => 2 | MTd_U1 => 1
  | MSum_R2 => 1 | MSum_U2 => 2 | MSum_R3 => 1 | MSum_R4 => 2 | MSum_U4 => 3 | MSum_U3 => 2 | MSum_U1 => 1
  | _ => 0
  end.
Definition rd_p (p : ppc) : Z := match p with PProg_U | PDrop_U => 1 | _ => 0 end.
Definition wm (m : mpc) : bool :=
  match m with MStarted_A | MStarted_U | MFin_A | MFin_U | MTotals_A | MTotals_U => true | _ => false end.
Definition wp (p : ppc) : bool := match p with PSnap_A | PSnap_U => true | _ => false end.
Definition wact_m (m : mpc) : bool := match m with MStarted_U | MFin_U | MTotals_U => true | _ => false end.
Definition early (m : mpc) : bool := match m with MStarted_L | MStarted_A | MStarted_U | MStartRunner => true | _ => false end.
Definition late_m (m : mpc) : bool :=
  match m with
  | MTotals_L | MTotals_A | MTotals_U | MTd_R1 | MTd_R2 | MTd_U2 | MTd_U1
  | MSum_R1 | MSum_R2 | MSum_U2 | MSum_R3 | MSum_R4 | MSum_U4 | MSum_U3 | MSum_U1 | MReturned => true
  | _ => false
  end.
Definition stopping (m : mpc) : bool := match m with MStopWait => true | _ => late_m m end.

(* the state determined by the two program counters and the environment flags *)
Definition canon (m : mpc) (p : ppc) (c e pd t tk pc : bool) : lstate :=
  {| l_main := m; l_prog := p;
     l_readers := rd_m m + rd_p p;
     l_writer := (if wm m then Some TMain else if wp p then Some TProg else None);
     l_wactive := wact_m m || (match p with PSnap_U => true | _ => false end);
     l_ctx_cancelled := c; l_ended := e; l_pool_done := pd; l_timeout := t; l_tick := tk; l_pcancel := pc;
     l_fn_after_return := 0 |}.

Definition side (m : mpc) (p : ppc) (pc : bool) : bool :=
  negb (wm m && wp p) &&
  (if early m then ppc_beq p PNone else negb (ppc_beq p PNone)) &&
  (if late_m m then ppc_beq p PExited else true) &&
  (if stopping m then pc else true) &&
  (* a writer that holds the lock excludes readers *)
  (if wact_m m || (match p with PSnap_U => true | _ => false end) then (rd_m m + rd_p p =? 0) else true).

Definition LInv (s : lstate) : Prop :=
  s = canon (l_main s) (l_prog s) (l_ctx_cancelled s) (l_ended s) (l_pool_done s) (l_timeout s) (l_tick s) (l_pcancel s) /\
  side (l_main s) (l_prog s) (l_pcancel s) = true.

Definition state_beq (a b : lstate) : bool :=
  mpc_beq (l_main a) (l_main b) && ppc_beq (l_prog a) (l_prog b) && (l_readers a =? l_readers b) &&
  (match l_writer a, l_writer b with None, None => true | Some x, Some y => who_beq x y | _, _ => false end) &&
  Bool.eqb (l_wactive a) (l_wactive b) && Bool.eqb (l_ctx_cancelled a) (l_ctx_cancelled b) &&
  Bool.eqb (l_ended a) (l_ended b) && Bool.eqb (l_pool_done a) (l_pool_done b) && Bool.eqb (l_timeout a) (l_timeout b) &&
  Bool.eqb (l_tick a) (l_tick b) && Bool.eqb (l_pcancel a) (l_pcancel b) && (l_fn_after_return a =? l_fn_after_return b).

Lemma state_beq_eq a b : state_beq a b = true -> a = b.
Proof.
  unfold state_beq.
  destruct a as [m1 p1 r1 w1 a1 c1 e1 d1 t1 k1 q1 f1], b as [m2 p2 r2 w2 a2 c2 e2 d2 t2 k2 q2 f2]. cbn.
  rewrite !andb_true_iff. intros [[[[[[[[[[[H1 H2] H3] H4] H5] H6] H7] H8] H9] H10] H11] H12].
  apply internal_mpc_dec_bl in H1. apply internal_ppc_dec_bl in H2. apply Z.eqb_eq in H3. apply Z.eqb_eq in H12.
  apply Bool.eqb_prop in H5, H6, H7, H8, H9, H10, H11.
  assert (w1 = w2).
  { destruct w1, w2; try discriminate; try reflexivity. apply internal_who_dec_bl in H4. congruence. }
  subst. reflexivity.
Qed.

Definition inv_b (s : lstate) : bool :=
  state_beq s (canon (l_main s) (l_prog s) (l_ctx_cancelled s) (l_ended s) (l_pool_done s) (l_timeout s) (l_tick s) (l_pcancel s)) &&
  side (l_main s) (l_prog s) (l_pcancel s).

Lemma inv_b_inv s : inv_b s = true -> LInv s.
Proof. unfold inv_b, LInv. rewrite andb_true_iff. intros [A B]. split; [apply state_beq_eq; exact A|exact B]. Qed.

Definition all_mpc : list mpc :=
  [MStarted_L; MStarted_A; MStarted_U; MStartRunner; MTrigger; MDisp_R; MDisp_U; MWait; MFin_L; MFin_A; MFin_U;
   MStopCancel; MStopWait; MTotals_L; MTotals_A; MTotals_U; MTd_R1; MTd_R2; MTd_U2; MTd_U1;
   MSum_R1; MSum_R2; MSum_U2; MSum_R3; MSum_R4; MSum_U4; MSum_U3; MSum_U1; MReturned].
Definition all_ppc : list ppc := [PNone; PSelect; PSnap_L; PSnap_A; PSnap_U; PProg_R; PProg_U; PDrop_R; PDrop_U; PExited].
Definition all_labels : list llabel := [LMain; LProg; EnvTick; EnvCancel; EnvDeadline; EnvLimit; EnvPoolDone; EnvTimeout].
Definition bools : list bool := [false; true].

Lemma all_mpc_complete m : In m all_mpc. Proof. destruct m; cbn; tauto. Qed.
Lemma all_ppc_complete p : In p all_ppc. Proof. destruct p; cbn; tauto. Qed.
Lemma all_labels_complete l : In l all_labels. Proof. destruct l; cbn; tauto. Qed.
Lemma bools_complete b : In b bools. Proof. destruct b; cbn; tauto. Qed.

(* check [f] on every canonical state that satisfies the side conditions *)
Definition for_all_states (f : lstate -> bool) : bool :=
  forallb (fun m => forallb (fun p => forallb (fun c => forallb (fun e => forallb (fun pd =>
  forallb (fun t => forallb (fun tk => forallb (fun pc =>
    if side m p pc then f (canon m p c e pd t tk pc) else true) bools) bools) bools) bools) bools) bools) all_ppc) all_mpc.

Lemma for_all_states_spec f : for_all_states f = true -> forall s, LInv s -> f s = true.
Proof.
  unfold for_all_states. intros H s [Hc Hs]. rewrite Hc.
  rewrite forallb_forall in H. specialize (H _ (all_mpc_complete (l_main s))).
  rewrite forallb_forall in H. specialize (H _ (all_ppc_complete (l_prog s))).
  rewrite forallb_forall in H. specialize (H _ (bools_complete (l_ctx_cancelled s))).
  rewrite forallb_forall in H. specialize (H _ (bools_complete (l_ended s))).
  rewrite forallb_forall in H. specialize (H _ (bools_complete (l_pool_done s))).
  rewrite forallb_forall in H. specialize (H _ (bools_complete (l_timeout s))).
  rewrite forallb_forall in H. specialize (H _ (bools_complete (l_tick s))).
  rewrite forallb_forall in H. specialize (H _ (bools_complete (l_pcancel s))).
  rewrite Hs in H. exact H.
Qed.

Definition step_preserves (s : lstate) : bool :=
  forallb (fun l => match lstep true s l with Some s' => inv_b s' | None => true end) all_labels.

Lemma step_preserves_all : for_all_states step_preserves = true.
Proof. vm_compute. reflexivity. Qed.

Theorem lstep_inv s l s' : LInv s -> lstep true s l = Some s' -> LInv s'.
Proof.
  intros I H. pose proof (for_all_states_spec _ step_preserves_all s I) as Hp.
  unfold step_preserves in Hp. rewrite forallb_forall in Hp. specialize (Hp l (all_labels_complete l)).
  rewrite H in Hp. apply inv_b_inv. exact Hp.
Qed.

Lemma linit_inv : LInv linit.
Proof. apply inv_b_inv. vm_compute. reflexivity. Qed.

Theorem lexec_inv : forall ls s, LInv s -> LInv (lexec true s ls).
Proof.
  induction ls as [|l ls IH]; intros s I; [exact I|].
  cbn [lexec fold_left]. destruct (lstep true s l) as [s'|] eqn:E; [apply IH; eapply lstep_inv; eauto|apply IH; exact I].
Qed.

(* no deadlock: in every state satisfying the invariant, either Do has
   returned, or main waits for the environment (an ending of the trigger phase,
   pool completion, the completion timeout), or one of the two goroutines can
   move *)
Lemma never_wedged_all : for_all_states (fun s => negb (wedged true s)) = true.
Proof. vm_compute. reflexivity. Qed.

Theorem never_wedged s : LInv s -> wedged true s = false.
Proof.
  intros I. pose proof (for_all_states_spec (fun s => negb (wedged true s)) never_wedged_all s I) as H.
  cbn beta in H. apply negb_true_iff in H. exact H.
Qed.

(* quiescence: when Do has returned the progress goroutine is gone, it holds
   no lock, and it has not taken a single step since the return *)
Lemma returned_quiet_all :
  for_all_states (fun s => match l_main s with
                           | MReturned => ppc_beq (l_prog s) PExited && (l_readers s =? 0) &&
                                          match l_writer s with None => true | _ => false end
                           | _ => true end) = true.
Proof. vm_compute. reflexivity. Qed.

Theorem returned_quiet s : LInv s -> l_main s = MReturned ->
  l_prog s = PExited /\ l_readers s = 0 /\ l_writer s = None /\ l_fn_after_return s = 0.
Proof.
  intros I Hm. pose proof (for_all_states_spec _ returned_quiet_all s I) as H. cbn beta in H. rewrite Hm in H.
  apply andb_true_iff in H as [H H3]. apply andb_true_iff in H as [H1 H2].
  apply internal_ppc_dec_bl in H1. apply Z.eqb_eq in H2.
  destruct I as [Hc _]. split; [exact H1|]. split; [exact H2|]. split.
  - destruct (l_writer s); [discriminate|reflexivity].
  - rewrite Hc. reflexivity.
Qed.

(* the final totals are taken only after the progress goroutine has exited *)
Lemma totals_after_exit_all :
  for_all_states (fun s => if late_m (l_main s) then ppc_beq (l_prog s) PExited else true) = true.
Proof. vm_compute. reflexivity. Qed.
