From F1 Require Import Base.Prelude Model.Ticker.
From Coq Require Import ZifyBool Lia.

Ltac Zify.zify_post_hook ::= Z.div_mod_to_equations.

(* requests are the evaluated values, unchanged and in order *)
Lemma loop_requests_eq_values vals : forall evs k,
  requests (loop_actions vals k evs) = eval_values (loop_actions vals k evs).
Proof.
  induction evs as [|e evs IH]; intros k; [reflexivity|].
  destruct e as [t|]; [|reflexivity].
  cbn [loop_actions requests eval_values flat_map app]. f_equal. apply IH.
Qed.

Lemma loop_alternates vals : forall evs k,
  exists ts, loop_actions vals k evs =
             flat_map (fun p => [AEval (fst p) (vals (snd p)); ARequest (vals (snd p))])
                      (combine ts (seq k (length ts))).
Proof.
  induction evs as [|e evs IH]; intros k; [exists []; reflexivity|].
  destruct e as [t|]; [|exists []; reflexivity].
  destruct (IH (S k)) as [ts Hts]. exists (t :: ts).
  cbn [loop_actions length seq combine flat_map fst snd app]. rewrite Hts. reflexivity.
Qed.

(* nothing happens after the context ended *)
Lemma nothing_after_done vals k pre post :
  loop_actions vals k (pre ++ CtxDone :: post) = loop_actions vals k (pre ++ [CtxDone]).
Proof.
  revert k. induction pre as [|e pre IH]; intros k; [reflexivity|].
  destruct e as [t|]; [|reflexivity]. cbn [app loop_actions]. rewrite IH. reflexivity.
Qed.

(* cadence *)
Lemma loop_count vals interval t0 e : 0 < interval ->
  forall evs k j, ticks_not_early t0 interval j evs -> 0 <= j ->
  count_le (t0 + e) (eval_times (loop_actions vals k evs)) <= Z.max 0 (e / interval - j + 1).
Proof.
  intros Hi. induction evs as [|ev evs IH]; intros k j Hn Hj.
  - cbn. lia.
  - destruct ev as [t|]; [|cbn; lia].
    cbn [ticks_not_early] in Hn. destruct Hn as [Ht Hrest].
    cbn [loop_actions eval_times flat_map app]. unfold count_le in *. cbn [zcount].
    specialize (IH (S k) (j + 1) Hrest ltac:(lia)). fold (eval_times (loop_actions vals (S k) evs)).
    destruct (t <=? t0 + e) eqn:E.
    + (* this tick counts: j * interval <= e, so j <= e / interval *)
      assert (j <= e / interval) by (apply Z.div_le_lower_bound; nia). lia.
    + lia.
Qed.
