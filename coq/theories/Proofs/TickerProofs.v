From F1 Require Import Base.Prelude Model.Ticker.
From Coq Require Import ZifyBool Lia.

Ltac Zify.zify_post_hook ::= Z.div_mod_to_equations.

(* requests are the evaluated values, unchanged and in order *)
Lemma loop_requests_eq_values vals : forall evs k,
  requests (loop_actions vals k evs) = eval_values (loop_actions vals k evs).
Proof.
  induction evs as [|e evs IH]; intros k; [reflexivity|].
  destruct e as [t|]; [|reflexivity].
  cbn [loop_actions requests eval_values flat_map app]. f_equal. apply IH.
Qed.

Lemma loop_alternates vals : forall evs k,
  exists ts, loop_actions vals k evs =
             flat_map (fun p => [AEval (fst p) (vals (snd p)); ARequest (vals (snd p))])
                      (combine ts (seq k (length ts))).
Proof.
  induction evs as [|e evs IH]; intros k; [exists []; reflexivity|].
  destruct e as [t|]; [|exists []; reflexivity].
  destruct (IH (S k)) as [ts Hts]. exists (t :: ts).
  cbn [loop_actions length seq combine flat_map fst snd app]. rewrite Hts. reflexivity.
Qed.

(* nothing happens after the context ended *)
Lemma nothing_after_done vals k pre post :
  loop_actions vals k (pre ++ CtxDone :: post) = loop_actions vals k (pre ++ [CtxDone]).
Proof.
  revert k. induction pre as [|e pre IH]; intros k; [reflexivity|].
  destruct e as [t|]; [|reflexivity]. cbn [app loop_actions]. rewrite IH. reflexivity.
Qed.

(* cadence *)
Lemma loop_count vals interval t0 e : 0 < interval ->
  forall evs k j, ticks_not_early t0 interval j evs -> 0 <= j ->
  count_le (t0 + e) (eval_times (loop_actions vals k evs)) <= Z.max 0 (e / interval - j + 1).
Proof.
  intros Hi. induction evs as [|ev evs IH]; intros k j Hn Hj.
  - cbn. lia.
  - destruct ev as [t|]; [|cbn; lia].
    cbn [ticks_not_early] in Hn. destruct Hn as [Ht Hrest].
    cbn [loop_actions eval_times flat_map app]. unfold count_le in *. cbn [zcount].
    specialize (IH (S k) (j + 1) Hrest ltac:(lia)). fold (eval_times (loop_actions vals (S k) evs)).
    destruct (t <=? t0 + e) eqn:E.
    + (* this tick counts: j * interval <= e, so j <= e / interval *)
      assert (j <= e / interval) by (apply Z.div_le_lower_bound; nia). lia.
    + lia.
Qed.

(* a stage: a trigger of constant value k that stops evaluating dur after its first evaluation
   (the stage's context ends) requests at most k (1 + dur / interval) in all *)
Lemma requests_const k : forall evs n,
  zsum (requests (loop_actions (fun _ => k) n evs)) = k * Z.of_nat (length (eval_times (loop_actions (fun _ => k) n evs))).
Proof.
  induction evs as [|ev evs IH]; intros n; [cbn; lia|].
  destruct ev as [t|]; [|cbn; lia].
  cbn [loop_actions requests eval_times flat_map app].
  fold (requests (loop_actions (fun _ => k) (S n) evs)). fold (eval_times (loop_actions (fun _ => k) (S n) evs)).
  rewrite zsum_cons, IH. cbn [length]. lia.
Qed.

Lemma count_le_all bound l : Forall (fun t => t <= bound) l -> count_le bound l = Z.of_nat (length l).
Proof.
  unfold count_le. induction 1 as [|x l Hx _ IH]; [reflexivity|].
  cbn [zcount length]. assert (E : (x <=? bound) = true) by lia. rewrite E, IH. lia.
Qed.

Lemma stage_bound k t0 interval dur evs :
  0 < interval -> 0 <= dur -> 0 <= k -> ticks_not_early t0 interval 1 evs ->
  Forall (fun t => t <= t0 + dur) (eval_times (worker_actions (fun _ => k) t0 evs)) ->
  zsum (requests (worker_actions (fun _ => k) t0 evs)) <= k * (1 + dur / interval).
Proof.
  intros Hi Hd Hk Hn Hall.
  pose proof (count_le_all _ _ Hall) as Hc.
  unfold worker_actions in *. cbn [eval_times requests flat_map app] in *.
  fold (eval_times (loop_actions (fun _ => k) 1 evs)) in *. fold (requests (loop_actions (fun _ => k) 1 evs)).
  rewrite zsum_cons, requests_const.
  inversion Hall as [|x l Hx Hrest]; subst.
  pose proof (count_le_all _ _ Hrest) as Hc2.
  pose proof (loop_count (fun _ => k) interval t0 dur Hi evs 1%nat 1 Hn ltac:(lia)) as H.
  assert (0 <= dur / interval) by (apply Z.div_pos; lia).
  rewrite Hc2 in H. nia.
Qed.

Lemma stage_count_sound k t0 interval dur evs got slack :
  0 < interval -> 0 <= dur -> 0 <= k -> 0 <= slack -> ticks_not_early t0 interval 1 evs ->
  Forall (fun t => t <= t0 + dur) (eval_times (worker_actions (fun _ => k) t0 evs)) ->
  got <= zsum (requests (worker_actions (fun _ => k) t0 evs)) + slack ->
  stage_count_ok k interval dur got slack = true.
Proof.
  intros Hi Hd Hk Hs Hn Hall Hg. unfold stage_count_ok.
  pose proof (stage_bound k t0 interval dur evs Hi Hd Hk Hn Hall). lia.
Qed.
