(* C13 - the binary64 jitter step produces admissible steps of the exact layer:
   with an integer balance carried exactly, the emitted value r satisfies
   jitter_step_ok for the fraction j = multiple/100, as long as the magnitudes
   stay below 2^49 (so that the float rounding error stays below 1/2). *)
From Coq Require Import ZArith Reals Lia Lra Bool.
From Flocq Require Import Core Relative IEEE754.BinarySingleNaN.
From F1 Require Import Base.Prelude Base.F64 Model.Jitter Proofs.F64Facts Proofs.F64Close Proofs.JitterProofs.

Local Open Scope R_scope.

(* ---- operations *)

Lemma f_add_R x y :
  is_finite x = true -> is_finite y = true -> Rabs (rnd (B2R x + B2R y)) < bpow radix2 emax ->
  is_finite (f_add x y) = true /\ B2R (f_add x y) = rnd (B2R x + B2R y).
Proof.
  intros Fx Fy Hb. unfold f_add.
  pose proof (Bplus_correct prec emax prec_gt_0_64 prec_lt_emax_64 mode_NE x y Fx Fy) as C.
  fold fexp64 in C. fold (rnd (B2R x + B2R y)) in C.
  rewrite Rlt_bool_true in C by exact Hb. destruct C as (C1 & C2 & _). split; assumption.
Qed.

Lemma f_sub_R x y :
  is_finite x = true -> is_finite y = true -> Rabs (rnd (B2R x - B2R y)) < bpow radix2 emax ->
  is_finite (f_sub x y) = true /\ B2R (f_sub x y) = rnd (B2R x - B2R y).
Proof.
  intros Fx Fy Hb. unfold f_sub.
  pose proof (Bminus_correct prec emax prec_gt_0_64 prec_lt_emax_64 mode_NE x y Fx Fy) as C.
  fold fexp64 in C. fold (rnd (B2R x - B2R y)) in C.
  rewrite Rlt_bool_true in C by exact Hb. destruct C as (C1 & C2 & _). split; assumption.
Qed.

Lemma f_round_R x :
  is_finite (f_round x) = is_finite x /\ B2R (f_round x) = IZR (ZnearestA (B2R x)).
Proof.
  unfold f_round.
  destruct (Bnearbyint_correct prec emax prec_lt_emax_64 mode_NA x) as (C1 & C2 & _).
  split; [exact C2|]. rewrite C1. apply round_FIX_IZR.
Qed.

Lemma small_lt_emax x : Rabs x <= IZR (2 ^ 53) -> Rabs x < bpow radix2 emax.
Proof. intros H. eapply Rle_lt_trans; [exact H|]. apply (pow53_lt_emax 0%Z). Qed.

Lemma rnd_abs_le x z : (Z.abs z < 2 ^ 53)%Z -> Rabs x <= IZR (Z.abs z) -> Rabs (rnd x) <= IZR (Z.abs z).
Proof.
  intros Hz H. apply Rabs_le_inv in H. destruct H as [H1 H2].
  assert (E : rnd (IZR (Z.abs z)) = IZR (Z.abs z)) by (apply rnd_Z; lia).
  apply Rabs_le. split.
  - rewrite <- E, <- rnd_opp. apply rnd_le. exact H1.
  - rewrite <- E. apply rnd_le. exact H2.
Qed.

(* f_max f_zero x for a finite x is max(0, x) *)
Lemma f_max_zero_R x : is_finite x = true ->
  is_finite (f_max f_zero x) = true /\ B2R (f_max f_zero x) = Rmax 0 (B2R x).
Proof.
  intros Fx. unfold f_max, f_zero.
  destruct x as [s| | |s mx ex Hx]; try discriminate.
  - cbn. split; [reflexivity|]. rewrite Rmax_left; [reflexivity|lra].
  - cbn [f_is_posinf orb is_nan f_is_zero andb].
    unfold f_lt. rewrite Bltb_correct by reflexivity.
    set (v := B2R (B754_finite s mx ex Hx)).
    change (B2R (B754_zero false)) with 0.
    destruct (Rlt_bool_spec v 0) as [H|H].
    + split; [reflexivity|]. cbn [B2R]. rewrite Rmax_left; [reflexivity|lra].
    + split; [reflexivity|]. fold v. rewrite Rmax_right; [reflexivity|exact H].
Qed.

(* ---- absolute + relative rounding error, valid for every real (subnormals included) *)

Definition eta : R := bpow radix2 (-1075).

Lemma rnd_err x : Rabs (rnd x - x) <= u53 * Rabs x + eta.
Proof.
  destruct (Rle_lt_dec (bpow radix2 (-1022)) (Rabs x)) as [H|H].
  - destruct (rnd_rel x H) as (e & He & Hr). rewrite Hr.
    replace (x * (1 + e) - x) with (x * e) by ring. rewrite Rabs_mult.
    assert (0 <= eta) by (apply bpow_ge_0).
    assert (Rabs x * Rabs e <= Rabs x * u53) by (apply Rmult_le_compat_l; [apply Rabs_pos|exact He]).
    lra.
  - unfold rnd. pose proof (error_le_half_ulp radix2 fexp64 (fun x => negb (Z.even x)) x) as E.
    change (round radix2 fexp64 (Znearest (fun x0 : Z => negb (Z.even x0))) x) with (round radix2 fexp64 (round_mode mode_NE) x) in E.
    assert (U : ulp radix2 fexp64 x = bpow radix2 (-1074)).
    { unfold fexp64. change (SpecFloat.fexp prec emax) with (FLT_exp (SpecFloat.emin prec emax) prec).
      rewrite ulp_FLT_small.
      - reflexivity.
      - exact prec_gt_0_64.
      - eapply Rlt_trans; [exact H|]. apply bpow_lt. unfold SpecFloat.emin, emax, prec. lia. }
    rewrite U in E.
    assert (Hh : / 2 * bpow radix2 (-1074) = eta).
    { unfold eta. change (-1074)%Z with (-1075 + 1)%Z. rewrite bpow_plus.
      change (bpow radix2 1) with 2. lra. }
    rewrite Hh in E.
    assert (0 <= u53 * Rabs x) by (apply Rmult_le_pos; [unfold u53; lra|apply Rabs_pos]).
    lra.
Qed.

Lemma eta_small : eta <= / 1000000.
Proof.
  unfold eta. apply Rle_trans with (bpow radix2 (-20)).
  - apply bpow_le. lia.
  - simpl. lra.
Qed.

Lemma rnd_nonneg x : 0 <= x -> 0 <= rnd x.
Proof. intros H. rewrite <- rnd_0. apply rnd_le. exact H. Qed.

Lemma rnd_nonpos x : x <= 0 -> rnd x <= 0.
Proof. intros H. rewrite <- rnd_0. apply rnd_le. exact H. Qed.

Lemma rnd_float (f : f64) : rnd (B2R f) = B2R f.
Proof. unfold rnd. apply round_generic; auto with typeclass_instances. apply generic_format_B2R. Qed.

Lemma f_of_Z_exact z : (Z.abs z < 2 ^ 53)%Z -> is_finite (f_of_Z z) = true /\ B2R (f_of_Z z) = IZR z.
Proof.
  intros H. destruct (f_of_Z_R z ltac:(lia)) as [A B]. split; [exact A|]. rewrite B. apply rnd_Z. exact H.
Qed.

(* ---- the variation factor 1 + cos*multiple/100 *)

Section Factor.
Variables m c : f64.
Hypothesis Fm : is_finite m = true.
Hypothesis HM : 0 < B2R m < 100.
Hypothesis Fc : is_finite c = true.
Hypothesis HC : Rabs (B2R c) <= 1.

Let M := B2R m.
Let C := B2R c.
Let j := M / 100.

Definition factor_f : f64 := f_add f_one (f_div (f_mul c m) f_100).

Lemma hundred : is_finite f_100 = true /\ B2R f_100 = 100.
Proof. unfold f_100. apply (f_of_Z_exact 100). reflexivity. Qed.

Lemma one_f : is_finite f_one = true /\ B2R f_one = 1.
Proof. unfold f_one. apply (f_of_Z_exact 1). reflexivity. Qed.

Lemma rnd_100 : rnd 100 = 100.
Proof. apply (rnd_Z 100). reflexivity. Qed.

Lemma abs_rnd_le x y : Rabs x <= y -> rnd y = y -> Rabs (rnd x) <= y.
Proof.
  intros H E. apply Rabs_le_inv in H. destruct H as [H1 H2]. apply Rabs_le. split.
  - rewrite <- E, <- rnd_opp. apply rnd_le. exact H1.
  - rewrite <- E. apply rnd_le. exact H2.
Qed.

Lemma lt_emax_of_le x y : Rabs x <= y -> y <= 1000 -> Rabs x < bpow radix2 emax.
Proof.
  intros H1 H2. eapply Rle_lt_trans; [exact H1|]. eapply Rle_lt_trans; [exact H2|].
  apply Rlt_le_trans with (bpow radix2 10); [simpl; lra|]. apply bpow_le. unfold emax. lia.
Qed.

Lemma factor_R :
  is_finite factor_f = true /\ 0 <= B2R factor_f <= 2 /\
  Rabs (B2R factor_f - 1) <= j + 3 * u53 + 2 * eta.
Proof.
  unfold factor_f.
  assert (HCM : Rabs (C * M) <= M).
  { rewrite Rabs_mult. unfold M in *. rewrite (Rabs_pos_eq (B2R m)) by lra.
    rewrite <- (Rmult_1_l (B2R m)) at 2. apply Rmult_le_compat_r; [lra|exact HC]. }
  assert (HT1 : Rabs (rnd (C * M)) <= M) by (apply abs_rnd_le; [exact HCM|apply rnd_float]).
  destruct (f_mul_R c m Fc Fm) as [F1 R1].
  { fold C M. apply (lt_emax_of_le _ M HT1). unfold M. lra. }
  fold C M in R1.
  destruct hundred as [F100 R100]. destruct one_f as [Fo Ro].
  assert (Hq : Rabs (rnd (C * M) / 100) <= j).
  { unfold Rdiv. rewrite Rabs_mult, (Rabs_pos_eq (/ 100)) by lra. unfold j, Rdiv.
    apply Rmult_le_compat_r; [lra|exact HT1]. }
  assert (Hj1 : j <= 1) by (unfold j, M; lra).
  assert (Hj0 : 0 <= j) by (unfold j, M; lra).
  assert (HJ : Rabs (rnd (rnd (C * M) / 100)) <= rnd j).
  { apply Rabs_le_inv in Hq. destruct Hq as [Q1 Q2]. apply Rabs_le. split.
    - rewrite <- rnd_opp. apply rnd_le. exact Q1.
    - apply rnd_le. exact Q2. }
  assert (HJ1 : rnd j <= 1) by (rewrite <- rnd_1; apply rnd_le; exact Hj1).
  destruct (f_div_R (f_mul c m) f_100 F1) as [F2 R2].
  { rewrite R100. lra. }
  { rewrite R1, R100. apply (lt_emax_of_le _ 1); [lra|lra]. }
  rewrite R1, R100 in R2.
  set (T2 := rnd (rnd (C * M) / 100)) in *.
  assert (HT2 : Rabs T2 <= 1) by lra.
  apply Rabs_le_inv in HT2. destruct HT2 as [T2a T2b].
  destruct (f_add_R f_one (f_div (f_mul c m) f_100) Fo F2) as [F3 R3].
  { rewrite Ro, R2. apply (lt_emax_of_le _ 2); [|lra].
    apply abs_rnd_le; [apply Rabs_le; lra|apply (rnd_Z 2); reflexivity]. }
  rewrite Ro, R2 in R3.
  split; [exact F3|]. rewrite R3.
  pose proof (rnd_err (1 + T2)) as E1.
  pose proof (rnd_err j) as EJ. rewrite (Rabs_pos_eq j) in EJ by exact Hj0.
  apply Rabs_le_inv in EJ. destruct EJ as [EJ1 EJ2].
  assert (Hu : 0 <= u53 <= / 1000) by (unfold u53; lra).
  pose proof eta_small as He. assert (0 <= eta) by apply bpow_ge_0.
  assert (HabsT : Rabs T2 <= rnd j) by exact HJ.
  apply Rabs_le_inv in HabsT. destruct HabsT as [Ta Tb].
  assert (Habs1 : Rabs (1 + T2) <= 2) by (apply Rabs_le; lra).
  apply Rabs_le_inv in E1. destruct E1 as [E1a E1b].
  split.
  - split.
    + apply rnd_nonneg. lra.
    + rewrite <- (rnd_Z 2) by reflexivity. apply rnd_le. lra.
  - apply Rabs_le. split.
    + assert (u53 * Rabs (1 + T2) <= u53 * 2) by (apply Rmult_le_compat_l; lra).
      assert (u53 * j <= u53) by nra. lra.
    + assert (u53 * Rabs (1 + T2) <= u53 * 2) by (apply Rmult_le_compat_l; lra).
      assert (u53 * j <= u53) by nra. lra.
Qed.

End Factor.

(* ---- one step *)

Lemma eta_tiny : eta <= / 1267650600228229401496703205376.   (* 2^-100 *)
Proof.
  unfold eta. apply Rle_trans with (bpow radix2 (-100)).
  - apply bpow_le. lia.
  - change (bpow radix2 (-100)) with (/ IZR (Z.pow_pos 2 100)).
    change (Z.pow_pos 2 100) with 1267650600228229401496703205376%Z. lra.
Qed.

Lemma ZnearestA_le x y : x <= y -> (ZnearestA x <= ZnearestA y)%Z.
Proof. intros H. apply Zrnd_le; [apply valid_rnd_N|exact H]. Qed.

Lemma ZnearestA_IZR n : ZnearestA (IZR n) = n.
Proof. apply Zrnd_IZR. apply valid_rnd_N. Qed.

Lemma ZnearestA_half x : Rabs (x - IZR (ZnearestA x)) <= / 2.
Proof. apply Znearest_half. Qed.

Section Step.
Variables m c bal : f64.
Variables b rate jn jd : Z.
Hypothesis Fm : is_finite m = true.
Hypothesis HM : 0 < B2R m < 100.
Hypothesis Fc : is_finite c = true.
Hypothesis HC : Rabs (B2R c) <= 1.
Hypothesis Fb : is_finite bal = true.
Hypothesis Rb : B2R bal = IZR b.
Hypothesis Hq : (Z.abs (rate + b) <= 2 ^ 49)%Z.
Hypothesis Hrate : (Z.abs rate < 2 ^ 53)%Z.
Hypothesis Hjd : (0 < jd)%Z.
Hypothesis Hfrac : IZR jn = B2R m / 100 * IZR jd.

Let q := (rate + b)%Z.
Let Q := IZR q.
Let F := B2R (factor_f m c).
Let P := rnd (Q * F).
Let N := ZnearestA P.
Let r := Z.max 0 N.

Lemma Q_abs : Rabs Q <= 562949953421312.
Proof. unfold Q, q. rewrite <- abs_IZR. change 562949953421312 with (IZR (2 ^ 49)). apply IZR_le. exact Hq. Qed.

Lemma P_bound : Rabs P <= 1125899906842626.   (* 2^50 + 2 *)
Proof.
  destruct (factor_R m c Fm HM Fc HC) as (_ & [F0 F2] & _). fold F in F0, F2.
  pose proof Q_abs as HQ. pose proof (rnd_err (Q * F)) as E. fold P in E.
  assert (HQF : Rabs (Q * F) <= 1125899906842624).
  { rewrite Rabs_mult, (Rabs_pos_eq F) by exact F0.
    apply Rle_trans with (562949953421312 * 2); [|lra].
    apply Rmult_le_compat; [apply Rabs_pos|exact F0|exact HQ|exact F2]. }
  pose proof eta_small. assert (u53 * Rabs (Q * F) <= 1).
  { unfold u53. apply Rle_trans with (/ 9007199254740992 * 1125899906842624); [|lra].
    apply Rmult_le_compat_l; [lra|exact HQF]. }
  replace P with ((P - Q * F) + Q * F) by ring.
  eapply Rle_trans; [apply Rabs_triang|]. lra.
Qed.

Lemma step_values :
  let '(bal', o) := jit_step_f64 m bal rate c in
  is_finite bal' = true /\ B2R bal' = IZR (rate + b - o) /\ o = r.
Proof.
  unfold jit_step_f64. fold (factor_f m c).
  destruct (f_of_Z_exact rate Hrate) as [Fr Rr].
  assert (Hq53 : (Z.abs (rate + b) < 2 ^ 53)%Z) by lia.
  destruct (f_add_R (f_of_Z rate) bal Fr Fb) as [Freq Rreq].
  { rewrite Rr, Rb, <- plus_IZR. apply small_lt_emax.
    rewrite rnd_Z by exact Hq53. rewrite <- abs_IZR. apply IZR_le. lia. }
  rewrite Rr, Rb, <- plus_IZR, rnd_Z in Rreq by exact Hq53. fold q Q in Rreq.
  destruct (factor_R m c Fm HM Fc HC) as (FF & [F0 F2] & _). fold F in F0, F2.
  pose proof P_bound as HP.
  destruct (f_mul_R (f_add (f_of_Z rate) bal) (factor_f m c) Freq FF) as [Fp Rp].
  { rewrite Rreq. fold F P. eapply Rle_lt_trans; [exact HP|].
    apply Rlt_le_trans with (bpow radix2 60); [simpl; lra|]. apply bpow_le. unfold emax. lia. }
  rewrite Rreq in Rp. fold F P in Rp.
  destruct (f_round_R (f_mul (f_add (f_of_Z rate) bal) (factor_f m c))) as [Frd Rrd].
  rewrite Fp in Frd. rewrite Rp in Rrd. fold N in Rrd.
  destruct (f_max_zero_R _ Frd) as [Fmx Rmx]. rewrite Rrd in Rmx.
  assert (Er : Rmax 0 (IZR N) = IZR r).
  { unfold r. destruct (Z.le_ge_cases 0 N) as [H|H].
    - rewrite Z.max_r by exact H. apply Rmax_right. apply IZR_le. exact H.
    - rewrite Z.max_l by exact H. apply Rmax_left. apply IZR_le. exact H. }
  rewrite Er in Rmx.
  (* magnitudes *)
  pose proof (ZnearestA_half P) as HN. fold N in HN.
  apply Rabs_le_inv in HP. destruct HP as [HP1 HP2].
  apply Rabs_le_inv in HN. destruct HN as [HN1 HN2].
  assert (Nb : (- 2 ^ 51 <= N <= 2 ^ 51)%Z).
  { split; apply le_IZR; [rewrite opp_IZR|]; change (IZR (2 ^ 51)) with 2251799813685248; lra. }
  assert (rb : (0 <= r <= 2 ^ 51)%Z) by (unfold r; lia).
  set (mx := f_max f_zero (f_round (f_mul (f_add (f_of_Z rate) bal) (factor_f m c)))) in *.
  destruct (f_sub_R (f_add (f_of_Z rate) bal) mx Freq Fmx) as [Fs Rs].
  { rewrite Rreq, Rmx. unfold Q. rewrite <- minus_IZR. apply small_lt_emax.
    rewrite rnd_Z by (unfold q; lia). rewrite <- abs_IZR. apply IZR_le. unfold q. lia. }
  rewrite Rreq, Rmx in Rs. unfold Q in Rs. rewrite <- minus_IZR, rnd_Z in Rs by (unfold q; lia).
  assert (Eo : f_to_int mx = r).
  { unfold f_to_int. rewrite Fmx, Btrunc_R, Rmx, Ztrunc_IZR.
    assert (L1 : (r <? 2 ^ 63)%Z = true) by (apply Z.ltb_lt; lia).
    assert (L2 : (min_int64 <=? r)%Z = true) by (apply Z.leb_le; unfold min_int64; lia).
    rewrite L1, L2. reflexivity. }
  rewrite Eo. split; [exact Fs|]. split; [|reflexivity]. rewrite Rs. unfold q. reflexivity.
Qed.

Lemma step_admissible : jitter_step_ok jn jd b rate r.
Proof.
  unfold jitter_step_ok. fold q.
  destruct (factor_R m c Fm HM Fc HC) as (_ & [F0 F2] & HF). fold F in F0, F2, HF.
  pose proof Q_abs as HQ. pose proof (rnd_err (Q * F)) as E. fold P in E.
  pose proof (ZnearestA_half P) as HN. fold N in HN.
  destruct (q <? 0)%Z eqn:Eq.
  - (* negative request: nothing is emitted *)
    assert (Q <= 0) by (unfold Q; apply IZR_le; lia).
    assert (HP0 : P <= 0) by (apply rnd_nonpos; nra).
    assert (N <= 0)%Z by (rewrite <- (ZnearestA_IZR 0); apply ZnearestA_le; exact HP0).
    unfold r. lia.
  - assert (Q0 : 0 <= Q) by (unfold Q; apply IZR_le; lia).
    rewrite (Rabs_pos_eq Q) in HQ by exact Q0.
    split; [unfold r; lia|].
    set (j := B2R m / 100) in *.
    assert (Hj : 0 <= j <= 1) by (unfold j; lra).
    (* |P - Q| <= Q*j + 0.32 *)
    pose proof eta_tiny as He. assert (He0 : 0 <= eta) by apply bpow_ge_0.
    assert (HQF : Rabs (Q * F) <= 2 * Q).
    { rewrite Rabs_mult, (Rabs_pos_eq Q), (Rabs_pos_eq F) by assumption. nra. }
    apply Rabs_le_inv in HF. destruct HF as [HF1 HF2].
    apply Rabs_le_inv in E. destruct E as [E1 E2].
    assert (U1 : u53 * Rabs (Q * F) <= u53 * (2 * Q)) by (apply Rmult_le_compat_l; [unfold u53; lra|exact HQF]).
    assert (U2 : Q * u53 <= / 16) by (unfold u53; lra).
    assert (U3 : Q * eta <= / 1000) by nra.
    assert (HPQ : Rabs (P - Q) <= Q * j + 33 / 100).
    { apply Rabs_le. split.
      - assert (Q * F - Q >= - (Q * (j + 3 * u53 + 2 * eta))) by nra. nra.
      - assert (Q * F - Q <= Q * (j + 3 * u53 + 2 * eta)) by nra. nra. }
    apply Rabs_le_inv in HPQ. destruct HPQ as [PQ1 PQ2].
    apply Rabs_le_inv in HN. destruct HN as [HN1 HN2].
    (* r is at least as close to Q as N is *)
    assert (HrQ : Rabs (IZR r - Q) <= Q * j + 83 / 100).
    { unfold r. destruct (Z.le_ge_cases 0 N) as [H0|H0].
      - rewrite Z.max_r by exact H0. apply Rabs_le. lra.
      - rewrite Z.max_l by exact H0. assert (IZR N <= 0) by (apply IZR_le; exact H0).
        apply Rabs_le. lra. }
    (* to the integers *)
    apply le_IZR. rewrite plus_IZR, !mult_IZR, abs_IZR, minus_IZR. fold Q. rewrite Hfrac. fold j.
    assert (Hjd0 : 0 < IZR jd) by (apply IZR_lt; exact Hjd).
    assert (Rabs (IZR r - Q) <= Q * j + 1) by lra.
    replace (j * IZR jd * Q + IZR jd) with (IZR jd * (Q * j + 1)) by ring.
    apply Rmult_le_compat_l; [lra|assumption].
Qed.

End Step.

(* ---- whole runs *)

Local Open Scope Z_scope.

Definition cos_ok (c : f64) : Prop := is_finite c = true /\ (Rabs (B2R c) <= 1)%R.

Theorem loop_admissible : forall rates cs m bal b jn jd R,
  is_finite m = true -> (0 < B2R m < 100)%R ->
  0 < jd -> IZR jn = (B2R m / 100 * IZR jd)%R ->
  Forall (fun x => 0 <= x <= R) rates -> Forall cos_ok cs -> length cs = length rates ->
  is_finite bal = true -> B2R bal = IZR b ->
  (jd - jn) * Z.abs b <= jn * R + jd ->
  jn * R + jd <= (jd - jn) * (2 ^ 49 - R) ->
  run_ok jn jd b rates (fst (jit_loop_f64 m bal rates cs)).
Proof.
  induction rates as [|rate rates IH]; intros cs m bal b jn jd R Fm HM Hjd Hfrac HR Hcs Hlen Fb Rb Hinv Hbound.
  - destruct cs; [cbn; exact I|discriminate].
  - destruct cs as [|c cs]; [discriminate|]. cbn [length] in Hlen.
    inversion HR as [|? ? Hr HR']; subst. inversion Hcs as [|? ? [Fc HC] Hcs']; subst.
    assert (Hjn : 0 <= jn < jd).
    { assert (Hjd0 : (0 < IZR jd)%R) by (apply IZR_lt; exact Hjd).
      split.
      - apply le_IZR. rewrite Hfrac. apply Rmult_le_pos; [lra|lra].
      - apply lt_IZR. rewrite Hfrac. rewrite <- (Rmult_1_l (IZR jd)) at 2.
        apply Rmult_lt_compat_r; [exact Hjd0|lra]. }
    assert (HbK : Z.abs b <= 2 ^ 49 - R) by nia.
    assert (Hq : Z.abs (rate + b) <= 2 ^ 49) by lia.
    assert (Hrate : Z.abs rate < 2 ^ 53) by lia.
    pose proof (step_values m c bal b rate Fm HM Fc HC Fb Rb Hq Hrate) as SV.
    pose proof (step_admissible m c bal b rate jn jd Fm HM Fc HC Fb Hq Hjd Hfrac) as SA.
    cbn [jit_loop_f64].
    destruct (jit_step_f64 m bal rate c) as [bal' o] eqn:Es.
    destruct SV as (Fb' & Rb' & Eo). rewrite <- Eo in SA.
    specialize (IH cs m bal' (rate + b - o) jn jd R Fm HM Hjd Hfrac HR' Hcs' ltac:(lia) Fb' Rb').
    assert (Hinv' : (jd - jn) * Z.abs (rate + b - o) <= jn * R + jd).
    { apply (step_bound jn jd R b rate o Hjn Hr SA Hinv). }
    specialize (IH Hinv' Hbound).
    destruct (jit_loop_f64 m bal' rates cs) as [os fb] eqn:El. cbn [fst] in *.
    split; [exact SA|exact IH].
Qed.

Theorem run_f64_admissible : forall mult_bits rates cos_bits jn jd R,
  let m := f_of_bits mult_bits in
  is_finite m = true -> (0 < B2R m < 100)%R ->
  0 < jd -> IZR jn = (B2R m / 100 * IZR jd)%R ->
  Forall (fun x => 0 <= x <= R) rates ->
  Forall cos_ok (map f_of_bits cos_bits) -> length cos_bits = length rates ->
  jn * R + jd <= (jd - jn) * (2 ^ 49 - R) ->
  run_ok jn jd 0 rates (jit_run_f64 mult_bits rates cos_bits).
Proof.
  intros mult_bits rates cos_bits jn jd R m Fm HM Hjd Hfrac HR Hcs Hlen Hbound.
  unfold jit_run_f64. fold m.
  assert (Ez : f_eq m f_zero = false).
  { unfold f_eq, f_zero. rewrite Beqb_correct by (try exact Fm; reflexivity).
    change (B2R (B754_zero false)) with 0%R. apply Req_bool_false. lra. }
  rewrite Ez.
  destruct rates as [|x rs] eqn:Er.
  { destruct cos_bits; [cbn; exact I|discriminate]. }
  rewrite <- Er in *.
  apply (loop_admissible rates (map f_of_bits cos_bits) m f_zero 0 jn jd R); try assumption.
  - rewrite map_length. exact Hlen.
  - reflexivity.
  - reflexivity.
  - assert (0 <= jn).
    { apply le_IZR. rewrite Hfrac. apply Rmult_le_pos; [lra|]. apply IZR_le. lia. }
    assert (0 <= R) by (rewrite Er in HR; inversion HR; subst; lia).
    cbn. nia.
Qed.

(* ---- the jitter percentage as an exact fraction *)

Lemma frac_of_bits_R bits :
  0 <= bits < 2 ^ 63 -> 1 <= (bits / 2 ^ 52) mod 2 ^ 11 <= 2046 ->
  let '(jn, jd) := frac_of_bits bits in
  0 < jd /\ is_finite (f_of_bits bits) = true /\ (0 < B2R (f_of_bits bits))%R /\
  IZR jn = (B2R (f_of_bits bits) / 100 * IZR jd)%R.
Proof.
  intros Hb He. unfold frac_of_bits, f_of_bits.
  set (e := (bits / 2 ^ 52) mod 2 ^ 11) in *. set (mt := bits mod 2 ^ 52).
  assert (Hs : Z.odd (bits / 2 ^ 63) = false).
  { rewrite Z.div_small by lia. reflexivity. }
  rewrite Hs.
  replace (e =? 2047) with false by lia. replace (e =? 0) with false by lia.
  assert (Hmt : 0 <= mt < 2 ^ 52) by (unfold mt; apply Z.mod_pos_bound; lia).
  set (mant := mt + 2 ^ 52). set (ex := e - 1075).
  pose proof (binary_normalize_correct prec emax prec_gt_0_64 prec_lt_emax_64 mode_NE mant ex false) as C.
  cbv zeta in C. fold fexp64 in C.
  assert (Fmt : generic_format radix2 fexp64 (F2R (Float radix2 mant ex))).
  { unfold fexp64. change (SpecFloat.fexp prec emax) with (FLT_exp (SpecFloat.emin prec emax) prec).
    apply generic_format_FLT. apply (FLT_spec radix2 _ _ _ (Float radix2 mant ex)).
    - reflexivity.
    - simpl. unfold mant. lia.
    - simpl. unfold ex, SpecFloat.emin, emax, prec. lia. }
  rewrite round_generic in C by (auto with typeclass_instances).
  assert (Hv : (F2R (Float radix2 mant ex) = IZR mant * bpow radix2 ex)%R) by reflexivity.
  assert (Hlt : (Rabs (F2R (Float radix2 mant ex)) < bpow radix2 emax)%R).
  { rewrite Hv, Rabs_mult, (Rabs_pos_eq (bpow radix2 ex)) by apply bpow_ge_0.
    rewrite <- abs_IZR.
    apply Rlt_le_trans with (bpow radix2 53 * bpow radix2 ex)%R.
    - apply Rmult_lt_compat_r; [apply bpow_gt_0|].
      change (bpow radix2 53) with (IZR (2 ^ 53)). apply IZR_lt. unfold mant. lia.
    - rewrite <- bpow_plus. apply bpow_le. unfold ex, emax. lia. }
  rewrite Rlt_bool_true in C by exact Hlt. destruct C as (C1 & C2 & _).
  change (if false then 1 else e) with e. change (if false then mt else mt + 2 ^ 52) with mant.
  fold mant ex.
  assert (Hpos : (0 < B2R (binary_normalize prec emax prec_gt_0_64 prec_lt_emax_64 mode_NE mant ex false))%R).
  { rewrite C1, Hv. apply Rmult_lt_0_compat; [apply IZR_lt; unfold mant; lia|apply bpow_gt_0]. }
  destruct (0 <=? ex) eqn:Ex.
  - split; [lia|]. split; [exact C2|]. split; [exact Hpos|]. rewrite C1, Hv, mult_IZR.
    change (2 ^ ex) with (radix2 ^ ex). rewrite (IZR_Zpower radix2 ex) by lia. simpl (IZR 100). field.
  - split.
    + assert (0 < 2 ^ (- ex)) by (apply Z.pow_pos_nonneg; lia). lia.
    + split; [exact C2|]. split; [exact Hpos|]. rewrite C1, Hv, mult_IZR.
      change (2 ^ (- ex)) with (radix2 ^ (- ex)). rewrite (IZR_Zpower radix2 (- ex)) by lia. rewrite bpow_opp.
      simpl (IZR 100). field. apply Rgt_not_eq, bpow_gt_0.
Qed.
