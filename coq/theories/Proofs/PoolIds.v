(* C03: iteration ids are unique, gapless, capped by the limit. *)
From F1 Require Import Base.Prelude Model.Pool Proofs.PoolBase.
From Coq Require Import ZifyBool Lia Sorting.Permutation.

Fixpoint rdesc (n : nat) : list Z :=
  match n with O => [] | S m => Z.of_nat (S m) :: rdesc m end.

Definition transit (w : wpc) : list Z := match w with W7 id => [id] | _ => [] end.
Definition lpath (w : wpc) : Z := match w with L1 | L2 | L3 | L4 | L5 | L6 => 1 | _ => 0 end.
Lemma lpath_nonneg w : 0 <= lpath w. Proof. destruct w; cbn; lia. Qed.

Lemma flat_upd {A} (f : wpc -> list A) : forall l i old x,
  nth_error l i = Some old ->
  Permutation (f old ++ flat_map f (upd l i x)) (f x ++ flat_map f l).
Proof.
  induction l as [|y l IH]; intros i old x H; [destruct i; discriminate|].
  destruct i as [|i]; cbn in H.
  - injection H as ->. cbn [upd flat_map]. rewrite !app_assoc. apply Permutation_app_tail. apply Permutation_app_comm.
  - cbn [upd flat_map]. specialize (IH i old x H).
    rewrite !app_assoc.
    rewrite (Permutation_app_comm (f old) (f y)), (Permutation_app_comm (f x) (f y)).
    rewrite <- !app_assoc. apply Permutation_app_head. exact IH.
Qed.

Lemma flat_wake : forall l, flat_map transit (map wake l) = flat_map transit l.
Proof. induction l as [|w l IH]; [reflexivity|]. cbn [map flat_map]. rewrite IH. destruct w; reflexivity. Qed.

Definition glen (s : pstate) : Z := Z.of_nat (length (ids_issued s)).

Record Ids (s : pstate) : Prop := {
  id_range : ids_issued s = rdesc (length (ids_issued s));
  id_iter : iter s = glen s \/ (0 < maxiter s /\ glen s = maxiter s /\ maxiter s < iter s);
  id_cap : 0 < maxiter s -> glen s <= maxiter s;
  id_perm : Permutation (ids_started s ++ flat_map transit (workers s)) (ids_issued s);
  id_started : started s = Z.of_nat (length (ids_started s));
  id_lpath : 0 < sumw lpath (workers s) -> 0 < maxiter s /\ maxiter s < iter s;
  id_disc : 0 < discarded s -> 0 < maxiter s /\ maxiter s <= iter s;
  id_disc0 : 0 <= discarded s
}.

Lemma flat_repeat_W0 n : flat_map transit (repeat W0 n) = [].
Proof. induction n; cbn; auto. Qed.

Lemma ids_init n m ticks : Ids (pinit n m ticks).
Proof.
  constructor; unfold pinit, glen; psimpl; rewrite ?flat_repeat_W0, ?sumw_repeat by reflexivity; cbn; auto; try lia.
Qed.

Ltac iprep0 :=
  psimpl; unfold glen in *; psimpl; rewrite ?(sumw_wake lpath eq_refl); cbn [lpath wake length] in *.

Ltac iprep En :=
  psimpl; unfold glen in *; psimpl;
  rewrite ?(sumw_upd lpath _ _ _ _ En), ?(sumw_wake lpath eq_refl);
  cbn [lpath wake length] in *.

Lemma ids_step s l s' : Ids s -> pstep s l = Some s' -> Ids s'.
Proof.
  intros [RG IT CP PM ST LP DS D0] H.
  pose proof (sumw_nonneg lpath lpath_nonneg (workers s)) as Hl0.
  destruct l as [| |i|]; cbn [pstep] in H.
  - (* tick: ids untouched *)
    unfold tick_step in H.
    destruct (tick s) as [[|n rest]|n rest|n rest|n rest|d rest|d rest|d rest]; try discriminate;
      try (destruct (ctx_done s)); try (destruct (lock_free s); [|discriminate]); try (destruct (stopflag s)); try (destruct (exhausted s) eqn:Eex);
      injection H as <-; constructor; iprep0; rewrite ?flat_wake; auto; try lia;
      try (unfold exhausted in Eex; intros; split; lia); try (intros Hx; destruct (DS ltac:(lia)); split; lia).
  - unfold stop_step in H.
    destruct (stopper s) as [| | | |d|d|d|]; try discriminate;
      try (destruct (ctx_done s); [|discriminate]); try (destruct (lock_free s); [|discriminate]); try (destruct (exhausted s) eqn:Eex);
      injection H as <-; constructor; iprep0; rewrite ?flat_wake; auto; try lia;
      try (unfold exhausted in Eex; intros; split; lia); try (intros Hx; destruct (DS ltac:(lia)); split; lia).
  - unfold worker_step in H.
    destruct (nth_error (workers s) i) as [w|] eqn:En; [|discriminate].
    pose proof (sumw_ge lpath lpath_nonneg _ _ _ En) as Hge.
    pose proof (nth_wake _ _ _ En) as Enw.
    pose proof (flat_upd transit _ _ _ W0 En) as Hfu. clear Hfu.
    destruct w as [| | | | | | | | | | | | | | | |id|id|]; try discriminate; cbn [lpath wake] in Hge, Enw;
      try (destruct (stopflag s) eqn:Esf);
      try (destruct (lock_free s) eqn:Elf; [|discriminate]);
      try (destruct (counter s <=? 0) eqn:Ec0);
      try (destruct (0 <=? counter s - 1) eqn:Ec1);
      try (destruct ((0 <? maxiter s) && (maxiter s <? iter s + 1)) eqn:Elim);
      injection H as <-;
      (constructor; iprep En;
       rewrite ?(sumw_upd lpath _ _ _ _ Enw), ?(sumw_wake lpath eq_refl); cbn [lpath] in *;
       try assumption; try lia;
       try (match goal with
            | |- Permutation (_ ++ flat_map transit (upd (map wake _) _ _)) _ =>
              pose proof (flat_upd transit _ _ _ L5 Enw) as Hp; cbn [transit app] in Hp; rewrite flat_wake in Hp;
              rewrite Hp; exact PM
            | |- Permutation (_ ++ flat_map transit (upd _ _ ?x)) _ =>
              pose proof (flat_upd transit _ _ _ x En) as Hp; cbn [transit app] in Hp
            end);
       try (rewrite Hp; exact PM);
       try (intros; split; lia);
       try (intros Hx; destruct (LP ltac:(lia)); split; lia);
       try (intros Hx; destruct (DS ltac:(lia)); split; lia)).
    all: try (match goal with
              | |- _ :: ids_issued _ = rdesc (S _) =>
                assert (Hit : iter s = Z.of_nat (length (ids_issued s))) by (destruct IT as [IT|IT]; lia);
                cbn [rdesc]; rewrite <- RG; f_equal; lia
              end).
    all: try (match goal with
              | |- Permutation (ids_started _ ++ flat_map transit (upd (workers _) _ (W7 ?x))) (?x :: ids_issued _) =>
                let Hq := fresh "Hq" in
                pose proof (flat_upd transit _ _ _ (W7 x) En) as Hq; cbn [transit app] in Hq;
                rewrite Hq; rewrite <- Permutation_middle; constructor; exact PM
              | |- Permutation ((?x :: ids_started _) ++ flat_map transit (upd (workers _) _ (W8 ?x))) (ids_issued _) =>
                let Hq := fresh "Hq" in
                pose proof (flat_upd transit _ _ _ (W8 x) En) as Hq; cbn [transit app] in Hq;
                cbn [app]; rewrite <- PM; rewrite <- Hq; rewrite <- Permutation_middle; reflexivity
              end).
  - (* cancel *) injection H as <-. constructor; iprep0; auto.
Qed.

Theorem ids_exec : forall ls s, Ids s -> Ids (pexec s ls).
Proof.
  induction ls as [|l ls IH]; intros s I; [exact I|].
  cbn [pexec fold_left]. destruct (pstep s l) as [s'|] eqn:E; [apply IH; eapply ids_step; eauto|apply IH; exact I].
Qed.
