From F1 Require Import Base.Prelude Base.F64 Model.Distribution.
From Coq Require Import ZifyBool ZifyNat Lia.

Ltac Zify.zify_post_hook ::= Z.div_mod_to_equations.

Section Regular.
Variable n : nat.
Hypothesis n_pos : (0 < n)%nat.
Let N := Z.of_nat n.
Variable rate : nat -> Z.
Hypothesis rate_nonneg : forall k, 0 <= rate k.

(* every output of a cycle with rate r lies in [r/N, r/N + 1] *)
Definition in_band (r o : Z) : Prop := r / N <= o <= r / N + 1.

Lemma reg_mid : forall m st,
  r_rem st = Z.of_nat m -> 0 <= r_acc st < N -> 0 <= r_rate st ->
  forall st' os, reg_run N rate st m = (st', os) ->
  r_rem st' = 0 /\ r_evals st' = r_evals st /\ r_rate st' = r_rate st /\
  N * zsum os + r_acc st' = r_acc st + Z.of_nat m * r_rate st /\
  0 <= r_acc st' < N /\
  Forall (in_band (r_rate st)) os /\ length os = m.
Proof.
  induction m as [|m IH]; intros st Hrem Hacc Hrate st' os Hrun.
  - cbn in Hrun. injection Hrun as <- <-. cbn [zsum fold_right length].
    repeat split; try lia; try constructor.
  - cbn [reg_run] in Hrun.
    destruct (reg_call N rate st) as [st1 o] eqn:Hcall.
    destruct (reg_run N rate st1 m) as [st2 os2] eqn:Hrun2.
    injection Hrun as <- <-.
    unfold reg_call in Hcall.
    assert (Hne : (r_rem st =? 0) = false) by lia.
    rewrite Hne in Hcall.
    assert (HN : 0 < N) by (unfold N; lia).
    destruct (r_acc st + r_rate st <? N) eqn:Hlt.
    + injection Hcall as <- <-.
      pose proof (fun h1 h2 h3 => IH _ h1 h2 h3 _ _ Hrun2) as IH'.
      cbn [r_rem r_acc r_rate r_evals] in IH'.
      specialize (IH' ltac:(lia) ltac:(lia) ltac:(lia)). clear IH. rename IH' into IH.
      destruct IH as (A & B & C & D & E & F & G).
      rewrite zsum_cons. cbn [length].
      repeat split; try lia.
      constructor; [|exact F].
      unfold in_band. assert (r_rate st / N = 0) by (apply Z.div_small; lia). lia.
    + injection Hcall as <- <-.
      set (a := r_acc st + r_rate st) in *.
      assert (Hq : Z.quot a N = a / N) by (apply Z.quot_div_nonneg; lia).
      rewrite Hq in *.
      pose proof (fun h1 h2 h3 => IH _ h1 h2 h3 _ _ Hrun2) as IH'.
      cbn [r_rem r_acc r_rate r_evals] in IH'.
      assert (Hm : 0 <= a - a / N * N < N) by (pose proof (Z.mod_pos_bound a N HN); rewrite Z.mod_eq in * by lia; lia).
      specialize (IH' ltac:(lia) ltac:(lia) ltac:(lia)). clear IH. rename IH' into IH.
      destruct IH as (A & B & C & D & E & F & G).
      rewrite zsum_cons. cbn [length].
      repeat split; try lia; try nia.
      constructor; [|exact F].
      unfold in_band, a.
      split.
      * apply Z.div_le_mono; lia.
      * assert ((r_acc st + r_rate st) / N <= (N + r_rate st) / N) by (apply Z.div_le_mono; lia).
        replace (N + r_rate st) with (r_rate st + 1 * N) in H by lia.
        rewrite Z.div_add in H by lia. lia.
Qed.

(* One whole cycle started at a cycle boundary. *)
Lemma reg_cycle : forall st,
  r_rem st = 0 ->
  forall st' os, reg_run N rate st n = (st', os) ->
  let r := rate (r_evals st) in
  r_rem st' = 0 /\ r_evals st' = S (r_evals st) /\
  zsum os = r /\ Forall (in_band r) os /\ length os = n /\ r_acc st' = 0.
Proof.
  intros st Hrem st' os Hrun r.
  set (st1 := {| r_rate := r; r_acc := 0; r_rem := N; r_evals := S (r_evals st) |}).
  assert (HN : 0 < N) by (unfold N; lia).
  assert (Hsame : reg_call N rate st = reg_call N rate st1).
  { unfold reg_call. rewrite Hrem. cbn [r_rem st1 Z.eqb].
    replace (0 =? 0) with true by reflexivity.
    replace (N =? 0) with false by lia. reflexivity. }
  assert (exists m, n = S m) as [m Em] by (exists (Nat.pred n); lia).
  rewrite Em in Hrun.
  cbn [reg_run] in Hrun. rewrite Hsame in Hrun.
  change (reg_run N rate st1 (S m) = (st', os)) in Hrun.
  pose proof (reg_mid (S m) st1 ltac:(cbn; unfold N; lia) ltac:(cbn; lia)
                      ltac:(cbn; apply rate_nonneg) _ _ Hrun) as H.
  cbn [r_rem r_acc r_rate r_evals st1] in H.
  destruct H as (A & B & C & D & E & F & G).
  assert (HN' : N = Z.of_nat (S m)) by (unfold N; lia).
  rewrite <- HN' in D.
  assert (zsum os = r /\ r_acc st' = 0).
  { destruct (Z.lt_trichotomy (zsum os) r) as [Hlt|[Heq|Hgt]]; [exfalso; nia|split; [lia|nia]|exfalso; nia]. }
  repeat split; try tauto; try lia.
Qed.

(* k whole cycles from the initial state. *)
Definition cycle_outs (e : nat) : list Z :=
  snd (reg_run N rate {| r_rate := 0; r_acc := 0; r_rem := 0; r_evals := e |} n).

Lemma reg_run_app : forall a b st,
  reg_run N rate st (a + b) =
  let '(st1, os1) := reg_run N rate st a in
  let '(st2, os2) := reg_run N rate st1 b in (st2, os1 ++ os2).
Proof.
  induction a as [|a IH]; intros b st.
  - cbn. destruct (reg_run N rate st b); reflexivity.
  - cbn [reg_run Nat.add]. destruct (reg_call N rate st) as [s1 o].
    rewrite IH. destruct (reg_run N rate s1 a) as [s2 os1].
    destruct (reg_run N rate s2 b) as [s3 os2]. reflexivity.
Qed.

(* The outputs of a cycle only depend on the rate evaluated for it. *)
Lemma reg_call_boundary_irrel : forall st1 st2,
  r_rem st1 = 0 -> r_rem st2 = 0 -> r_evals st1 = r_evals st2 ->
  reg_call N rate st1 = reg_call N rate st2.
Proof.
  intros st1 st2 H1 H2 He. unfold reg_call. rewrite H1, H2, He. reflexivity.
Qed.

Lemma reg_cycles : forall k st,
  r_rem st = 0 ->
  forall st' os, reg_run N rate st (k * n) = (st', os) ->
  r_rem st' = 0 /\ r_evals st' = (r_evals st + k)%nat /\
  length os = (k * n)%nat /\
  forall j, (j < k)%nat ->
    let c := firstn n (skipn (j * n) os) in
    zsum c = rate (r_evals st + j) /\ Forall (in_band (rate (r_evals st + j))) c /\ length c = n.
Proof.
  induction k as [|k IH]; intros st Hrem st' os Hrun.
  - cbn in Hrun. injection Hrun as <- <-. repeat split; try lia; try assumption; try (intros; lia).
  - replace (S k * n)%nat with (n + k * n)%nat in Hrun by lia.
    rewrite reg_run_app in Hrun.
    destruct (reg_run N rate st n) as [s1 os1] eqn:H1.
    destruct (reg_run N rate s1 (k * n)) as [s2 os2] eqn:H2.
    injection Hrun as <- <-.
    pose proof (reg_cycle st Hrem _ _ H1) as (A & B & C & D & E & F).
    pose proof (IH s1 A _ _ H2) as (A2 & B2 & C2 & D2).
    split; [lia|]. split; [lia|]. split; [rewrite app_length; lia|].
    intros j Hj0. cbn zeta.
    { destruct j as [|j].
      * cbn [Nat.mul skipn]. rewrite (firstn_app_exact n os1 os2 E).
        rewrite Nat.add_0_r. tauto.
      * assert (Hj : (j < k)%nat) by lia.
        specialize (D2 j Hj). cbn zeta in D2.
        replace (S j * n)%nat with (n + j * n)%nat by lia.
        rewrite (skipn_app_exact n (j * n) os1 os2 E).
        rewrite B in D2.
        replace (r_evals st + S j)%nat with (S (r_evals st) + j)%nat by lia.
        exact D2. }
Qed.

End Regular.

(* ------------------------------------------------------------------ random *)

Section RandomDist.
Variable n : nat.
Hypothesis n_pos : (0 < n)%nat.
Let N := Z.of_nat n.
Variable rate : nat -> Z.
Hypothesis rate_nonneg : forall k, 0 <= rate k.
Variable rand : nat -> Z.
Hypothesis rand_nonneg : forall k, 0 <= rand k.

Lemma rnd_mid : forall m st,
  d_rem st = Z.of_nat m -> 0 <= d_rate st ->
  exists st' os, rnd_run N rate rand st m = Ok (st', os) /\
  d_rem st' = 0 /\ d_evals st' = d_evals st /\
  (m = 0%nat -> d_rate st' = d_rate st) /\
  ((0 < m)%nat -> zsum os = d_rate st /\ d_rate st' = 0) /\
  Forall (fun o => 0 <= o) os /\ length os = m.
Proof.
  induction m as [|m IH]; intros st Hrem Hrate.
  - exists st, []. cbn. repeat split; try lia; constructor.
  - cbn [rnd_run]. unfold rnd_call.
    assert (Hne : (d_rem st =? 0) = false) by lia. rewrite Hne.
    set (direct := (d_rem st =? 1) || (d_rate st <=? 0)).
    set (cur := if direct then d_rate st
                else if d_rate st <? rand (d_rands st) then d_rate st else rand (d_rands st)).
    assert (Hcur : 0 <= cur <= d_rate st).
    { unfold cur. destruct direct; [lia|]. pose proof (rand_nonneg (d_rands st)).
      destruct (d_rate st <? rand (d_rands st)) eqn:E; lia. }
    set (st2 := {| d_rate := d_rate st - cur; d_rem := d_rem st - 1; d_evals := d_evals st;
                   d_rands := if direct then d_rands st else S (d_rands st) |}).
    destruct (IH st2 ltac:(cbn; lia) ltac:(cbn; lia)) as (st' & os & Hrun & A & B & C & D & E & F).
    rewrite Hrun. exists st', ((if cur <? 1 then 0 else cur) :: os).
    split; [reflexivity|].
    cbn [d_rem d_rate d_evals st2] in *.
    assert (Hout : (if cur <? 1 then 0 else cur) = cur) by (destruct (cur <? 1) eqn:E1; lia).
    rewrite Hout, zsum_cons. cbn [length].
    split; [lia|]. split; [lia|]. split; [intros Hm0; lia|].
    split.
    { intros _. destruct m as [|m'].
      - (* last step: direct, emits the whole remainder *)
        assert (Hd : direct = true) by (unfold direct; lia).
        assert (Hc : cur = d_rate st) by (unfold cur; rewrite Hd; reflexivity).
        specialize (C eq_refl). cbn in Hrun. injection Hrun as <- <-.
        cbn [zsum fold_right d_rate] in *. lia.
      - destruct (D ltac:(lia)) as [D1 D2]. lia. }
    split; [constructor; [lia|exact E]|lia].
Qed.

Lemma rnd_cycle : forall st,
  d_rem st = 0 ->
  exists st' os, rnd_run N rate rand st n = Ok (st', os) /\
  d_rem st' = 0 /\ d_evals st' = S (d_evals st) /\
  zsum os = rate (d_evals st) /\ Forall (fun o => 0 <= o) os /\ length os = n.
Proof.
  intros st Hrem.
  set (st1 := {| d_rate := rate (d_evals st); d_rem := N; d_evals := S (d_evals st); d_rands := d_rands st |}).
  assert (Hsame : rnd_call N rate rand st = rnd_call N rate rand st1).
  { unfold rnd_call. rewrite Hrem. cbn [d_rem st1].
    replace (0 =? 0) with true by reflexivity.
    replace (N =? 0) with false by (unfold N; lia). reflexivity. }
  assert (exists m, n = S m) as [m Em] by (exists (Nat.pred n); lia).
  destruct (rnd_mid (S m) st1 ltac:(cbn; unfold N; lia) ltac:(cbn; apply rate_nonneg))
    as (st' & os & Hrun & A & B & C & D & E & F).
  exists st', os. rewrite Em.
  cbn [rnd_run] in *. rewrite Hsame. split; [exact Hrun|].
  cbn [d_evals d_rate st1] in *. destruct (D ltac:(lia)). repeat split; try lia; assumption.
Qed.

Lemma rnd_run_app : forall a b st,
  rnd_run N rate rand st (a + b) =
  match rnd_run N rate rand st a with
  | Ok (st1, os1) => match rnd_run N rate rand st1 b with
                     | Ok (st2, os2) => Ok (st2, os1 ++ os2)
                     | Err => Err | Crash => Crash end
  | Err => Err | Crash => Crash end.
Proof.
  induction a as [|a IH]; intros b st.
  - cbn. destruct (rnd_run N rate rand st b) as [[? ?]| |]; reflexivity.
  - cbn [rnd_run Nat.add]. destruct (rnd_call N rate rand st) as [[s1 o]| |]; try reflexivity.
    rewrite IH. destruct (rnd_run N rate rand s1 a) as [[s2 os1]| |]; try reflexivity.
    destruct (rnd_run N rate rand s2 b) as [[s3 os2]| |]; reflexivity.
Qed.

Lemma rnd_cycles : forall k st,
  d_rem st = 0 ->
  exists st' os, rnd_run N rate rand st (k * n) = Ok (st', os) /\
  d_rem st' = 0 /\ d_evals st' = (d_evals st + k)%nat /\
  length os = (k * n)%nat /\
  forall j, (j < k)%nat ->
    let c := firstn n (skipn (j * n) os) in
    zsum c = rate (d_evals st + j) /\ Forall (fun o => 0 <= o) c /\ length c = n.
Proof.
  induction k as [|k IH]; intros st Hrem.
  - exists st, []. cbn. repeat split; try lia; try assumption; try (intros; lia).
  - destruct (rnd_cycle st Hrem) as (s1 & os1 & H1 & A & B & C & D & E).
    destruct (IH s1 A) as (s2 & os2 & H2 & A2 & B2 & C2 & D2).
    exists s2, (os1 ++ os2).
    replace (S k * n)%nat with (n + k * n)%nat by lia.
    rewrite rnd_run_app, H1, H2.
    split; [reflexivity|]. split; [lia|]. split; [lia|]. split; [rewrite app_length; lia|].
    intros j Hj0. cbn zeta.
    { destruct j as [|j].
      * cbn [Nat.mul skipn]. rewrite (firstn_app_exact n os1 os2 E).
        rewrite Nat.add_0_r. tauto.
      * assert (Hj' : (j < k)%nat) by lia.
        specialize (D2 j Hj'). cbn zeta in D2.
        replace (S j * n)%nat with (n + j * n)%nat by lia.
        rewrite (skipn_app_exact n (j * n) os1 os2 E).
        rewrite B in D2.
        replace (d_evals st + S j)%nat with (S (d_evals st) + j)%nat by lia.
        exact D2. }
Qed.

End RandomDist.

(* ------------------------------------------------------------------ pass-through *)

Lemma pass_through k interval :
  k = DNone \/ (k <> DUnknown /\ interval <= ms100) ->
  new_distribution k interval = Ok (interval, Pass).
Proof.
  intros [->|[Hk Hle]]; [reflexivity|].
  destruct k; unfold new_distribution; try congruence; try reflexivity;
    destruct (Z.leb_spec interval ms100); try reflexivity; lia.
Qed.

Lemma pass_identity k interval rates rands calls :
  new_distribution k interval = Ok (interval, Pass) ->
  dist_run k interval rates rands calls =
  Ok (interval, map (oracle rates) (seq 0 calls), Z.of_nat calls).
Proof. intros H. unfold dist_run. rewrite H. reflexivity. Qed.

Lemma steps_positive interval :
  ms100 < interval -> 1 <= tick_steps interval.
Proof.
  unfold tick_steps, millis, ms100. intros H.
  assert (H0 : 0 <= interval) by lia.
  assert (H1 : 100 <= interval / 1000000) by (apply Z.div_le_lower_bound; lia).
  rewrite (Z.quot_div_nonneg interval 1000000) by lia.
  rewrite Z.quot_div_nonneg by lia.
  apply Z.div_le_lower_bound; lia.
Qed.

(* max - min <= 1 from the band *)
Lemma band_even N r (c : list Z) x y :
  Forall (fun o => r / N <= o <= r / N + 1) c -> In x c -> In y c -> x - y <= 1.
Proof.
  intros H Hx Hy. rewrite Forall_forall in H.
  pose proof (H x Hx). pose proof (H y Hy). lia.
Qed.
