(* C02: conservation of requested work, for every schedule. *)
From F1 Require Import Base.Prelude Model.Pool Proofs.PoolBase.
From Coq Require Import ZifyBool Lia.

Definition inhand (w : wpc) : Z := match w with W6 | W7 _ => 1 | _ => 0 end.
Definition pend_t (t : tpc) : Z := match t with T4 d _ | T5 d _ | T6 d _ => Z.max d 0 | _ => 0 end.
Definition pend_s (p : spc') : Z := match p with S4 d | S5 d | S6 d => Z.max d 0 | _ => 0 end.

Definition Cons (s : pstate) : Prop :=
  accepted s = started s + dropped s + pend_t (tick s) + pend_s (stopper s) + discarded s +
               sumw inhand (workers s) + Z.max (counter s) 0.

Lemma cons_init n m ticks : Cons (pinit n m ticks).
Proof. unfold Cons, pinit. psimpl. rewrite sumw_repeat by reflexivity. cbn. lia. Qed.

Lemma cons_step s l s' : Cons s -> pstep s l = Some s' -> Cons s'.
Proof.
  unfold Cons. intros I H.
  step_cases H; psimpl; rewrite ?Et, ?Est in *; cbn [pend_t pend_s] in *;
    rewrite ?(sumw_upd inhand _ _ _ _ En), ?(sumw_wake inhand eq_refl);
    try (rewrite (sumw_upd inhand _ _ _ _ (nth_wake _ _ _ En)), (sumw_wake inhand eq_refl));
    cbn [inhand wake]; try lia.
Qed.

Theorem cons_exec : forall ls s, Cons s -> Cons (pexec s ls).
Proof.
  induction ls as [|l ls IH]; intros s I; [exact I|].
  cbn [pexec fold_left]. destruct (pstep s l) as [s'|] eqn:E; [apply IH; eapply cons_step; eauto|apply IH; exact I].
Qed.
