(* Float layer of C11: the binary64 remainder carry of Calculator.For (rateWithRemainder :=
   rate + remainder; floor; remainder = rateWithRemainder - floor) is exact except for the one
   rounding of the addition: floor and subtraction introduce no error (Sterbenz). Hence over a
   whole run
        sum of outputs + final remainder = sum of rates + starting remainder + sum of e_k,
   with |e_k| <= 2^-53 * (rate_k + remainder_k) + 2^-1075, and 0 <= remainder < 1 throughout. *)
From Coq Require Import ZArith Reals Lia Lra Bool List.
From Flocq Require Import Core Relative Sterbenz IEEE754.BinarySingleNaN.
From F1 Require Import Base.Prelude Base.F64 Model.Gaussian Proofs.F64Facts Proofs.F64Close Proofs.JitterF64.
Import ListNotations.
Local Open Scope R_scope.

(* the tail of g_for *)
Definition fstep (x rem : f64) : f64 * Z :=
  let rwr := f_add x rem in let fl := f_floor rwr in (f_sub rwr fl, f_to_int fl).

Lemma g_for_fstep c table rem now r o :
  g_for c table rem now = Some (r, o) -> exists x, (r, o) = fstep x rem.
Proof.
  unfold g_for. destruct (lookup_pdf _ _) as [pdf|]; [|discriminate].
  intros H. injection H as <- <-. eexists. unfold fstep. reflexivity.
Qed.

Lemma format_rnd x : generic_format radix2 fexp64 (rnd x).
Proof. unfold rnd. apply generic_format_round; [exact fexp64_valid|apply valid_rnd_round_mode]. Qed.

Lemma frac_format s : generic_format radix2 fexp64 s -> 0 <= s <= IZR (2 ^ 53 - 1) ->
  generic_format radix2 fexp64 (s - IZR (Zfloor s)).
Proof.
  intros Fs Hs. pose proof (Zfloor_lb s) as Hl. pose proof (Zfloor_ub s) as Hu.
  assert (Hz0 : (0 <= Zfloor s)%Z) by (apply Zfloor_lub; simpl; lra).
  assert (Hz1 : (Zfloor s <= 2 ^ 53 - 1)%Z).
  { apply le_IZR. lra. }
  destruct (Z.eq_dec (Zfloor s) 0) as [E|E].
  - rewrite E. replace (s - 0) with s by ring. exact Fs.
  - assert (Hz : (1 <= Zfloor s)%Z) by lia. apply IZR_le in Hz.
    unfold fexp64 in *. change (SpecFloat.fexp prec emax) with (FLT_exp (SpecFloat.emin prec emax) prec) in *.
    apply sterbenz; [apply FLT_exp_valid; exact prec_gt_0_64|apply FLT_exp_monotone|exact Fs| |lra].
    change (FLT_exp (SpecFloat.emin prec emax) prec) with fexp64. apply format_Z. lia.
Qed.

Lemma fstep_R x rem :
  is_finite x = true -> is_finite rem = true ->
  0 <= B2R x <= IZR (2 ^ 52) -> 0 <= B2R rem < 1 ->
  let s := rnd (B2R x + B2R rem) in
  is_finite (fst (fstep x rem)) = true /\
  snd (fstep x rem) = Zfloor s /\
  B2R (fst (fstep x rem)) = s - IZR (Zfloor s) /\
  0 <= s.
Proof.
  intros Fx Fr Hx Hr s.
  assert (Hs0 : 0 <= s) by (unfold s; rewrite <- rnd_0; apply rnd_le; lra).
  assert (Hs1 : s <= IZR (2 ^ 52 + 1)).
  { unfold s. rewrite <- (rnd_Z (2 ^ 52 + 1)) by lia. apply rnd_le. rewrite plus_IZR. lra. }
  assert (Hsb : Rabs s < bpow radix2 emax).
  { apply small_lt_emax. rewrite Rabs_pos_eq by exact Hs0. eapply Rle_trans; [exact Hs1|]. apply IZR_le. lia. }
  destruct (f_add_R x rem Fx Fr Hsb) as [Fa Ra]. fold s in Ra.
  destruct (Bnearbyint_correct prec emax prec_lt_emax_64 mode_DN (f_add x rem)) as (Rf & Ff & _).
  rewrite Fa in Ff. rewrite Ra, round_FIX_IZR in Rf. cbn [round_mode] in Rf.
  pose proof (Zfloor_lb s) as Hl. pose proof (Zfloor_ub s) as Hu.
  assert (Hz0 : (0 <= Zfloor s)%Z) by (apply Zfloor_lub; simpl; lra).
  assert (Hz1 : (Zfloor s <= 2 ^ 52 + 1)%Z) by (apply le_IZR; lra).
  assert (Fd : generic_format radix2 fexp64 (s - IZR (Zfloor s))).
  { apply frac_format; [apply format_rnd|]. split; [exact Hs0|]. eapply Rle_trans; [exact Hs1|]. apply IZR_le. lia. }
  assert (Rd : rnd (s - IZR (Zfloor s)) = s - IZR (Zfloor s)).
  { unfold rnd. apply round_generic; [apply valid_rnd_round_mode|exact Fd]. }
  assert (Hdb : Rabs (rnd (B2R (f_add x rem) - B2R (f_floor (f_add x rem)))) < bpow radix2 emax).
  { unfold f_floor. rewrite Ra, Rf, Rd. apply small_lt_emax. rewrite Rabs_pos_eq by lra.
    apply Rle_trans with 1; [lra|]. apply IZR_le. lia. }
  unfold f_floor in Hdb.
  destruct (f_sub_R (f_add x rem) (Bnearbyint mode_DN (f_add x rem)) Fa Ff Hdb) as [Fs Rs].
  rewrite Ra, Rf, Rd in Rs.
  unfold fstep. cbn [fst snd]. unfold f_floor. repeat split; try assumption.
  unfold f_to_int. rewrite Ff, Btrunc_R, Rf, Ztrunc_IZR.
  assert (H1 : (Zfloor s <? 2 ^ 63)%Z = true) by (apply Z.ltb_lt; lia).
  assert (H2 : (min_int64 <=? Zfloor s)%Z = true) by (apply Z.leb_le; unfold min_int64; lia).
  rewrite H1, H2. reflexivity.
Qed.

(* the run: float rates in, outputs and final remainder out *)
Fixpoint frun (rem : f64) (xs : list f64) : list Z * f64 :=
  match xs with
  | [] => ([], rem)
  | x :: t => let '(rem', o) := fstep x rem in let '(os, f) := frun rem' t in (o :: os, f)
  end.

Definition rate_ok (x : f64) : Prop := is_finite x = true /\ 0 <= B2R x <= IZR (2 ^ 52).

Fixpoint fsumR (xs : list f64) : R := match xs with [] => 0 | x :: t => B2R x + fsumR t end.

(* sum of the error bounds of the additions: each at most u53 * (rate + 1) + eta *)
Fixpoint errb (xs : list f64) : R := match xs with [] => 0 | x :: t => (u53 * (B2R x + 1) + eta) + errb t end.

Theorem frun_sum xs : forall rem os f,
  Forall rate_ok xs -> is_finite rem = true -> 0 <= B2R rem < 1 ->
  frun rem xs = (os, f) ->
  is_finite f = true /\ 0 <= B2R f < 1 /\ Forall (fun o => (0 <= o)%Z) os /\ length os = length xs /\
  Rabs (IZR (zsum os) + B2R f - (fsumR xs + B2R rem)) <= errb xs.
Proof.
  induction xs as [|x t IH]; intros rem os f Hxs Fr Hr H; cbn [frun] in H.
  - injection H as <- <-. cbn. repeat split; try assumption; try lra. constructor.
    replace (0 + B2R rem - (0 + B2R rem)) with 0 by ring. rewrite Rabs_R0. lra.
  - inversion Hxs as [|? ? [Fx Hx] Ht]; subst.
    destruct (fstep x rem) as [rem' o] eqn:E.
    destruct (frun rem' t) as [os' f'] eqn:E2. injection H as <- <-.
    pose proof (fstep_R x rem Fx Fr Hx Hr) as S. rewrite E in S. cbn [fst snd] in S.
    set (s := rnd (B2R x + B2R rem)) in *. destruct S as (Fr' & Ho & Rr' & Hs0).
    pose proof (Zfloor_lb s) as Hl. pose proof (Zfloor_ub s) as Hu.
    destruct (IH rem' os' f' Ht Fr' ltac:(rewrite Rr'; lra) E2) as (Ff & Hf & Hos & Hlen & Hsum).
    repeat split; try assumption; try lra.
    + constructor; [|exact Hos]. rewrite Ho. apply Zfloor_lub. simpl. lra.
    + cbn [length]. rewrite Hlen. reflexivity.
    + rewrite zsum_cons, plus_IZR. cbn [fsumR errb]. rewrite Ho.
      pose proof (rnd_err (B2R x + B2R rem)) as Er. fold s in Er.
      rewrite (Rabs_pos_eq (B2R x + B2R rem)) in Er by lra.
      assert (Er' : Rabs (s - (B2R x + B2R rem)) <= u53 * (B2R x + 1) + eta).
      { eapply Rle_trans; [exact Er|]. assert (0 < u53) by (unfold u53; lra). nra. }
      rewrite Rr' in Hsum.
      replace (IZR (Zfloor s) + IZR (zsum os') + B2R f' - (B2R x + fsumR t + B2R rem))
        with ((IZR (zsum os') + B2R f' - (fsumR t + (s - IZR (Zfloor s)))) + (s - (B2R x + B2R rem))) by ring.
      eapply Rle_trans; [apply Rabs_triang|]. lra.
Qed.

(* ---------------------------------------------------------------- composition with the analysis layer *)
From Coquelicot Require Import Hierarchy RInt.
From F1 Require Import Proofs.GaussianReal Proofs.GaussianRiemann.

Lemma forall2_sum eps xs rs : 0 <= eps ->
  Forall2 (fun x r => Rabs (B2R x - r) <= eps * r) xs rs ->
  Rabs (fsumR xs - rsum rs) <= eps * rsum rs.
Proof.
  intros He H. induction H as [|x r xs rs Hx _ IH]; cbn [fsumR rsum fold_right].
  - rewrite Rminus_0_r, Rabs_R0. lra.
  - fold (rsum rs). replace (B2R x + fsumR xs - (r + rsum rs)) with ((B2R x - r) + (fsumR xs - rsum rs)) by ring.
    eapply Rle_trans; [apply Rabs_triang|]. lra.
Qed.

Lemma errb_nonneg xs : Forall rate_ok xs -> 0 <= errb xs.
Proof.
  induction 1 as [|x t [_ Hx] _ IH]; cbn [errb]; [lra|].
  assert (0 < u53) by (unfold u53; lra). assert (0 <= eta) by apply bpow_ge_0. nra.
Qed.

Theorem gaussian_volume_f64 mu sigma a h V n xs os f eps :
  0 < sigma -> 0 <= h -> 0 <= V -> 0 <= eps ->
  let mass := RInt (pdf_R mu sigma) a (a + INR n * h) in
  0 < mass ->
  Forall rate_ok xs ->
  Forall2 (fun x r => Rabs (B2R x - r) <= eps * r) xs (real_rates mu sigma a h V mass n) ->
  frun f_zero xs = (os, f) ->
  let disc := V * (h * pdf_R mu sigma mu / mass) in
  Rabs (IZR (zsum os) - V) <= 1 + errb xs + eps * (V + disc) + disc.
Proof.
  intros Hs Hh HV He mass Hm Hxs H2 Hrun disc.
  destruct (frun_sum xs f_zero os f Hxs eq_refl ltac:(cbn; lra) Hrun) as (_ & Hf & _ & _ & Hsum).
  change (B2R f_zero) with 0 in Hsum. rewrite Rplus_0_r in Hsum.
  (* sum of the real rates vs V *)
  pose proof (real_rates_sum mu sigma a h V mass n) as S.
  pose proof (gaussian_riemann mu sigma a h n Hs Hh) as G. fold mass in G. apply Rabs_le_inv in G.
  set (L := lsum (pdf_R mu sigma) a h n) in *. set (M := pdf_R mu sigma mu) in *.
  assert (Hi : 0 < / mass) by (apply Rinv_0_lt_compat; exact Hm).
  assert (E : V * L / mass = V + V * ((L - mass) / mass)) by (field; lra).
  assert (B1 : (L - mass) / mass <= h * M / mass) by (unfold Rdiv; apply Rmult_le_compat_r; lra).
  assert (B2 : - (h * M / mass) <= (L - mass) / mass).
  { replace (- (h * M / mass)) with ((- (h * M)) * / mass) by (unfold Rdiv; ring).
    unfold Rdiv. apply Rmult_le_compat_r; lra. }
  set (RS := rsum (real_rates mu sigma a h V mass n)) in *.
  assert (HRS : Rabs (RS - V) <= disc).
  { rewrite S, E. unfold disc. fold M. apply Rabs_le. split; nra. }
  pose proof (forall2_sum eps xs _ He H2) as F. fold RS in F.
  apply Rabs_le_inv in HRS. apply Rabs_le_inv in F. apply Rabs_le_inv in Hsum.
  pose proof (errb_nonneg xs Hxs) as Hen.
  apply Rabs_le. split; nra.
Qed.
