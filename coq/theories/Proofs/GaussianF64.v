(* Float layer of C11: the binary64 remainder carry of Calculator.For (rateWithRemainder :=
   rate + remainder; floor; remainder = rateWithRemainder - floor) is exact except for the one
   rounding of the addition: floor and subtraction introduce no error (Sterbenz). Hence over a
   whole run
        sum of outputs + final remainder = sum of rates + starting remainder + sum of e_k,
   with |e_k| <= 2^-53 * (rate_k + remainder_k) + 2^-1075, and 0 <= remainder < 1 throughout. *)
From Coq Require Import ZArith Reals Lia Lra Bool List.
From Flocq Require Import Core Relative Sterbenz IEEE754.BinarySingleNaN.
From F1 Require Import Base.Prelude Base.F64 Model.Gaussian Proofs.F64Facts Proofs.F64Close Proofs.JitterF64.
Import ListNotations.
Local Open Scope R_scope.

(* the tail of g_for *)
Definition fstep (x rem : f64) : f64 * Z :=
  let rwr := f_add x rem in let fl := f_floor rwr in (f_sub rwr fl, f_to_int fl).

Lemma g_for_fstep c table rem now r o :
  g_for c table rem now = Some (r, o) -> exists x, (r, o) = fstep x rem.
Proof.
  unfold g_for. destruct (lookup_pdf _ _) as [pdf|]; [|discriminate].
  intros H. injection H as <- <-. eexists. unfold fstep. reflexivity.
Qed.

Lemma format_rnd x : generic_format radix2 fexp64 (rnd x).
Proof. unfold rnd. apply generic_format_round; [exact fexp64_valid|apply valid_rnd_round_mode]. Qed.

Lemma frac_format s : generic_format radix2 fexp64 s -> 0 <= s <= IZR (2 ^ 53 - 1) ->
  generic_format radix2 fexp64 (s - IZR (Zfloor s)).
Proof.
  intros Fs Hs. pose proof (Zfloor_lb s) as Hl. pose proof (Zfloor_ub s) as Hu.
  assert (Hz0 : (0 <= Zfloor s)%Z) by (apply Zfloor_lub; simpl; lra).
  assert (Hz1 : (Zfloor s <= 2 ^ 53 - 1)%Z).
  { apply le_IZR. lra. }
  destruct (Z.eq_dec (Zfloor s) 0) as [E|E].
  - rewrite E. replace (s - 0) with s by ring. exact Fs.
  - assert (Hz : (1 <= Zfloor s)%Z) by lia. apply IZR_le in Hz.
    unfold fexp64 in *. change (SpecFloat.fexp prec emax) with (FLT_exp (SpecFloat.emin prec emax) prec) in *.
    apply sterbenz; [apply FLT_exp_valid; exact prec_gt_0_64|apply FLT_exp_monotone|exact Fs| |lra].
    change (FLT_exp (SpecFloat.emin prec emax) prec) with fexp64. apply format_Z. lia.
Qed.

Lemma fstep_R x rem :
  is_finite x = true -> is_finite rem = true ->
  0 <= B2R x <= IZR (2 ^ 52) -> 0 <= B2R rem < 1 ->
  let s := rnd (B2R x + B2R rem) in
  is_finite (fst (fstep x rem)) = true /\
  snd (fstep x rem) = Zfloor s /\
  B2R (fst (fstep x rem)) = s - IZR (Zfloor s) /\
  0 <= s.
Proof.
  intros Fx Fr Hx Hr s.
  assert (Hs0 : 0 <= s) by (unfold s; rewrite <- rnd_0; apply rnd_le; lra).
  assert (Hs1 : s <= IZR (2 ^ 52 + 1)).
  { unfold s. rewrite <- (rnd_Z (2 ^ 52 + 1)) by lia. apply rnd_le. rewrite plus_IZR. lra. }
  assert (Hsb : Rabs s < bpow radix2 emax).
  { apply small_lt_emax. rewrite Rabs_pos_eq by exact Hs0. eapply Rle_trans; [exact Hs1|]. apply IZR_le. lia. }
  destruct (f_add_R x rem Fx Fr Hsb) as [Fa Ra]. fold s in Ra.
  destruct (Bnearbyint_correct prec emax prec_lt_emax_64 mode_DN (f_add x rem)) as (Rf & Ff & _).
  rewrite Fa in Ff. rewrite Ra, round_FIX_IZR in Rf. cbn [round_mode] in Rf.
  pose proof (Zfloor_lb s) as Hl. pose proof (Zfloor_ub s) as Hu.
  assert (Hz0 : (0 <= Zfloor s)%Z) by (apply Zfloor_lub; simpl; lra).
  assert (Hz1 : (Zfloor s <= 2 ^ 52 + 1)%Z) by (apply le_IZR; lra).
  assert (Fd : generic_format radix2 fexp64 (s - IZR (Zfloor s))).
  { apply frac_format; [apply format_rnd|]. split; [exact Hs0|]. eapply Rle_trans; [exact Hs1|]. apply IZR_le. lia. }
  assert (Rd : rnd (s - IZR (Zfloor s)) = s - IZR (Zfloor s)).
  { unfold rnd. apply round_generic; [apply valid_rnd_round_mode|exact Fd]. }
  assert (Hdb : Rabs (rnd (B2R (f_add x rem) - B2R (f_floor (f_add x rem)))) < bpow radix2 emax).
  { unfold f_floor. rewrite Ra, Rf, Rd. apply small_lt_emax. rewrite Rabs_pos_eq by lra.
    apply Rle_trans with 1; [lra|]. apply IZR_le. lia. }
  unfold f_floor in Hdb.
  destruct (f_sub_R (f_add x rem) (Bnearbyint mode_DN (f_add x rem)) Fa Ff Hdb) as [Fs Rs].
  rewrite Ra, Rf, Rd in Rs.
  unfold fstep. cbn [fst snd]. unfold f_floor. repeat split; try assumption.
  unfold f_to_int. rewrite Ff, Btrunc_R, Rf, Ztrunc_IZR.
  assert (H1 : (Zfloor s <? 2 ^ 63)%Z = true) by (apply Z.ltb_lt; lia).
  assert (H2 : (min_int64 <=? Zfloor s)%Z = true) by (apply Z.leb_le; unfold min_int64; lia).
  rewrite H1, H2. reflexivity.
Qed.

(* the run: float rates in, outputs and final remainder out *)
Fixpoint frun (rem : f64) (xs : list f64) : list Z * f64 :=
  match xs with
  | [] => ([], rem)
  | x :: t => let '(rem', o) := fstep x rem in let '(os, f) := frun rem' t in (o :: os, f)
  end.

Definition rate_ok (x : f64) : Prop := is_finite x = true /\ 0 <= B2R x <= IZR (2 ^ 52).

Fixpoint fsumR (xs : list f64) : R := match xs with [] => 0 | x :: t => B2R x + fsumR t end.

(* sum of the error bounds of the additions: each at most u53 * (rate + 1) + eta *)
Fixpoint errb (xs : list f64) : R := match xs with [] => 0 | x :: t => (u53 * (B2R x + 1) + eta) + errb t end.

Theorem frun_sum xs : forall rem os f,
  Forall rate_ok xs -> is_finite rem = true -> 0 <= B2R rem < 1 ->
  frun rem xs = (os, f) ->
  is_finite f = true /\ 0 <= B2R f < 1 /\ Forall (fun o => (0 <= o)%Z) os /\ length os = length xs /\
  Rabs (IZR (zsum os) + B2R f - (fsumR xs + B2R rem)) <= errb xs.
Proof.
  induction xs as [|x t IH]; intros rem os f Hxs Fr Hr H; cbn [frun] in H.
  - injection H as <- <-. cbn. repeat split; try assumption; try lra. constructor.
    replace (0 + B2R rem - (0 + B2R rem)) with 0 by ring. rewrite Rabs_R0. lra.
  - inversion Hxs as [|? ? [Fx Hx] Ht]; subst.
    destruct (fstep x rem) as [rem' o] eqn:E.
    destruct (frun rem' t) as [os' f'] eqn:E2. injection H as <- <-.
    pose proof (fstep_R x rem Fx Fr Hx Hr) as S. rewrite E in S. cbn [fst snd] in S.
    set (s := rnd (B2R x + B2R rem)) in *. destruct S as (Fr' & Ho & Rr' & Hs0).
    pose proof (Zfloor_lb s) as Hl. pose proof (Zfloor_ub s) as Hu.
    destruct (IH rem' os' f' Ht Fr' ltac:(rewrite Rr'; lra) E2) as (Ff & Hf & Hos & Hlen & Hsum).
    repeat split; try assumption; try lra.
    + constructor; [|exact Hos]. rewrite Ho. apply Zfloor_lub. simpl. lra.
    + cbn [length]. rewrite Hlen. reflexivity.
    + rewrite zsum_cons, plus_IZR. cbn [fsumR errb]. rewrite Ho.
      pose proof (rnd_err (B2R x + B2R rem)) as Er. fold s in Er.
      rewrite (Rabs_pos_eq (B2R x + B2R rem)) in Er by lra.
      assert (Er' : Rabs (s - (B2R x + B2R rem)) <= u53 * (B2R x + 1) + eta).
      { eapply Rle_trans; [exact Er|]. assert (0 < u53) by (unfold u53; lra). nra. }
      rewrite Rr' in Hsum.
      replace (IZR (Zfloor s) + IZR (zsum os') + B2R f' - (B2R x + fsumR t + B2R rem))
        with ((IZR (zsum os') + B2R f' - (fsumR t + (s - IZR (Zfloor s)))) + (s - (B2R x + B2R rem))) by ring.
      eapply Rle_trans; [apply Rabs_triang|]. lra.
Qed.

(* ---------------------------------------------------------------- composition with the analysis layer *)
From Coquelicot Require Import Hierarchy RInt.
From F1 Require Import Proofs.GaussianReal Proofs.GaussianRiemann.

Lemma forall2_sum eps xs rs : 0 <= eps ->
  Forall2 (fun x r => Rabs (B2R x - r) <= eps * r) xs rs ->
  Rabs (fsumR xs - rsum rs) <= eps * rsum rs.
Proof.
  intros He H. induction H as [|x r xs rs Hx _ IH]; cbn [fsumR rsum fold_right].
  - rewrite Rminus_0_r, Rabs_R0. lra.
  - fold (rsum rs). replace (B2R x + fsumR xs - (r + rsum rs)) with ((B2R x - r) + (fsumR xs - rsum rs)) by ring.
    eapply Rle_trans; [apply Rabs_triang|]. lra.
Qed.

Lemma errb_nonneg xs : Forall rate_ok xs -> 0 <= errb xs.
Proof.
  induction 1 as [|x t [_ Hx] _ IH]; cbn [errb]; [lra|].
  assert (0 < u53) by (unfold u53; lra). assert (0 <= eta) by apply bpow_ge_0. nra.
Qed.

Theorem gaussian_volume_f64 mu sigma a h V n xs os f eps :
  0 < sigma -> 0 <= h -> 0 <= V -> 0 <= eps ->
  let mass := RInt (pdf_R mu sigma) a (a + INR n * h) in
  0 < mass ->
  Forall rate_ok xs ->
  Forall2 (fun x r => Rabs (B2R x - r) <= eps * r) xs (real_rates mu sigma a h V mass n) ->
  frun f_zero xs = (os, f) ->
  let disc := V * (h * pdf_R mu sigma mu / mass) in
  Rabs (IZR (zsum os) - V) <= 1 + errb xs + eps * (V + disc) + disc.
Proof.
  intros Hs Hh HV He mass Hm Hxs H2 Hrun disc.
  destruct (frun_sum xs f_zero os f Hxs eq_refl ltac:(cbn; lra) Hrun) as (_ & Hf & _ & _ & Hsum).
  change (B2R f_zero) with 0 in Hsum. rewrite Rplus_0_r in Hsum.
  (* sum of the real rates vs V *)
  pose proof (real_rates_sum mu sigma a h V mass n) as S.
  pose proof (gaussian_riemann mu sigma a h n Hs Hh) as G. fold mass in G. apply Rabs_le_inv in G.
  set (L := lsum (pdf_R mu sigma) a h n) in *. set (M := pdf_R mu sigma mu) in *.
  assert (Hi : 0 < / mass) by (apply Rinv_0_lt_compat; exact Hm).
  assert (E : V * L / mass = V + V * ((L - mass) / mass)) by (field; lra).
  assert (B1 : (L - mass) / mass <= h * M / mass) by (unfold Rdiv; apply Rmult_le_compat_r; lra).
  assert (B2 : - (h * M / mass) <= (L - mass) / mass).
  { replace (- (h * M / mass)) with ((- (h * M)) * / mass) by (unfold Rdiv; ring).
    unfold Rdiv. apply Rmult_le_compat_r; lra. }
  set (RS := rsum (real_rates mu sigma a h V mass n)) in *.
  assert (HRS : Rabs (RS - V) <= disc).
  { rewrite S, E. unfold disc. fold M. apply Rabs_le. split; nra. }
  pose proof (forall2_sum eps xs _ He H2) as F. fold RS in F.
  apply Rabs_le_inv in HRS. apply Rabs_le_inv in F. apply Rabs_le_inv in Hsum.
  pose proof (errb_nonneg xs Hxs) as Hen.
  apply Rabs_le. split; nra.
Qed.

(* ---------------------------------------------------------------- peak bound in the float layer *)

Local Open Scope R_scope.

(* one step emits floor(rate), floor(rate)+1, or - only when rate + remainder is rounded UP to
   the integer floor(rate)+2 - that integer *)
Lemma fstep_bounds x rem :
  is_finite x = true -> is_finite rem = true ->
  0 <= B2R x <= IZR (2 ^ 52) -> 0 <= B2R rem < 1 ->
  let o := snd (fstep x rem) in
  (Zfloor (B2R x) <= o <= Zfloor (B2R x) + 2)%Z /\
  (o = (Zfloor (B2R x) + 2)%Z -> rnd (B2R x + B2R rem) = IZR (Zfloor (B2R x) + 2) /\ B2R x + B2R rem < IZR (Zfloor (B2R x) + 2)).
Proof.
  intros Fx Fr Hx Hr o.
  destruct (fstep_R x rem Fx Fr Hx Hr) as (_ & Ho & _ & _). fold o in Ho.
  set (s := rnd (B2R x + B2R rem)) in *.
  pose proof (Zfloor_lb (B2R x)) as Hl. pose proof (Zfloor_ub (B2R x)) as Hu.
  assert (Hz0 : (0 <= Zfloor (B2R x))%Z) by (apply Zfloor_lub; simpl; lra).
  assert (Hz1 : (Zfloor (B2R x) <= 2 ^ 52)%Z) by (apply le_IZR; lra).
  set (N := (Zfloor (B2R x) + 2)%Z).
  assert (HN : B2R x + B2R rem < IZR N) by (unfold N; rewrite plus_IZR; lra).
  assert (Hs_lo : B2R x <= s).
  { unfold s. rewrite <- (rnd_float x) at 1. apply rnd_le. lra. }
  assert (Hs_hi : s <= IZR N).
  { unfold s. rewrite <- (rnd_Z N) by (unfold N; lia). apply rnd_le. lra. }
  assert (Lo : (Zfloor (B2R x) <= Zfloor s)%Z) by (apply Zfloor_le; exact Hs_lo).
  assert (Hi : (Zfloor s <= N)%Z) by (rewrite <- (Zfloor_IZR N); apply Zfloor_le; exact Hs_hi).
  rewrite Ho. split; [unfold N in Hi; lia|].
  intros E. split; [|exact HN].
  fold N in E. pose proof (Zfloor_lb s) as Hsl. rewrite E in Hsl. lra.
Qed.

(* ---- in fact the step never emits floor(rate)+2: rate + remainder is never rounded up to it *)

Notation FLT64 := (FLT_exp (SpecFloat.emin prec emax) prec).

Lemma fexp64_FLT : fexp64 = FLT64.
Proof. reflexivity. Qed.

Lemma format_float (f : f64) : generic_format radix2 fexp64 (B2R f).
Proof. apply generic_format_B2R. Qed.

Lemma format_one : generic_format radix2 fexp64 1.
Proof. change 1 with (IZR 1). apply format_Z. lia. Qed.

(* a float below 1 is at most 1 - 2^-53 *)
Lemma below_one (f : f64) : B2R f < 1 -> B2R f <= 1 - bpow radix2 (-53).
Proof.
  intros H.
  pose proof (pred_ge_gt radix2 fexp64 (B2R f) 1 (format_float f) format_one H) as P.
  change 1 with (bpow radix2 0) in P at 1. rewrite pred_bpow in P.
  change (fexp64 0) with (-53)%Z in P. change (bpow radix2 0) with 1 in P. exact P.
Qed.

Lemma not_rounded_up (x rem : f64) :
  0 <= B2R x <= IZR (2 ^ 52) -> 0 <= B2R rem < 1 ->
  ~ (rnd (B2R x + B2R rem) = IZR (Zfloor (B2R x) + 2)).
Proof.
  intros Hx Hr E.
  set (y := B2R x + B2R rem) in *.
  pose proof (Zfloor_lb (B2R x)) as Hl. pose proof (Zfloor_ub (B2R x)) as Hu.
  rewrite plus_IZR in E.
  pose proof (error_le_half_ulp radix2 fexp64 (fun z => negb (Z.even z)) y) as H.
  change (round radix2 fexp64 (Znearest (fun z : Z => negb (Z.even z))) y) with (rnd y) in H.
  rewrite E in H.
  assert (Hy : y < IZR (Zfloor (B2R x)) + 2) by (unfold y; lra).
  rewrite Rabs_pos_eq in H by lra.
  destruct (Rlt_le_dec (B2R x) 1) as [Hx1|Hx1].
  - (* rate below 1: floor is 0, the sum would have to be rounded up to 2 *)
    assert (Hz : Zfloor (B2R x) = 0%Z) by (apply Zfloor_imp; simpl; lra).
    rewrite Hz in *. simpl (IZR 0) in *.
    pose proof (below_one x Hx1) as Bx. pose proof (below_one rem ltac:(lra)) as Br.
    assert (U : ulp radix2 fexp64 y <= bpow radix2 (-52)).
    { destruct (Rlt_le_dec y 1) as [Hy1|Hy1].
      - (* below 1 the rounding is at most 1, not 2 *)
        exfalso. assert (rnd y <= 1) by (rewrite <- rnd_1; apply rnd_le; lra). lra.
      - rewrite ulp_neq_0 by lra. apply bpow_le. unfold cexp.
        assert (M : mag radix2 y = 1%Z :> Z).
        { apply mag_unique. rewrite Rabs_pos_eq by lra. simpl. lra. }
        rewrite M. reflexivity. }
    assert (P : bpow radix2 (-52) = 2 * bpow radix2 (-53)).
    { change (-52)%Z with (-53 + 1)%Z. rewrite bpow_plus. change (bpow radix2 1) with 2. ring. }
    assert (0 < bpow radix2 (-53)) by apply bpow_gt_0.
    unfold y in *. lra.
  - (* rate at least 1: ulp (sum) <= 2 ulp (rate) <= 2 (next integer - rate) *)
    assert (Hs : B2R x + ulp radix2 fexp64 (B2R x) <= IZR (Zfloor (B2R x)) + 1).
    { rewrite <- succ_eq_pos by lra. rewrite <- plus_IZR.
      apply succ_le_lt; [exact fexp64_valid|apply format_float|apply format_Z|rewrite plus_IZR; lra].
      assert (Zfloor (B2R x) <= 2 ^ 52)%Z by (apply le_IZR; lra).
      assert (0 <= Zfloor (B2R x))%Z by (apply Zfloor_lub; simpl; lra). lia. }
    assert (Hmag : (1 <= mag radix2 (B2R x))%Z).
    { apply mag_ge_bpow. rewrite Rabs_pos_eq by lra. change (bpow radix2 (1 - 1)) with 1. exact Hx1. }
    assert (U : ulp radix2 fexp64 y <= 2 * ulp radix2 fexp64 (B2R x)).
    { replace (2 * ulp radix2 fexp64 (B2R x)) with (ulp radix2 fexp64 (B2R x * bpow radix2 1)).
      - rewrite fexp64_FLT. apply ulp_le; [apply FLT_exp_valid; exact prec_gt_0_64|apply FLT_exp_monotone|].
        rewrite !Rabs_pos_eq; [|change (bpow radix2 1) with 2; lra|unfold y; lra].
        change (bpow radix2 1) with 2. unfold y. lra.
      - rewrite fexp64_FLT. rewrite ulp_FLT_exact_shift.
        + change (bpow radix2 1) with 2. ring.
        + lra.
        + change (SpecFloat.emin prec emax + prec)%Z with (-1021)%Z. lia.
        + change (SpecFloat.emin prec emax + prec)%Z with (-1021)%Z. lia. }
    unfold y in *. lra.
Qed.

Theorem fstep_upper x rem :
  is_finite x = true -> is_finite rem = true ->
  0 <= B2R x <= IZR (2 ^ 52) -> 0 <= B2R rem < 1 ->
  (Zfloor (B2R x) <= snd (fstep x rem) <= Zfloor (B2R x) + 1)%Z.
Proof.
  intros Fx Fr Hx Hr.
  destruct (fstep_bounds x rem Fx Fr Hx Hr) as [[B1 B2] B3].
  destruct (Z.eq_dec (snd (fstep x rem)) (Zfloor (B2R x) + 2)) as [E|E]; [|lia].
  exfalso. apply (not_rounded_up x rem Hx Hr). apply B3. exact E.
Qed.

(* the property's own bound, in the float layer: a tick whose float rate is not above the peak
   tick's emits at most one more than the peak tick *)
Theorem peak_f64_one xk remk xp remp :
  is_finite xk = true -> is_finite remk = true -> is_finite xp = true -> is_finite remp = true ->
  0 <= B2R xk <= IZR (2 ^ 52) -> 0 <= B2R xp <= IZR (2 ^ 52) -> 0 <= B2R remk < 1 -> 0 <= B2R remp < 1 ->
  B2R xk <= B2R xp ->
  (snd (fstep xk remk) <= snd (fstep xp remp) + 1)%Z.
Proof.
  intros Fk Frk Fp Frp Hk Hp Hrk Hrp Hle.
  pose proof (fstep_upper xk remk Fk Frk Hk Hrk) as K. pose proof (fstep_upper xp remp Fp Frp Hp Hrp) as P.
  assert (M : (Zfloor (B2R xk) <= Zfloor (B2R xp))%Z) by (apply Zfloor_le; exact Hle). lia.
Qed.
