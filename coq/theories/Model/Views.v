(* C19 — model of internal/run/views: the progress line, the result summary
   (with and without terminal colours), the exit lines, and the structured
   iteration_stats group, as byte strings. *)
From Coq Require Import String.
From F1 Require Import Base.Prelude Base.F64 Base.GoStr Base.Fmt.

Definition esc (code : string) : str := 27 :: 91 :: s_of code ++ [109].   (* ESC [ code m *)

Record palette := { c_reset : str; c_u : str; c_bold : str; c_cyan : str; c_yellow : str; c_red : str;
                    c_green : str; c_lblack : str }.
Definition colours (on : bool) : palette :=
  if on then {| c_reset := esc "0"; c_u := esc "4"; c_bold := esc "1"; c_cyan := esc "36"; c_yellow := esc "33";
                c_red := esc "31"; c_green := esc "32"; c_lblack := esc "90" |}
  else {| c_reset := []; c_u := []; c_bold := []; c_cyan := []; c_yellow := []; c_red := []; c_green := []; c_lblack := [] |}.

Definition check_mark : str := [226; 156; 148].   (* U+2714 *)
Definition drop_mark : str := [226; 166; 184].    (* U+29B8 *)
Definition cross_mark : str := [226; 156; 152].   (* U+2718 *)

(* IterationDurationsSnapshot: avg, count, min, max *)
Record dsnap := { ds_avg : Z; ds_cnt : Z; ds_min : Z; ds_max : Z }.
Definition dsnap_string (d : dsnap) : str :=
  s_of "avg: " ++ duration_string (ds_avg d) ++ s_of ", min: " ++ duration_string (ds_min d) ++
  s_of ", max: " ++ duration_string (ds_max d).

(* template function "rate" *)
Definition rate_fn (duration count : Z) : Z :=
  let secs := duration_seconds (duration_round duration sec) in
  if f_eq secs f_zero then 0
  else f_to_uint64 (f_round (f_div (f_of_Z count) secs)).

(* template function "percent" piped into printf "%0.2f" *)
Definition percent_str (val total : Z) : str :=
  fmt_f2 (f_div (f_mul (f_of_Z 100) (f_of_Z val)) (f_of_Z total)).

Definition time_tag (c : palette) (d : Z) : str :=
  c_cyan c ++ [91] ++ pad_left 5 (duration_string (duration_round d sec)) ++ [93].

Record progress_data := {
  pd_period_stats : dsnap; pd_duration : Z; pd_succ : Z; pd_drop : Z; pd_fail : Z; pd_period : Z }.

Definition render_progress (on : bool) (p : progress_data) : str :=
  let c := colours on in
  time_tag c (pd_duration p) ++ c_reset c ++ s_of "  " ++
  c_green c ++ check_mark ++ s_of " " ++ pad_left 5 (itoa (pd_succ p)) ++ c_reset c ++ s_of "  " ++
  (if pd_drop p =? 0 then []
   else c_yellow c ++ drop_mark ++ s_of " " ++ pad_left 5 (itoa (pd_drop p)) ++ c_reset c ++ s_of "  ") ++
  c_red c ++ cross_mark ++ s_of " " ++ pad_left 5 (itoa (pd_fail p)) ++ c_reset c ++ s_of " " ++
  c_lblack c ++ s_of "(" ++ itoa (rate_fn (pd_period p) (ds_cnt (pd_period_stats p))) ++ s_of "/s)" ++ c_reset c ++
  s_of "   " ++ dsnap_string (pd_period_stats p).

Record result_data := {
  rd_error : option str; rd_logfile : str; rd_succ_stats : dsnap; rd_fail_stats : dsnap;
  rd_started : Z; rd_duration : Z; rd_succ : Z; rd_iterations : Z; rd_fail : Z; rd_drop : Z; rd_failed : bool }.

Definition nl : str := [10].

Definition render_result (on : bool) (r : result_data) : str :=
  let c := colours on in
  nl ++
  (if rd_failed r then c_red c ++ c_bold c ++ c_u c ++ s_of "Load Test Failed" ++ c_reset c
   else c_green c ++ c_bold c ++ c_u c ++ s_of "Load Test Passed" ++ c_reset c) ++
  (match rd_error r with
   | Some e => nl ++ c_red c ++ s_of "Error: " ++ e ++ c_reset c
   | None => []
   end) ++
  nl ++ itoa (rd_started r) ++ s_of " iterations started in " ++ duration_string (rd_duration r) ++
  s_of " (" ++ itoa (rate_fn (rd_duration r) (rd_started r)) ++ s_of "/second)" ++
  (if rd_succ r =? 0 then []
   else nl ++ c_bold c ++ s_of "Successful Iterations:" ++ c_reset c ++ s_of " " ++ c_green c ++ itoa (rd_succ r) ++
        s_of " (" ++ percent_str (rd_succ r) (rd_iterations r) ++ s_of "%, " ++
        itoa (rate_fn (rd_duration r) (rd_succ r)) ++ s_of "/second)" ++ c_reset c ++ s_of " " ++
        dsnap_string (rd_succ_stats r)) ++
  (if rd_fail r =? 0 then []
   else nl ++ c_bold c ++ s_of "Failed Iterations:" ++ c_reset c ++ s_of " " ++ c_red c ++ itoa (rd_fail r) ++
        s_of " (" ++ percent_str (rd_fail r) (rd_iterations r) ++ s_of "%, " ++
        itoa (rate_fn (rd_duration r) (rd_fail r)) ++ s_of ")" ++ c_reset c ++ s_of " " ++
        dsnap_string (rd_fail_stats r)) ++
  (if rd_drop r =? 0 then []
   else nl ++ c_bold c ++ s_of "Dropped Iterations:" ++ c_reset c ++ s_of " " ++ c_yellow c ++ itoa (rd_drop r) ++
        s_of " (" ++ percent_str (rd_drop r) (rd_iterations r) ++ s_of "%, " ++
        itoa (rate_fn (rd_duration r) (rd_drop r)) ++ s_of ")" ++ c_reset c ++
        s_of " (consider increasing --concurrency setting)") ++
  nl ++ c_bold c ++ s_of "Full logs:" ++ c_reset c ++ s_of " " ++ rd_logfile r ++ nl.

(* timeout / max-iterations / interrupt lines *)
Definition render_exit (on : bool) (kind d : Z) : str :=
  let c := colours on in
  time_tag c d ++ s_of "  " ++
  (if kind =? 0 then s_of "Max Duration Elapsed"
   else if kind =? 1 then s_of "Max Iterations Reached" else s_of "Interrupted") ++
  s_of " - waiting for active tests to complete" ++ c_reset c.

(* setup / teardown lines *)
Definition render_stage (on : bool) (teardown : bool) (err : option str) : str :=
  let c := colours on in
  c_cyan c ++ (if teardown then s_of "[Teardown]" else s_of "[Setup]") ++ c_reset c ++
  (if teardown then s_of " " else s_of "    ") ++
  match err with
  | Some e => c_red c ++ cross_mark ++ s_of " " ++ e ++ c_reset c
  | None => c_green c ++ check_mark ++ c_reset c
  end.

(* structured log: the message and the iteration_stats group
   (started, successful, failed, dropped, period) *)
Definition stats_group (started succ fail drop period : Z) : list Z :=
  [(if started =? 0 then succ + fail + drop else started); succ; fail; drop; period].

Definition log_progress (p : progress_data) : list Z :=
  stats_group 0 (pd_succ p) (pd_fail p) (pd_drop p) (pd_period p).

Definition log_result (r : result_data) : bool * bool * list Z :=
  (rd_failed r, match rd_error r with Some _ => rd_failed r | None => false end,
   stats_group (rd_started r) (rd_succ r) (rd_fail r) (rd_drop r) (rd_duration r)).

(* ---------------------------------------------------------------- reading the numbers back *)

(* the number that follows a marker in a rendered line: skip spaces, read digits *)
Fixpoint skip_spaces (s : str) : str :=
  match s with 32 :: r => skip_spaces r | _ => s end.
Fixpoint read_digits (s : str) (acc : option Z) : option Z * str :=
  match s with
  | c :: r => if is_digit c then read_digits r (Some (match acc with Some a => a * 10 + (c - 48) | None => c - 48 end))
              else (acc, s)
  | [] => (acc, [])
  end.

Fixpoint find_after (marker : str) (fuel : nat) (s : str) : option str :=
  match fuel with
  | O => None
  | S f =>
    if str_eqb (firstn (length marker) s) marker then Some (skipn (length marker) s)
    else match s with [] => None | _ :: r => find_after marker f r end
  end.

Definition number_after (marker : str) (s : str) : option Z :=
  match find_after marker (S (length s)) s with
  | Some rest => fst (read_digits (skip_spaces rest) None)
  | None => None
  end.

(* counts stated by a progress line rendered without colours, read left to
   right: the number after the check mark, the number after the drop mark if
   there is one, the number after the cross mark *)
Definition read_after (marker : str) (s : str) : option (option Z * str) :=
  match find_after marker (S (length s)) s with
  | Some rest => Some (read_digits (skip_spaces rest) None)
  | None => None
  end.

Definition read_progress (line : str) : option (option Z * option Z * option Z) :=
  match read_after check_mark line with
  | None => None
  | Some (succ, r2) =>
    let '(drop, r3) := match read_after drop_mark r2 with
                       | Some (d, r') => (d, r')
                       | None => (None, r2)
                       end in
    let fail := match read_after cross_mark r3 with Some (f, _) => f | None => None end in
    Some (succ, drop, fail)
  end.
