(* C12 — model of internal/trigger/api/iteration_distribution.go.

   NewDistribution(kind, interval, rateFn, randFn) returns a new tick interval
   and a stateful rate function. The underlying rate function and the random
   source are oracles: the k-th evaluation of the underlying rate returns
   [rate k], the k-th call of the random source returns [rnd k] (whatever its
   argument: the code clamps the value itself). *)
From F1 Require Import Base.Prelude Base.F64.

Inductive dkind := DNone | DRegular | DRandom | DUnknown.

Inductive dmode := Pass | Regular (N : Z) | Random (N : Z).

Definition ms100 : Z := 100 * 1000000.     (* 100 * time.Millisecond in ns *)

(* Duration.Milliseconds(): truncated division of the nanoseconds by 1e6 *)
Definition millis (d : Z) : Z := Z.quot d 1000000.

(* tickSteps := int(iterationDuration.Milliseconds() / 100) *)
Definition tick_steps (interval : Z) : Z := Z.quot (millis interval) 100.

(* NewDistribution: (new interval, mode) or an error for an unknown kind. *)
Definition new_distribution (k : dkind) (interval : Z) : res (Z * dmode) :=
  match k with
  | DNone => Ok (interval, Pass)
  | DRegular => if interval <=? ms100 then Ok (interval, Pass)
                else Ok (ms100, Regular (tick_steps interval))
  | DRandom => if interval <=? ms100 then Ok (interval, Pass)
               else Ok (ms100, Random (tick_steps interval))
  | DUnknown => Err
  end.

(* ---------------------------------------------------------------- regular *)

(* State of the closure returned by withRegularDistribution (integer carry,
   the code after the fix: commit). evals counts the evaluations of the
   underlying rate function. *)
Record reg := { r_rate : Z; r_acc : Z; r_rem : Z; r_evals : nat }.

Definition reg_init : reg := {| r_rate := 0; r_acc := 0; r_rem := 0; r_evals := 0 |}.

Definition reg_call (N : Z) (rate : nat -> Z) (st : reg) : reg * Z :=
  let st1 := if r_rem st =? 0
             then {| r_rate := rate (r_evals st); r_acc := 0; r_rem := N; r_evals := S (r_evals st) |}
             else st in
  let acc := r_acc st1 + r_rate st1 in
  let rem := r_rem st1 - 1 in
  if acc <? N
  then ({| r_rate := r_rate st1; r_acc := acc; r_rem := rem; r_evals := r_evals st1 |}, 0)
  else let cur := Z.quot acc N in
       ({| r_rate := r_rate st1; r_acc := acc - cur * N; r_rem := rem; r_evals := r_evals st1 |}, cur).

Fixpoint reg_run (N : Z) (rate : nat -> Z) (st : reg) (calls : nat) : reg * list Z :=
  match calls with
  | O => (st, [])
  | S k => let '(st1, o) := reg_call N rate st in
           let '(st2, os) := reg_run N rate st1 k in
           (st2, o :: os)
  end.

(* ---------------------------------------------------------------- random *)

Record rnd := { d_rate : Z; d_rem : Z; d_evals : nat; d_rands : nat }.

Definition rnd_init : rnd := {| d_rate := 0; d_rem := 0; d_evals := 0; d_rands := 0 |}.

(* The random source is only consulted for a positive remaining rate (a
   non-positive one is emitted directly, as the last step's remainder is), so
   rand.Intn's panic for n <= 0 is unreachable. *)
Definition rnd_call (N : Z) (rate : nat -> Z) (rand : nat -> Z) (st : rnd) : res (rnd * Z) :=
  let st1 := if d_rem st =? 0
             then {| d_rate := rate (d_evals st); d_rem := N; d_evals := S (d_evals st); d_rands := d_rands st |}
             else st in
  let direct := (d_rem st1 =? 1) || (d_rate st1 <=? 0) in
  let cur := if direct then d_rate st1
             else let c := rand (d_rands st1) in
                  if d_rate st1 <? c then d_rate st1 else c in
  let st2 := {| d_rate := d_rate st1 - cur; d_rem := d_rem st1 - 1; d_evals := d_evals st1;
                d_rands := if direct then d_rands st1 else S (d_rands st1) |} in
  Ok (st2, if cur <? 1 then 0 else cur).

Fixpoint rnd_run (N : Z) (rate : nat -> Z) (rand : nat -> Z) (st : rnd) (calls : nat)
  : res (rnd * list Z) :=
  match calls with
  | O => Ok (st, [])
  | S k => match rnd_call N rate rand st with
           | Ok (st1, o) =>
             match rnd_run N rate rand st1 k with
             | Ok (st2, os) => Ok (st2, o :: os)
             | Err => Err | Crash => Crash
             end
           | Err => Err | Crash => Crash
           end
  end.

(* ---------------------------------------------------------------- whole *)

Definition oracle (l : list Z) : nat -> Z := fun k => nth k l 0.

(* What the harness observes: the new interval, the outputs of [calls]
   consecutive calls and the number of evaluations of the underlying rate. *)
Definition dist_run (k : dkind) (interval : Z) (rates rands : list Z) (calls : nat)
  : res (Z * list Z * Z) :=
  match new_distribution k interval with
  | Ok (iv, Pass) => Ok (iv, map (oracle rates) (seq 0 calls), Z.of_nat calls)
  | Ok (iv, Regular N) =>
    let '(st, os) := reg_run N (oracle rates) reg_init calls in
    Ok (iv, os, Z.of_nat (r_evals st))
  | Ok (iv, Random N) =>
    match rnd_run N (oracle rates) (oracle rands) rnd_init calls with
    | Ok (st, os) => Ok (iv, os, Z.of_nat (d_evals st))
    | Err => Err | Crash => Crash
    end
  | Err => Err | Crash => Crash
  end.

(* ---------------------------------------------------------------- pinned *)

(* The regular stepper as pinned: a float accumulator rounded up at 1e-7. *)
Record preg := { p_rate : Z; p_acc : f64; p_rem : Z; p_evals : nat }.
Definition preg_init : preg := {| p_rate := 0; p_acc := f_zero; p_rem := 0; p_evals := 0 |}.

Definition f_1e7 : f64 := f_of_Z 10000000.

Definition preg_call (N : Z) (rate : nat -> Z) (st : preg) : preg * Z :=
  let st1 := if p_rem st =? 0
             then {| p_rate := rate (p_evals st); p_acc := f_zero; p_rem := N; p_evals := S (p_evals st) |}
             else st in
  let a1 := f_add (p_acc st1) (f_div (f_of_Z (p_rate st1)) (f_of_Z N)) in
  let a2 := f_div (f_ceil (f_mul a1 f_1e7)) f_1e7 in
  let rem := p_rem st1 - 1 in
  if f_lt a2 f_one
  then ({| p_rate := p_rate st1; p_acc := a2; p_rem := rem; p_evals := p_evals st1 |}, 0)
  else let r := f_to_int a2 in
       ({| p_rate := p_rate st1; p_acc := f_sub a2 (f_of_Z r); p_rem := rem; p_evals := p_evals st1 |}, r).

Fixpoint preg_run (N : Z) (rate : nat -> Z) (st : preg) (calls : nat) : preg * list Z :=
  match calls with
  | O => (st, [])
  | S k => let '(st1, o) := preg_call N rate st in
           let '(st2, os) := preg_run N rate st1 k in
           (st2, o :: os)
  end.

(* Sum of one full cycle of the pinned stepper for a constant rate, computed
   without building the list (N can be in the millions). *)
Fixpoint preg_sum (N : Z) (rate : nat -> Z) (st : preg) (calls : nat) (acc : Z) : Z :=
  match calls with
  | O => acc
  | S k => let '(st1, o) := preg_call N rate st in preg_sum N rate st1 k (acc + o)
  end.

(* ---------------------------------------------------------------- oracle predicate *)

(* The property itself as an executable predicate on observed outputs
   (used by the search stage when implementation and model disagree):
   given the cycle length N, the underlying rates and the observed outputs of
   whole cycles, every cycle sums to its rate, is non-negative and, for the
   regular kind, even. *)
Fixpoint chunks (n : nat) (fuel : nat) (l : list Z) : list (list Z) :=
  match fuel with
  | O => []
  | S f => match l with
           | [] => []
           | _ => firstn n l :: chunks n f (skipn n l)
           end
  end.

Definition zmin_list (l : list Z) : Z :=
  match l with [] => 0 | x :: r => fold_right Z.min x r end.
Definition zmax_list' (l : list Z) : Z :=
  match l with [] => 0 | x :: r => fold_right Z.max x r end.

Definition cycle_ok (even : bool) (rate : Z) (c : list Z) : bool :=
  (zsum c =? rate) && forallb (fun x => 0 <=? x) c &&
  (negb even || (zmax_list' c - zmin_list c <=? 1)).

Fixpoint cycles_ok (even : bool) (rates : list Z) (cs : list (list Z)) : bool :=
  match cs, rates with
  | [], _ => true
  | c :: cs', r :: rates' => cycle_ok even r c && cycles_ok even rates' cs'
  | c :: cs', [] => cycle_ok even 0 c && cycles_ok even [] cs'   (* the scripted oracle yields 0 beyond its list *)
  end.

Definition dist_ok (k : dkind) (interval : Z) (rates : list Z) (calls : nat)
           (iv' : Z) (outs : list Z) (evals : Z) : bool :=
  (* negative rates are outside the property's quantifier (only crash-freedom is required there) *)
  if existsb (fun r => r <? 0) rates then true else
  match new_distribution k interval with
  | Ok (iv, Pass) => (iv' =? iv) && (evals =? Z.of_nat calls) &&
                     (if list_eq_dec Z.eq_dec outs (map (oracle rates) (seq 0 calls)) then true else false)
  | Ok (iv, Regular N) | Ok (iv, Random N) =>
    let even := match k with DRegular => true | _ => false end in
    let n := Z.to_nat N in
    let full := (calls / n * n)%nat in
    (iv' =? iv) &&
    (evals =? Z.of_nat ((calls + n - 1) / n)) &&
    (Nat.eqb (length outs) calls) &&
    cycles_ok even rates (chunks n (S calls) (firstn full outs)) &&
    forallb (fun x => 0 <=? x) outs
  | _ => false
  end.
