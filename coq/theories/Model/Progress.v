(* C17 (sequential aggregates) and C01 (concurrent counting) — model of
   internal/progress/average.go and stats.go. *)
From F1 Require Import Base.Prelude.

(* ================================================================ sequential *)

(* IterationDurations: four atomics, read here sequentially. *)
Record acc := { a_sum : Z; a_cnt : Z; a_min : Z; a_max : Z }.
Definition acc0 : acc := {| a_sum := 0; a_cnt := 0; a_min := 0; a_max := 0 |}.

(* Add *)
Definition acc_add (a : acc) (ns : Z) : acc :=
  {| a_sum := a_sum a + ns;
     a_cnt := a_cnt a + 1;
     a_min := if (a_min a =? 0) || (ns <? a_min a) then ns else a_min a;
     a_max := if a_max a <? ns then ns else a_max a |}.

(* Snapshot: (Average, Count, Min, Max); Go's int64 division truncates *)
Definition acc_snapshot (a : acc) : Z * Z * Z * Z :=
  (if a_cnt a =? 0 then 0 else Z.quot (a_sum a) (a_cnt a), a_cnt a, a_min a, a_max a).

(* Update(other) *)
Definition acc_update (i o : acc) : acc :=
  {| a_sum := a_sum i + a_sum o;
     a_cnt := a_cnt i + a_cnt o;
     a_min := if (a_min i =? 0) || ((a_min o <? a_min i) && (0 <? a_min o)) then a_min o else a_min i;
     a_max := if a_max i <? a_max o then a_max o else a_max i |}.

(* DurationStats = running + lifetime; CollectLifetime drains running into
   lifetime and returns (period snapshot, lifetime snapshot). *)
Record dstats := { d_run : acc; d_life : acc }.
Definition dstats0 : dstats := {| d_run := acc0; d_life := acc0 |}.

Definition ds_record (d : dstats) (ns : Z) : dstats :=
  {| d_run := acc_add (d_run d) ns; d_life := d_life d |}.

Definition ds_collect (d : dstats) : dstats * (Z * Z * Z * Z) * (Z * Z * Z * Z) :=
  let life := acc_update (d_life d) (d_run d) in
  ({| d_run := acc0; d_life := life |}, acc_snapshot (d_run d), acc_snapshot life).

(* Stats *)
Record stats := { st_s : dstats; st_f : dstats; st_d : Z }.
Definition stats0 : stats := {| st_s := dstats0; st_f := dstats0; st_d := 0 |}.

Inductive outcome := OSucc | OFail | ODrop | OUnknown.

Definition stats_record (s : stats) (o : outcome) (ns : Z) : stats :=
  match o with
  | OSucc => {| st_s := ds_record (st_s s) ns; st_f := st_f s; st_d := st_d s |}
  | OFail => {| st_s := st_s s; st_f := ds_record (st_f s) ns; st_d := st_d s |}
  | ODrop => {| st_s := st_s s; st_f := st_f s; st_d := st_d s + 1 |}
  | OUnknown => s
  end.

(* A snapshot as observed: dropped, period(success), lifetime(success), lifetime(failed) *)
Definition snap := (Z * (Z * Z * Z * Z) * (Z * Z * Z * Z) * (Z * Z * Z * Z))%type.

(* Stats.Snapshot and Stats.Total collect both outcome kinds; Total reports
   an empty period. *)
Definition stats_collect (s : stats) (total : bool) : stats * snap :=
  let '(ds, ps, ls) := ds_collect (st_s s) in
  let '(df, _, lf) := ds_collect (st_f s) in
  ({| st_s := ds; st_f := df; st_d := st_d s |},
   (st_d s, (if total then (0, 0, 0, 0) else ps), ls, lf)).

Inductive sop := SRecord (o : outcome) (ns : Z) | SSnapshot | STotal.

Fixpoint stats_run (s : stats) (ops : list sop) : list snap :=
  match ops with
  | [] => []
  | SRecord o ns :: r => stats_run (stats_record s o ns) r
  | SSnapshot :: r => let '(s', sn) := stats_collect s false in sn :: stats_run s' r
  | STotal :: r => let '(s', sn) := stats_collect s true in sn :: stats_run s' r
  end.

(* Reference aggregate of a list of durations: (mean, count, min, max) *)
Definition lmin (l : list Z) : Z := match l with [] => 0 | x :: r => fold_left Z.min r x end.
Definition lmax (l : list Z) : Z := match l with [] => 0 | x :: r => fold_left Z.max r x end.
Definition agg (l : list Z) : Z * Z * Z * Z :=
  (match l with [] => 0 | _ => Z.quot (zsum l) (Z.of_nat (length l)) end,
   Z.of_nat (length l), lmin l, lmax l).

(* Reference for a whole op sequence: what each snapshot must report, computed
   from the history alone. *)
Fixpoint ref_run (all_s period_s all_f : list Z) (d : Z) (ops : list sop) : list snap :=
  match ops with
  | [] => []
  | SRecord OSucc ns :: r => ref_run (all_s ++ [ns]) (period_s ++ [ns]) all_f d r
  | SRecord OFail ns :: r => ref_run all_s period_s (all_f ++ [ns]) d r
  | SRecord ODrop _ :: r => ref_run all_s period_s all_f (d + 1) r
  | SRecord OUnknown _ :: r => ref_run all_s period_s all_f d r
  | SSnapshot :: r => (d, agg period_s, agg all_s, agg all_f) :: ref_run all_s [] all_f d r
  | STotal :: r => (d, (0, 0, 0, 0), agg all_s, agg all_f) :: ref_run all_s [] all_f d r
  end.

(* ================================================================ concurrent *)

(* Counting core of C01. One step per sync/atomic operation that touches a
   count, per metric observation, per lock operation. sum/min/max do not
   influence counts and are left to the sequential model. *)
Inductive kind := KS | KF | KD.   (* success, failed, dropped *)

Record shared := {
  run_s : Z; life_s : Z; run_f : Z; life_f : Z; drp : Z;    (* progress.Stats *)
  met_s : Z; met_f : Z; met_d : Z;                           (* Prometheus sample counts *)
  lock : bool;                                               (* Result.mu (writer side) *)
  cnt_s : Z; cnt_f : Z; cnt_d : Z                            (* ghost: count operations executed *)
}.

Definition shared0 : shared :=
  {| run_s := 0; life_s := 0; run_f := 0; life_f := 0; drp := 0; met_s := 0; met_f := 0; met_d := 0;
     lock := false; cnt_s := 0; cnt_f := 0; cnt_d := 0 |}.

(* A recorder thread: for each outcome, Observe on the metric, then the
   count operation of progress.Stats.Record. *)
Inductive rpc := RObserve (todo : list kind) | RCount (k : kind) (rest : list kind).

(* A collector thread runs n times: Lock; CollectLifetime(success);
   CollectLifetime(failed); dropped.Load; store snapshot; Unlock. *)
Inductive cpc :=
| CLock (n : nat)
| CSwapS (n : nat)
| CAddS (n : nat) (h : Z)
| CResetS (n : nat)                 (* pinned code only *)
| CLoadS (n : nat)
| CSwapF (n : nat) (ls : Z)
| CAddF (n : nat) (ls h : Z)
| CResetF (n : nat) (ls : Z)        (* pinned code only *)
| CLoadF (n : nat) (ls : Z)
| CLoadD (n : nat) (ls lf : Z)
| CUnlock (n : nat) (ls lf d : Z).

Record state := {
  sh : shared;
  recs : list rpc;
  cols : list cpc;                  (* periodic snapshotters *)
  fin : cpc;                        (* the final GetTotals, once *)
  result : option (Z * Z * Z)       (* snapshot stored by the final collector *)
}.

Inductive tid := TRec (i : nat) | TCol (i : nat) | TFin.

Definition rec_done (r : rpc) : bool := match r with RObserve [] => true | _ => false end.
Definition col_done (c : cpc) : bool := match c with CLock O => true | _ => false end.

Fixpoint upd {A} (l : list A) (i : nat) (x : A) : list A :=
  match l, i with
  | [], _ => []
  | _ :: r, O => x :: r
  | y :: r, S j => y :: upd r j x
  end.

Definition rec_step (metrics_on : bool) (s : shared) (r : rpc) : option (shared * rpc) :=
  match r with
  | RObserve [] => None
  | RObserve (k :: rest) =>
    let s' := if metrics_on then
                match k with
                | KS => {| run_s := run_s s; life_s := life_s s; run_f := run_f s; life_f := life_f s; drp := drp s;
                           met_s := met_s s + 1; met_f := met_f s; met_d := met_d s; lock := lock s;
                           cnt_s := cnt_s s; cnt_f := cnt_f s; cnt_d := cnt_d s |}
                | KF => {| run_s := run_s s; life_s := life_s s; run_f := run_f s; life_f := life_f s; drp := drp s;
                           met_s := met_s s; met_f := met_f s + 1; met_d := met_d s; lock := lock s;
                           cnt_s := cnt_s s; cnt_f := cnt_f s; cnt_d := cnt_d s |}
                | KD => {| run_s := run_s s; life_s := life_s s; run_f := run_f s; life_f := life_f s; drp := drp s;
                           met_s := met_s s; met_f := met_f s; met_d := met_d s + 1; lock := lock s;
                           cnt_s := cnt_s s; cnt_f := cnt_f s; cnt_d := cnt_d s |}
                end
              else s in
    Some (s', RCount k rest)
  | RCount k rest =>
    let s' := match k with
              | KS => {| run_s := run_s s + 1; life_s := life_s s; run_f := run_f s; life_f := life_f s; drp := drp s;
                         met_s := met_s s; met_f := met_f s; met_d := met_d s; lock := lock s;
                         cnt_s := cnt_s s + 1; cnt_f := cnt_f s; cnt_d := cnt_d s |}
              | KF => {| run_s := run_s s; life_s := life_s s; run_f := run_f s + 1; life_f := life_f s; drp := drp s;
                         met_s := met_s s; met_f := met_f s; met_d := met_d s; lock := lock s;
                         cnt_s := cnt_s s; cnt_f := cnt_f s + 1; cnt_d := cnt_d s |}
              | KD => {| run_s := run_s s; life_s := life_s s; run_f := run_f s; life_f := life_f s; drp := drp s + 1;
                         met_s := met_s s; met_f := met_f s; met_d := met_d s; lock := lock s;
                         cnt_s := cnt_s s; cnt_f := cnt_f s; cnt_d := cnt_d s + 1 |}
              end in
    Some (s', RObserve rest)
  end.

Definition set_lock (s : shared) (b : bool) : shared :=
  {| run_s := run_s s; life_s := life_s s; run_f := run_f s; life_f := life_f s; drp := drp s;
     met_s := met_s s; met_f := met_f s; met_d := met_d s; lock := b;
     cnt_s := cnt_s s; cnt_f := cnt_f s; cnt_d := cnt_d s |}.
Definition set_run_s (s : shared) (v : Z) : shared :=
  {| run_s := v; life_s := life_s s; run_f := run_f s; life_f := life_f s; drp := drp s;
     met_s := met_s s; met_f := met_f s; met_d := met_d s; lock := lock s;
     cnt_s := cnt_s s; cnt_f := cnt_f s; cnt_d := cnt_d s |}.
Definition set_life_s (s : shared) (v : Z) : shared :=
  {| run_s := run_s s; life_s := v; run_f := run_f s; life_f := life_f s; drp := drp s;
     met_s := met_s s; met_f := met_f s; met_d := met_d s; lock := lock s;
     cnt_s := cnt_s s; cnt_f := cnt_f s; cnt_d := cnt_d s |}.
Definition set_run_f (s : shared) (v : Z) : shared :=
  {| run_s := run_s s; life_s := life_s s; run_f := v; life_f := life_f s; drp := drp s;
     met_s := met_s s; met_f := met_f s; met_d := met_d s; lock := lock s;
     cnt_s := cnt_s s; cnt_f := cnt_f s; cnt_d := cnt_d s |}.
Definition set_life_f (s : shared) (v : Z) : shared :=
  {| run_s := run_s s; life_s := life_s s; run_f := run_f s; life_f := v; drp := drp s;
     met_s := met_s s; met_f := met_f s; met_d := met_d s; lock := lock s;
     cnt_s := cnt_s s; cnt_f := cnt_f s; cnt_d := cnt_d s |}.

(* fixed = true: the code after the fix: commit (drain with Swap(0));
   fixed = false: the pinned code (Load; Update; Reset with Store(0)). *)
Definition col_step (fixed : bool) (s : shared) (c : cpc) : option (shared * cpc * option (Z * Z * Z)) :=
  match c with
  | CLock O => None
  | CLock (S n) => if lock s then None else Some (set_lock s true, CSwapS n, None)
  | CSwapS n => if fixed then Some (set_run_s s 0, CAddS n (run_s s), None)
                else Some (s, CAddS n (run_s s), None)
  | CAddS n h => Some (set_life_s s (life_s s + h), if fixed then CLoadS n else CResetS n, None)
  | CResetS n => Some (set_run_s s 0, CLoadS n, None)
  | CLoadS n => Some (s, CSwapF n (life_s s), None)
  | CSwapF n ls => if fixed then Some (set_run_f s 0, CAddF n ls (run_f s), None)
                   else Some (s, CAddF n ls (run_f s), None)
  | CAddF n ls h => Some (set_life_f s (life_f s + h), if fixed then CLoadF n ls else CResetF n ls, None)
  | CResetF n ls => Some (set_run_f s 0, CLoadF n ls, None)
  | CLoadF n ls => Some (s, CLoadD n ls (life_f s), None)
  | CLoadD n ls lf => Some (s, CUnlock n ls lf (drp s), None)
  | CUnlock n ls lf d => Some (set_lock s false, CLock n, Some (ls, lf, d))
  end.

Definition all_recs_done (st : state) : bool := forallb rec_done (recs st).

Definition step (fixed metrics_on : bool) (st : state) (t : tid) : option state :=
  match t with
  | TRec i =>
    match nth_error (recs st) i with
    | None => None
    | Some r =>
      match rec_step metrics_on (sh st) r with
      | None => None
      | Some (s', r') => Some {| sh := s'; recs := upd (recs st) i r'; cols := cols st; fin := fin st; result := result st |}
      end
    end
  | TCol i =>
    match nth_error (cols st) i with
    | None => None
    | Some c =>
      match col_step fixed (sh st) c with
      | None => None
      | Some (s', c', _) => Some {| sh := s'; recs := recs st; cols := upd (cols st) i c'; fin := fin st; result := result st |}
      end
    end
  | TFin =>
    (* GetTotals is called after every iteration has completed *)
    if all_recs_done st then
      match col_step fixed (sh st) (fin st) with
      | None => None
      | Some (s', c', res) =>
        Some {| sh := s'; recs := recs st; cols := cols st; fin := c';
                result := match res with Some r => Some r | None => result st end |}
      end
    else None
  end.

(* A schedule is any list of thread choices; a choice that is not enabled
   (blocked on the lock, finished, out of range) is skipped. *)
Definition exec (fixed metrics_on : bool) (st : state) (sched : list tid) : state :=
  fold_left (fun s t => match step fixed metrics_on s t with Some s' => s' | None => s end) sched st.

(* Program: the outcome list of every worker, the number of snapshots of every
   periodic snapshotter. *)
Definition init (prog : list (list kind)) (snaps : list nat) : state :=
  {| sh := shared0; recs := map RObserve prog; cols := map CLock snaps; fin := CLock 1; result := None |}.

Definition terminal (st : state) : bool :=
  forallb rec_done (recs st) && forallb col_done (cols st) && col_done (fin st).

Definition kind_eqb (a b : kind) : bool :=
  match a, b with KS, KS | KF, KF | KD, KD => true | _, _ => false end.
Definition count_kind (k : kind) (prog : list (list kind)) : Z :=
  zsum (map (fun l => zcount (kind_eqb k) l) prog).

(* the conclusion of C01 as an executable predicate on observed totals *)
Definition c01_ok (ns nf nd : Z) (ts tf td : Z) (metrics_on : bool) (ms mf md : Z) : bool :=
  (ts =? ns) && (tf =? nf) && (td =? nd) &&
  (negb metrics_on || ((ms =? ns) && (mf =? nf) && (md =? nd))).
