(* C18 — model of internal/raterun/runner.go.

   Abstract time: the environment decides when the current ticker has a tick
   ready (capacity-one channel) and when the armed next-schedule timer fires;
   nothing else is assumed about time. One step per channel operation /
   select case / function boundary. *)
From F1 Require Import Base.Prelude.

Inductive gpc := GNone | GSelect | GInFn | GExited.
Inductive spc := SIdle | SWaiting | SReturned.

Inductive rev :=
| EvStart | EvFnStart (idx : Z) | EvFnEnd | EvRestart | EvStopCalled | EvStopReturned | EvCancel | EvTick (idx : Z) | EvTimer
| EvSched (idx : Z)           (* ghost: schedule idx was (re)started: new ticker, new timer *)
| EvFirst | EvNext.           (* the goroutine is about to call startFirst / startNext *)

Record rstate := {
  r_len : Z;                 (* number of schedules, >= 1 *)
  r_idx : Z;                 (* currentScheduleIndex, -1 before the first schedule starts *)
  r_tick_ready : bool;       (* the current ticker's channel holds a tick *)
  r_timer_armed : bool;      (* nextScheduleTimer is running *)
  r_timer_ready : bool;      (* ... it has fired and its channel holds the value *)
  r_restart_buf : bool;      (* restart channel (capacity 1) holds a value *)
  r_cancelled : bool;        (* schedulesCtx is done *)
  r_g : gpc;                 (* the runner goroutine *)
  r_stop : spc;              (* a caller of Stop *)
  r_trace : list rev         (* ghost: events so far, newest first *)
}.

Definition rinit (len : Z) : rstate :=
  {| r_len := len; r_idx := -1; r_tick_ready := false; r_timer_armed := true; r_timer_ready := false;
     r_restart_buf := false; r_cancelled := false; r_g := GNone; r_stop := SIdle; r_trace := [] |}.

Inductive rlabel :=
| LStart | LRestart | LStopCancel | LStopReturn | LCancel      (* callers *)
| LEnvTick | LEnvTimer                                         (* time *)
| LSelRestart | LSelTimer | LSelTick | LFnEnd | LSelDone.      (* the goroutine *)

(* schedules.start(index) *)
Definition sched_start (s : rstate) (index : Z) (ev : list rev) : rstate :=
  if r_len s <=? index then
    {| r_len := r_len s; r_idx := r_idx s; r_tick_ready := r_tick_ready s; r_timer_armed := r_timer_armed s;
       r_timer_ready := r_timer_ready s; r_restart_buf := r_restart_buf s; r_cancelled := r_cancelled s;
       r_g := r_g s; r_stop := r_stop s; r_trace := ev ++ r_trace s |}
  else
    (* new ticker (a pending tick of the old one is abandoned); the old timer is stopped
       and, unless this is the last schedule, a new one is armed *)
    {| r_len := r_len s; r_idx := index; r_tick_ready := false;
       r_timer_armed := index + 1 <? r_len s; r_timer_ready := false;
       r_restart_buf := r_restart_buf s; r_cancelled := r_cancelled s;
       r_g := r_g s; r_stop := r_stop s; r_trace := ev ++ EvSched index :: r_trace s |}.

Definition upd_g (s : rstate) (g : gpc) (ev : list rev) : rstate :=
  {| r_len := r_len s; r_idx := r_idx s; r_tick_ready := r_tick_ready s; r_timer_armed := r_timer_armed s;
     r_timer_ready := r_timer_ready s; r_restart_buf := r_restart_buf s; r_cancelled := r_cancelled s;
     r_g := g; r_stop := r_stop s; r_trace := ev ++ r_trace s |}.

(* fixed = true: close(stopped) is deferred inside the goroutine (the code after the fix: commit);
   fixed = false: it is deferred in Start, so the channel is closed as soon as Start returns. *)
Definition stopped_closed (fixed : bool) (s : rstate) : bool :=
  if fixed then match r_g s with GExited => true | _ => false end
  else match r_g s with GNone => false | _ => true end.

Definition rstep (fixed : bool) (s : rstate) (l : rlabel) : option rstate :=
  match l with
  | LStart => match r_g s with GNone => Some (upd_g s GSelect [EvStart]) | _ => None end
  | LRestart =>
    if r_restart_buf s then None
    else Some {| r_len := r_len s; r_idx := r_idx s; r_tick_ready := r_tick_ready s; r_timer_armed := r_timer_armed s;
                 r_timer_ready := r_timer_ready s; r_restart_buf := true; r_cancelled := r_cancelled s;
                 r_g := r_g s; r_stop := r_stop s; r_trace := EvRestart :: r_trace s |}
  | LStopCancel =>
    match r_g s, r_stop s with
    | GNone, _ => None                       (* Stop before Start is outside the API's contract *)
    | _, SIdle => Some {| r_len := r_len s; r_idx := r_idx s; r_tick_ready := r_tick_ready s; r_timer_armed := r_timer_armed s;
                          r_timer_ready := r_timer_ready s; r_restart_buf := r_restart_buf s; r_cancelled := true;
                          r_g := r_g s; r_stop := SWaiting; r_trace := EvStopCalled :: r_trace s |}
    | _, _ => None
    end
  | LStopReturn =>
    match r_stop s with
    | SWaiting => if stopped_closed fixed s
                  then Some {| r_len := r_len s; r_idx := r_idx s; r_tick_ready := r_tick_ready s; r_timer_armed := r_timer_armed s;
                               r_timer_ready := r_timer_ready s; r_restart_buf := r_restart_buf s; r_cancelled := r_cancelled s;
                               r_g := r_g s; r_stop := SReturned; r_trace := EvStopReturned :: r_trace s |}
                  else None
    | _ => None
    end
  | LCancel =>
    Some {| r_len := r_len s; r_idx := r_idx s; r_tick_ready := r_tick_ready s; r_timer_armed := r_timer_armed s;
            r_timer_ready := r_timer_ready s; r_restart_buf := r_restart_buf s; r_cancelled := true;
            r_g := r_g s; r_stop := r_stop s; r_trace := EvCancel :: r_trace s |}
  | LEnvTick =>
    (* tickers exist from New() on, but nobody reads them before Start; a stopped ticker (after exit) does not
       tick; premise: the one-hour placeholder ticker of New() does not tick before the first schedule starts *)
    match r_g s with
    | GExited => None
    | _ => if r_tick_ready s || (r_idx s <? 0) then None
           else Some {| r_len := r_len s; r_idx := r_idx s; r_tick_ready := true; r_timer_armed := r_timer_armed s;
                        r_timer_ready := r_timer_ready s; r_restart_buf := r_restart_buf s; r_cancelled := r_cancelled s;
                        r_g := r_g s; r_stop := r_stop s; r_trace := EvTick (r_idx s) :: r_trace s |}
    end
  | LEnvTimer =>
    match r_g s with
    | GExited => None
    | _ => if r_timer_armed s
           then Some {| r_len := r_len s; r_idx := r_idx s; r_tick_ready := r_tick_ready s; r_timer_armed := false;
                        r_timer_ready := true; r_restart_buf := r_restart_buf s; r_cancelled := r_cancelled s;
                        r_g := r_g s; r_stop := r_stop s; r_trace := EvTimer :: r_trace s |}
           else None
    end
  | LSelRestart =>
    match r_g s with
    | GSelect => if r_restart_buf s
                 then Some (sched_start {| r_len := r_len s; r_idx := r_idx s; r_tick_ready := r_tick_ready s;
                                           r_timer_armed := r_timer_armed s; r_timer_ready := r_timer_ready s;
                                           r_restart_buf := false; r_cancelled := r_cancelled s; r_g := r_g s;
                                           r_stop := r_stop s; r_trace := EvFirst :: r_trace s |} 0 [])
                 else None
    | _ => None
    end
  | LSelTimer =>
    match r_g s with
    | GSelect => if r_timer_ready s
                 then Some (sched_start {| r_len := r_len s; r_idx := r_idx s; r_tick_ready := r_tick_ready s;
                                           r_timer_armed := r_timer_armed s; r_timer_ready := false;
                                           r_restart_buf := r_restart_buf s; r_cancelled := r_cancelled s; r_g := r_g s;
                                           r_stop := r_stop s; r_trace := EvNext :: r_trace s |} (r_idx s + 1) [])
                 else None
    | _ => None
    end
  | LSelTick =>
    match r_g s with
    | GSelect => if r_tick_ready s
                 then Some {| r_len := r_len s; r_idx := r_idx s; r_tick_ready := false; r_timer_armed := r_timer_armed s;
                              r_timer_ready := r_timer_ready s; r_restart_buf := r_restart_buf s; r_cancelled := r_cancelled s;
                              r_g := GInFn; r_stop := r_stop s; r_trace := EvFnStart (r_idx s) :: r_trace s |}
                 else None
    | _ => None
    end
  | LFnEnd => match r_g s with GInFn => Some (upd_g s GSelect [EvFnEnd]) | _ => None end
  | LSelDone =>
    match r_g s with
    | GSelect => if r_cancelled s then Some (upd_g s GExited []) else None
    | _ => None
    end
  end.

Definition rexec (fixed : bool) (s : rstate) (ls : list rlabel) : rstate :=
  fold_left (fun s l => match rstep fixed s l with Some s' => s' | None => s end) ls s.

Definition is_fn_start (e : rev) : bool := match e with EvFnStart _ => true | _ => false end.
Definition is_fn_ev (e : rev) : bool := match e with EvFnStart _ | EvFnEnd => true | _ => false end.
Definition is_tick (e : rev) : bool := match e with EvTick _ => true | _ => false end.
Definition is_sched (e : rev) : bool := match e with EvSched _ => true | _ => false end.

(* the events (newest first) since the latest (re)start of a schedule *)
Fixpoint since_sched (tr : list rev) : list rev :=
  match tr with
  | [] => []
  | EvSched _ :: _ => []
  | e :: r => e :: since_sched r
  end.

(* the schedule whose ticker is live after the trace: the index of the latest (re)start *)
Fixpoint active_sched (tr : list rev) : Z :=
  match tr with
  | [] => -1
  | EvSched k :: _ => k
  | _ :: r => active_sched r
  end.

(* every function start carries the index of the schedule active at that moment, and so does every tick *)
Fixpoint idx_consistent (tr : list rev) : bool :=
  match tr with
  | [] => true
  | EvFnStart k :: r => (k =? active_sched r) && idx_consistent r
  | EvTick k :: r => (k =? active_sched r) && idx_consistent r
  | _ :: r => idx_consistent r
  end.

Definition is_stop_returned (e : rev) : bool := match e with EvStopReturned => true | _ => false end.

(* events (oldest first) that happen after the first StopReturned *)
Fixpoint after_stop_returned (tr : list rev) : list rev :=
  match tr with
  | [] => []
  | EvStopReturned :: r => r
  | _ :: r => after_stop_returned r
  end.

(* ---------------------------------------------------------------- what the harness checks on a real runner *)

(* A trace of visible events as logged by the harness (oldest first):
   0 Start, 1 FnStart k (k = index of the schedule whose frequency was passed),
   2 FnEnd, 3 Restart (about to be called), 4 StopCalled, 5 StopReturned, 6 Cancel,
   7 the goroutine is about to call startFirst, 8 ... startNext (both from hooks in the
   sources instrumented from the working tree).
   The checker tracks the active schedule exactly: a function start must carry the index
   of the schedule that is active at that moment; nothing of the goroutine happens before
   Start or after StopReturned; FnStart/FnEnd alternate. *)
Inductive vev := VStart | VFnStart (k : Z) | VFnEnd | VRestart | VStopCalled | VStopReturned | VCancel | VFirst | VNext.

Record chk := { k_started : bool; k_infn : bool; k_idx : Z; k_stopped : bool; k_len : Z }.

Definition chk_at_select (c : chk) : bool := k_started c && negb (k_infn c) && negb (k_stopped c).

Definition chk_step (c : chk) (e : vev) : option chk :=
  match e with
  | VStart => if k_started c then None
              else Some {| k_started := true; k_infn := false; k_idx := k_idx c; k_stopped := k_stopped c; k_len := k_len c |}
  | VFnStart k =>
    if chk_at_select c && (k =? k_idx c) && (0 <=? k) && (k <? k_len c)
    then Some {| k_started := true; k_infn := true; k_idx := k_idx c; k_stopped := false; k_len := k_len c |}
    else None
  | VFnEnd => if k_infn c && negb (k_stopped c)
              then Some {| k_started := k_started c; k_infn := false; k_idx := k_idx c; k_stopped := false; k_len := k_len c |}
              else None
  | VFirst => if chk_at_select c
              then Some {| k_started := true; k_infn := false; k_idx := (if k_len c <=? 0 then k_idx c else 0);
                           k_stopped := false; k_len := k_len c |}
              else None
  | VNext => if chk_at_select c
             then Some {| k_started := true; k_infn := false;
                          k_idx := (if k_len c <=? k_idx c + 1 then k_idx c else k_idx c + 1);
                          k_stopped := false; k_len := k_len c |}
             else None
  | VRestart => Some c
  | VStopCalled => Some c
  | VStopReturned => if k_infn c then None
                     else Some {| k_started := k_started c; k_infn := false; k_idx := k_idx c; k_stopped := true; k_len := k_len c |}
  | VCancel => Some c
  end.

Fixpoint chk_run (c : chk) (tr : list vev) : bool :=
  match tr with
  | [] => true
  | e :: r => match chk_step c e with Some c' => chk_run c' r | None => false end
  end.

Definition chk_init (len : Z) : chk :=
  {| k_started := false; k_infn := false; k_idx := -1; k_stopped := false; k_len := len |}.

Definition runner_trace_ok (len : Z) (tr : list vev) : bool := chk_run (chk_init len) tr.

(* what of the model's ghost trace the harness can see *)
Definition visible (e : rev) : option vev :=
  match e with
  | EvStart => Some VStart | EvFnStart k => Some (VFnStart k) | EvFnEnd => Some VFnEnd | EvRestart => Some VRestart
  | EvStopCalled => Some VStopCalled | EvStopReturned => Some VStopReturned | EvCancel => Some VCancel
  | EvFirst => Some VFirst | EvNext => Some VNext
  | EvTick _ | EvTimer | EvSched _ => None
  end.

(* oldest first *)
Definition visible_trace (tr : list rev) : list vev :=
  flat_map (fun e => match visible e with Some v => [v] | None => [] end) (List.rev tr).

(* Timed consequence of C18_tick_of_active_schedule under "timers and tickers never fire
   early". Times are relative to an instant just before New() (which arms the first start-delay
   timer). An epoch begins with New/Start (schedule 0 is started after its own start delay) or with a Restart (schedule 0 is started at once, no
   earlier than the Restart call); within an epoch schedule k is started no earlier than the
   start delays 1..k later, and its own ticker delivers its first tick one period after that.
   An invocation carrying schedule k's frequency never happens before the earliest such
   instant over all epochs. *)
Definition sum_delays (delays : list Z) (from upto : Z) : Z :=
  zsum (skipn (Z.to_nat from) (firstn (Z.to_nat (upto + 1)) delays)).

Definition earliest_tick (delays freqs restarts : list Z) (k : Z) : Z :=
  fold_left Z.min (map (fun t => t + sum_delays delays 1 k) restarts) (sum_delays delays 0 k)
  + nth (Z.to_nat k) freqs 0.

Definition runner_times_ok (delays freqs restarts : list Z) (starts : list (Z * Z)) : bool :=
  forallb (fun kt => (0 <=? fst kt) && (fst kt <? Z.of_nat (length freqs)) &&
                     (earliest_tick delays freqs restarts (fst kt) <=? snd kt)) starts.

(* The same consequence, tracked exactly along the observed run. evs: (code, k, t), oldest first:
   code 7 = the goroutine is about to go back to the first schedule (startFirst), 8 = it is about
   to move to the next schedule (startNext), 1 = the function starts with schedule k's frequency;
   t is relative to an instant just before New(). State: the active schedule (-1 before the
   first) and the instant it was started. A move to schedule i comes no earlier than schedule
   i's start delay after the start of the schedule before it (a Restart re-arms that delay: the
   count begins again at the return to the first schedule); the function starts no earlier than
   one period after its schedule was started. *)
Fixpoint timed_run (delays freqs : list Z) (idx tcur : Z) (evs : list (Z * Z * Z)) : bool :=
  match evs with
  | [] => true
  | (code, k, t) :: r =>
    if code =? 7 then timed_run delays freqs 0 t r
    else if code =? 8 then
      if idx + 1 <? Z.of_nat (length delays)
      then (tcur + nth (Z.to_nat (idx + 1)) delays 0 <=? t) && timed_run delays freqs (idx + 1) t r
      else timed_run delays freqs idx tcur r
    else if code =? 1 then
      (k =? idx) && (tcur + nth (Z.to_nat k) freqs 0 <=? t) && timed_run delays freqs idx tcur r
    else timed_run delays freqs idx tcur r
  end.

Definition runner_timed_ok (delays freqs : list Z) (evs : list (Z * Z * Z)) : bool :=
  timed_run delays freqs (-1) 0 evs.
