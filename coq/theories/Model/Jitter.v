(* C13 — model of internal/trigger/api/iteration_jitter.go WithJitter.

   Float layer: the exact binary64 transcription (jit_run_f64); the random
   variation enters as an oracle list of the float64 values
   cos(rand.Float64()*2*pi) the implementation drew (mirrored by the harness).

   Exact layer: the same recurrence over Z with the emitted value as an
   oracle constrained by jitter_step_ok; the theorems are proved there for
   every constrained oracle, i.e. for every outcome of the random variation
   and of the float rounding inside the stated slack. *)
From F1 Require Import Base.Prelude Base.F64.

(* ---------------------------------------------------------------- float layer *)

Definition jit_step_f64 (mult bal : f64) (rate : Z) (c : f64) : f64 * Z :=
  let factor := f_add f_one (f_div (f_mul c mult) f_100) in
  let req := f_add (f_of_Z rate) bal in
  let proposed := f_mul req factor in
  let rounded := f_max f_zero (f_round proposed) in
  (f_sub req rounded, f_to_int rounded).

Fixpoint jit_loop_f64 (mult bal : f64) (rates : list Z) (cs : list f64) : list Z * f64 :=
  match rates, cs with
  | r :: rates', c :: cs' =>
    let '(bal', o) := jit_step_f64 mult bal r c in
    let '(os, b) := jit_loop_f64 mult bal' rates' cs' in (o :: os, b)
  | _, _ => ([], bal)
  end.

(* WithJitter(rate, multiple): identity when multiple == 0. Returns the
   outputs and the final balance (as an integer when it is one). *)
Definition jit_run_f64 (mult_bits : Z) (rates : list Z) (cos_bits : list Z) : list Z :=
  let mult := f_of_bits mult_bits in
  if f_eq mult f_zero then rates
  else fst (jit_loop_f64 mult f_zero rates (map f_of_bits cos_bits)).

(* ---------------------------------------------------------------- exact layer *)

(* jitter fraction j/100 = jn/jd, 0 <= jn < jd *)
Definition jitter_step_ok (jn jd bal rate r : Z) : Prop :=
  let req := rate + bal in
  if req <? 0 then r = 0
  else 0 <= r /\ jd * Z.abs (r - req) <= jn * req + jd.

(* balances along a run: b_0 = 0, b_{k+1} = rate_k + b_k - r_k *)
Fixpoint balances (bal : Z) (rates outs : list Z) : list Z :=
  match rates, outs with
  | rate :: rates', r :: outs' => let b := rate + bal - r in b :: balances b rates' outs'
  | _, _ => []
  end.

Fixpoint run_ok (jn jd bal : Z) (rates outs : list Z) : Prop :=
  match rates, outs with
  | rate :: rates', r :: outs' =>
    jitter_step_ok jn jd bal rate r /\ run_ok jn jd (rate + bal - r) rates' outs'
  | [], [] => True
  | _, _ => False
  end.

(* ---------------------------------------------------------------- predicate for the harness *)

(* The facts that connect the two layers, checked on every step of the
   implementation's own output: outputs are the exact-layer outputs for
   SOME admissible oracle, with j/100 = jn/jd and slack covering 1/2 + float
   rounding:  jd*|r - req| <= jn*|req| + jd. *)
Definition step_ok_b (jn jd bal rate r : Z) : bool :=
  let req := rate + bal in
  if req <? 0 then r =? 0
  else (0 <=? r) && (jd * Z.abs (r - req) <=? jn * req + jd).

Fixpoint run_ok_b (jn jd bal : Z) (rates outs : list Z) : bool :=
  match rates, outs with
  | rate :: rates', r :: outs' =>
    step_ok_b jn jd bal rate r && run_ok_b jn jd (rate + bal - r) rates' outs'
  | [], [] => true
  | _, _ => false
  end.

(* the bound of C13_bounded, as a check on observed outputs *)
Fixpoint bounded_b (jn jd R bal : Z) (rates outs : list Z) : bool :=
  match rates, outs with
  | rate :: rates', r :: outs' =>
    let b := rate + bal - r in
    ((jd - jn) * Z.abs b <=? jn * R + jd) && bounded_b jn jd R b rates' outs'
  | _, _ => true
  end.

(* jitter percentage given as float bits: j/100 as an exact fraction jn/jd *)
Definition frac_of_bits (b : Z) : Z * Z :=
  let e := (b / 2 ^ 52) mod 2 ^ 11 in
  let m := b mod 2 ^ 52 in
  (* value = (m + 2^52) * 2^(e-1075) for normal numbers; jitter in (0,100) *)
  let mant := if e =? 0 then m else m + 2 ^ 52 in
  let ex := (if e =? 0 then 1 else e) - 1075 in
  if 0 <=? ex then (mant * 2 ^ ex, 100) else (mant, 100 * 2 ^ (- ex)).

Definition jit_ok (mult_bits : Z) (rates : list Z) (outs : list Z) : bool :=
  if f_eq (f_of_bits mult_bits) f_zero then
    if list_eq_dec Z.eq_dec rates outs then true else false
  else
    let '(jn, jd) := frac_of_bits mult_bits in
    run_ok_b jn jd 0 rates outs &&
    ((jd <=? jn) || bounded_b jn jd (zmax_list rates) 0 rates outs).

(* Jitter under a distribution (the trigger as the CLI builds it: the distribution spreads what
   WithJitter returns for a whole period over the period's sub-ticks, and so it does with the
   un-jittered rate). At the end of every period the two running totals differ by at most the
   bound B = (jn*R + jd)/(jd - jn) of C13_bounded; inside a period each side has emitted part of
   that period's value, which on the jittered side is at most (R + B)(1 + jn/jd) + 1 (the rate plus
   the carried balance, varied by at most the jitter, rounded). Hence, at every sub-tick,
   |difference| <= R (1 + j) + B (2 + j) + 1; multiplied out by jd (jd - jn): *)
Definition composed_bound_ok (jn jd R maxdiff : Z) : bool :=
  (jd - jn) * jd * maxdiff <=? (jd - jn) * R * (jd + jn) + (2 * jd + jn) * (jn * R + jd) + jd * (jd - jn).
