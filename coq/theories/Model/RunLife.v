(* C05 — run-level model: the main goroutine of Run.Do (after a successful
   setup), the progress runner's goroutine, and the result's RW mutex with
   Go's writer-preferring semantics (a pending writer blocks new readers).
   The worker pool is abstracted to the event "all workers have exited"
   (its own deadlock-freedom is the progress theorem of the pool model);
   timers and the caller's cancellation are environment events. *)
From F1 Require Import Base.Prelude.

Inductive who := TMain | TProg.

Inductive mpc :=
| MStarted_L | MStarted_A | MStarted_U           (* Result.RecordStarted: Lock / acquired / Unlock *)
| MStartRunner                                   (* progressRunner.Start(ctx) *)
| MTrigger                                       (* r.trigger.Trigger + select: blocked until an ending occurs *)
| MDisp_R | MDisp_U                              (* Display(result.Interrupted()/MaxDurationElapsed()/MaxIterationsReached()): one read section *)
| MWait                                          (* select: pool completion or completion timeout *)
| MFin_L | MFin_A | MFin_U                       (* deferred RecordTestFinished: write section *)
| MStopCancel | MStopWait                        (* progressRunner.Stop(): cancel, then <-stopped *)
| MTotals_L | MTotals_A | MTotals_U              (* GetTotals: write section *)
| MTd_R1 | MTd_R2 | MTd_U2 | MTd_U1              (* result.Teardown(): RLock, nested RLock in Error() *)
| MSum_R1 | MSum_R2 | MSum_U2                    (* Summary(): RLock; Error(): nested RLock *)
| MSum_R3 | MSum_R4 | MSum_U4 | MSum_U3          (* Failed(): nested RLock; its Error(): nested again *)
| MSum_U1
| MReturned.

Inductive ppc :=
| PNone | PSelect
| PSnap_L | PSnap_A | PSnap_U                    (* SnapshotProgress: write section *)
| PProg_R | PProg_U                              (* Progress(): read section *)
| PDrop_R | PDrop_U                              (* HasDroppedIterations(): read section *)
| PExited.

Record lstate := {
  l_main : mpc; l_prog : ppc;
  l_readers : Z;                 (* read locks currently held *)
  l_writer : option who;         (* who has announced a write lock (pending or active) *)
  l_wactive : bool;              (* ... and has acquired it *)
  l_ctx_cancelled : bool;        (* the caller's context *)
  l_ended : bool;                (* the trigger phase has ended (cancel / deadline / limit) *)
  l_pool_done : bool;            (* all workers have exited *)
  l_timeout : bool;              (* the completion timeout fired *)
  l_tick : bool;                 (* the progress ticker has a tick ready *)
  l_pcancel : bool;              (* the runner's context is done *)
  l_fn_after_return : Z          (* ghost: progress function steps taken after Do returned *)
}.

Definition linit : lstate :=
  {| l_main := MStarted_L; l_prog := PNone; l_readers := 0; l_writer := None; l_wactive := false;
     l_ctx_cancelled := false; l_ended := false; l_pool_done := false; l_timeout := false; l_tick := false;
     l_pcancel := false; l_fn_after_return := 0 |}.

Inductive llabel := LMain | LProg | EnvTick | EnvCancel | EnvDeadline | EnvLimit | EnvPoolDone | EnvTimeout.

Definition set_main (s : lstate) (m : mpc) : lstate :=
  {| l_main := m; l_prog := l_prog s; l_readers := l_readers s; l_writer := l_writer s; l_wactive := l_wactive s;
     l_ctx_cancelled := l_ctx_cancelled s; l_ended := l_ended s; l_pool_done := l_pool_done s; l_timeout := l_timeout s;
     l_tick := l_tick s; l_pcancel := l_pcancel s; l_fn_after_return := l_fn_after_return s |}.
Definition set_prog (s : lstate) (p : ppc) : lstate :=
  {| l_main := l_main s; l_prog := p; l_readers := l_readers s; l_writer := l_writer s; l_wactive := l_wactive s;
     l_ctx_cancelled := l_ctx_cancelled s; l_ended := l_ended s; l_pool_done := l_pool_done s; l_timeout := l_timeout s;
     l_tick := l_tick s; l_pcancel := l_pcancel s;
     l_fn_after_return := l_fn_after_return s + (match l_main s with MReturned => 1 | _ => 0 end) |}.
Definition set_rw (s : lstate) (r : Z) (w : option who) (a : bool) : lstate :=
  {| l_main := l_main s; l_prog := l_prog s; l_readers := r; l_writer := w; l_wactive := a;
     l_ctx_cancelled := l_ctx_cancelled s; l_ended := l_ended s; l_pool_done := l_pool_done s; l_timeout := l_timeout s;
     l_tick := l_tick s; l_pcancel := l_pcancel s; l_fn_after_return := l_fn_after_return s |}.
Definition set_env (s : lstate) (c e pd t tk pc : bool) : lstate :=
  {| l_main := l_main s; l_prog := l_prog s; l_readers := l_readers s; l_writer := l_writer s; l_wactive := l_wactive s;
     l_ctx_cancelled := c; l_ended := e; l_pool_done := pd; l_timeout := t; l_tick := tk; l_pcancel := pc;
     l_fn_after_return := l_fn_after_return s |}.

(* RWMutex operations; None = blocked *)
Definition rlock (s : lstate) : option lstate :=
  match l_writer s with None => Some (set_rw s (l_readers s + 1) None false) | Some _ => None end.
Definition runlock (s : lstate) : lstate := set_rw s (l_readers s - 1) (l_writer s) (l_wactive s).
Definition wannounce (s : lstate) (w : who) : option lstate :=
  match l_writer s with None => Some (set_rw s (l_readers s) (Some w) false) | Some _ => None end.
Definition wacquire (s : lstate) : option lstate :=
  if l_readers s =? 0 then Some (set_rw s 0 (l_writer s) true) else None.
Definition wunlock (s : lstate) : lstate := set_rw s (l_readers s) None false.

Definition omap (o : option lstate) (f : lstate -> lstate) : option lstate :=
  match o with Some s => Some (f s) | None => None end.

(* fixed = true: Stop waits for the runner goroutine (the code after the fix: commit) *)
Definition main_step (fixed : bool) (s : lstate) : option lstate :=
  match l_main s with
  | MStarted_L => omap (wannounce s TMain) (fun s' => set_main s' MStarted_A)
  | MStarted_A => omap (wacquire s) (fun s' => set_main s' MStarted_U)
  | MStarted_U => Some (set_main (wunlock s) MStartRunner)
  | MStartRunner => Some (set_main (set_prog s PSelect) MTrigger)
  | MTrigger => if l_ended s then Some (set_main s MDisp_R) else None
  | MDisp_R => omap (rlock s) (fun s' => set_main s' MDisp_U)
  | MDisp_U => Some (set_main (runlock s) MWait)
  | MWait => if l_pool_done s || l_timeout s then Some (set_main s MFin_L) else None
  | MFin_L => omap (wannounce s TMain) (fun s' => set_main s' MFin_A)
  | MFin_A => omap (wacquire s) (fun s' => set_main s' MFin_U)
  | MFin_U => Some (set_main (wunlock s) MStopCancel)
  | MStopCancel => Some (set_main (set_env s (l_ctx_cancelled s) (l_ended s) (l_pool_done s) (l_timeout s) (l_tick s) true) MStopWait)
  | MStopWait => if negb fixed || match l_prog s with PExited => true | _ => false end
                 then Some (set_main s MTotals_L) else None
  | MTotals_L => omap (wannounce s TMain) (fun s' => set_main s' MTotals_A)
  | MTotals_A => omap (wacquire s) (fun s' => set_main s' MTotals_U)
  | MTotals_U => Some (set_main (wunlock s) MTd_R1)
  | MTd_R1 => omap (rlock s) (fun s' => set_main s' MTd_R2)
  | MTd_R2 => omap (rlock s) (fun s' => set_main s' MTd_U2)
  | MTd_U2 => Some (set_main (runlock s) MTd_U1)
  | MTd_U1 => Some (set_main (runlock s) MSum_R1)
  | MSum_R1 => omap (rlock s) (fun s' => set_main s' MSum_R2)
  | MSum_R2 => omap (rlock s) (fun s' => set_main s' MSum_U2)
  | MSum_U2 => Some (set_main (runlock s) MSum_R3)
  | MSum_R3 => omap (rlock s) (fun s' => set_main s' MSum_R4)
  | MSum_R4 => omap (rlock s) (fun s' => set_main s' MSum_U4)
  | MSum_U4 => Some (set_main (runlock s) MSum_U3)
  | MSum_U3 => Some (set_main (runlock s) MSum_U1)
  | MSum_U1 => Some (set_main (runlock s) MReturned)
  | MReturned => None
  end.

Definition prog_step (s : lstate) : option lstate :=
  match l_prog s with
  | PNone | PExited => None
  | PSelect =>
    (* select: a ready tick or the cancellation; when both are ready either may be taken: the tick
       is modelled as taken first when ready (the cancellation is then taken at the next select) *)
    if l_tick s then Some (set_prog (set_env s (l_ctx_cancelled s) (l_ended s) (l_pool_done s) (l_timeout s) false (l_pcancel s)) PSnap_L)
    else if l_pcancel s then Some (set_prog s PExited) else None
  | PSnap_L => omap (wannounce s TProg) (fun s' => set_prog s' PSnap_A)
  | PSnap_A => omap (wacquire s) (fun s' => set_prog s' PSnap_U)
  | PSnap_U => Some (set_prog (wunlock s) PProg_R)
  | PProg_R => omap (rlock s) (fun s' => set_prog s' PProg_U)
  | PProg_U => Some (set_prog (runlock s) PDrop_R)
  | PDrop_R => omap (rlock s) (fun s' => set_prog s' PDrop_U)
  | PDrop_U => Some (set_prog (runlock s) PSelect)
  end.

(* a cancelled select may also leave although a tick is ready *)
Definition prog_exit (s : lstate) : option lstate :=
  match l_prog s with
  | PSelect => if l_pcancel s then Some (set_prog s PExited) else None
  | _ => None
  end.

Definition lstep (fixed : bool) (s : lstate) (l : llabel) : option lstate :=
  match l with
  | LMain => main_step fixed s
  | LProg => prog_step s
  | EnvTick => match l_prog s with
               | PNone | PExited => None
               | _ => Some (set_env s (l_ctx_cancelled s) (l_ended s) (l_pool_done s) (l_timeout s) true (l_pcancel s))
               end
  | EnvCancel => Some (set_env s true true (l_pool_done s) (l_timeout s) (l_tick s) true)   (* runner's ctx derives from the caller's *)
  | EnvDeadline => Some (set_env s (l_ctx_cancelled s) true (l_pool_done s) (l_timeout s) (l_tick s) (l_pcancel s))
  | EnvLimit => Some (set_env s (l_ctx_cancelled s) true (l_pool_done s) (l_timeout s) (l_tick s) (l_pcancel s))
  | EnvPoolDone => if l_ended s then Some (set_env s (l_ctx_cancelled s) true true (l_timeout s) (l_tick s) (l_pcancel s)) else None
  | EnvTimeout => match l_main s with
                  | MWait => Some (set_env s (l_ctx_cancelled s) (l_ended s) (l_pool_done s) true (l_tick s) (l_pcancel s))
                  | _ => None
                  end
  end.

Definition lexec (fixed : bool) (s : lstate) (ls : list llabel) : lstate :=
  fold_left (fun s l => match lstep fixed s l with Some s' => s' | None => s end) ls s.

(* main waits for the environment (an ending, the pool, the timeout) *)
Definition waits_for_env (s : lstate) : bool :=
  match l_main s with MTrigger | MWait => true | _ => false end.

(* nobody can move and no environment event would help: wedged for ever *)
Definition wedged (fixed : bool) (s : lstate) : bool :=
  match main_step fixed s, prog_step s, prog_exit s with
  | None, None, None => negb (waits_for_env s) && match l_main s with MReturned => false | _ => true end
  | _, _, _ => false
  end.

(* What the harness observes of a real run, as a predicate: no iteration
   started after Do returned; every started iteration had finished at the
   return (unless the completion timeout expired); nothing started after the
   deadline; Do returned within its bound; no goroutine of the run was left. *)
Definition c05_ok (late_starts unfinished after_deadline slow leaked : Z) : bool :=
  (late_starts =? 0) && (unfinished =? 0) && (after_deadline =? 0) && (slow =? 0) && (leaked =? 0).

(* ---------------------------------------------------------------- the triggering window

   Run.run: duration := max-duration, or the trigger's own total duration when that is positive
   and shorter; the trigger's context ends guard (10 ms) before that. What the property allows:
   triggering stops no later than the earlier of (max-duration less the guard) and the trigger's
   own duration. remaining = time left on the trigger's context when the trigger is entered. *)
Definition guard_ns : Z := 10000000.
Definition code_window (max_d trig_d : Z) : Z :=
  (if (0 <? trig_d) && (trig_d <? max_d) then trig_d else max_d) - guard_ns.
Definition allowed_window (max_d trig_d : Z) : Z :=
  if 0 <? trig_d then Z.min (max_d - guard_ns) trig_d else max_d - guard_ns.
Definition window_ok (max_d trig_d remaining slack : Z) : bool :=
  remaining <=? allowed_window max_d trig_d + slack.
