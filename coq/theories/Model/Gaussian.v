(* C11 — model of internal/trigger/gaussian/gaussian_rate.go Calculator.

   math.Exp / math.Erfc are not modelled: the density values pdf(slot) for
   the slots the calculator visits and the two CDF values used by the
   normaliser come from the harness, which obtains them from f1's own
   internal/gaussian package; everything the calculator computes around them
   is binary64-exact here. *)
From F1 Require Import Base.Prelude Base.F64.

(* ---------------------------------------------------------------- float layer *)

(* time.Time.Truncate works on the absolute time since year 1 *)
Definition year1_offset : Z := 62135596800 * 1000000000.
Definition truncate_abs (abs d : Z) : Z := if d <=? 0 then abs else abs - abs mod d.

Record gcalc := { g_weights : list f64; g_repeat : Z; g_mult : f64; g_avg : f64 }.

Definition new_calc (volume_bits freq : Z) (weights_bits : list Z) (cdf_hi_bits cdf_lo_bits repeat : Z) : gcalc :=
  let ws := map f_of_bits weights_bits in
  let mult0 := f_mul (f_of_bits volume_bits) (f_of_Z freq) in
  let avg := match ws with
             | [] => f_one
             | _ => f_div (fold_left f_add ws f_zero) (f_of_Z (Z.of_nat (length ws)))
             end in
  let covered := f_sub (f_of_bits cdf_hi_bits) (f_of_bits cdf_lo_bits) in
  {| g_weights := ws; g_repeat := repeat; g_mult := f_div mult0 covered; g_avg := avg |}.

(* for startOfWeight != start { i++; startOfWeight = startOfWeight.Add(repeatWindow) } *)
Fixpoint weight_loop (fuel : nat) (sow start repeat : Z) (i : nat) : nat :=
  match fuel with
  | O => i
  | S f => if sow =? start then i else weight_loop f (sow + repeat) start repeat (S i)
  end.

Definition lookup_pdf (table : list (Z * Z)) (slot : Z) : option f64 :=
  match find (fun p => fst p =? slot) table with Some p => Some (f_of_bits (snd p)) | None => None end.

(* Calculator.For *)
Definition g_for (c : gcalc) (table : list (Z * Z)) (rem : f64) (now_unix : Z) : option (f64 * Z) :=
  let abs := now_unix + year1_offset in
  let start := truncate_abs abs (g_repeat c) in
  match lookup_pdf table (abs - start) with
  | None => None
  | Some pdf =>
    let rate := f_mul pdf (g_mult c) in
    let rate' := match g_weights c with
                 | [] => rate
                 | ws => let n := Z.of_nat (length ws) in
                         let sow := truncate_abs abs (g_repeat c * n) in
                         let i := weight_loop (S (length ws)) sow start (g_repeat c) O in
                         f_div (f_mul rate (nth i ws f_nan)) (g_avg c)
                 end in
    let rwr := f_add rate' rem in
    let fl := f_floor rwr in
    Some (f_sub rwr fl, f_to_int fl)
  end.

Fixpoint g_run (c : gcalc) (table : list (Z * Z)) (rem : f64) (ticks : list Z) : option (list Z) :=
  match ticks with
  | [] => Some []
  | t :: r => match g_for c table rem t with
              | None => None
              | Some (rem', o) => match g_run c table rem' r with
                                  | Some os => Some (o :: os)
                                  | None => None
                                  end
              end
  end.

Definition gauss_run (volume_bits freq : Z) (weights_bits : list Z) (cdf_hi cdf_lo repeat : Z)
           (table : list (Z * Z)) (ticks : list Z) : option (list Z) :=
  g_run (new_calc volume_bits freq weights_bits cdf_hi cdf_lo repeat) table f_zero ticks.

(* ---------------------------------------------------------------- exact layer *)

(* Rates as exact fractions a_k / D over a common denominator D > 0; the
   remainder is b / D with 0 <= b < D. One tick: emit floor((a+b)/D), carry
   the rest. *)
Definition carry_step (D b a : Z) : Z * Z := ((a + b) mod D, (a + b) / D).

Fixpoint carry_run (D b : Z) (rates : list Z) : list Z * Z :=
  match rates with
  | [] => ([], b)
  | a :: r => let '(b', o) := carry_step D b a in
              let '(os, bf) := carry_run D b' r in (o :: os, bf)
  end.

(* window number modulo the number of weights *)
Definition weight_index (abs repeat : Z) (n : Z) : Z := (abs / repeat) mod n.

(* ---------------------------------------------------------------- predicate on observed windows *)

(* outs: the per-tick outputs of one full window; p: index of the tick nearest
   the peak; expected/tol: configured volume for this window and the
   discretisation tolerance (computed by the harness from the density at the
   window's edges) *)
Definition gauss_ok (outs : list Z) (p : nat) (expected tol : Z) : bool :=
  forallb (fun o => 0 <=? o) outs &&
  (let op := nth p outs 0 in forallb (fun o => o <=? op + 1) outs) &&
  (Z.abs (zsum outs - expected) <=? tol).
