(* C14 / C15 — model of internal/trigger/file/file_parser.go starting at the
   decoded ConfigFile value (YAML decoding itself is not modelled). *)
From Coq Require Import String.
From F1 Require Import Base.Prelude Base.F64 Base.GoStr Base.GoTime Model.Distribution Model.RateParse.

Record stage_cfg := {
  sc_mode : option str;
  sc_start_rate : option str; sc_end_rate : option str; sc_rate : option str;
  sc_distribution : option str;
  sc_weights : option bool;          (* present? and does every part parse as a float *)
  sc_stages : option str;
  sc_concurrency : option Z;
  sc_jitter : option Z;              (* float64 bits *)
  sc_volume : option Z;              (* float64 bits *)
  sc_duration : option Z; sc_iter_freq : option Z; sc_repeat : option Z; sc_peak : option Z; sc_stddev : option Z;
  sc_params : option (list (str * str))
}.

Record limits_cfg := {
  l_max_duration : option Z; l_concurrency : option Z; l_max_iterations : option Z;
  l_max_failures : option Z; l_max_failures_rate : option Z; l_ignore_dropped : option bool
}.

Record config := {
  c_scenario : option str;
  c_default : stage_cfg;
  c_limits : limits_cfg;
  c_stage_start : option Z;          (* absolute ns *)
  c_stages : list stage_cfg
}.

(* a runnable stage as the harness can observe it *)
Record rstage := {
  rs_duration : Z;
  rs_interval : Z;                    (* IterationDuration; 0 for a users stage *)
  rs_users : Z;                       (* UsersConcurrency; 0 for a rate stage *)
  rs_params : list (str * str);
  rs_desc : option rate_desc;
  rs_jitter : Z;                      (* float64 bits of the jitter percentage in force for the stage *)
  rs_plain : bool                     (* distribution none *)
}.

Record plan := {
  p_scenario : str; p_stages : list rstage; p_total : Z;
  p_max_duration : Z; p_concurrency : Z; p_max_iterations : Z;
  p_max_failures : Z; p_max_failures_rate : Z; p_ignore_dropped : bool
}.

Definition orelse {A} (a b : option A) : option A := match a with Some _ => a | None => b end.

(* field of a stage with its default; None = "missing ..." error *)
Definition fld {A} (f : stage_cfg -> option A) (s d : stage_cfg) : option A := orelse (f s) (f d).

Definition need {A B} (o : option A) (k : A -> res B) : res B :=
  match o with Some a => k a | None => Err end.

Definition params_of (s d : stage_cfg) : list (str * str) :=
  match fld sc_params s d with Some p => p | None => [] end.

(* parseStage for a stage whose duration and mode are already resolved.
   d is the default section AFTER validateCommonFields (default concurrency
   falls back to the limits', default jitter to 0). *)
Definition parse_stage (s d : stage_cfg) (dur : Z) (mode : str) : res rstage :=
  let jit := match fld sc_jitter s d with Some j => j | None => 0 end in
  let mk (r : rates) := Ok {| rs_duration := dur; rs_interval := r_interval r; rs_users := 0;
                             rs_params := params_of s d; rs_desc := Some (r_desc r); rs_jitter := jit;
                             rs_plain := match fld sc_distribution s d with
                                         | Some dist => match dkind_of_str dist with DNone => true | _ => false end
                                         | None => false
                                         end |} in
  if str_eqb mode (s_of "constant"%string) then
    need (fld sc_rate s d) (fun rate =>
    need (fld sc_distribution s d) (fun dist =>
    res_bind (calc_constant rate dist) mk))
  else if str_eqb mode (s_of "ramp"%string) then
    need (fld sc_start_rate s d) (fun sr =>
    need (fld sc_end_rate s d) (fun er =>
    need (fld sc_distribution s d) (fun dist =>
    res_bind (calc_ramp sr er dist dur) mk)))
  else if str_eqb mode (s_of "staged"%string) then
    need (fld sc_stages s d) (fun stg =>
    need (fld sc_iter_freq s d) (fun freq =>
    need (fld sc_distribution s d) (fun dist =>
    res_bind (calc_staged freq stg dist) mk)))
  else if str_eqb mode (s_of "gaussian"%string) then
    need (fld sc_volume s d) (fun _ =>
    need (fld sc_repeat s d) (fun _ =>
    need (fld sc_iter_freq s d) (fun freq =>
    need (fld sc_peak s d) (fun _ =>
    need (fld sc_weights s d) (fun wok =>
    need (fld sc_stddev s d) (fun sd =>
    need (fld sc_distribution s d) (fun dist =>
    res_bind (calc_gaussian freq sd wok dist) mk)))))))
  else if str_eqb mode (s_of "users"%string) then
    need (fld sc_concurrency s d) (fun c =>
    if c <? 1 then Err else
    Ok {| rs_duration := dur; rs_interval := 0; rs_users := c; rs_params := params_of s d;
          rs_desc := None; rs_jitter := 0; rs_plain := false |})
  else Err.

(* the loop of ParseConfigFile over the stages: cum is the cumulative duration
   before this stage; a stage whose scheduled end is not after now is skipped
   WITHOUT being parsed (only its duration and mode are validated) *)
Fixpoint parse_stages_loop (d : stage_cfg) (start : option Z) (now : Z) (cum : Z) (l : list stage_cfg)
  : res (list rstage * Z) :=
  match l with
  | [] => Ok ([], cum)
  | s :: r =>
    need (fld sc_duration s d) (fun dur =>
    need (fld sc_mode s d) (fun mode =>
    let cum' := cum + dur in
    let keep := match start with None => true | Some t0 => now <? t0 + cum' end in
    let this := if keep then res_map (fun x => [x]) (parse_stage s d dur mode) else Ok [] in
    res_bind this (fun here =>
    res_bind (parse_stages_loop d start now cum' r) (fun '(rest, total) =>
    Ok (here ++ rest, total)))))
  end.

Definition with_default_fallbacks (c : config) (conc : Z) : stage_cfg :=
  let d := c_default c in
  {| sc_mode := sc_mode d; sc_start_rate := sc_start_rate d; sc_end_rate := sc_end_rate d; sc_rate := sc_rate d;
     sc_distribution := sc_distribution d; sc_weights := sc_weights d; sc_stages := sc_stages d;
     sc_concurrency := orelse (sc_concurrency d) (Some conc);
     sc_jitter := orelse (sc_jitter d) (Some 0);
     sc_volume := sc_volume d; sc_duration := sc_duration d; sc_iter_freq := sc_iter_freq d;
     sc_repeat := sc_repeat d; sc_peak := sc_peak d; sc_stddev := sc_stddev d; sc_params := sc_params d |}.

(* ParseConfigFile on the decoded value *)
Definition parse_config (c : config) (now : Z) : res plan :=
  need (c_scenario c) (fun scen =>
  need (l_max_duration (c_limits c)) (fun maxd =>
  need (l_concurrency (c_limits c)) (fun conc =>
  if conc <? 1 then Err else
  need (l_max_iterations (c_limits c)) (fun maxi =>
  need (l_ignore_dropped (c_limits c)) (fun ign =>
  match c_stages c with
  | [] => Err
  | _ =>
    let mf := match l_max_failures (c_limits c) with Some v => v | None => 0 end in
    let mfr := match l_max_failures_rate (c_limits c) with Some v => v | None => 0 end in
    let d := with_default_fallbacks c conc in
    res_bind (parse_stages_loop d (c_stage_start c) now 0 (c_stages c)) (fun '(stages, total) =>
    Ok {| p_scenario := scen; p_stages := stages; p_total := total;
          p_max_duration := maxd; p_concurrency := conc; p_max_iterations := maxi;
          p_max_failures := mf; p_max_failures_rate := mfr; p_ignore_dropped := ign |})
  end))))).

(* What repeated evaluation of a stage's rate function at one instant must show of the jitter in
   force (0: every value is the same - the jitter is zero; 1: the values vary - the jitter moves a
   constant rate by 5 or more; 2: no expectation: other modes and distributions vary by
   themselves, small amplitudes may round away). A jitter of the stage itself, 0 included, wins
   over the default section's. *)
Definition jitter_expect (s : rstage) : Z :=
  match rs_desc s with
  | Some (RConst n) =>
    if rs_plain s then
      let j := f_of_bits (rs_jitter s) in
      if f_eq j f_zero then 0
      else if f_le (f_of_Z 500) (f_mul (f_of_Z n) j) && f_lt j (f_of_Z 100) then 1 else 2
    else 2
  | _ => 2
  end.

Fixpoint jitter_obs_match (l : list rstage) (obs : list Z) : bool :=
  match l, obs with
  | [], [] => true
  | s :: l', o :: obs' =>
    (match jitter_expect s with 0 => o =? 0 | 1 => o =? 1 | _ => true end) && jitter_obs_match l' obs'
  | _, _ => false
  end.

Definition config_jitter_ok (c : config) (now : Z) (obs : list Z) : bool :=
  match parse_config c now with
  | Ok p => jitter_obs_match (p_stages p) obs
  | _ => false
  end.

(* "can run" *)
Definition runnable_stage (s : rstage) : Prop :=
  (rs_users s = 0 /\ 0 < rs_interval s) \/ (1 <= rs_users s /\ rs_interval s = 0).

(* Run-time half of C15 as a predicate on what the harness observed of a
   file-triggered run: no stage parameter left in the environment afterwards;
   the iterations, ordered by start time, see the stages' parameters in stage
   order (up to the tolerated number of stragglers that a worker had already
   taken when its stage stopped); every stage was seen. *)
(* What the harness observes of the trigger built through the public builder from a file
   whose stage-start lies in the (real) past: the trigger's total duration is the sum of
   the durations of ALL configured stages, and at least the last stage is kept. *)
Definition c15_trigger_ok (durs : list Z) (total kept : Z) : bool :=
  (total =? zsum durs) && (1 <=? kept) && (kept <=? Z.of_nat (length durs)).

Definition c15_run_ok (left anomalies tolerated stages_seen stages : Z) : bool :=
  (left =? 0) && (anomalies <=? tolerated) && (stages_seen =? stages).
