(* C09 — model of the loop of api.NewIterationWorker:

     startRate := rate(time.Now()); pool.Start; pool.Trigger(startRate)
     ticker := time.NewTicker(interval)
     for { select { case <-workerCtx.Done(): return
                    case start := <-ticker.C: pool.Trigger(rate(start)) } }

   as a transducer from what the environment delivers (ticks, then the end of
   the context) to what the loop does (evaluations of the rate function and
   requests to the pool). The rate function is an oracle: its k-th evaluation
   returns [vals k]. *)
From F1 Require Import Base.Prelude.

Inductive tev := TickDelivered (at_ : Z) | CtxDone.
Inductive tact := AEval (at_ : Z) (v : Z) | ARequest (v : Z).

(* the loop after the immediate first trigger; k counts evaluations so far *)
Fixpoint loop_actions (vals : nat -> Z) (k : nat) (evs : list tev) : list tact :=
  match evs with
  | [] => []
  | CtxDone :: _ => []                       (* return: nothing after the context ended *)
  | TickDelivered t :: r => AEval t (vals k) :: ARequest (vals k) :: loop_actions vals (S k) r
  end.

Definition worker_actions (vals : nat -> Z) (t0 : Z) (evs : list tev) : list tact :=
  AEval t0 (vals O) :: ARequest (vals O) :: loop_actions vals 1 evs.

Definition eval_times (acts : list tact) : list Z :=
  flat_map (fun a => match a with AEval t _ => [t] | _ => [] end) acts.
Definition requests (acts : list tact) : list Z :=
  flat_map (fun a => match a with ARequest v => [v] | _ => [] end) acts.
Definition eval_values (acts : list tact) : list Z :=
  flat_map (fun a => match a with AEval _ v => [v] | _ => [] end) acts.

Definition count_le (bound : Z) (l : list Z) : Z := zcount (fun t => t <=? bound) l.

(* Ticker hypothesis: the ticker is created at or after t0, ticks are sent
   every interval and never early, its channel holds at most one tick, so the
   j-th tick the loop RECEIVES (j = 1, 2, ...) arrives no earlier than
   t0 + j * interval. *)
Fixpoint ticks_not_early (t0 interval : Z) (j : Z) (evs : list tev) : Prop :=
  match evs with
  | [] => True
  | CtxDone :: _ => True
  | TickDelivered t :: r => t0 + j * interval <= t /\ ticks_not_early t0 interval (j + 1) r
  end.

(* ---------------------------------------------------------------- predicate on a real run *)

(* times: monotonic times of the evaluations of the wrapped rate function,
   values: what they returned; the k-th evaluation (k = 0, 1, ...) may not
   happen before t0 + k * interval; what the pool was asked for is the sum of
   the values (the last one may have been refused because triggering had
   stopped). *)
Fixpoint times_ok (t0 interval : Z) (k : Z) (times : list Z) : bool :=
  match times with
  | [] => true
  | t :: r => (t0 + k * interval <=? t) && times_ok t0 interval (k + 1) r
  end.

(* late: how many of the last evaluations happened at or after the earliest instant at which
   triggering can have stopped (the run's duration counted from before the run was started):
   those, and the one before them (evaluated in time, handed over too late), may have been
   refused by the pool, which accepts nothing once triggering has stopped (C09_nothing_after_done,
   C02). Every other value must have reached the pool. *)
Definition c09_ok (interval : Z) (times values : list Z) (started dropped : Z) (exact : bool) (late : Z) : bool :=
  match times with
  | [] => false                                   (* the rate is evaluated at least once *)
  | t0 :: _ =>
    times_ok t0 interval 0 times &&
    (negb exact ||
     (let total := zsum (map (Z.max 0) values) in   (* a negative value requests nothing *)
      let refusable := zsum (map (Z.max 0) (skipn (length values - Z.to_nat (late + 1)) values)) in
      (started + dropped <=? total) && (total - refusable <=? started + dropped)))
  end.

(* a stage of a config file: constant k per interval, evaluating for at most dur after its first
   evaluation; got = iterations observed to start while the stage's parameter was set; slack =
   iterations of the stage before that may run late *)
Definition stage_count_ok (k interval dur got slack : Z) : bool :=
  got <=? k * (1 + dur / interval) + slack.
