(* C02 / C03 / C04 (and the pool part of C05) — model of
   internal/workers/trigger_pool.go + pool_manager.go as they are after the
   fix: commit, driven by the ticking goroutine of
   internal/trigger/api/iteration_worker.go.

   One step per sync/atomic operation, lock operation, condition-variable
   operation; a schedule is any list of thread choices. *)
From F1 Require Import Base.Prelude.

Inductive owner := OTick | OStop | OW (i : nat).

Inductive wpc :=
| W0                 (* for p.running() *)
| W1                 (* if p.jobsToExecute.none() *)
| W2                 (* waitForNewJobs: L.Lock() *)
| W3                 (* loop condition: none() *)
| W3b                (* loop condition: running() *)
| WWait              (* parked in Cond.Wait (lock released) *)
| WRelock            (* woken by Broadcast: re-acquire the lock *)
| W4                 (* L.Unlock() *)
| W5                 (* take() *)
| W6                 (* NextIteration(), a job in hand *)
| L1 | L2 | L3 | L4 | L5 | L6     (* maxIterationsReached: halt() = Lock, Store, Swap, Broadcast, Unlock; then cancel *)
| W7 (id : Z)        (* t.Reset(id); the body starts *)
| W8 (id : Z)        (* body running; this step is its end + the record *)
| WDone.

Inductive tpc :=
| TIdle (ticks : list Z)        (* next: the context check of Trigger for the head tick *)
| T1 (n : Z) (rest : list Z)    (* sendJobsForExecution: Lock *)
| T2 (n : Z) (rest : list Z)    (* running()? under the lock *)
| T3 (n : Z) (rest : list Z)    (* jobsToExecute.set(n) *)
| T4 (d : Z) (rest : list Z)    (* Broadcast *)
| T5 (d : Z) (rest : list Z)    (* Unlock *)
| T6 (d : Z) (rest : list Z).   (* record d dropped iterations *)

Inductive spc' := S0 | S1 | S2 | S3 | S4 (d : Z) | S5 (d : Z) | S6 (d : Z) | SDone.

Record pstate := {
  counter : Z; stopflag : bool; plock : option owner; iter : Z; maxiter : Z; ctx_done : bool;
  workers : list wpc; tick : tpc; stopper : spc';
  (* ghost *)
  accepted : Z; started : Z; dropped : Z; discarded : Z;
  limit_halted : bool; late_drops : Z;
  ids_started : list Z; ids_issued : list Z
}.

Definition pinit (nworkers : nat) (maxit : Z) (ticks : list Z) : pstate :=
  {| counter := 0; stopflag := false; plock := None; iter := 0; maxiter := maxit; ctx_done := false;
     workers := repeat W0 nworkers; tick := TIdle ticks; stopper := S0;
     accepted := 0; started := 0; dropped := 0; discarded := 0; limit_halted := false; late_drops := 0;
     ids_started := []; ids_issued := [] |}.

Fixpoint upd {A} (l : list A) (i : nat) (x : A) : list A :=
  match l, i with
  | [], _ => []
  | _ :: r, O => x :: r
  | y :: r, S j => y :: upd r j x
  end.

Definition wake (w : wpc) : wpc := match w with WWait => WRelock | _ => w end.

(* record update helpers *)
Definition set_w (s : pstate) (ws : list wpc) : pstate :=
  {| counter := counter s; stopflag := stopflag s; plock := plock s; iter := iter s; maxiter := maxiter s; ctx_done := ctx_done s;
     workers := ws; tick := tick s; stopper := stopper s; accepted := accepted s; started := started s; dropped := dropped s;
     discarded := discarded s; limit_halted := limit_halted s; late_drops := late_drops s;
     ids_started := ids_started s; ids_issued := ids_issued s |}.
Definition set_tick (s : pstate) (t : tpc) : pstate :=
  {| counter := counter s; stopflag := stopflag s; plock := plock s; iter := iter s; maxiter := maxiter s; ctx_done := ctx_done s;
     workers := workers s; tick := t; stopper := stopper s; accepted := accepted s; started := started s; dropped := dropped s;
     discarded := discarded s; limit_halted := limit_halted s; late_drops := late_drops s;
     ids_started := ids_started s; ids_issued := ids_issued s |}.
Definition set_stopper (s : pstate) (p : spc') : pstate :=
  {| counter := counter s; stopflag := stopflag s; plock := plock s; iter := iter s; maxiter := maxiter s; ctx_done := ctx_done s;
     workers := workers s; tick := tick s; stopper := p; accepted := accepted s; started := started s; dropped := dropped s;
     discarded := discarded s; limit_halted := limit_halted s; late_drops := late_drops s;
     ids_started := ids_started s; ids_issued := ids_issued s |}.
Definition set_lock (s : pstate) (l : option owner) : pstate :=
  {| counter := counter s; stopflag := stopflag s; plock := l; iter := iter s; maxiter := maxiter s; ctx_done := ctx_done s;
     workers := workers s; tick := tick s; stopper := stopper s; accepted := accepted s; started := started s; dropped := dropped s;
     discarded := discarded s; limit_halted := limit_halted s; late_drops := late_drops s;
     ids_started := ids_started s; ids_issued := ids_issued s |}.
Definition set_counter (s : pstate) (c : Z) : pstate :=
  {| counter := c; stopflag := stopflag s; plock := plock s; iter := iter s; maxiter := maxiter s; ctx_done := ctx_done s;
     workers := workers s; tick := tick s; stopper := stopper s; accepted := accepted s; started := started s; dropped := dropped s;
     discarded := discarded s; limit_halted := limit_halted s; late_drops := late_drops s;
     ids_started := ids_started s; ids_issued := ids_issued s |}.
Definition set_stopflag (s : pstate) : pstate :=
  {| counter := counter s; stopflag := true; plock := plock s; iter := iter s; maxiter := maxiter s; ctx_done := ctx_done s;
     workers := workers s; tick := tick s; stopper := stopper s; accepted := accepted s; started := started s; dropped := dropped s;
     discarded := discarded s; limit_halted := limit_halted s; late_drops := late_drops s;
     ids_started := ids_started s; ids_issued := ids_issued s |}.
Definition set_ctx_done (s : pstate) : pstate :=
  {| counter := counter s; stopflag := stopflag s; plock := plock s; iter := iter s; maxiter := maxiter s; ctx_done := true;
     workers := workers s; tick := tick s; stopper := stopper s; accepted := accepted s; started := started s; dropped := dropped s;
     discarded := discarded s; limit_halted := limit_halted s; late_drops := late_drops s;
     ids_started := ids_started s; ids_issued := ids_issued s |}.
Definition add_ghost (s : pstate) (acc st dr di ld : Z) (lh : bool) : pstate :=
  {| counter := counter s; stopflag := stopflag s; plock := plock s; iter := iter s; maxiter := maxiter s; ctx_done := ctx_done s;
     workers := workers s; tick := tick s; stopper := stopper s;
     accepted := accepted s + acc; started := started s + st; dropped := dropped s + dr; discarded := discarded s + di;
     limit_halted := limit_halted s || lh; late_drops := late_drops s + ld;
     ids_started := ids_started s; ids_issued := ids_issued s |}.
Definition issue_id (s : pstate) (id : Z) : pstate :=
  {| counter := counter s; stopflag := stopflag s; plock := plock s; iter := id; maxiter := maxiter s; ctx_done := ctx_done s;
     workers := workers s; tick := tick s; stopper := stopper s; accepted := accepted s; started := started s; dropped := dropped s;
     discarded := discarded s; limit_halted := limit_halted s; late_drops := late_drops s;
     ids_started := ids_started s; ids_issued := id :: ids_issued s |}.
Definition bump_iter (s : pstate) (id : Z) : pstate :=
  {| counter := counter s; stopflag := stopflag s; plock := plock s; iter := id; maxiter := maxiter s; ctx_done := ctx_done s;
     workers := workers s; tick := tick s; stopper := stopper s; accepted := accepted s; started := started s; dropped := dropped s;
     discarded := discarded s; limit_halted := limit_halted s; late_drops := late_drops s;
     ids_started := ids_started s; ids_issued := ids_issued s |}.
Definition start_id (s : pstate) (id : Z) : pstate :=
  {| counter := counter s; stopflag := stopflag s; plock := plock s; iter := iter s; maxiter := maxiter s; ctx_done := ctx_done s;
     workers := workers s; tick := tick s; stopper := stopper s; accepted := accepted s; started := started s + 1; dropped := dropped s;
     discarded := discarded s; limit_halted := limit_halted s; late_drops := late_drops s;
     ids_started := id :: ids_started s; ids_issued := ids_issued s |}.

Definition lock_free (s : pstate) : bool := match plock s with None => true | Some _ => false end.
Definition late (s : pstate) (d : Z) : Z := if limit_halted s then Z.max d 0 else 0.
(* PoolManager.IterationsExhausted *)
Definition exhausted (s : pstate) : bool := (0 <? maxiter s) && (maxiter s <=? iter s).

Inductive plabel := PTick | PStop | PWorker (i : nat) | PCancel.

Definition tick_step (s : pstate) : option pstate :=
  match tick s with
  | TIdle [] => None
  | TIdle (n :: rest) => if ctx_done s then Some (set_tick s (TIdle rest)) else Some (set_tick s (T1 n rest))
  | T1 n rest => if lock_free s then Some (set_tick (set_lock s (Some OTick)) (T2 n rest)) else None
  | T2 n rest => if stopflag s then Some (set_tick s (T5 0 rest)) else Some (set_tick s (T3 n rest))
  | T3 n rest => let d := counter s in
                 (* set(n) and, still under the lock, IterationsExhausted(): jobs superseded when every
                    allowed id has been handed out are discarded silently (T4 carries 0 to record) *)
                 if exhausted s
                 then Some (set_tick (add_ghost (set_counter s n) (Z.max n 0) 0 0 (Z.max d 0) 0 false) (T4 0 rest))
                 else Some (set_tick (add_ghost (set_counter s n) (Z.max n 0) 0 0 0 (late s d) false) (T4 d rest))
  | T4 d rest => Some (set_tick (set_w s (map wake (workers s))) (T5 d rest))
  | T5 d rest => Some (set_tick (set_lock s None) (T6 d rest))
  | T6 d rest => Some (set_tick (add_ghost s 0 0 (Z.max d 0) 0 0 false) (TIdle rest))
  end.

Definition stop_step (s : pstate) : option pstate :=
  match stopper s with
  | S0 => if ctx_done s then Some (set_stopper s S1) else None
  | S1 => if lock_free s then Some (set_stopper (set_lock s (Some OStop)) S2) else None
  | S2 => Some (set_stopper (set_stopflag s) S3)
  | S3 => let d := counter s in
          if exhausted s
          then Some (set_stopper (add_ghost (set_counter s 0) 0 0 0 (Z.max d 0) 0 false) (S4 0))
          else Some (set_stopper (add_ghost (set_counter s 0) 0 0 0 0 (late s d) false) (S4 d))
  | S4 d => Some (set_stopper (set_w s (map wake (workers s))) (S5 d))
  | S5 d => Some (set_stopper (set_lock s None) (S6 d))
  | S6 d => Some (set_stopper (add_ghost s 0 0 (Z.max d 0) 0 0 false) SDone)
  | SDone => None
  end.

Definition worker_step (s : pstate) (i : nat) : option pstate :=
  match nth_error (workers s) i with
  | None => None
  | Some w =>
    let go (s' : pstate) (w' : wpc) := Some (set_w s' (upd (workers s') i w')) in
    match w with
    | W0 => if stopflag s then go s WDone else go s W1
    | W1 => if counter s <=? 0 then go s W2 else go s W5
    | W2 => if lock_free s then go (set_lock s (Some (OW i))) W3 else None
    | W3 => if counter s <=? 0 then go s W3b else go s W4
    | W3b => if stopflag s then go s W4 else go (set_lock s None) WWait
    | WWait => None
    | WRelock => if lock_free s then go (set_lock s (Some (OW i))) W3 else None
    | W4 => go (set_lock s None) W5
    | W5 => let c := counter s - 1 in if 0 <=? c then go (set_counter s c) W6 else go (set_counter s c) W0
    | W6 => let id := iter s + 1 in
            if (0 <? maxiter s) && (maxiter s <? id)
            then go (add_ghost (bump_iter s id) 0 0 0 1 0 false) L1
            else go (issue_id s id) (W7 id)
    | L1 => if lock_free s then go (set_lock s (Some (OW i))) L2 else None
    | L2 => go (set_stopflag s) L3
    | L3 => let d := counter s in go (add_ghost (set_counter s 0) 0 0 0 (Z.max d 0) 0 true) L4
    | L4 => Some (set_w s (upd (map wake (workers s)) i L5))
    | L5 => go (set_lock s None) L6
    | L6 => go (set_ctx_done s) WDone
    | W7 id => go (start_id s id) (W8 id)
    | W8 id => go s W0
    | WDone => None
    end
  end.

Definition pstep (s : pstate) (l : plabel) : option pstate :=
  match l with
  | PTick => tick_step s
  | PStop => stop_step s
  | PWorker i => worker_step s i
  | PCancel => Some (set_ctx_done s)
  end.

Definition pexec (s : pstate) (ls : list plabel) : pstate :=
  fold_left (fun s l => match pstep s l with Some s' => s' | None => s end) ls s.

Definition w_done (w : wpc) : bool := match w with WDone => true | _ => false end.
Definition pterminal (s : pstate) : bool :=
  forallb w_done (workers s) &&
  match tick s with TIdle [] => true | _ => false end &&
  match stopper s with SDone => true | _ => false end.

Definition in_body (w : wpc) : bool := match w with W8 _ => true | _ => false end.
Definition in_flight (s : pstate) : Z := zcount in_body (workers s).

(* ---------------------------------------------------------------- predicates for the harness *)

(* conservation as observed on a real pool at the end of a history *)
Definition c02_ok (requested started_obs dropped_obs : Z) (limit_hit : bool) (max_discard : Z) : bool :=
  if limit_hit then (started_obs + dropped_obs <=? requested) && (requested - started_obs - dropped_obs <=? max_discard)
  else requested =? started_obs + dropped_obs.

(* ids observed by the scenario: exactly 1..k, k <= limit, k = limit when the limit ended the run *)
Fixpoint is_range_desc (k : Z) (l : list Z) : bool :=
  match l with
  | [] => k =? 0
  | x :: r => (x =? k) && is_range_desc (k - 1) r
  end.
Definition c03_ok (sorted_ids_desc : list Z) (limit : Z) (limit_ended : bool) : bool :=
  let k := Z.of_nat (length sorted_ids_desc) in
  is_range_desc k sorted_ids_desc &&
  ((limit =? 0) || (k <=? limit)) && (negb limit_ended || (k =? limit)).

Definition c04_ok (high_water concurrency : Z) (shared_handle : bool) (rendezvous_ok : bool) : bool :=
  (high_water <=? concurrency) && negb shared_handle && rendezvous_ok.
