(* C08 — model of internal/run/result.go Result.Failed and of the mapping
   of the verdict to the command error in internal/run/run_cmd.go.

   Inputs (all of them plain data):
     nerrs  number of errors added to the result (setup / teardown failure)
     s f d  successful, failed, dropped iteration counts of the final snapshot
     ign    --ignore-dropped
     mf     --max-failures          (uint64 in Go)
     mr     --max-failures-rate     (int in Go, a percentage)
   Go's uint64 arithmetic is modelled on Z; the theorems assume the counts are
   small enough for 100*f and mr*(s+f+d) not to wrap (stated as premises). *)
From F1 Require Import Base.Prelude.

Record vopts := { ign : bool; mf : Z; mr : Z }.

(* Snapshot.Iterations() *)
Definition iterations (s f d : Z) : Z := f + s + d.

(* Result.Failed() — the code as it stands in /repo (after the fix: commit):
     r.Error() != nil ||
     (!opts.IgnoreDropped && dropped > 0) ||
     (opts.MaxFailures == 0 && opts.MaxFailuresRate == 0 && failed > 0) ||
     (opts.MaxFailures > 0 && failed > opts.MaxFailures) ||
     (opts.MaxFailuresRate > 0 && failed*100 > uint64(opts.MaxFailuresRate)*iterations) *)
Definition failed_verdict (nerrs s f d : Z) (o : vopts) : res bool :=
  Ok ((0 <? nerrs)
      || (negb (ign o) && (0 <? d))
      || ((mf o =? 0) && (mr o =? 0) && (0 <? f))
      || ((0 <? mf o) && (mf o <? f))
      || ((0 <? mr o) && (mr o * iterations s f d <? f * 100))).

(* The pinned (pre-fix) code: Snapshot.FailedIterationsRate() is the integer
   quotient failed*100/iterations, which panics when iterations = 0 and
   truncates the share before comparing it. Go evaluates || left to right and
   short-circuits, so the division is reached only if the earlier disjuncts
   are false and mr > 0. *)
Definition failed_verdict_pinned (nerrs s f d : Z) (o : vopts) : res bool :=
  if (0 <? nerrs)
     || (negb (ign o) && (0 <? d))
     || ((mf o =? 0) && (mr o =? 0) && (0 <? f))
     || ((0 <? mf o) && (mf o <? f))
  then Ok true
  else if 0 <? mr o then
         if iterations s f d =? 0 then Crash
         else Ok (mr o <? (f * 100) / iterations s f d)
       else Ok false.

(* The documented rule, as an exact rational comparison. *)
Definition verdict_spec (nerrs s f d : Z) (o : vopts) : Prop :=
  0 < nerrs
  \/ (ign o = false /\ 0 < d)
  \/ (mf o = 0 /\ mr o = 0 /\ 0 < f)
  \/ (0 < mf o /\ mf o < f)
  \/ (0 < mr o /\ mr o * (s + f + d) < 100 * f).

(* runCmdExecute: result.Error() != nil -> that error; else result.Failed()
   -> "load test failed"; else nil.  The command returns an error iff ... *)
Definition cli_returns_error (nerrs s f d : Z) (o : vopts) : res bool :=
  if 0 <? nerrs then Ok true else failed_verdict nerrs s f d o.

(* Executable form of the spec, used by the harness as the oracle when the
   search stage needs the property predicate itself. *)
Definition verdict_spec_b (nerrs s f d : Z) (o : vopts) : bool :=
  (0 <? nerrs)
  || (negb (ign o) && (0 <? d))
  || ((mf o =? 0) && (mr o =? 0) && (0 <? f))
  || ((0 <? mf o) && (mf o <? f))
  || ((0 <? mr o) && (mr o * (s + f + d) <? 100 * f)).
