(* C06 / C07 / C20 (+ the measured-interval half of C17) — model of
   pkg/f1/testing/t.go (T, CheckResults, handlePanic, teardown, Reset),
   internal/workers/active_scenario.go (Setup, Run) and
   pkg/f1/f1_scenarios.go (CombineScenarios).

   A scenario program is data: lists of actions; cleanups are indices into a
   table of action lists (a cleanup may itself fail, panic or register). *)
From F1 Require Import Base.Prelude.

Inductive act :=
| ARegister (c : nat)     (* t.Cleanup(table c) *)
| AFail                   (* t.Fail / Error / Errorf *)
| AFailNow                (* t.FailNow / Fatal / Fatalf / failed require assertion *)
| APanicErr               (* panic(err) with an error value other than the FailNow sentinel *)
| APanicVal               (* panic(v), v not an error (string, int, struct, runtime.Error is an error) *)
| AMark (n : nat).        (* an event the scenario itself logs *)

Inductive exitk := XNormal | XFailNow | XPanicErr | XPanicVal.

Inductive ev :=
| EMark (n : nat)
| ECleanup (c : nat)        (* cleanup c is invoked *)
| EClockA | EBodyStart | EBodyEnd | EClockB
| ERecorded (failed : bool) (* metric + progress record of the iteration *)
| ESetupStart | ESetupEnd | ESetupRecorded (failed : bool)
| EIterations               (* the trigger runs: all iterations happen here *)
| ETeardownStart | ETeardownEnd
| EReturn (failed : bool).  (* Run.Do returns; the flag is Result.Failed() as far as lifecycle errors go *)

Record tstate := { failed : bool; tdfailed : bool; tearing : bool; stack : list nat }.

Definition t_new : tstate := {| failed := false; tdfailed := false; tearing := false; stack := [] |}.
(* Reset(iter) *)
Definition t_reset (t : tstate) : tstate := t_new.

Definition t_fail (t : tstate) : tstate :=
  if tearing t then {| failed := failed t; tdfailed := true; tearing := tearing t; stack := stack t |}
  else {| failed := true; tdfailed := tdfailed t; tearing := tearing t; stack := stack t |}.

Definition t_register (t : tstate) (c : nat) : tstate :=
  {| failed := failed t; tdfailed := tdfailed t; tearing := tearing t; stack := stack t ++ [c] |}.

(* Execute a function body; stops at the first panic. *)
Fixpoint run_acts (t : tstate) (acts : list act) : tstate * list ev * exitk :=
  match acts with
  | [] => (t, [], XNormal)
  | ARegister c :: r => run_acts (t_register t c) r
  | AFail :: r => run_acts (t_fail t) r
  | AFailNow :: _ => (t_fail t, [], XFailNow)
  | APanicErr :: _ => (t, [], XPanicErr)
  | APanicVal :: _ => (t, [], XPanicVal)
  | AMark n :: r => let '(t', es, x) := run_acts t r in (t', EMark n :: es, x)
  end.

(* defer CheckResults(t, nil): handlePanic *)
Definition check_results (t : tstate) (x : exitk) : tstate :=
  match x with
  | XNormal | XFailNow => t
  | XPanicErr | XPanicVal => t_fail t
  end.

(* func() { defer CheckResults(t, nil); f() }() *)
Definition guarded (t : tstate) (acts : list act) : tstate * list ev :=
  let '(t', es, x) := run_acts t acts in (check_results t' x, es).

Section WithTable.
Variable tab : nat -> list act.

(* T.teardown: tearingDown = true; the stack length is read once; cleanups
   run from the last index down, each individually recovered; cleanups
   registered meanwhile are appended above the loop's range and never run. *)
Fixpoint teardown_loop (t : tstate) (todo : list nat) : tstate * list ev :=
  match todo with
  | [] => (t, [])
  | c :: r => let '(t1, es1) := guarded t (tab c) in
              let '(t2, es2) := teardown_loop t1 r in
              (t2, ECleanup c :: es1 ++ es2)
  end.

Definition teardown (t : tstate) : tstate * list ev :=
  let t1 := {| failed := failed t; tdfailed := tdfailed t; tearing := true; stack := stack t |} in
  teardown_loop t1 (rev (stack t)).

(* ActiveScenario.Run(state) after t.Reset(id): the whole iteration. Returns
   the handle, the events and the outcome that was recorded. *)
Definition iteration (t : tstate) (body : list act) : tstate * list ev * bool :=
  let t0 := t_reset t in
  let '(t1, es) := guarded t0 body in
  let f := failed t1 in
  let '(t2, ces) := teardown t1 in
  (t2, [EClockA; EBodyStart] ++ es ++ [EBodyEnd; EClockB; ERecorded f] ++ ces, f).

(* A worker: consecutive iterations on one handle. *)
Fixpoint worker (t : tstate) (bodies : list (list act)) : list ev * list bool :=
  match bodies with
  | [] => ([], [])
  | b :: r => let '(t', es, f) := iteration t b in
              let '(es', fs) := worker t' r in (es ++ es', f :: fs)
  end.

(* ActiveScenario.Setup *)
Definition setup (acts : list act) : tstate * list ev :=
  let '(t1, es) := guarded t_new acts in
  (t1, [ESetupStart; EClockA] ++ es ++ [EClockB; ESetupEnd; ESetupRecorded (failed t1)]).

(* Run.Do, lifecycle only: setup; if it failed report and go to teardown;
   else the iterations; teardown of the setup handle; summary/return. *)
Definition run_do (setup_acts : list act) : list ev :=
  let '(t1, ses) := setup setup_acts in
  let mid := if failed t1 then [] else [EIterations] in
  let '(t2, ces) := teardown t1 in
  ses ++ mid ++ [ETeardownStart] ++ ces ++ [ETeardownEnd; EReturn (failed t1 || tdfailed t2)].

End WithTable.

(* ---------------------------------------------------------------- combine (C20) *)

(* A component: its setup body and its iteration body. Marks identify the
   component: the harness gives component i the marks 2i (setup) / 2i+1 (run). *)
Definition component := (list act * list act)%type.

(* CombineScenarios(...)(t): runs the setups in order on the same handle; a
   panic (FailNow included) in one of them unwinds the whole ScenarioFn. *)
Definition combined_setup (cs : list component) : list act := flat_map fst cs.
Definition combined_run (cs : list component) : list act := flat_map snd cs.

(* ---------------------------------------------------------------- observables *)

Definition visible (e : ev) : bool :=
  match e with EMark _ | ECleanup _ => true | _ => false end.

Definition ev_code (e : ev) : Z :=
  match e with
  | EMark n => 2 * Z.of_nat n
  | ECleanup c => 2 * Z.of_nat c + 1
  | _ => -1
  end.

(* what the harness compares per worker: visible events and outcomes *)
Definition worker_obs (tab : nat -> list act) (bodies : list (list act)) : list Z * list bool :=
  let '(es, fs) := worker tab t_new bodies in (map ev_code (filter visible es), fs).

Definition run_obs (tab : nat -> list act) (setup_acts : list act) : list Z * bool * bool :=
  let es := run_do tab setup_acts in
  (map ev_code (filter visible es),
   existsb (fun e => match e with EIterations => true | _ => false end) es,
   existsb (fun e => match e with EReturn true => true | _ => false end) es).

Definition is_failing (a : act) : bool :=
  match a with AFail | AFailNow | APanicErr | APanicVal => true | _ => false end.
Definition marks_failure (body : list act) : bool := existsb is_failing body.

(* What the harness observes of a combined scenario: the visible events of the
   setup phase with its failed flag, and k iterations of the combined body. *)
Definition combine_obs (tab : nat -> list act) (cs : list component) (k : nat)
  : (list Z * bool) * (list Z * list bool) :=
  let '(t1, ses) := setup (combined_setup cs) in
  ((map ev_code (filter visible ses), failed t1), worker_obs tab (repeat (combined_run cs) k)).

(* Timed consequence of the event order ClockA, BodyStart, ..., BodyEnd, ClockB, Recorded
   (C17_measured_interval), whatever way the body ends: the recorded duration is at least
   the time the body spent by its own clock, and at most the time the whole Run call took by
   the caller's clock. *)
Definition measured_ok (body_ns recorded_ns outer_ns : Z) : bool :=
  (body_ns <=? recorded_ns) && (recorded_ns <=? outer_ns).

(* What the harness observes of per-iteration cleanups in whole runs (one entry per started
   iteration): its body ran once, its cleanup ran once, and no cleanup ran before its body had
   finished - the run-level shape of C06_iteration_cleanups. *)
Definition cleanups_once_ok (body_runs cleanup_runs : list Z) (early : Z) : bool :=
  forallb (Z.eqb 1) body_runs && forallb (Z.eqb 1) cleanup_runs && (early =? 0).

(* ---------------------------------------------------------------- marks from helper goroutines

   T's reporting methods may be called from goroutines the body started and waits for. Fail is two
   steps: it reads tearingDown (a plain field, written only by the goroutine that owns the handle,
   between iterations and around teardown) and then stores true into one of two atomic flags.
   Helpers are stepped in any order (sched names the helper to step next). *)
Inductive hpc := HStart | HRead (td : bool) | HDone.

Definition hstep (t : tstate) (h : hpc) : tstate * hpc :=
  match h with
  | HStart => (t, HRead (tearing t))
  | HRead true => ({| failed := failed t; tdfailed := true; tearing := tearing t; stack := stack t |}, HDone)
  | HRead false => ({| failed := true; tdfailed := tdfailed t; tearing := tearing t; stack := stack t |}, HDone)
  | HDone => (t, HDone)
  end.

Fixpoint set_nth {A} (l : list A) (i : nat) (x : A) : list A :=
  match l, i with
  | [], _ => []
  | _ :: r, O => x :: r
  | y :: r, S j => y :: set_nth r j x
  end.

Fixpoint hexec (t : tstate) (hs : list hpc) (sched : list nat) : tstate * list hpc :=
  match sched with
  | [] => (t, hs)
  | i :: r =>
    match nth_error hs i with
    | Some h => let '(t', h') := hstep t h in hexec t' (set_nth hs i h') r
    | None => hexec t hs r
    end
  end.

Definition all_done (hs : list hpc) : bool := forallb (fun h => match h with HDone => true | _ => false end) hs.
