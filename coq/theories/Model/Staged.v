(* C10 — model of internal/trigger/staged/calculator.go (RateCalculator) and
   of the rate closure of internal/trigger/ramp/ramp_rate.go.
   Times are absolute nanoseconds (Z); durations are nanoseconds. *)
From F1 Require Import Base.Prelude Base.F64.

(* start + int(position * float64(end - start)) with
   position := float64(offset) / float64(duration): the interpolation term. *)
Definition interp_f64 (off dur delta : Z) : Z :=
  f_to_int (f_mul (f_div (f_of_Z off) (f_of_Z dur)) (f_of_Z delta)).

Record stg := { s_from : Z; s_to : Z; s_dur : Z }.

(* NewRateCalculator / addRange / add: the first stage starts at 0, every
   later one at the previous stage's end target. Input: (duration, target). *)
Fixpoint chain (prev : Z) (l : list (Z * Z)) : list stg :=
  match l with
  | [] => []
  | (d, t) :: r => {| s_from := prev; s_to := t; s_dur := d |} :: chain t r
  end.

(* MaxDuration *)
Definition max_duration (l : list (Z * Z)) : Z := zsum (map fst l).

Section WithInterp.
Variable interp : Z -> Z -> Z -> Z.

(* the for loop of Rate: skip every stage whose end has passed *)
Fixpoint advance (rem : list stg) (start now : Z) : list stg * Z :=
  match rem with
  | [] => ([], start)
  | s :: r => if s_dur s <? now - start + 1 then advance r (start + s_dur s) now
              else (rem, start)
  end.

Definition stage_rate (rem : list stg) (start now : Z) : Z :=
  match rem with
  | [] => 0
  | s :: _ => s_from s + interp (now - start) (s_dur s) (s_to s - s_from s)
  end.

(* State of the calculator: the stages not yet passed (Go: stages[current:])
   and the start of the first of them; None until the first call when no
   start time was given. *)
Record calc := { c_rem : list stg; c_start : option Z }.

Definition calc_new (l : list (Z * Z)) (start : option Z) : calc :=
  {| c_rem := chain 0 l; c_start := start |}.

Definition calc_rate (c : calc) (now : Z) : calc * Z :=
  let st := match c_start c with Some s => s | None => now end in
  let '(rem, st') := advance (c_rem c) st now in
  ({| c_rem := rem; c_start := Some st' |}, stage_rate rem st' now).

Fixpoint calc_run (c : calc) (ts : list Z) : list Z :=
  match ts with
  | [] => []
  | t :: r => let '(c', v) := calc_rate c t in v :: calc_run c' r
  end.

(* Stateless reference: the rate at elapsed time e since the start. *)
Definition staged_ref (l : list (Z * Z)) (e : Z) : Z :=
  let '(rem, st) := advance (chain 0 l) 0 e in stage_rate rem st e.

(* ---------------------------------------------------------------- ramp *)

(* State: the time of the first evaluation. *)
Definition ramp_rate (from to dur : Z) (start : option Z) (now : Z) : option Z * Z :=
  let st := match start with Some s => s | None => now end in
  (Some st,
   if st + dur <? now then 0
   else from + interp (now - st) dur (to - from)).

Fixpoint ramp_run (from to dur : Z) (start : option Z) (ts : list Z) : list Z :=
  match ts with
  | [] => []
  | t :: r => let '(s', v) := ramp_rate from to dur start t in v :: ramp_run from to dur s' r
  end.

Definition ramp_ref (from to dur : Z) (e : Z) : Z :=
  if dur <? e then 0 else from + interp e dur (to - from).

End WithInterp.

(* What the harness observes of CalculateStagedRate / CalculateRampRate with
   distribution none and jitter 0. *)
Definition staged_run (l : list (Z * Z)) (start : option Z) (ts : list Z) : list Z * Z :=
  (calc_run interp_f64 (calc_new l start) ts, max_duration l).

Definition ramp_run_f64 (from to dur : Z) (ts : list Z) : list Z :=
  ramp_run interp_f64 from to dur None ts.

(* ---------------------------------------------------------------- property predicate *)

(* Exact interpolation e = off*delta/dur as a rational; an output v of the
   interpolation term is acceptable when it is inside [0, delta] and within
   1 + 5*|delta|/2^53 of e - the bound C10_close proves for the binary64
   term (four correctly rounded operations, then truncation). Checked on
   integers: 2^53 * |v*dur - off*delta| < 2^53 * dur + 5 * |delta| * dur. *)
Definition interp_ok (off dur delta v : Z) : bool :=
  (if delta >=? 0 then (0 <=? v) && (v <=? delta) else (delta <=? v) && (v <=? 0)) &&
  (2 ^ 53 * Z.abs (v * dur - off * delta) <? 2 ^ 53 * dur + 5 * Z.abs delta * dur).

(* the literal reading "within 1 of the exact value": |v - e| <= 1 *)
Definition within_one (off dur delta v : Z) : bool :=
  Z.abs (v * dur - off * delta) <=? dur.

Fixpoint sorted_from (lo : Z) (ts : list Z) : bool :=
  match ts with
  | [] => true
  | t :: r => (lo <=? t) && sorted_from t r
  end.

(* staged_ok: every observed value is an acceptable interpolation at the
   stage the reference selects, or 0 after the end. *)
Definition stage_ok (rem : list stg) (st now v : Z) : bool :=
  match rem with
  | [] => v =? 0
  | s :: _ => interp_ok (now - st) (s_dur s) (s_to s - s_from s) (v - s_from s)
  end.

Fixpoint staged_vals_ok (l : list (Z * Z)) (t0 : Z) (ts vs : list Z) : bool :=
  match ts, vs with
  | [], [] => true
  | t :: ts', v :: vs' =>
    (let '(rem, st) := advance (chain 0 l) 0 (t - t0) in stage_ok rem st (t - t0) v)
    && staged_vals_ok l t0 ts' vs'
  | _, _ => false
  end.

Definition staged_ok (l : list (Z * Z)) (start : option Z) (ts : list Z) (vs : list Z) (total : Z) : bool :=
  match ts with
  | [] => match vs with [] => total =? max_duration l | _ => false end
  | t :: _ =>
    let t0 := match start with Some s => s | None => t end in
    (total =? max_duration l) && staged_vals_ok l t0 ts vs
  end.

Fixpoint ramp_vals_ok (from to dur t0 : Z) (ts vs : list Z) : bool :=
  match ts, vs with
  | [], [] => true
  | t :: ts', v :: vs' =>
    (if dur <? t - t0 then v =? 0 else interp_ok (t - t0) dur (to - from) (v - from))
    && ramp_vals_ok from to dur t0 ts' vs'
  | _, _ => false
  end.

Definition ramp_ok (from to dur : Z) (ts vs : list Z) : bool :=
  match ts with
  | [] => match vs with [] => true | _ => false end
  | t :: _ => ramp_vals_ok from to dur t ts vs
  end.
