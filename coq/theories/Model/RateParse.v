(* C14 — models of rate.ParseRate, staged.ParseStages and of the validation
   done by the Calculate*Rate constructors. *)
From Coq Require Import String.
From F1 Require Import Base.Prelude Base.F64 Base.GoStr Base.GoTime Model.Distribution.

Definition second : Z := 1000000000.

(* rate.ParseRate (after the fix: commits) *)
Definition parse_rate (s : str) : res (Z * Z) :=
  match index_byte 47 s with
  | Some i =>
    match atoi (firstn i s) with
    | None => Err
    | Some rate =>
      if rate <? 0 then Err else
      match skipn (S i) s with
      | [] => Err
      | c :: r =>
        let ua := if negb (is_digit c) && negb (c =? 46) then 49 :: c :: r else c :: r in
        match parse_duration ua with
        | None => Err
        | Some u => if u <=? 0 then Err else Ok (rate, u)
        end
      end
    end
  | None =>
    match atoi s with
    | None => Err
    | Some rate => if rate <? 0 then Err else Ok (rate, second)
    end
  end.

(* the pinned ParseRate: slices the first byte of a possibly empty unit,
   prefixes "1" before anything that is not a digit, accepts any duration *)
Definition parse_rate_pinned (s : str) : res (Z * Z) :=
  match index_byte 47 s with
  | Some i =>
    match atoi (firstn i s) with
    | None => Err
    | Some rate =>
      if rate <? 0 then Err else
      match skipn (S i) s with
      | [] => Crash
      | c :: r =>
        let ua := if negb (is_digit c) then 49 :: c :: r else c :: r in
        match parse_duration ua with
        | None => Err
        | Some u => Ok (rate, u)
        end
      end
    end
  | None =>
    match atoi s with
    | None => Err
    | Some rate => if rate <? 0 then Err else Ok (rate, second)
    end
  end.

(* staged.ParseStages: (duration, target) per element *)
Definition parse_stage_elem (e : str) : res (Z * Z) :=
  match split_byte 58 (trim_space e) with
  | [d; t] =>
    match parse_duration (trim_space d) with
    | None => Err
    | Some dur => match atoi (trim_space t) with
                  | None => Err
                  | Some target => Ok (dur, target)
                  end
    end
  | _ => Err
  end.

Fixpoint res_all {A} (l : list (res A)) : res (list A) :=
  match l with
  | [] => Ok []
  | Ok a :: r => match res_all r with Ok l' => Ok (a :: l') | Err => Err | Crash => Crash end
  | Err :: _ => Err
  | Crash :: _ => Crash
  end.

Definition parse_stages (s : str) : res (list (Z * Z)) :=
  res_all (map parse_stage_elem (split_byte 44 s)).

(* distribution name *)
Definition dkind_of_str (s : str) : dkind :=
  if str_eqb s (s_of "none"%string) then DNone
  else if str_eqb s (s_of "regular"%string) then DRegular
  else if str_eqb s (s_of "random"%string) then DRandom
  else DUnknown.

(* What a successfully built rate trigger is, as far as running it goes: the
   tick interval (after distribution) and a description of the rate function. *)
Inductive rate_desc :=
| RConst (n : Z)
| RStaged (stages : list (Z * Z))
| RRamp (from to dur : Z)
| RGauss.

Record rates := { r_interval : Z; r_desc : rate_desc; r_total : Z (* Rates.Duration *) }.

Definition with_distribution (dist : str) (interval : Z) (d : rate_desc) (total : Z) : res rates :=
  match new_distribution (dkind_of_str dist) interval with
  | Ok (iv, _) => Ok {| r_interval := iv; r_desc := d; r_total := total |}
  | Err => Err
  | Crash => Crash
  end.

(* constant.CalculateConstantRate *)
Definition calc_constant (rate dist : str) : res rates :=
  match parse_rate rate with
  | Ok (n, u) => with_distribution dist u (RConst n) 0
  | Err => Err | Crash => Crash
  end.

(* ramp.CalculateRampRate *)
Definition calc_ramp (start_rate end_rate dist : str) (dur : Z) : res rates :=
  match parse_rate start_rate with
  | Ok (a, ua) =>
    match parse_rate end_rate with
    | Ok (b, ub) =>
      if a =? b then Err
      else if negb (ua =? ub) then Err
      else if dur <? ua then Err
      else with_distribution dist ua (RRamp a b dur) dur
    | Err => Err | Crash => Crash
    end
  | Err => Err | Crash => Crash
  end.

(* staged.CalculateStagedRate *)
Definition calc_staged (freq : Z) (stg dist : str) : res rates :=
  if freq <=? 0 then Err else
  match parse_stages stg with
  | Ok l => with_distribution dist freq (RStaged l) (zsum (map fst l))
  | Err => Err | Crash => Crash
  end.

(* gaussian.CalculateGaussianRate: weights_ok says whether strconv.ParseFloat
   accepts every non-empty comma-separated part (library oracle) *)
Definition year356 : Z := 3600000000000 * 24 * 356.
Definition calc_gaussian (freq stddev : Z) (weights_ok : bool) (dist : str) : res rates :=
  if freq <=? 0 then Err
  else if negb weights_ok then Err
  else if stddev <=? 0 then Err
  else with_distribution dist freq RGauss year356.

(* "can run": a positive tick interval *)
Definition runnable_rates (r : rates) : Prop := 0 < r_interval r.
