(* C16 — model of internal/metrics/metrics.go: static label keys/values and
   the two summary vectors (only sample counts matter), with Reset and the
   per-run recording done by Run.Do / ActiveScenario. *)
From Coq Require Import String.
From F1 Require Import Base.Prelude Base.GoStr.

(* the static label map, as the list of its bindings in any order *)
Definition labelmap := list (str * str).

(* getStaticMetricLabelKeys: sorted keys *)
Definition label_keys (m : labelmap) : list str := sort_strs (map fst m).

(* staticMetrics[k]; a missing key reads as "" *)
Definition lookup (k : str) (m : labelmap) : str :=
  match find (fun kv => str_eqb (fst kv) k) m with Some kv => snd kv | None => [] end.

(* getStaticMetricLabelValues: values in the order of the sorted keys *)
Definition label_values (m : labelmap) : list str := map (fun k => lookup k m) (label_keys m).

Definition l_test := s_of "test".
Definition l_stage := s_of "stage".
Definition l_result := s_of "result".
Definition v_iteration := s_of "iteration".
Definition v_success := s_of "success".
Definition v_fail := s_of "fail".
Definition v_dropped := s_of "dropped".

Definition setup_label_names (m : labelmap) : list str := l_test :: l_result :: label_keys m.
Definition iter_label_names (m : labelmap) : list str := l_test :: l_stage :: l_result :: label_keys m.

(* a family: series (label value vector) -> sample count *)
Definition family := list (list str * Z).

Definition vec_eqb (a b : list str) : bool := if list_eq_dec str_eq_dec a b then true else false.

Fixpoint observe (f : family) (key : list str) : family :=
  match f with
  | [] => [(key, 1)]
  | (k, n) :: r => if vec_eqb k key then (k, n + 1) :: r else (k, n) :: observe r key
  end.

Record mstate := { m_setup : family; m_iter : family }.
Definition m_reset (s : mstate) : mstate := {| m_setup := []; m_iter := [] |}.

Inductive mout := MSucc | MFail | MDrop.
Definition result_label (o : mout) : str :=
  match o with MSucc => v_success | MFail => v_fail | MDrop => v_dropped end.

Section Run.
Variable labels : labelmap.
Variable enabled : bool.      (* IterationMetricsEnabled *)

Definition rec_setup (s : mstate) (name : str) (failed : bool) : mstate :=
  {| m_setup := observe (m_setup s) (name :: (if failed then v_fail else v_success) :: label_values labels);
     m_iter := m_iter s |}.

Definition rec_iter (s : mstate) (name : str) (o : mout) : mstate :=
  if enabled then
    {| m_setup := m_setup s;
       m_iter := observe (m_iter s) (name :: v_iteration :: result_label o :: label_values labels) |}
  else s.

(* one run: Reset, setup record, then (if setup passed) the iteration records *)
Definition one_run (s : mstate) (name : str) (setup_failed : bool) (outs : list mout) : mstate :=
  let s1 := rec_setup (m_reset s) name setup_failed in
  if setup_failed then s1 else fold_left (fun st o => rec_iter st name o) outs s1.

Definition runs_t := list (str * bool * list mout).

Definition all_runs (rs : runs_t) : mstate :=
  fold_left (fun st r => let '(name, sf, outs) := r in one_run st name sf outs) rs
            {| m_setup := []; m_iter := [] |}.

End Run.

(* sample count of a series *)
Definition count_of (f : family) (key : list str) : Z :=
  match find (fun kn => vec_eqb (fst kn) key) f with Some kn => snd kn | None => 0 end.

(* canonical order for comparison with Registry.Gather(): by label vector *)
Fixpoint vec_ltb (a b : list str) : bool :=
  match a, b with
  | [], [] => false
  | [], _ :: _ => true
  | _ :: _, [] => false
  | x :: a', y :: b' => if str_ltb x y then true else if str_ltb y x then false else vec_ltb a' b'
  end.

Definition sort_family (f : family) : family :=
  isort (fun a b => vec_ltb (fst a) (fst b)) f.

Definition gather (labels : labelmap) (enabled : bool) (rs : runs_t)
  : (list str * family) * (list str * family) :=
  let s := all_runs labels enabled rs in
  ((setup_label_names labels, sort_family (m_setup s)),
   (iter_label_names labels, sort_family (m_iter s))).

(* ---- what the harness observes through Registry.Gather(): per family, the
   series as (label name, label value) pairs sorted by name, with the sample
   count; series in lexicographic order. *)
Definition pair_ltb (a b : str * str) : bool :=
  if str_ltb (fst a) (fst b) then true else if str_ltb (fst b) (fst a) then false else str_ltb (snd a) (snd b).

Fixpoint pairs_ltb (a b : list (str * str)) : bool :=
  match a, b with
  | [], [] => false
  | [], _ :: _ => true
  | _ :: _, [] => false
  | x :: a', y :: b' => if pair_ltb x y then true else if pair_ltb y x then false else pairs_ltb a' b'
  end.

Definition series_obs (names : list str) (f : family) : list (list (str * str) * Z) :=
  isort (fun a b => pairs_ltb (fst a) (fst b))
        (map (fun kn => (isort (fun a b => str_ltb (fst a) (fst b)) (combine names (fst kn)), snd kn)) f).

Definition gather_obs (labels : labelmap) (enabled : bool) (rs : runs_t)
  : list (list (str * str) * Z) * list (list (str * str) * Z) :=
  let s := all_runs labels enabled rs in
  (series_obs (setup_label_names labels) (m_setup s), series_obs (iter_label_names labels) (m_iter s)).
