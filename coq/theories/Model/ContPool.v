(* C03 / C04 for the users trigger — model of internal/workers/continuous_pool.go:
   `concurrency` workers, each looping  for !stop { id := NextIteration(); run(id) };
   the limit path cancels the pool's context, a goroutine turns the cancellation
   into the stop flag. The start barrier (workersStarted) is abstracted: workers
   begin at the loop head. *)
From F1 Require Import Base.Prelude.

Inductive cpc' :=
| K0                 (* for !p.stopWorkers.Load() *)
| K1                 (* NextIteration() *)
| K2 (id : Z)        (* t.Reset(id); body starts *)
| K3 (id : Z)        (* body running; this step is its end *)
| KCancel            (* maxIterationsReached: workerCtxCancel() *)
| KDone.

Record cstate := {
  k_stop : bool; k_iter : Z; k_max : Z; k_ctx_done : bool; k_workers : list cpc';
  k_started : list Z; k_issued : list Z
}.

Definition cinit (n : nat) (maxit : Z) : cstate :=
  {| k_stop := false; k_iter := 0; k_max := maxit; k_ctx_done := false; k_workers := repeat K0 n;
     k_started := []; k_issued := [] |}.

Fixpoint cupd {A} (l : list A) (i : nat) (x : A) : list A :=
  match l, i with
  | [], _ => []
  | _ :: r, O => x :: r
  | y :: r, S j => y :: cupd r j x
  end.

Inductive clabel := CWorker (i : nat) | CStopper | CCancelEnv.

Definition cstep (s : cstate) (l : clabel) : option cstate :=
  match l with
  | CWorker i =>
    match nth_error (k_workers s) i with
    | None => None
    | Some w =>
      let go (s' : cstate) (w' : cpc') :=
        Some {| k_stop := k_stop s'; k_iter := k_iter s'; k_max := k_max s'; k_ctx_done := k_ctx_done s';
                k_workers := cupd (k_workers s') i w'; k_started := k_started s'; k_issued := k_issued s' |} in
      match w with
      | K0 => if k_stop s then go s KDone else go s K1
      | K1 => let id := k_iter s + 1 in
              if (0 <? k_max s) && (k_max s <? id)
              then go {| k_stop := k_stop s; k_iter := id; k_max := k_max s; k_ctx_done := k_ctx_done s;
                         k_workers := k_workers s; k_started := k_started s; k_issued := k_issued s |} KCancel
              else go {| k_stop := k_stop s; k_iter := id; k_max := k_max s; k_ctx_done := k_ctx_done s;
                         k_workers := k_workers s; k_started := k_started s; k_issued := id :: k_issued s |} (K2 id)
      | K2 id => go {| k_stop := k_stop s; k_iter := k_iter s; k_max := k_max s; k_ctx_done := k_ctx_done s;
                       k_workers := k_workers s; k_started := id :: k_started s; k_issued := k_issued s |} (K3 id)
      | K3 id => go s K0
      | KCancel => go {| k_stop := k_stop s; k_iter := k_iter s; k_max := k_max s; k_ctx_done := true;
                         k_workers := k_workers s; k_started := k_started s; k_issued := k_issued s |} KDone
      | KDone => None
      end
    end
  | CStopper =>
    if k_ctx_done s && negb (k_stop s)
    then Some {| k_stop := true; k_iter := k_iter s; k_max := k_max s; k_ctx_done := true;
                 k_workers := k_workers s; k_started := k_started s; k_issued := k_issued s |}
    else None
  | CCancelEnv =>
    Some {| k_stop := k_stop s; k_iter := k_iter s; k_max := k_max s; k_ctx_done := true;
            k_workers := k_workers s; k_started := k_started s; k_issued := k_issued s |}
  end.

Definition cexec (s : cstate) (ls : list clabel) : cstate :=
  fold_left (fun s l => match cstep s l with Some s' => s' | None => s end) ls s.

Definition k_done (w : cpc') : bool := match w with KDone => true | _ => false end.
Definition cterminal (s : cstate) : bool := forallb k_done (k_workers s).
Definition k_in_body (w : cpc') : bool := match w with K3 _ => true | _ => false end.
Definition c_in_flight (s : cstate) : Z := zcount k_in_body (k_workers s).
