(* With the pinned Runner.Stop (which never waits) the run can wedge for
   ever: Stop returns while the progress goroutine lives; main enters the
   nested read section of Result.Teardown(); a late progress tick announces the
   write lock of SnapshotProgress between the two RLocks; the pending writer
   blocks main's nested RLock, main's outer read lock blocks the writer. *)
From F1 Require Import Base.Prelude Model.RunLife.

Definition wedging_sched : list llabel :=
  [LMain; LMain; LMain; LMain;          (* RecordStarted, start the runner: main in MTrigger *)
   EnvLimit; EnvPoolDone;               (* the trigger phase ends, all workers exit *)
   LMain; LMain; LMain;                 (* display, wait *)
   LMain; LMain; LMain;                 (* RecordTestFinished *)
   LMain; LMain;                        (* Stop: cancel; returns at once (pinned) *)
   LMain; LMain; LMain; LMain;          (* GetTotals; main is about to render the teardown line *)
   EnvTick; LProg;                      (* a late tick: the runner's select takes it *)
   LMain;                               (* Teardown(): outer RLock *)
   LProg;                               (* SnapshotProgress: Lock announced, waits for the reader *)
   LMain].                              (* Error(): nested RLock blocks behind the pending writer *)

Theorem C05_pinned_refuted :
  exists sched, let s := lexec false linit sched in
    wedged false s = true /\ l_main s = MTd_R2 /\ l_prog s = PSnap_A.
Proof. exists wedging_sched. vm_compute. repeat split. Qed.
