(* The pinned CollectLifetime (read the running accumulators, merge, then
   reset with separate stores) loses a record that lands between the read and
   the reset. Machine-checked witness: one worker, one snapshot. *)
From F1 Require Import Base.Prelude Model.Progress.

Definition losing_sched : list tid :=
  [TCol 0;            (* snapshot: Lock *)
   TCol 0;            (* running.Snapshot()/Update: reads count = 0 *)
   TRec 0; TRec 0;    (* the iteration completes: Observe; count.Add(1) *)
   TCol 0;            (* lifetime.count.Add(0) *)
   TCol 0;            (* running.Reset(): count.Store(0) erases the record *)
   TCol 0; TCol 0; TCol 0; TCol 0; TCol 0; TCol 0; TCol 0; TCol 0;
   TFin; TFin; TFin; TFin; TFin; TFin; TFin; TFin; TFin; TFin; TFin].

Theorem C01_pinned_refuted :
  exists prog snaps sched,
    let st := exec false true (init prog snaps) sched in
    terminal st = true /\
    exists ts tf td, result st = Some (ts, tf, td) /\ ts < count_kind KS prog.
Proof.
  exists [[KS]], [1%nat], losing_sched. vm_compute.
  split; [reflexivity|]. exists 0, 0, 0. split; [reflexivity|reflexivity].
Qed.
