(* The pinned Start closes the stopped channel when Start returns, so Stop
   never waits: the function is invoked after Stop has returned. *)
From F1 Require Import Base.Prelude Model.Runner.

Theorem C18_pinned_refuted :
  exists len ls,
    let tr := List.rev (r_trace (rexec false (rinit len) ls)) in
    existsb is_stop_returned tr = true /\
    filter is_fn_ev (after_stop_returned tr) <> [].
Proof.
  exists 1, [LStart; LEnvTimer; LSelTimer; LStopCancel; LStopReturn; LEnvTick; LSelTick; LFnEnd].
  vm_compute. split; [reflexivity|discriminate].
Qed.
