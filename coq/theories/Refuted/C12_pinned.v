(* The pinned float accumulator of withRegularDistribution does not preserve
   the total for every (N, rate): witness found in the design phase, replayed
   on the Go code by the harness corpus (corpus/c12.txt). *)
From F1 Require Import Base.Prelude Base.F64 Model.Distribution.

Definition pinned_cycle_sum (N rate : Z) : Z :=
  preg_sum N (fun _ => rate) preg_init (Z.to_nat N) 0.

(* sanity: the goldens of the suite are reproduced bit-for-bit *)
Example pinned_golden :
  snd (preg_run 9 (fun _ => 7) preg_init 9) = [0;1;1;1;0;1;1;1;1].
Proof. vm_compute. reflexivity. Qed.

Theorem C12_pinned_refuted :
  exists N rate, 1 <= N /\ 0 <= rate /\ pinned_cycle_sum N rate <> rate.
Proof.
  exists 2083, 15150070723101. split; [lia|]. split; [lia|].
  vm_compute. discriminate.
Qed.
