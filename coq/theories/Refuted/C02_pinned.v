(* The pinned trigger pool (before the fix: commit) violates C02 in two
   histories. The pinned step functions differ from Model/Pool.v in exactly
   these places:
   - neither sendJobsForExecution nor stop() asks whether the iterations are exhausted;
   - sendJobsForExecution does not test running() under the lock;
   - stop() stores the stop flag before taking the lock (stopWorkers.Store(true);
     sendJobsForExecution(0));
   - maxIterationsReached() is jobsToExecute.set(0); cancel() with no lock. *)
From F1 Require Import Base.Prelude Model.Pool.

Definition tick_step_pinned (s : pstate) : option pstate :=
  match tick s with
  | T2 n rest => Some (set_tick s (T3 n rest))
  | T3 n rest => let d := counter s in
                 Some (set_tick (add_ghost (set_counter s n) (Z.max n 0) 0 0 0 (late s d) false) (T4 d rest))
  | _ => tick_step s
  end.

Definition stop_step_pinned (s : pstate) : option pstate :=
  match stopper s with
  | S0 => if ctx_done s then Some (set_stopper s S2) else None
  | S2 => Some (set_stopper (set_stopflag s) S1)
  | S1 => if lock_free s then Some (set_stopper (set_lock s (Some OStop)) S3) else None
  | S3 => let d := counter s in Some (set_stopper (add_ghost (set_counter s 0) 0 0 0 0 (late s d) false) (S4 d))
  | _ => stop_step s
  end.

Definition worker_step_pinned (s : pstate) (i : nat) : option pstate :=
  match nth_error (workers s) i with
  | Some L1 =>   (* set(0), silently, without the lock *)
    let d := counter s in
    Some (set_w (add_ghost (set_counter s 0) 0 0 0 (Z.max d 0) 0 true) (upd (workers s) i L6))
  | _ => worker_step s i
  end.

Definition pstep_pinned (s : pstate) (l : plabel) : option pstate :=
  match l with
  | PTick => tick_step_pinned s
  | PStop => stop_step_pinned s
  | PWorker i => worker_step_pinned s i
  | PCancel => Some (set_ctx_done s)
  end.

Definition pexec_pinned (s : pstate) (ls : list plabel) : pstate :=
  fold_left (fun s l => match pstep_pinned s l with Some s' => s' | None => s end) ls s.

Definition rep (n : nat) (l : plabel) : list plabel := repeat l n.

(* History 1: limit 2, three workers, tick of 3, then a tick of 5 that arrives
   between the limit path's set(0) and its cancel: 5 iterations are reported
   dropped although they could not start only because the limit was reached. *)
Definition limit_gap_sched : list plabel :=
  rep 7 PTick ++                                   (* tick 3 accepted, nothing dropped *)
  rep 5 (PWorker 0) ++ rep 5 (PWorker 1) ++        (* ids 1 and 2 start *)
  rep 4 (PWorker 2) ++                             (* takes the third job, id 3 > limit *)
  [PWorker 2] ++                                   (* maxIterationsReached: set(0) *)
  rep 7 PTick ++                                   (* the next tick installs 5 jobs *)
  [PWorker 2] ++                                   (* ... cancel *)
  rep 8 PStop ++                                   (* stop() drains the 5 and records them as dropped *)
  rep 3 (PWorker 0) ++ rep 3 (PWorker 1).

Theorem C02_pinned_refuted_limit_gap :
  exists n maxit ticks sched,
    let s := pexec_pinned (pinit n maxit ticks) sched in
    pterminal s = true /\ limit_halted s = true /\ 0 < late_drops s /\ dropped s = late_drops s.
Proof.
  exists 3%nat, 2, [3; 5], limit_gap_sched. vm_compute. repeat split; reflexivity.
Qed.

(* History 2: a tick passes the context check, then the context is cancelled
   and stop() runs to completion (draining nothing), then the tick's swap
   installs its 4 jobs: they are neither started nor dropped. *)
Definition late_tick_sched : list plabel :=
  [PTick] ++                        (* Trigger: ctx.Err() == nil *)
  [PCancel] ++ rep 8 PStop ++       (* cancel; stop() completes: stop flag, drain 0 *)
  rep 6 PTick ++                    (* sendJobsForExecution(4): the swap installs 4 jobs *)
  [PWorker 0] ++ [PWorker 1].       (* the workers see the stop flag and leave *)

Theorem C02_pinned_refuted_late_tick :
  exists n maxit ticks sched,
    let s := pexec_pinned (pinit n maxit ticks) sched in
    pterminal s = true /\ accepted s = 4 /\ started s + dropped s + discarded s = 0 /\ counter s = 4.
Proof.
  exists 2%nat, 0, [4], late_tick_sched. vm_compute. repeat split; reflexivity.
Qed.
