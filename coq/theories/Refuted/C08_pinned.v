(* The code as pinned (before the fix: commit) violates C08; machine-checked
   witnesses, replayed on the real code by the harness corpus. *)
From F1 Require Import Base.Prelude Model.Verdict Proofs.VerdictProofs.

Theorem C08_pinned_refuted_crash :
  exists nerrs s f d o, failed_verdict_pinned nerrs s f d o = Crash.
Proof. do 5 eexists. exact pinned_crash. Qed.

Theorem C08_pinned_refuted_truncation :
  exists nerrs s f d o,
    failed_verdict_pinned nerrs s f d o = Ok false /\ verdict_spec nerrs s f d o.
Proof. do 5 eexists. exact pinned_truncates. Qed.
