(* Extraction of the executable models to OCaml (ocaml/model.ml).
   ExtrOcamlBasic only: bool, option, unit, list, prod, sumbool map to the
   OCaml types; Z, N, positive and Flocq's binary_float stay Coq datatypes. *)
From Coq Require Extraction.
From Coq Require Import ExtrOcamlBasic.
From F1 Require Import Base.Prelude Base.F64 Model.Verdict Model.Distribution Model.Staged Model.Jitter Model.Progress Model.TestingT Model.Metrics Base.GoStr Base.GoTime Model.RateParse Model.ConfigFile Base.Fmt Model.Views Model.Gaussian Model.Runner Model.Pool Model.Ticker Model.RunLife.

Extraction Language OCaml.
Extraction "model.ml"
  Z.add Z.mul Z.opp Z.of_nat Z.to_nat Z.compare
  failed_verdict failed_verdict_pinned cli_returns_error verdict_spec_b
  dist_run dist_ok preg_run
  f_of_bits f_to_bits f_add f_sub f_mul f_div f_max f_floor f_ceil f_round f_trunc f_to_int f_of_Z f_lt f_le f_eq
  staged_run staged_ok ramp_run_f64 ramp_ok interp_ok
  jit_run_f64 jit_ok composed_bound_ok
  stats_run stats0 c01_ok exec init terminal
  worker_obs run_obs combine_obs measured_ok cleanups_once_ok
  gather_obs
  parse_duration atoi trim_space parse_rate parse_rate_pinned parse_stages calc_constant calc_ramp calc_staged calc_gaussian parse_config config_jitter_ok c15_run_ok c15_trigger_ok
  render_progress render_result render_exit render_stage log_progress log_result read_progress duration_string fmt_f2
  gauss_run gauss_ok carry_run weight_index
  runner_trace_ok runner_times_ok runner_timed_ok rexec rinit
  c02_ok c03_ok c04_ok pexec pinit pterminal
  c09_ok stage_count_ok worker_actions
  c05_ok window_ok lexec linit wedged.
