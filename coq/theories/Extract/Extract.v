(* Extraction of the executable models to OCaml (ocaml/model.ml).
   ExtrOcamlBasic only: bool, option, unit, list, prod, sumbool map to the
   OCaml types; Z, N, positive and Flocq's binary_float stay Coq datatypes. *)
From Coq Require Extraction.
From Coq Require Import ExtrOcamlBasic.
From F1 Require Import Base.Prelude Base.F64 Model.Verdict Model.Distribution.

Extraction Language OCaml.
Extraction "model.ml"
  Z.add Z.mul Z.opp Z.of_nat Z.to_nat Z.compare
  failed_verdict failed_verdict_pinned cli_returns_error verdict_spec_b
  dist_run dist_ok preg_run.
