module instrument

go 1.22
