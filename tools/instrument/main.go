// instrument: reads a Go source file of f1, writes a copy in which a call
// hook.At("<Func>#<k>:<recv>.<op>") precedes every statement that performs a
// synchronisation operation, and prints the ordered list of those operations
// per function (the "sync-op listing" used to detect drift between the code
// and the hand-written concurrent models).
//
// usage: instrument -in file.go -out copy.go [-list]
package main

import (
	"bytes"
	"flag"
	"fmt"
	"go/ast"
	"go/format"
	"go/parser"
	"go/token"
	"os"
	"sort"
	"strings"
)

var syncOps = map[string]bool{
	"Lock": true, "Unlock": true, "RLock": true, "RUnlock": true, "Wait": true, "Broadcast": true, "Signal": true,
	"Add": true, "Load": true, "Store": true, "Swap": true, "CompareAndSwap": true, "Done": true,
	"Err": true, "Stop": true,
}

// plain function values that are synchronisation relevant when called, and the operations
// of f1's own types that the concurrent models treat as steps (listed so that a change in
// where they are called shows up in the sync-op listing; hooks precede them too)
var syncCalls = map[string]bool{"cancel": true, "workerCtxCancel": true, "schedulesCtxCancel": true, "runFunction": true, "close": true,
	"none": true, "take": true, "set": true, "running": true, "NextIteration": true, "MaxIterationsReached": true,
	"IterationsExhausted": true, "RecordDroppedIteration": true, "recordDropped": true, "halt": true, "stop": true,
	"sendJobsForExecution": true, "waitForNewJobs": true, "maxIterationsReached": true, "WaitForCompletion": true,
	"Reset": true, "Run": true, "Trigger": true, "SnapshotProgress": true, "GetTotals": true, "Stop": true, "Start": true,
	"Restart": true, "startFirst": true, "startNext": true, "NewTicker": true, "NewTimer": true,
	// time and context control, and non-local exits: where they are called is part of what the models assume
	"Sleep": true, "After": true, "AfterFunc": true, "Until": true, "WithTimeout": true, "WithDeadline": true, "WithCancel": true,
	"panic": true, "recover": true, "Goexit": true, "CollectLifetime": true, "Update": true, "drain": true, "Snapshot": true, "Record": true}

// pkgFuncs: names of the functions and methods declared in the package of the file being
// processed (given by -pkgfuncs): calls of them are listed too, so that the listing can be
// flattened through helpers of the package
var pkgFuncs = map[string]bool{}

const hookImport = "github.com/form3tech-oss/f1/v2/internal/verifh/hook"

// curRecv is the receiver name of the method being processed: it is written "@" in operation
// names, so that the listing does not depend on it and calls through the receiver can be told
// from calls through local variables
var curRecv string

func exprString(e ast.Expr) string {
	switch v := e.(type) {
	case *ast.Ident:
		if curRecv != "" && v.Name == curRecv {
			return "@"
		}
		return v.Name
	case *ast.SelectorExpr:
		return exprString(v.X) + "." + v.Sel.Name
	case *ast.CallExpr:
		return exprString(v.Fun) + "()"
	case *ast.StarExpr:
		return exprString(v.X)
	case *ast.UnaryExpr:
		return exprString(v.X)
	}
	return "_"
}

// opsIn returns the synchronisation operations syntactically inside n (not descending into function literals).
func opsIn(n ast.Node) []string {
	var ops []string
	ast.Inspect(n, func(x ast.Node) bool {
		switch v := x.(type) {
		case *ast.FuncLit:
			return false
		case *ast.CallExpr:
			switch f := v.Fun.(type) {
			case *ast.SelectorExpr:
				if syncOps[f.Sel.Name] || syncCalls[f.Sel.Name] || pkgFuncs[f.Sel.Name] {
					ops = append(ops, exprString(f.X)+"."+f.Sel.Name)
				}
			case *ast.Ident:
				if syncCalls[f.Name] || pkgFuncs[f.Name] {
					ops = append(ops, f.Name)
				}
			}
		case *ast.UnaryExpr:
			if v.Op == token.ARROW {
				ops = append(ops, "recv "+exprString(v.X))
			}
		case *ast.SendStmt:
			ops = append(ops, "send "+exprString(v.Chan))
		case *ast.SelectStmt:
			ops = append(ops, "select")
			return false
		case *ast.GoStmt:
			ops = append(ops, "go")
			return false
		}
		return true
	})
	return ops
}

type instr struct {
	fn      string
	counter int
	listing map[string][]string
	order   []string
}

func (in *instr) hookStmt(op string) ast.Stmt {
	in.counter++
	point := fmt.Sprintf("%s#%d:%s", in.fn, in.counter, op)
	if _, ok := in.listing[in.fn]; !ok {
		in.order = append(in.order, in.fn)
	}
	in.listing[in.fn] = append(in.listing[in.fn], op)
	return &ast.ExprStmt{X: &ast.CallExpr{
		Fun:  &ast.SelectorExpr{X: ast.NewIdent("hook"), Sel: ast.NewIdent("At")},
		Args: []ast.Expr{&ast.BasicLit{Kind: token.STRING, Value: fmt.Sprintf("%q", point)}},
	}}
}

func (in *instr) block(list []ast.Stmt) []ast.Stmt {
	var out []ast.Stmt
	for _, st := range list {
		switch v := st.(type) {
		case *ast.BlockStmt:
			v.List = in.block(v.List)
		case *ast.IfStmt:
			if v.Init != nil || len(opsIn(v.Cond)) > 0 {
				for _, op := range append(opsInStmt(v.Init), opsIn(v.Cond)...) {
					out = append(out, in.hookStmt(op))
				}
			}
			v.Body.List = in.block(v.Body.List)
			if eb, ok := v.Else.(*ast.BlockStmt); ok {
				eb.List = in.block(eb.List)
			}
			out = append(out, st)
			continue
		case *ast.ForStmt:
			// operations in the loop condition are re-evaluated every iteration: hook at the top of the body
			var condOps []string
			if v.Cond != nil {
				condOps = opsIn(v.Cond)
			}
			body := in.block(v.Body.List)
			var pre []ast.Stmt
			for _, op := range condOps {
				out = append(out, in.hookStmt(op+" (loop entry)"))
				pre = append(pre, in.hookStmt(op+" (loop)"))
			}
			_ = pre
			v.Body.List = body
			out = append(out, st)
			continue
		case *ast.RangeStmt:
			v.Body.List = in.block(v.Body.List)
		case *ast.SelectStmt:
			out = append(out, in.hookStmt("select"))
			for _, c := range v.Body.List {
				cc := c.(*ast.CommClause)
				label := "default"
				if cc.Comm != nil {
					if o := opsInStmt(cc.Comm); len(o) > 0 {
						label = o[0]
					}
				}
				cc.Body = append([]ast.Stmt{in.hookStmt("case " + label)}, in.block(cc.Body)...)
			}
			out = append(out, st)
			continue
		case *ast.GoStmt:
			if _, lit := v.Call.Fun.(*ast.FuncLit); lit {
				out = append(out, in.hookStmt("go"))
			} else {
				out = append(out, in.hookStmt("go "+exprString(v.Call.Fun)))
			}
			if fl, ok := v.Call.Fun.(*ast.FuncLit); ok {
				saved := in.fn
				in.fn = saved + ".go"
				fl.Body.List = in.block(fl.Body.List)
				in.fn = saved
			}
			out = append(out, st)
			continue
		case *ast.DeferStmt:
			// deferred operations run at function exit; they are listed, a hook before the
			// defer statement itself would be misleading, so none is inserted
			for _, op := range opsIn(v.Call) {
				if _, ok := in.listing[in.fn]; !ok {
					in.order = append(in.order, in.fn)
				}
				in.listing[in.fn] = append(in.listing[in.fn], "defer "+op)
			}
			out = append(out, st)
			continue
		default:
			for _, op := range opsInStmt(st) {
				out = append(out, in.hookStmt(op))
			}
			// function literals nested in ordinary statements
			ast.Inspect(st, func(x ast.Node) bool {
				if fl, ok := x.(*ast.FuncLit); ok {
					saved := in.fn
					in.fn = saved + ".func"
					fl.Body.List = in.block(fl.Body.List)
					in.fn = saved
					return false
				}
				return true
			})
		}
		out = append(out, st)
	}
	return out
}

func opsInStmt(st ast.Stmt) []string {
	if st == nil {
		return nil
	}
	return opsIn(st)
}

func main() {
	inPath := flag.String("in", "", "source file")
	outPath := flag.String("out", "", "instrumented copy (optional)")
	list := flag.Bool("list", false, "print the sync-op listing")
	pf := flag.String("pkgfuncs", "", "comma separated names of the functions declared in the package")
	flag.Parse()
	for _, n := range strings.Split(*pf, ",") {
		if n != "" {
			pkgFuncs[n] = true
		}
	}
	fset := token.NewFileSet()
	f, err := parser.ParseFile(fset, *inPath, nil, parser.ParseComments)
	if err != nil {
		fmt.Fprintln(os.Stderr, err)
		os.Exit(1)
	}
	in := &instr{listing: map[string][]string{}}
	for _, d := range f.Decls {
		fd, ok := d.(*ast.FuncDecl)
		if !ok || fd.Body == nil {
			continue
		}
		name := fd.Name.Name
		curRecv = ""
		if fd.Recv != nil && len(fd.Recv.List) > 0 {
			name = strings.TrimPrefix(exprString(fd.Recv.List[0].Type), "*") + "." + name
			if len(fd.Recv.List[0].Names) > 0 {
				curRecv = fd.Recv.List[0].Names[0].Name
			}
		}
		in.fn, in.counter = name, 0
		fd.Body.List = in.block(fd.Body.List)
	}
	if *list {
		names := append([]string(nil), in.order...)
		sort.Strings(names)
		for _, n := range names {
			fmt.Printf("%s: %s\n", n, strings.Join(in.listing[n], " ; "))
		}
	}
	if *outPath != "" {
		// add the import and the build tag-free header
		ast.Inspect(f, func(ast.Node) bool { return false })
		f.Imports = append(f.Imports, &ast.ImportSpec{Path: &ast.BasicLit{Kind: token.STRING, Value: fmt.Sprintf("%q", hookImport)}})
		imp := &ast.GenDecl{Tok: token.IMPORT, Specs: []ast.Spec{&ast.ImportSpec{Path: &ast.BasicLit{Kind: token.STRING, Value: fmt.Sprintf("%q", hookImport)}}}}
		// keep the import used in files that got no hook
		keep := &ast.GenDecl{Tok: token.VAR, Specs: []ast.Spec{&ast.ValueSpec{
			Names:  []*ast.Ident{ast.NewIdent("_")},
			Values: []ast.Expr{&ast.SelectorExpr{X: ast.NewIdent("hook"), Sel: ast.NewIdent("At")}},
		}}}
		f.Decls = append(append([]ast.Decl{imp}, f.Decls...), keep)
		var buf bytes.Buffer
		if err := format.Node(&buf, fset, f); err != nil {
			fmt.Fprintln(os.Stderr, err)
			os.Exit(1)
		}
		if err := os.WriteFile(*outPath, buf.Bytes(), 0o644); err != nil {
			fmt.Fprintln(os.Stderr, err)
			os.Exit(1)
		}
	}
}
