"""Generic machinery behind bin/check: proof side (coqc + Print Assumptions),
implementation side (overlay build of the Go harness from /repo's working
tree), model side (extracted OCaml driver), diff, search/classification,
known findings, evidence, violation protocol."""
import fcntl
import json
import os
import re
import shutil
import subprocess
import sys
import time

VERIF = os.path.dirname(os.path.dirname(os.path.abspath(__file__)))
REPO = os.environ.get("VERIF_REPO", "/repo")
COQ = os.path.join(VERIF, "coq")
OCAML = os.path.join(VERIF, "ocaml")
HARNESS = os.path.join(VERIF, "harness")
MODPATH = "github.com/form3tech-oss/f1/v2"

GOENV = {
    "GOFLAGS": "-mod=mod",
    "GOPROXY": "off",
    "GOSUMDB": "off",
    "GOTOOLCHAIN": "local",
    "CGO_ENABLED": "0",
}

FORBIDDEN = re.compile(
    r"\b(Admitted|admit|Axiom|Axioms|Parameter|Parameters|Conjecture|Conjectures|Hypothesis|Hypotheses|"
    r"Abort All|bypass_check|Admit Obligations)\b|Unset Guard Checking|Unset Positivity Checking|"
    r"Unset Universe Checking|type-in-type|impredicative-set|native_compute"
)


def log(*a):
    print(*a, file=sys.stderr, flush=True)


class Lock:
    def __init__(self, path):
        self.path = path

    def __enter__(self):
        self.f = open(self.path, "w")
        fcntl.flock(self.f, fcntl.LOCK_EX)
        return self

    def __exit__(self, *a):
        fcntl.flock(self.f, fcntl.LOCK_UN)
        self.f.close()


def sh(cmd, cwd=None, env=None, timeout=None, input=None):
    e = dict(os.environ)
    if env:
        e.update(env)
    try:
        p = subprocess.run(cmd, cwd=cwd, env=e, timeout=timeout, input=input,
                           stdout=subprocess.PIPE, stderr=subprocess.STDOUT, text=True,
                           shell=isinstance(cmd, str))
        return p.returncode, p.stdout
    except subprocess.TimeoutExpired as ex:
        out = ex.stdout or ""
        if isinstance(out, bytes):
            out = out.decode("utf-8", "replace")
        return 124, out + "\n[timeout after %ss]" % timeout


# ------------------------------------------------------------------ proof side

def coq_sources():
    res = []
    for root, _, files in os.walk(os.path.join(COQ, "theories")):
        for f in files:
            if f.endswith(".v"):
                res.append(os.path.join(root, f))
    return sorted(res)


def strip_comments(text):
    out = []
    depth = 0
    i = 0
    while i < len(text):
        if text.startswith("(*", i):
            depth += 1
            i += 2
        elif text.startswith("*)", i) and depth > 0:
            depth -= 1
            i += 2
        else:
            if depth == 0:
                out.append(text[i])
            i += 1
    return "".join(out)


def hygiene():
    """No Admitted/admit/Axiom/Parameter/... anywhere in the development
    (comments ignored; Section Variables/Hypotheses are allowed only inside
    sections, which is checked separately)."""
    bad = []
    for p in coq_sources():
        text = strip_comments(open(p).read())
        # section-local assumptions are fine: drop the text of sections
        depth = 0
        for ln, line in enumerate(text.split("\n"), 1):
            s = line.strip()
            if re.match(r"^Section\b", s):
                depth += 1
            m = FORBIDDEN.search(line)
            if m:
                word = m.group(0)
                if depth > 0 and word in ("Hypothesis", "Hypotheses"):
                    pass
                else:
                    bad.append("%s:%d: %s" % (os.path.relpath(p, VERIF), ln, s))
            if re.search(r"^\s*(Variable|Variables|Context)\b", line) and depth == 0:
                bad.append("%s:%d: %s (outside a section)" % (os.path.relpath(p, VERIF), ln, s))
            if re.match(r"^End\b", s) and depth > 0:
                depth -= 1
    return bad


def coq_build(clean=False):
    with Lock(os.path.join(COQ, ".lock")):
        if clean:
            sh("make clean >/dev/null 2>&1; true", cwd=COQ)
        if not os.path.exists(os.path.join(COQ, "Makefile")) or \
                os.path.getmtime(os.path.join(COQ, "Makefile")) < os.path.getmtime(os.path.join(COQ, "_CoqProject")):
            rc, out = sh("coq_makefile -f _CoqProject -o Makefile", cwd=COQ, timeout=120)
            if rc != 0:
                return False, out
        rc, out = sh("make -j16", cwd=COQ, timeout=3000)
        return rc == 0, out


def coq_property(pid):
    """Re-check Properties/<pid>.v with a fresh coqc call and parse what the
    kernel accepted: theorem names and, for each, the Print Assumptions block."""
    src = os.path.join(COQ, "theories", "Properties", pid + ".v")
    text = strip_comments(open(src).read())
    theorems = re.findall(r"^\s*Theorem\s+([A-Za-z0-9_']+)", text, re.M)
    examples = re.findall(r"^\s*Example\s+([A-Za-z0-9_']+)", text, re.M)
    printed = re.findall(r"Print Assumptions\s+([A-Za-z0-9_']+)\s*\.", text)
    with Lock(os.path.join(COQ, ".lock")):
        tmpdir = os.path.join(COQ, ".check_%s_%d" % (pid, os.getpid()))
        os.makedirs(tmpdir, exist_ok=True)
        tmpout = os.path.join(tmpdir, pid + ".vo")
        cmd = ["coqc", "-Q", "theories", "F1", "-w", "-notation-overridden,-deprecated-hint-without-locality,-deprecated-instance-without-locality",
               "-o", tmpout, os.path.relpath(src, COQ)]
        rc, out = sh(cmd, cwd=COQ, timeout=1200)
        shutil.rmtree(tmpdir, ignore_errors=True)
    blocks = []
    if rc == 0:
        # split the output into one block per Print Assumptions, in order
        cur = None
        for line in out.split("\n"):
            if line.startswith("Closed under the global context"):
                blocks.append([])
                cur = None
            elif line.startswith("Axioms:"):
                cur = []
                blocks.append(cur)
            elif cur is not None and line.strip():
                if re.match(r"^[A-Za-z_][A-Za-z0-9_.']*\s*$", line) or re.match(r"^[A-Za-z_][A-Za-z0-9_.']*\s*:", line):
                    cur.append(line.split(":")[0].strip())
                # continuation lines of a type are ignored
    assumptions = {}
    for i, name in enumerate(printed):
        assumptions[name] = blocks[i] if i < len(blocks) else None
    return {
        "ok": rc == 0,
        "output": out,
        "theorems": theorems,
        "examples": examples,
        "assumptions": assumptions,
        "cmd": "coqc -Q theories F1 theories/Properties/%s.v" % pid,
    }


def ocaml_build():
    with Lock(os.path.join(OCAML, ".lock")):
        rc, out = sh("make", cwd=OCAML, timeout=1200)
        return rc == 0, out


def coqchk(pid):
    with Lock(os.path.join(COQ, ".lock")):
        rc, out = sh(["coqchk", "-silent", "-o", "-Q", "theories", "F1", "F1.Properties." + pid], cwd=COQ, timeout=7200)
    return rc == 0, out


# ------------------------------------------------------------------ implementation side

class Scratch:
    def __init__(self, pid):
        self.dir = "/var/tmp/f1verif.%s.%d" % (pid, os.getpid())

    def __enter__(self):
        shutil.rmtree(self.dir, ignore_errors=True)
        os.makedirs(self.dir)
        return self.dir

    def __exit__(self, *a):
        if not os.environ.get("VERIF_KEEP"):
            shutil.rmtree(self.dir, ignore_errors=True)


def build_harness(scratch, pkg, access=(), extra_overlay=None, kit=True, tags="verif"):
    """Build harness/<pkg> as internal/verifh/<pkg> inside the f1 module by
    overlay, against /repo's current working tree. access is a list of
    (repo-relative dir, file under harness/access) accessor files."""
    replace = {}
    if kit:
        for f in os.listdir(os.path.join(HARNESS, "kit")):
            if f.endswith(".go"):
                replace[os.path.join(REPO, "internal/verifh/kit", f)] = os.path.join(HARNESS, "kit", f)
    for extra in ("runkit", "hook"):
        d = os.path.join(HARNESS, extra)
        if os.path.isdir(d):
            for f in os.listdir(d):
                if f.endswith(".go"):
                    replace[os.path.join(REPO, "internal/verifh", extra, f)] = os.path.join(d, f)
    for f in os.listdir(os.path.join(HARNESS, pkg)):
        if f.endswith(".go"):
            replace[os.path.join(REPO, "internal/verifh", pkg, f)] = os.path.join(HARNESS, pkg, f)
    for d, f in access:
        replace[os.path.join(REPO, d, "zz_verif_" + os.path.basename(f))] = os.path.join(HARNESS, "access", f)
    if extra_overlay:
        replace.update(extra_overlay)
    ov = os.path.join(scratch, "overlay_%s.json" % pkg.replace("/", "_"))
    with open(ov, "w") as fh:
        json.dump({"Replace": replace}, fh, indent=1)
    binp = os.path.join(scratch, pkg.replace("/", "_") + ".test")
    cmd = ["go", "test", "-c", "-vet=off", "-tags", tags, "-overlay", ov, "-o", binp,
           "./internal/verifh/" + pkg + "/"]
    rc, out = sh(cmd, cwd=REPO, env=GOENV, timeout=900)
    return rc == 0, out, binp


def run_harness(binp, scratch, test, seed, tier, timeout, extra_env=None, name="cases"):
    cases = os.path.join(scratch, name + ".txt")
    stats = os.path.join(scratch, name + ".stats.json")
    for p in (cases, stats):
        if os.path.exists(p):
            os.remove(p)
    env = dict(GOENV)
    env.update({"VERIF_SEED": str(seed), "VERIF_TIER": tier, "VERIF_OUT": cases, "VERIF_STATS": stats,
                "VERIF_CORPUS": os.path.join(VERIF, "corpus")})
    if extra_env:
        env.update(extra_env)
    cmd = [binp, "-test.run", "^" + test + "$", "-test.timeout", "%ds" % timeout, "-test.count", "1"]
    rc, out = sh(cmd, cwd=scratch, env=env, timeout=timeout + 30)
    st = {}
    if os.path.exists(stats):
        try:
            st = json.load(open(stats))
        except Exception:
            st = {}
    lines = []
    if os.path.exists(cases):
        with open(cases) as fh:
            lines = [l.rstrip("\n") for l in fh]
    return rc, out, lines, st


def run_driver(case_heads):
    """case_heads: list of 'cmd args' strings -> list of model answers."""
    if not case_heads:
        return []
    inp = "\n".join(case_heads) + "\n"
    def big_stack():
        # the extracted functions are the model's structural recursions: not tail recursive,
        # so long lists (a day of sub-ticks) need a deep native stack
        import resource
        try:
            resource.setrlimit(resource.RLIMIT_STACK, (resource.RLIM_INFINITY, resource.RLIM_INFINITY))
        except (ValueError, OSError):
            soft, hard = resource.getrlimit(resource.RLIMIT_STACK)
            resource.setrlimit(resource.RLIMIT_STACK, (hard, hard))
    p = subprocess.run([os.path.join(OCAML, "driver")], input=inp, stdout=subprocess.PIPE,
                       stderr=subprocess.PIPE, text=True, timeout=3600, preexec_fn=big_stack)
    outs = p.stdout.split("\n")
    if outs and outs[-1] == "":
        outs.pop()
    if len(outs) != len(case_heads):
        raise RuntimeError("driver produced %d answers for %d cases: %s" % (len(outs), len(case_heads), p.stderr[-2000:]))
    return outs


# ------------------------------------------------------------------ known findings

def known_findings(pid):
    known, fixed = [], []
    p = os.path.join(VERIF, "KNOWN_FINDINGS.txt")
    if os.path.exists(p):
        for line in open(p):
            line = line.strip()
            if not line or line.startswith("#"):
                continue
            m = re.match(r"^known:\s+property=(\S+)\s+key=(\S+)\s+(.*)$", line)
            if m and m.group(1) == pid:
                known.append((m.group(2), m.group(3)))
            m = re.match(r"^fixed:\s+property=(\S+)\s+(.*)$", line)
            if m and m.group(1) == pid:
                fixed.append(m.group(2))
    return known, fixed


# ------------------------------------------------------------------ instrumentation (generated from the current sources)

# every non-test Go file of these package directories is instrumented (so that code moved to a
# new file of the package is still covered); sync-op listings are keyed by package directory
INSTRUMENT_DIRS = ["internal/progress", "internal/workers", "internal/raterun", "internal/run",
                   "internal/trigger/api", "internal/trigger/file", "internal/trigger/users", "pkg/f1/testing", "pkg/f1"]


def instrument_files():
    out = []
    for d in INSTRUMENT_DIRS:
        for fn in sorted(os.listdir(os.path.join(REPO, d))):
            if fn.endswith(".go") and not fn.endswith("_test.go") and not fn.startswith("zz_verif"):
                out.append(os.path.join(d, fn))
    return out


def _pkg_of(key):
    f = key.split("::", 1)[0]
    return os.path.dirname(f) if f.endswith(".go") else f


_FUNC_RE = re.compile(r"^func\s+(?:\([^)]*\)\s*)?([A-Za-z_]\w*)\s*[\(\[]", re.M)


def package_funcs(reldir):
    """names of the functions and methods declared in the non-test Go files of /repo/<reldir>"""
    names = set()
    d = os.path.join(REPO, reldir)
    for fn in sorted(os.listdir(d)):
        if fn.endswith(".go") and not fn.endswith("_test.go"):
            names.update(_FUNC_RE.findall(open(os.path.join(d, fn)).read()))
    return sorted(names)


def instrument(scratch, files=None):
    """Builds tools/instrument, instruments the current /repo sources, returns
    (overlay dict, listing dict file -> text)."""
    files = files or instrument_files()
    tool = os.path.join(scratch, "instrument")
    if not os.path.exists(tool):
        rc, out = sh(["go", "build", "-o", tool, "."], cwd=os.path.join(VERIF, "tools", "instrument"), env=GOENV, timeout=300)
        if rc != 0:
            raise RuntimeError("building tools/instrument failed: " + out[-800:])
    overlay = {}
    listing = {}
    d = os.path.join(scratch, "instrumented")
    os.makedirs(d, exist_ok=True)
    for f in files:
        src = os.path.join(REPO, f)
        if not os.path.exists(src):
            raise RuntimeError("source file to instrument is missing: " + f)
        dst = os.path.join(d, f.replace("/", "__"))
        rc, out = sh([tool, "-in", src, "-out", dst, "-list", "-pkgfuncs", ",".join(package_funcs(os.path.dirname(f)))], timeout=120)
        if rc != 0:
            raise RuntimeError("instrumenting %s failed: %s" % (f, out[-800:]))
        overlay[src] = dst
        listing[f] = out
    overlay[os.path.join(REPO, "internal/verifh/hook/hook.go")] = os.path.join(HARNESS, "hook", "hook.go")
    return overlay, listing


LOCK_LIKE = {"Lock", "Unlock", "RLock", "RUnlock", "Wait", "Broadcast", "Signal"}
# calls the concurrent models treat as steps (same list as syncCalls in tools/instrument): kept as
# tokens when they cannot be resolved to a listed function of the package
MODEL_CALLS = {"cancel", "workerCtxCancel", "schedulesCtxCancel", "runFunction", "close", "none", "take", "set", "running",
               "NextIteration", "MaxIterationsReached", "IterationsExhausted", "RecordDroppedIteration", "recordDropped", "halt",
               "stop", "sendJobsForExecution", "waitForNewJobs", "maxIterationsReached", "WaitForCompletion", "Reset", "Run",
               "Trigger", "SnapshotProgress", "GetTotals", "Stop", "Start", "Restart", "startFirst", "startNext", "NewTicker",
               "NewTimer", "CollectLifetime", "Update", "drain", "Snapshot", "Record",
               "Sleep", "After", "AfterFunc", "Until", "WithTimeout", "WithDeadline", "WithCancel", "panic", "recover", "Goexit"}
NOT_RESOLVED = LOCK_LIKE | {"Add", "Load", "Store", "Swap", "CompareAndSwap", "Done", "Err", "Stop", "Start", "Reset", "Run",
                            "close", "cancel", "NewTicker", "NewTimer", "Record", "Update", "Snapshot",
                            "Sleep", "After", "AfterFunc", "Until", "WithTimeout", "WithDeadline", "WithCancel", "panic", "recover", "Goexit", "Do"}


def _canon_expr(e):
    """channel / call expression -> rename-robust token"""
    e = e.strip()
    if e.endswith("()") and e[:-2].split(".")[-1] == "Done":
        return "Done()"
    return "chan"


def flatten_syncops(raw, declared=None):
    """raw: {'dir/file.go::Type.method': 'op ; op ; ...'} -> same keys, canonical flattened listing:
    calls of functions of the same package are replaced by the callee's own (flattened) operations,
    goroutine bodies are inlined at their go statement, receiver / field / channel names are dropped.
    Extracting or inlining a helper, turning a goroutine literal into a method and renaming
    unexported identifiers leave the flattened listing unchanged; reordering, adding or removing
    a synchronisation operation does not."""
    declared = declared or {}   # package dir -> names of all functions declared there
    by_pkg = {}
    for key in raw:
        f, fn = key.split("::", 1)
        pkg = _pkg_of(key)
        by_pkg.setdefault(pkg, {}).setdefault(fn.split(".")[-1] if not fn.endswith((".go", ".func")) else None, []).append(key)

    def resolve(key, op_expr):
        f, fn = key.split("::", 1)
        pkg = _pkg_of(key)
        segs = op_expr.split(".")
        m = segs[-1]
        if m in NOT_RESOLVED:
            return None   # names shared with sync / time / context objects: never a helper of the package
        cands = by_pkg.get(pkg, {}).get(m, [])
        if not cands:
            return None
        if len(segs) == 1:
            plain = [k for k in cands if "." not in k.split("::", 1)[1]]
            return plain[0] if len(plain) == 1 else None   # a package-level function called by its name
        if segs[0] != "@":
            # a call through a local variable, a parameter or a package: resolved only when exactly one
            # function of the package has that name (names shared with sync / time / context never are)
            return cands[0] if len(cands) == 1 else None
        base = fn
        for suf in (".go", ".func"):
            while base.endswith(suf):
                base = base[:-len(suf)]
        typ = base.split(".")[0] if "." in base else None
        if len(segs) == 2 and typ:
            own = [k for k in cands if k.split("::", 1)[1] == typ + "." + m]
            if own:
                same_file = [k for k in own if k.startswith(f + "::")]
                return (same_file or own)[0]
            return None
        if len(cands) == 1:
            return cands[0]   # a method of a field of the receiver, unique in the package
        return None

    memo = {}

    def flat(key, stack):
        if key in memo:
            return memo[key]
        out = []
        ops = [o for o in raw.get(key, "").split(" ; ") if o]
        go_bodies = 0
        for op in ops:
            suffix = ""
            for sfx in (" (loop entry)", " (loop)"):
                if op.endswith(sfx):
                    op, suffix = op[:-len(sfx)], sfx
            prefix = ""
            for pre in ("defer ", "case "):
                if op.startswith(pre):
                    prefix += pre
                    op = op[len(pre):]
            if op in ("select", "default"):
                out.append(prefix + op)
                continue
            if op.startswith("recv ") or op.startswith("send "):
                out.append(prefix + op[:5] + _canon_expr(op[5:]))
                continue
            if op == "go":
                body = key + ".go"
                inner = flat(body, stack + [key]) if body in raw and body not in stack else []
                out.append("go{" + " ; ".join(inner) + "}")
                continue
            if op.startswith("go "):
                callee = resolve(key, op[3:])
                inner = flat(callee, stack + [key]) if callee and callee not in stack and len(stack) < 8 else [op[3:].split(".")[-1]]
                out.append("go{" + " ; ".join(inner) + "}")
                continue
            callee = resolve(key, op)
            if callee and callee != key and callee not in stack and len(stack) < 8:
                inner = flat(callee, stack + [key])
                out.extend((prefix + x + suffix) if (prefix or suffix) else x for x in inner)
                continue
            segs = op.split(".")
            pkg = _pkg_of(key)
            if segs[-1] in declared.get(pkg, ()) and segs[-1] not in NOT_RESOLVED and segs[-1] not in MODEL_CALLS \
                    and not by_pkg.get(pkg, {}).get(segs[-1]):
                continue   # a helper of the package that performs no synchronisation itself
            tok = ".".join(segs[-2:]) if segs[-1] in LOCK_LIKE and len(segs) >= 2 else segs[-1]
            if segs[-1] in LOCK_LIKE and len(segs) >= 2:
                tok = segs[-1] if segs[-2] in ("L",) else segs[-1]
            out.append(prefix + tok + suffix)
        if not stack:
            memo[key] = out
        return out

    return {k: " ; ".join(flat(k, [])) for k in raw}


def syncops_drift(listing, functions):
    """Compares the flattened, rename-robust sync-op listing of the given 'file::Function' entries
    (see flatten_syncops) with the one computed from the committed corpus/syncops.json.
    Returns (list of differences, current raw listing)."""
    p = os.path.join(VERIF, "corpus", "syncops.json")
    expected = json.load(open(p)) if os.path.exists(p) else {}
    diffs = []
    current = {}
    for f, text in listing.items():
        for line in text.split("\n"):
            if ": " in line:
                fn, ops = line.split(": ", 1)
                key = os.path.dirname(f) + "::" + fn
                current[key] = (current[key] + " ; " if key in current else "") + ops.strip()
    decl_now = {}
    for f in listing:
        d = os.path.dirname(f)
        if d not in decl_now:
            decl_now[d] = package_funcs(d)
    fe = flatten_syncops({k: v for k, v in expected.items() if k != "__declared__"}, expected.get("__declared__", {}))
    fc = flatten_syncops(current, decl_now)
    current["__declared__"] = decl_now
    def base_of(key):
        while key.endswith(".func"):
            key = key[:-len(".func")]
        return key

    def merged(flat, key):
        """flattened listing of a function together with the closures written inside it (their
        operations follow the function's own): turning a closure into a method, or a method's
        body into a closure, moves operations between the two without changing the whole"""
        parts = [flat.get(key, "")]
        k = key + ".func"
        while k in flat:
            parts.append(flat[k])
            k += ".func"
        return " ; ".join(x for x in parts if x)

    wanted = []
    for key in functions:
        if key.endswith("::*"):   # every function of the package that has a listing in the corpus
            pre = key[:-1]
            wanted.extend(sorted(set(base_of(k) for k in expected if k.startswith(pre))))
        else:
            wanted.append(base_of(key))
    seen = set()
    for key in wanted:
        if key == "__declared__" or key.endswith(".go") or key in seen:
            continue   # goroutine bodies are compared through the function that starts them
        seen.add(key)
        exp, cur = merged(fe, key), merged(fc, key)
        if not exp and key not in expected and (key + ".func") not in expected:
            continue
        if cur != exp:
            if exp and not cur and key not in fc and (key + ".func") not in fc:
                # the function is gone under this name: renamed, or a closure turned into a method of a
                # new type; accepted when a function of the same package has exactly its operations
                pkg = _pkg_of(key)
                if any(_pkg_of(k) == pkg and merged(fc, base_of(k)) == exp for k in fc):
                    continue
            diffs.append((key, exp, cur))
    return diffs, current
