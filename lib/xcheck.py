"""Per-run cross-check of extraction: the first cases of a run are evaluated
inside Coq (vm_compute) and compared with what the extracted OCaml code
answered. One coqc call; prints nothing but the list of disagreeing indexes."""
import os
import re
import subprocess

from verif import COQ


def parse_value(s):
    s = s.strip()
    pos = [0]

    def val():
        if s[pos[0]] == '[':
            pos[0] += 1
            items = []
            if s[pos[0]] == ']':
                pos[0] += 1
                return items
            while True:
                items.append(val())
                if s[pos[0]] == ',':
                    pos[0] += 1
                elif s[pos[0]] == ']':
                    pos[0] += 1
                    return items
                else:
                    raise ValueError(s)
        if s[pos[0]] in 'TF':
            pos[0] += 1
            return s[pos[0] - 1] == 'T'
        m = re.match(r'[-+]?\d+', s[pos[0]:])
        pos[0] += len(m.group(0))
        return int(m.group(0))
    v = val()
    if pos[0] != len(s):
        raise ValueError(s)
    return v


def z(v):
    return "(%d)" % v


def zl(v):
    return "[" + "; ".join(z(x) for x in v) + "]"


def b(v):
    return "true" if v else "false"


def res(out, f):
    out = out.strip()
    if out == "err":
        return "Err"
    if out == "crash":
        return "Crash"
    if out.startswith("ok "):
        return "(Ok %s)" % f(parse_value(out[3:]))
    raise ValueError(out)


def opt(v, f):
    return "None" if v == [] else "(Some %s)" % f(v[0])


DKIND = {0: "DNone", 1: "DRegular", 2: "DRandom"}

# cmd -> function(args (parsed), model_out (string)) -> Coq boolean term
XCHECKS = {
    "verdict": lambda a, o: "res_eqb Bool.eqb (failed_verdict %s %s %s %s {| ign := %s; mf := %s; mr := %s |}) %s"
    % (z(a[0]), z(a[1]), z(a[2]), z(a[3]), b(a[4]), z(a[5]), z(a[6]), res(o, b)),
    "cli": lambda a, o: "res_eqb Bool.eqb (cli_returns_error %s %s %s %s {| ign := %s; mf := %s; mr := %s |}) %s"
    % (z(a[0]), z(a[1]), z(a[2]), z(a[3]), b(a[4]), z(a[5]), z(a[6]), res(o, b)),
    "dist": lambda a, o: "res_eqb (pair_eqb (pair_eqb Z.eqb zl_eqb) Z.eqb) (dist_run %s %s %s %s %d%%nat) %s"
    % (DKIND.get(a[0], "DUnknown"), z(a[1]), zl(a[2]), zl(a[3]), a[4],
       res(o, lambda v: "(%s, %s, %s)" % (z(v[0]), zl(v[1]), z(v[2])))),
    "staged": lambda a, o: "pair_eqb zl_eqb Z.eqb (staged_run %s %s %s) %s"
    % ("[" + "; ".join("(%s, %s)" % (z(p[0]), z(p[1])) for p in a[0]) + "]", opt(a[1], z), zl(a[2]),
       (lambda v: "(%s, %s)" % (zl(v[0]), z(v[1])))(parse_value(o[3:]))),
    "ramp": lambda a, o: "zl_eqb (ramp_run_f64 %s %s %s %s) %s" % (z(a[0]), z(a[1]), z(a[2]), zl(a[3]), zl(parse_value(o[3:]))),
    "jitter": lambda a, o: "zl_eqb (jit_run_f64 %s %s %s) %s" % (z(a[0]), zl(a[1]), zl(a[2]), zl(parse_value(o[3:]))),
    "parse_rate": lambda a, o: "res_eqb (pair_eqb Z.eqb Z.eqb) (parse_rate %s) %s"
    % (zl(a[0]), res(o, lambda v: "(%s, %s)" % (z(v[0]), z(v[1])))),
    "parse_stages": lambda a, o: "res_eqb (list_eqb (pair_eqb Z.eqb Z.eqb)) (parse_stages %s) %s"
    % (zl(a[0]), res(o, lambda v: "[" + "; ".join("(%s, %s)" % (z(p[0]), z(p[1])) for p in v) + "]")),
    "go_parse_duration": lambda a, o: "opt_eqb Z.eqb (parse_duration %s) %s"
    % (zl(a[0]), "None" if o.strip() == "err" else "(Some %s)" % z(int(o.strip()[3:]))),
    "go_atoi": lambda a, o: "opt_eqb Z.eqb (atoi %s) %s"
    % (zl(a[0]), "None" if o.strip() == "err" else "(Some %s)" % z(int(o.strip()[3:]))),
    "render_exit": lambda a, o: "zl_eqb (render_exit %s %s %s) %s" % (b(a[0]), z(a[1]), z(a[2]), zl(parse_value(o[3:]))),
    "c02_ok": lambda a, o: "Bool.eqb (c02_ok %s %s %s %s %s) %s" % (z(a[0]), z(a[1]), z(a[2]), b(a[3]), z(a[4]), b(o.strip() == "T")),
    "c01_ok": lambda a, o: "Bool.eqb (c01_ok %s %s %s %s %s %s %s %s %s %s) %s"
    % (z(a[0]), z(a[1]), z(a[2]), z(a[3]), z(a[4]), z(a[5]), b(a[6]), z(a[7]), z(a[8]), z(a[9]), b(o.strip() == "T")),
}

HEADER = """From Coq Require Import String.
From F1 Require Import Base.Prelude Base.XCheck Base.F64 Base.GoStr Base.GoTime Base.Fmt
  Model.Verdict Model.Distribution Model.Staged Model.Jitter Model.Progress Model.RateParse Model.Views Model.Pool.
Open Scope Z_scope.
"""


def cross_check(pid, heads, answers, limit=50, timeout=600):
    """Returns (n_checked, list of disagreeing (head, driver answer), error text or None)."""
    terms, used = [], []
    for h, a in zip(heads, answers):
        if len(terms) >= limit:
            break
        parts = h.split(" ")
        cmd = parts[0]
        f = XCHECKS.get(cmd)
        if not f or a.startswith("DRIVER-ERROR"):
            continue
        if len(h) > 4000:
            continue
        try:
            args = [parse_value(x) for x in parts[1:] if x != ""]
            terms.append(f(args, a))
            used.append((h, a))
        except Exception:
            continue
    if not terms:
        return 0, [], None
    src = HEADER + "Definition checks : list bool :=\n [ " + ";\n   ".join(terms) + " ].\n" + \
        "Definition bad := Eval vm_compute in false_indexes 0 checks.\nPrint bad.\n"
    d = os.path.join(COQ, ".xcheck_%s_%d" % (pid, os.getpid()))
    os.makedirs(d, exist_ok=True)
    path = os.path.join(d, "xc.v")
    with open(path, "w") as fh:
        fh.write(src)
    try:
        p = subprocess.run(["coqc", "-Q", "theories", "F1", "-w", "-all", path], cwd=COQ, timeout=timeout,
                           stdout=subprocess.PIPE, stderr=subprocess.STDOUT, text=True)
    except subprocess.TimeoutExpired:
        return len(terms), [], "timeout"
    finally:
        pass
    out = p.stdout
    import shutil
    shutil.rmtree(d, ignore_errors=True)
    if p.returncode != 0:
        return len(terms), [], out[-1500:]
    m = re.search(r"bad\s*=\s*\[(.*?)\]", out, re.S)
    if not m:
        return len(terms), [], "unparsable coqc output: " + out[-500:]
    idx = [int(x.replace("%nat", "").strip()) for x in m.group(1).replace("\n", " ").split(";") if x.strip()]
    return len(terms), [used[i] for i in idx], None
