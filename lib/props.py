"""Per-property configuration of the checks."""

RUN_ACCESS = ("internal/run", "run_access.go")
FILE_ACCESS = ("internal/trigger/file", "file_access.go")

PROPS = {}


def prop(**kw):
    PROPS[kw["id"]] = kw
    return kw


# Glue the models rest on without driving it through hooks: the listing of synchronisation,
# time/context-control, non-local-exit and same-package calls of these functions is compared with
# the committed one (corpus/syncops.json, bin/mkcorpus) on every run of the properties named here.
T_GLUE = ["pkg/f1/testing::*"]
ACTIVE_GLUE = ["internal/workers::ActiveScenario.Run", "internal/workers::ActiveScenario.Setup", "internal/workers::ActiveScenario.Failed",
               "internal/workers::ActiveScenario.TeardownFailed", "internal/workers::ActiveScenario.RecordDroppedIteration"]
TRIGGER_GLUE = ["internal/trigger/api::NewIterationWorker.func", "internal/trigger/file::runStage", "internal/trigger/file::newStagesWorker.func",
                "internal/trigger/users::NewWorker.func", "internal/trigger/users::Rate.func.func"]
RUN_GLUE = ["internal/run::Run.Do", "internal/run::Run.run", "internal/run::Run.teardownActiveScenario", "internal/run::Run.reportSetupFailure",
            "internal/run::Run.pushMetrics"]
GLUE = {
    "C01": T_GLUE + ACTIVE_GLUE + ["internal/progress::*"],
    "C02": TRIGGER_GLUE, "C03": TRIGGER_GLUE, "C04": TRIGGER_GLUE,
    "C05": TRIGGER_GLUE + RUN_GLUE,
    "C06": T_GLUE + ACTIVE_GLUE + RUN_GLUE, "C07": T_GLUE + ACTIVE_GLUE, "C20": T_GLUE + ACTIVE_GLUE,
    "C08": T_GLUE + RUN_GLUE + ["internal/run::Result.Failed", "internal/run::Result.Error"],
    "C09": ["internal/trigger/api::NewIterationWorker.func"],
    "C15": ["internal/trigger/file::runStage", "internal/trigger/file::newStagesWorker.func"],
    "C16": ACTIVE_GLUE + ["internal/run::Run.pushMetrics", "internal/run::Run.teardownActiveScenario"],
    "C17": ACTIVE_GLUE + ["pkg/f1/testing::T.Time", "pkg/f1/testing::recordTime", "internal/progress::*"],
}


def c08_key(c, model):
    # family key of a failing verdict case: which way it is wrong
    if c["impl"] == "crash":
        return "verdict-crash"
    return "verdict-differs"


prop(
    id="C08",
    stages=[dict(name="c08", pkg="c08", test="TestC08", access=[RUN_ACCESS], timeout_quick=240, timeout_thorough=1200)],
    key=c08_key,
    rule="(nerrs,s,f,d,ignore-dropped,max-failures,max-failures-rate) tuples: corpus witnesses, boundary-heavy generator "
         "(100f = rate*total +-1, failures = max-failures +-1, zero runs), Result built directly and via recorded outcomes, "
         "plus real CLI runs; CLI runs with tolerances at the ends of their ranges and with scenario teardowns failing in every way; non-trivial = no earlier disjunct fires and a failure rate is configured, so the rate clause decides; "
         "distinct = distinct argument tuples",
    assumptions=["counts below 2^63/100 so that Go's uint64 products do not wrap (generator stays below 1e9)",
                 "Go harness, -overlay build and the add-only accessor internal/run/zz_verif_run_access.go",
                 "extraction (ExtrOcamlBasic) and ocaml/driver.ml"],
)


def c12_key(c, model):
    if c["impl"] == "crash":
        return "dist-crash"
    return "dist-total-or-shape"


prop(
    id="C12",
    stages=[dict(name="c12", pkg="c12", test="TestC12", access=[], timeout_quick=240, timeout_thorough=2400)],
    ok_pred={"dist": "dist_ok"},
    check_ok_always=True,
    key=c12_key,
    rule="api.NewDistribution driven in-process with scripted rate and random oracles: kinds none/regular/random/unknown, "
         "intervals below/at/above 100ms incl. ragged ones, N up to 300 (thorough 3000, plus 36000 and 864000), 1-50 consecutive cycles, "
         "time-varying rates 0..2^31, partial cycles, random sources in range/zero/huge; corpus first (pinned-refutation witness, goldens); "
         "non-trivial = regular or random kind above 100ms with some rate not a multiple of N; distinct = distinct argument tuples",
    assumptions=["rates below 2^62/N so that Go's int accumulator does not wrap",
                 "the scripted random source stands for math/rand.Intn (panics on n<=0, any non-negative return value)",
                 "extraction (ExtrOcamlBasic) and ocaml/driver.ml; Go harness and overlay build"],
)


prop(
    id="C10",
    stages=[dict(name="c10", pkg="c10", test="TestC10", access=[], timeout_quick=240, timeout_thorough=2400),
            dict(name="f64", pkg="c10", test="TestF64", access=[], timeout_quick=240, timeout_thorough=2400)],
    ok_pred={"staged": "staged_ok", "ramp": "ramp_ok"},
    check_ok_always=True,
    rule="CalculateStagedRate / CalculateRampRate (distribution none, jitter 0) on synthetic non-decreasing timestamps: 1-8 stages, "
         "durations 0 (zero-length), 1ns..100 hours, targets up and down to 2e9, given or default start, 5-60 query times incl. every stage boundary +-1ns "
         "and far beyond the end; ramps up/down over 1s..1000s; stage f64: Go float64 primitives vs the Flocq model on random bit patterns; "
         "non-trivial = staged profile with >= 2 stages / any ramp / any f64 primitive case; distinct = distinct argument tuples",
    assumptions=["float64 arithmetic of Go on amd64 = IEEE-754 binary64 round-to-nearest-even (Flocq BinarySingleNaN), checked per primitive by stage f64",
                 "int(f) for NaN/out-of-range = -2^63 (amd64)",
                 "times within int64 nanoseconds; time.Time.Sub does not saturate in the generated range",
                 "shape and closeness theorems cover int64 durations and target differences below 2^53 (f64_exact)"],
)


prop(
    id="C13",
    stages=[dict(name="c13", pkg="c13", test="TestC13", access=[], timeout_quick=240, timeout_thorough=2400),
            dict(name="c13composed", pkg="c13", test="TestC13Composed", access=[], timeout_quick=240, timeout_thorough=2400),
            dict(name="c13pairs", pkg="c13", test="TestC13Pairs", access=[], timeout_quick=240, timeout_thorough=2400),
            dict(name="c13triggers", pkg="c13", test="TestC13Triggers", access=[], timeout_quick=240, timeout_thorough=2400),
            dict(name="c14config", pkg="c14", test="TestC14Config", access=[FILE_ACCESS], timeout_quick=300, timeout_thorough=3000)],
    ok_pred={"jitter": "jitter_ok"},
    check_ok_always=True,
    rule="api.WithJitter around scripted rate lists (constant, ramps, bursts, zeros, random; lengths 1..200, some 1000-10000), jitter in "
         "{0,0.5,2,20,50,99,99.9,33.3,...}; the global math/rand source is seeded and mirrored so the model receives the very cos factors as float64 bit patterns; "
         "exact per-tick equality with the binary64 transcription; the constant trigger as the CLI builds it (rate x jitter x regular/random distribution) stepped side by side with its un-jittered twin for 2000-20000 sub-ticks: running totals within composed_bound_ok (theorem C13_composed_bound); the jitter in force for every stage of generated config files (stage's own - 0 included - before the default section's), seen as 24 evaluations of the stage's rate function that agree (zero jitter is the identity) or vary (predicate config_jitter_ok); non-trivial = jitter != 0 / config with stage-start and >= 2 stages; distinct = distinct (jitter, rates, factors) tuples / configs",
    assumptions=["math.Cos and math/rand are oracles: their values are taken from the run, not modelled",
                 "rand.Seed seeds the global source deterministically (Go < 1.24 semantics; go1.23.5 here)",
                 "float64 = IEEE-754 binary64 (see C10 stage f64)",
                 "C13_f64_admissible covers jitter percentages that are positive normal floats below 100 and magnitudes below 2^49; outside that range admissibility is only checked per run by jit_ok"],
)

WORKERS_ACCESS = ("internal/workers", "workers_access.go")
POOL_ACCESS = ("internal/workers", "workers_pool_access.go")


def c01_key(c, model):
    return "counts-differ"


prop(
    id="C01",
    stages=[dict(name="c01stress", pkg="c01", test="TestC01Stress", access=[RUN_ACCESS, WORKERS_ACCESS], timeout_quick=300, timeout_thorough=3000),
            dict(name="c01runs", pkg="c01", test="TestC01Runs", access=[RUN_ACCESS, WORKERS_ACCESS], timeout_quick=300, timeout_thorough=3000),
            dict(name="c17seq", pkg="c01", test="TestC17Seq", access=[RUN_ACCESS, WORKERS_ACCESS], timeout_quick=300, timeout_thorough=3000)],
    key=c01_key,
    rule="(a) component stress: 1-32 goroutines drive the real ActiveScenario.Run / RecordDroppedIteration with random outcome plans (thousands of records each) "
         "while 1-3 goroutines loop Result.SnapshotProgress; then GetTotals; oracle = extracted predicate c01_ok on (plan counts, result totals, exported sample counts); "
         "(b) whole runs (users/constant/staged) with a goroutine forcing snapshots through the run's Result; (c) sequential op sequences of Stats.Record/Snapshot/Total "
         "compared exactly with the sequential model; the scenario logger rotates between f1's discard logger, one with every level enabled and one with no level enabled; failing bodies fail through Fail, FailNow, panics, Errorf and a testify assertion; (d) the pool conservation histories and the whole runs through the ticking goroutine (C02 (a)-(d)) with rapid back-to-back ticks and a burst superseded at the very end of a run; non-trivial = at least one snapshot ran concurrently with recorded iterations (a,b) / >= 2 snapshots in the sequence (c); distinct = distinct cases",
    assumptions=["sync/atomic operations are sequentially consistent; one model step per atomic/lock operation",
                 "Result.mu serialises collectors (modelled as a lock); GetTotals runs after all iterations completed",
                 "prometheus SummaryVec.Observe increments the sample count atomically (modelled as one step)",
                 "scheduler non-determinism is explored by stress, not enumerated: the theorem covers all schedules of the model, the harness samples real ones"],
)

prop(
    id="C17",
    stages=[dict(name="c17seq", pkg="c01", test="TestC17Seq", access=[RUN_ACCESS, WORKERS_ACCESS], timeout_quick=300, timeout_thorough=3000),
            dict(name="c17measured", pkg="c01", test="TestC17Measured", access=[RUN_ACCESS, WORKERS_ACCESS], timeout_quick=300, timeout_thorough=3000)],
    rule="single iterations on the real ActiveScenario whose body spends 0.3-3ms by its own clock and then ends by return, Fail, FailNow, Fatalf, a failed require or a panic: the recorded duration (min = max = mean) lies "
         "between the body's own time and the time the Run call took (predicate measured_ok, both one-sided); random sequences (0-60 ops, some 500-2000) of Stats.Record (success/fail/dropped/unknown; durations 1ns..1h) with Snapshot and Total anywhere "
         "(leading, consecutive); every field of every snapshot compared exactly with the sequential model; c17measured also reads the exported iteration summary (count, sum) over two rounds on one metrics instance with a Reset between; non-trivial = >= 2 snapshots in the sequence; distinct = distinct op sequences",
    assumptions=["sequential use (one goroutine); durations positive and sums below 2^63"],
)

C06_STAGES = [dict(name="c06worker", pkg="c06", test="TestC06Worker", access=[WORKERS_ACCESS], timeout_quick=300, timeout_thorough=3000)]

prop(
    id="C06",
    stages=C06_STAGES + [dict(name="c06run", pkg="c06", test="TestC06Run", access=[WORKERS_ACCESS, RUN_ACCESS], timeout_quick=300, timeout_thorough=3000),
                         dict(name="c06file", pkg="c06", test="TestC06FileCleanups", access=[WORKERS_ACCESS, RUN_ACCESS], timeout_quick=300, timeout_thorough=3000),
                         dict(name="c06teardown", pkg="c06", test="TestC06FileTeardown", access=[WORKERS_ACCESS, RUN_ACCESS], timeout_quick=300, timeout_thorough=3000),
                         dict(name="c06slowsetup", pkg="c06", test="TestC06SlowSetup", access=[WORKERS_ACCESS, RUN_ACCESS], timeout_quick=300, timeout_thorough=3000),
                         dict(name="c06stageup", pkg="c06", test="TestC06StageComingUp", access=[WORKERS_ACCESS, RUN_ACCESS], timeout_quick=300, timeout_thorough=3000),
                         dict(name="c06many", pkg="c06", test="TestC06ManySetupCleanups", access=[WORKERS_ACCESS, RUN_ACCESS], timeout_quick=300, timeout_thorough=3000)],
    rule="generated scenario programs (cleanup tables of 0-5 cleanups that log, fail, panic or register; bodies/setups of 0-7 actions: register, Fail/Error/Errorf, "
         "FailNow/Fatal/Fatalf/require, panic with error/runtime error/string/int/struct, marks) executed (a) by the real ActiveScenario.Setup/Run on one worker handle, "
         "event log and per-iteration recorded outcome compared exactly with the model; (b) through whole Run.Do runs (users/constant x limit/duration/cancel) for the setup/teardown "
         "lifecycle, plus a harness-side check that no body starts after the setup cleanups ran; (d) config files with a users or constant stage followed by a constant stage with iterations of 120-260 ms: nothing is in flight when the setup cleanups run nor at return; (e) runs interrupted while their setup is still sleeping (longer than the completion timeout): setup finishes, all its cleanups run in reverse order before the return; (f) a users stage of 300-2000 users interrupted the instant its parameter appears in the environment: no iteration starts after the setup cleanups ran or the run returned; non-trivial = a body that registers cleanups and then stops by FailNow/panic (a) / "
         "a program with a non-empty cleanup table (b); distinct = distinct programs",
    assumptions=["scenario code follows the documented contract (FailNow only from the iteration goroutine, no runtime.Goexit)",
                 "recover() semantics of Go; runtime errors implement error",
                 "workers' interleaving with the main goroutine is abstracted to one EIterations phase in the run-level model; its placement is observed in whole runs"],
)

prop(
    id="C07",
    stages=C06_STAGES + [dict(name="c07runs", pkg="c07", test="TestC07Runs", access=[WORKERS_ACCESS, RUN_ACCESS], timeout_quick=300, timeout_thorough=3000),
                         dict(name="c07late", pkg="c07", test="TestC07LateMark", access=[WORKERS_ACCESS, RUN_ACCESS], timeout_quick=300, timeout_thorough=3000),
                         dict(name="c07conc", pkg="c07", test="TestC07ConcurrentMarks", access=[WORKERS_ACCESS, RUN_ACCESS], timeout_quick=300, timeout_thorough=3000),
                         dict(name="c07logfile", pkg="c07", test="TestC07LogFile", access=[WORKERS_ACCESS, RUN_ACCESS], timeout_quick=300, timeout_thorough=3000)],
    rule="(a) as C06 (a): per-iteration outcomes of generated bodies on one worker vs the model's classification, T.Failed() at body entry must be false; "
         "(b) whole runs in every trigger mode with per-iteration-id outcome plans (pass, each failure API, require assertion, panics with error/string/int/struct/runtime error): "
         "planned counts vs Result totals vs exported sample counts through the extracted predicate c01_ok; every fourth whole run has iterations that mark the scenario's own handle failed while others are in flight; non-trivial = body that fails or panics; distinct = distinct programs/plans",
    assumptions=["scenario code follows the documented contract", "recover() semantics of Go"],
)

prop(
    id="C20",
    stages=[dict(name="c20", pkg="c06", test="TestC20", access=[WORKERS_ACCESS], timeout_quick=300, timeout_thorough=3000),
            dict(name="c20interrupted", pkg="c06", test="TestC20Interrupted", access=[WORKERS_ACCESS, RUN_ACCESS], timeout_quick=300, timeout_thorough=3000),
            dict(name="c20file", pkg="c06", test="TestC20File", access=[WORKERS_ACCESS, RUN_ACCESS], timeout_quick=300, timeout_thorough=3000)],
    rule="0-7 generated components (setup and iteration bodies of marks, cleanups, Fail, FailNow, panics) combined by the real f1.CombineScenarios and run through "
         "ActiveScenario.Setup/Run for 1-3 iterations: event log, setup-failed flag and per-iteration outcomes equal the model's exactly; handle identity checked by pointer; "
         "whole file-triggered runs (a pool per stage) of generated combined scenarios in which every third iteration pauses between its first and second component across a stage boundary: "
         "per-iteration event logs grouped by handle equal the model's, no handle in use twice, iteration id stable across components, totals all-failed or all-successful; "
         "non-trivial = at least two components; distinct = distinct programs",
    assumptions=["scenario code follows the documented contract"],
)

prop(
    id="C16",
    stages=[dict(name="c16comp", pkg="c16", test="TestC16Component", access=[WORKERS_ACCESS, RUN_ACCESS], timeout_quick=300, timeout_thorough=3000),
            dict(name="c16runs", pkg="c16", test="TestC16Runs", access=[WORKERS_ACCESS, RUN_ACCESS], timeout_quick=300, timeout_thorough=3000),
            dict(name="c16conc", pkg="c16", test="TestC16Concurrent", access=[WORKERS_ACCESS, RUN_ACCESS], timeout_quick=300, timeout_thorough=3000),
            dict(name="c16push", pkg="c16", test="TestC16Push", access=[WORKERS_ACCESS, RUN_ACCESS], timeout_quick=300, timeout_thorough=3000),
            dict(name="c16file", pkg="c16", test="TestC16File", access=[WORKERS_ACCESS, RUN_ACCESS], timeout_quick=300, timeout_thorough=3000),
            dict(name="c16global", pkg="c16", test="TestC16Global", access=[WORKERS_ACCESS, RUN_ACCESS], timeout_quick=300, timeout_thorough=3000)],
    rule="random static label maps (0-7 keys from a pool with colliding prefixes and case variants; values equal to other keys, empty, non-ASCII) on private registries; "
         "1-3 consecutive runs per instance with outcome mixes incl. drops and setup failures, (a) through the real ActiveScenario with the reset Run.Do performs, (b) through whole Run.Do runs, (c) 2-12 workers recording different outcomes at the same time on an instance with static labels; "
         "Registry.Gather() canonicalised to (family, name/value pairs sorted by name, sample count) and compared exactly with the model; after every whole run the exported iteration metric is compared with that run's final result (bodies with failing cleanups included); stage c16push: runs against an in-process push gateway answering promptly or after up to 1.5 s (runs of 5.1-5.9 s ending during a periodic push): what the gateway holds = the final result; stage c16file: config-file runs mixing users and rate stages in every order with bodies of 60-170 ms that outlive their stage (iterations in flight and requests pending when the last stage stops triggering): executed = final result = exported iteration metric, outcome by outcome; non-trivial = at least two static labels / file run of more than three iterations; distinct = distinct cases",
    assumptions=["prometheus client: WithLabelValues pairs the i-th value with the i-th declared label name; Reset drops all series; Observe adds one sample (modelled)",
                 "label maps have distinct keys (Go map)"],
)



def c14_key(c, model):
    if c["impl"] == "crash":
        return "input-crash-" + c["cmd"]
    return "input-" + c["cmd"]


prop(
    id="C14",
    stages=[dict(name="c14prims", pkg="c14", test="TestC14Prims", access=[FILE_ACCESS], timeout_quick=300, timeout_thorough=3000),
            dict(name="c14rate", pkg="c14", test="TestC14Rate", access=[FILE_ACCESS], timeout_quick=300, timeout_thorough=3000),
            dict(name="c14ctors", pkg="c14", test="TestC14Ctors", access=[FILE_ACCESS], timeout_quick=300, timeout_thorough=3000),
            dict(name="c14config", pkg="c14", test="TestC14Config", access=[FILE_ACCESS], timeout_quick=300, timeout_thorough=3000),
            dict(name="c14fuzz", pkg="c14", test="TestC14Fuzz", access=[FILE_ACCESS], timeout_quick=300, timeout_thorough=3000),
            dict(name="c14cli", pkg="c14", test="TestC14CLI", access=[FILE_ACCESS], timeout_quick=300, timeout_thorough=3000)],
    key=c14_key,
    rule="grammar-based generators with near-miss mutation (delete/duplicate/insert/replace over 0-9 / . - + e µ s m h n u : , space) for rate and stages strings "
         "(thorough: every string of up to 4 symbols for ParseRate), constructor argument tuples (valid and invalid distributions, frequencies <= 0, weights), config ASTs with any subset "
         "of fields present in the default section and in each stage, all modes, zero/negative numbers, emitted as YAML and parsed by the real ParseConfigFile at interesting instants; "
         "outcome class and accepted value compared exactly with the model; Go library ports (ParseDuration, Atoi, TrimSpace) compared primitive by primitive; "
         "separate malformed stream: random bytes and mutated documents must not panic; stage c14cli: the run command with flag values at the ends of their types; non-trivial = rate with a '/' / multi-stage string / any constructor tuple / config with stage-start and >= 2 stages; distinct = distinct inputs",
    assumptions=["YAML decoding (gopkg.in/yaml.v3) and cobra/pflag are library code: the model starts at the decoded value; arbitrary bytes are covered only by the crash-freedom stream",
                 "strconv.ParseFloat on the gaussian weights is a library oracle (weights_ok)",
                 "strings.TrimSpace is modelled for ASCII white space; generated stages strings contain no U+0085/U+00A0",
                 "time.ParseDuration/strconv.Atoi ports are checked by stage c14prims"],
)

prop(
    id="C15",
    stages=[dict(name="c15big", pkg="c14", test="TestC15BigFile", access=[FILE_ACCESS], timeout_quick=300, timeout_thorough=3000),
            dict(name="c14config", pkg="c14", test="TestC14Config", access=[FILE_ACCESS], timeout_quick=300, timeout_thorough=3000),
            dict(name="c15runs", pkg="c15", test="TestC15Runs", access=[RUN_ACCESS, WORKERS_ACCESS], timeout_quick=300, timeout_thorough=3000),
            dict(name="c15trigger", pkg="c15", test="TestC15Trigger", access=[RUN_ACCESS, WORKERS_ACCESS], timeout_quick=300, timeout_thorough=3000)],
    rule="(a) generated configs (1-5 stages, all modes, random omissions, defaults) x now at every interesting instant relative to stage-start (before, each stage boundary +-1ns, after the end) "
         "against ParseConfigFile: kept stages, per-stage duration / tick interval / users / parameters, total duration and limits compared exactly; (b) real file-triggered runs with short stages whose bodies read "
         "the environment at entry: stage order, parameters present while a stage triggers, none set after Run.Do; (c) the trigger as the CLI builds it (file.Rate(...).New) from configs whose stage-start lies in the real past: its total duration is the sum of all stage durations (predicate c15_trigger_ok); non-trivial = config with stage-start and >= 2 stages / file run with >= 2 stages; distinct = distinct cases",
    assumptions=["YAML decoding is library code (model starts at the decoded value)",
                 "os.Setenv/Unsetenv semantics; the environment is process-global, so the run-time part uses keys private to the harness"],
)

VIEWS_ACCESS = ("internal/run/views", "views_access.go")

prop(
    id="C19",
    stages=[dict(name="c19", pkg="c19", test="TestC19", access=[VIEWS_ACCESS, RUN_ACCESS], timeout_quick=300, timeout_thorough=3000)],
    rule="generated ProgressData / ResultData (counts 0..2^40, durations 0, sub-microsecond .. hours, negative, rounding boundaries x.5s; periods incl. 0; errors incl. empty and template-like text; "
         "inconsistent hand-built totals incl. 0), exit and setup/teardown lines, in both colour modes: Render() bytes equal the model's bytes exactly; Log() captured through a JSON handler and compared field by field; "
         "Result.Summary()/Progress() built from snapshots (glue) compared with verdict+render of the models; non-trivial = progress/result/glue cases; distinct = distinct argument tuples",
    assumptions=["text/template and fmt are re-implemented for the verbs in use (%5d %5s %0.2f, Stringer) and tied by exact byte comparison",
                 "uint64(float) conversion for negative values as on amd64", "the tty/notty choice is forced through an accessor (Template() looks at the real stdin)"],
)

prop(
    id="C11",
    stages=[dict(name="c11", pkg="c11", test="TestC11", access=[], timeout_quick=300, timeout_thorough=3000)],
    rule="gaussian.NewCalculator(...).For and CalculateGaussianRate(...).Rate (jitter 0, distribution none) over 1-3 whole window-aligned windows on synthetic times: volumes 1..1e7, "
         "10-1500 ticks per window at 10ms..1min frequency, peak anywhere incl. the window edges, sigma from 1x to 10x-window the frequency, 0-7 weights; per-tick outputs equal the binary64 model's exactly "
         "(density and CDF values are oracles from internal/gaussian); per window the predicate gauss_ok (non-negative, no tick more than one above the tick nearest the peak, total within the "
         "discretisation tolerance); non-trivial = weighted or multi-window case / every window predicate; distinct = distinct cases",
    assumptions=["math.Exp and math.Erfc (through internal/gaussian PDF/CDF) are oracles taken from the run",
                 "the discretisation tolerance of gauss_ok (one tick's density at each window edge + 0.05 (f/sigma)^2 of the volume + 2) is the harness's reading of 'within the discretisation error'",
                 "float64 = IEEE-754 binary64 (see C10 stage f64)"],
)

prop(
    id="C18",
    stages=[dict(name="c18", pkg="c18", test="TestC18", access=[], instrument=True,
                 drift=["internal/raterun::" + f for f in ["Runner.Restart", "Runner.Start", "Runner.Start.go", "Runner.Stop", "newSchedules", "schedules.start", "schedules.stop"]],
                 timeout_quick=300, timeout_thorough=3000),
            dict(name="c18many", pkg="c18", test="TestC18Many", access=[], timeout_quick=300, timeout_thorough=3000),
            dict(name="c18inrun", pkg="c18", test="TestC18InRun", access=[RUN_ACCESS, WORKERS_ACCESS], timeout_quick=300, timeout_thorough=3000)],
    rule="real raterun.Runner with 1-3 schedules (distinct frequencies 2-9ms, start delays 0-30ms), function durations 0-12ms, 0-2 Restarts at random instants, ending by Stop (75%) or by cancelling the context; "
         "in a third of the runs one invocation is held by the harness and Stop is called while it executes; the totally ordered event log (Start, FnStart k, FnEnd, Restart, StopCalled, StopReturned, Cancel) must be admissible "
         "for the extracted checker runner_trace_ok; harness-side: Stop must not return while the held invocation runs, goroutine-leak check after Stop/cancel, one-sided bound invocations <= elapsed/frequency + 2; extracted checker runner_times_ok: an invocation carrying schedule k's frequency never happens before Start + start delays up to k + one period of k (40% of the runs put a slow schedule behind a fast one with a function that overruns the fast ticks); "
         "schedule lists with the second schedule far behind the first and with two neighbouring schedules of the same frequency; exact timed checker runner_timed_ok on hook and function-start timestamps; non-trivial = run with a Restart or a held invocation; distinct = distinct logs",
    assumptions=["Go timers/tickers never fire early (one-sided timing only)", "select picks any ready case; channel/close semantics as modelled",
                 "premise of the model: the first schedule's StartDelay is shorter than the 1h placeholder ticker",
                 "Go's select picks uniformly among ready cases (a buffered Restart is taken within 60 passes except with probability < 1e-7)"],
)

POOL_STAGE = dict(name="c02pool", pkg="c02", test="TestC02Pool", access=[WORKERS_ACCESS, POOL_ACCESS, RUN_ACCESS], timeout_quick=300, timeout_thorough=3000)

POOL_DRIFT = ["internal/workers::" + f for f in
              ["TriggerPool.Start", "TriggerPool.Start.go", "TriggerPool.Trigger", "TriggerPool.halt", "TriggerPool.maxIterationsReached",
               "TriggerPool.recordDropped", "TriggerPool.run", "TriggerPool.running", "TriggerPool.sendJobsForExecution", "TriggerPool.stop",
               "TriggerPool.waitForNewJobs", "jobCounter.none", "jobCounter.set", "jobCounter.take"]] + \
             ["internal/workers::" + f for f in
              ["PoolManager.NextIteration", "PoolManager.IterationsExhausted", "PoolManager.MaxIterationsReached", "PoolManager.WaitForCompletion"]]
GATE_STAGE = dict(name="poolgate", pkg="c02", test="TestPoolGate", access=[WORKERS_ACCESS, POOL_ACCESS, RUN_ACCESS], instrument=True, drift=POOL_DRIFT,
                  timeout_quick=300, timeout_thorough=3000)
GATE_RULE = ("; gate enumeration on sources instrumented from the working tree: for every synchronisation point of the trigger pool found by the instrumenter (discovered at run time) the first goroutine arriving there is held "
             "while an adversary step completes (cancel + the stopper; ticks up to the limit; a tick of `workers` blocking iterations), then released: pending counter <= 0 at completion, started + dropped = sum of accepted ticks, "
             "ids exactly 1..k (= limit), all workers come to execute; the sync-op listing of the pool's functions is compared with the committed one")

prop(
    id="C02",
    stages=[POOL_STAGE, GATE_STAGE,
            dict(name="c02runs", pkg="c02", test="TestC02Runs", access=[RUN_ACCESS, WORKERS_ACCESS, POOL_ACCESS], timeout_quick=300, timeout_thorough=3000)],
    rule="histories on the real TriggerPool driven directly (Start / Trigger / cancel / WaitForCompletion) with 1-32 workers and instant or sleeping bodies: "
         "(a) ticks of random sizes (0..10x workers) sent sequentially, cancel after the last one: requested = started + dropped exactly when the pool reports completion; "
         "(b) cancel racing with a ticking goroutine: requested within one tick of started + dropped; (c) limit-ended histories in which every tick waits until the previous one was taken: no iteration may be reported dropped; "
         "(d) whole runs through the ticking goroutine of api.NewIterationWorker with a scripted, logged rate function that cancels the run after its last value, held or instant workers, "
         "no limit / a far limit / a limit a few iterations beyond what the held workers can start: requested = started + dropped exactly; "
         "oracle = extracted predicate c02_ok; non-trivial = history with drops or ended by the limit; distinct = distinct observations" + GATE_RULE,
    assumptions=["sync/atomic sequentially consistent; sync.Cond and sync.Mutex semantics as modelled (Wait = release + park; Broadcast wakes all parked)",
                 "a tick counts as requested when its swap executes; from outside the pool a tick refused because triggering had stopped is indistinguishable from one that was never sent",
                 "real interleavings are sampled by stress, not enumerated: the theorems cover all schedules of the model"],
)

prop(
    id="C03",
    stages=[POOL_STAGE, GATE_STAGE, dict(name="c03runs", pkg="c02", test="TestC03Runs", access=[WORKERS_ACCESS, POOL_ACCESS, RUN_ACCESS], timeout_quick=300, timeout_thorough=3000)],
    rule="ids (T.Iteration) collected by the scenario in (a) the pool histories of C02 incl. limits 1-60 with 1-8 workers competing for the last ids, (b) whole runs in every trigger mode (constant, staged, ramp, gaussian, users, file with the limit "
         "falling inside one of three stages) with limits 1-400 and concurrency 1-100: sorted ids must be exactly k..1, k <= limit, k = limit when the limit ended the run; oracle = extracted predicate c03_ok; "
         "a third of the whole runs use a combined scenario whose value already went through a run in the process; a quarter of the non-file runs use a limit at the far end of uint64; non-trivial = limit-ended cases; distinct = distinct observations" + GATE_RULE,
    assumptions=["atomic.Uint64.Add is an atomic fetch-and-add", "a run that returns well before max-duration with a limit set was ended by the limit"],
)

prop(
    id="C04",
    stages=[POOL_STAGE, GATE_STAGE, dict(name="c04runs", pkg="c02", test="TestC04Runs", access=[WORKERS_ACCESS, POOL_ACCESS, RUN_ACCESS], timeout_quick=300, timeout_thorough=3000),
            dict(name="c04gateway", pkg="c02", test="TestC04SlowGateway", access=[WORKERS_ACCESS, POOL_ACCESS, RUN_ACCESS], timeout_quick=300, timeout_thorough=3000)],
    rule="scenario-side atomic in-flight counter with high-water mark and a live set of *T pointers (duplicate insert = shared handle) in (a) the pool histories of C02, (b) whole runs of constant, staged, ramp, gaussian and users triggers "
         "with concurrency 1-16 whose first iterations only return once `concurrency` of them overlap (rendezvous, 3s timeout = not all workers usable); oracle = extracted predicate c04_ok; config files of users stages only (long iterations) and of a users stage with its own concurrency followed by a saturated constant stage (per-stage in-flight by stage parameter); every third iteration of the whole runs registers a cleanup from inside a cleanup, and a second rendezvous 60 ms into the run requires all workers to be usable still; single-tick usability histories on the real pool (requests not a multiple of the workers); every rendezvous counts iterations executing at the same time; non-trivial = rendezvous runs; distinct = distinct observations" + GATE_RULE,
    assumptions=["in the model worker i owns handle i by construction; handle identity in the code is observed, not modelled", "file mode is outside the statement (consecutive stages' pools may overlap)"],
)

prop(
    id="C09",
    stages=[dict(name="c09", pkg="c09", test="TestC09", access=[RUN_ACCESS, WORKERS_ACCESS], timeout_quick=300, timeout_thorough=3000),
            dict(name="c09stages", pkg="c09", test="TestC09Stages", access=[RUN_ACCESS, WORKERS_ACCESS], timeout_quick=300, timeout_thorough=3000),
            # "each evaluation's value is that tick's request to the pool, unchanged": the pool side of it
            # (what the pool accepts for a tick is exactly the tick's value) is the conservation history stage
            POOL_STAGE],
    rule="real runs of a trigger built with api.NewIterationWorker around a logging rate function (monotonic time, returned value): intervals 5-300ms, with and without distribution (then the 100ms sub-tick function is the one logged), "
         "constant / growing / irregular profiles, half of the runs under scheduling noise from busy goroutines; oracle = extracted predicate c09_ok: the k-th evaluation never happens before t0 + k*interval (one-sided, load-insensitive), "
         "and with plenty of instant workers started + dropped = sum of the evaluated values minus at most the last one; harness-side: the first evaluation happens right after setup (interval >= 100ms); stage c09stages: two or three rate triggers one after the other on one run's pool manager (what a config file's stages are), later ones with intervals longer than everything before them: c09_ok for each on its own log; real config files of constant stages k per interval whose parameter tags the iterations: a stage starts at most k (1 + floor((D - 20 ms)/interval)) iterations (extracted predicate stage_count_ok, theorem C09_stage_bound); non-trivial = run with >= 3 evaluations; distinct = distinct logs",
    assumptions=["time.Ticker never delivers a tick early and its channel buffers at most one tick (hypothesis ticks_not_early of C09_cadence)",
                 "monotonic clock readings of the harness; the last evaluated value may be refused by the pool because triggering had stopped"],
)

C05_DRIFT = ["internal/raterun::Runner.Start", "internal/raterun::Runner.Start.go", "internal/raterun::Runner.Stop",
             "internal/run::Result.Teardown", "internal/run::Result.Summary", "internal/run::Result.Error",
             "internal/run::Result.Failed", "internal/run::Result.SnapshotProgress", "internal/run::Result.Progress",
             "internal/run::Result.HasDroppedIterations", "internal/run::Result.GetTotals",
             "internal/workers::TriggerPool.halt", "internal/workers::TriggerPool.sendJobsForExecution",
             "internal/workers::TriggerPool.waitForNewJobs", "internal/workers::TriggerPool.Start.go",
             "internal/run::Run.Do", "internal/run::Run.Do.go", "internal/run::Run.run",
             "internal/run::newProgressRunner.func", "internal/workers::PoolManager.WaitForCompletion",
             "internal/workers::PoolManager.WaitForCompletion.go", "internal/workers::ContinuousPool.Start",
             "internal/workers::ContinuousPool.Start.go", "internal/workers::ContinuousPool.startWorker"]

prop(
    id="C05",
    stages=[dict(name="c05runs", pkg="c05", test="TestC05Runs", access=[RUN_ACCESS, WORKERS_ACCESS], timeout_quick=400, timeout_thorough=3000),
            dict(name="c05precancel", pkg="c05", test="TestC05PreCancelled", access=[RUN_ACCESS, WORKERS_ACCESS], timeout_quick=400, timeout_thorough=3000),
            dict(name="c05cli", pkg="c05", test="TestC05CLI", access=[RUN_ACCESS, WORKERS_ACCESS], timeout_quick=400, timeout_thorough=3000),
            dict(name="c05window", pkg="c05", test="TestC05Window", access=[RUN_ACCESS, WORKERS_ACCESS], timeout_quick=400, timeout_thorough=3000),
            dict(name="c05locks", pkg="c05", test="TestC05Locks", access=[RUN_ACCESS, WORKERS_ACCESS], timeout_quick=400, timeout_thorough=3000),
            dict(name="c05gate", pkg="c05", test="TestC05Gate", access=[RUN_ACCESS, WORKERS_ACCESS], instrument=True, drift=C05_DRIFT,
                 timeout_quick=400, timeout_thorough=3000)],
    rule="(a) real Run.Do for every trigger mode (constant, staged, ramp, gaussian, users, file) x ending (max-duration, trigger duration, limit, cancel at a random instant, cancel before/at start, setup failure) x body pattern "
         "(instant, sleeping, blocked until after the end, never finishing with a short completion timeout): returns within its bound (30s watchdog), no body starts after the return, every started body finished at the return "
         "unless the timeout expired, no start after the deadline (+60ms), goroutine-leak check; oracle = extracted predicate c05_ok; (a') the calls the progress reporter and Run.Do make on the shared Result while a run is triggering, replayed against each other 150000 (thorough 1.5 million) times: a recursive read lock would wedge them; (b) gate script on sources instrumented from the working tree: the progress runner is parked "
         "just before dispatching a due tick and released when main is between the nested read locks of the final rendering; the run must still return; the sync-op listing of the functions the run-level model covers is "
         "compared with the committed one; config files with 4 s stages and a small limit (limit only / then max-duration / then cancel): the run returns shortly after its last iteration; the runner stage of C18 (Stop and cancellation against a function that is executing) is run for C05 too; users-mode runs whose context is cancelled as they begin return long before the completion timeout; non-trivial = anything but (instant bodies, max-duration); distinct = distinct observations",
    assumptions=["sync.RWMutex is writer-preferring (a pending Lock blocks new RLocks), as documented", "Go timers never fire early; wall-clock punctuality is the runtime's (one-sided checks with slack)",
                 "the worker pool is an abstract 'all workers exited' event at run level; its own progress is C05_pool_progress",
                 "termination is shown as deadlock-freedom plus environment obligations, not by a ranking function"],
)

for _pid, _lst in GLUE.items():
    PROPS[_pid]["drift"] = _lst

# the pool conservation histories also decide C01's "never double-counted": an iteration that is
# both executed and reported dropped shows as started + dropped > requested
PROPS["C01"]["stages"] = PROPS["C01"]["stages"] + [POOL_STAGE] + [st for st in PROPS["C02"]["stages"] if st["name"] == "c02runs"]
PROPS["C01"]["drift"] = PROPS["C01"]["drift"] + TRIGGER_GLUE

# the progress reporter's quiescence after Stop (no progress reported after the run returned, no
# goroutine left) is the runner's: the runner stage of C18 also decides that part of C05
PROPS["C05"]["stages"] = PROPS["C05"]["stages"] + [st for st in PROPS["C18"]["stages"] if st["name"] == "c18"]

# what the eleventh seed series added: units are built, interleaved, re-used and outlived on purpose
_ACROSS = {
    "C01": "outcomes recorded on the run's progress.Stats with the durations of a coarse clock (multiples of its granularity, 0 ns included) under forced snapshots with the reporter's own periods",
    "C02": "scripted-rate runs in which a users stage comes first on the run's pool manager, a burst of hundreds of thousands still pending at the cancel",
    "C03": "identifiers are read after the run from the strings the invocations were handed",
    "C04": "command-line runs on one f1 instance: another --concurrency first, then the measured run with the option left out (default 100) or explicit; ticks asking for nothing before a usability tick",
    "C06": "a quarter of the whole-run cases are the second run on their scenario registration",
    "C07": "bodies behind passing parts of a combined scenario; stage c07conc: 2-4 helper goroutines reporting a failure at the same instant, tens of thousands of iterations",
    "C08": "command-line runs that leave tolerances out after an execution (another instance, flags or config file) that was given generous ones",
    "C09": "consecutive triggers on one pool manager, an earlier one ending while its ticking goroutine is more than an interval behind",
    "C11": "pairs of profiles of one curve at two tick frequencies built one after the other",
    "C12": "two or three distributions alive at once and stepped in turn, one moving through more than 64 distinct rates",
    "C10": "pairs of staged and of ramp profiles alive at once and queried in turn (a third of them with the same stages / rates)",
    "C13": "stage c13pairs: two jittered functions of different percentages alive at once and evaluated in turn",
    "C15": "the same config bytes read again at other instants, later and earlier",
    "C16": "stage c16global: f1.New().WithStaticMetrics with a push gateway in the environment in child processes of their own, the process-wide instance asked for before the first execution or not",
    "C18": "stage c18many: runners on (or stopped on) their last schedule, then 16-64 new runners, every one invoked",
    "C19": "half of the logged lines go to a handler that keeps the records and are formatted a dozen lines later",
    "C20": "marks also make passing assertions through the handle's own Require() and through assert",
}
for _pid, _txt in _ACROSS.items():
    PROPS[_pid]["rule"] = PROPS[_pid]["rule"] + "; across units: " + _txt

# the runner as Run.Do uses it (progress reporter): runs whose context is cancelled as they begin
# leave no goroutine behind - that stage of C05 also decides this part of C18 (the other run-level
# stages of C05 are not shared: they carry C05's known finding, which is not about the runner)
PROPS["C18"]["stages"] = PROPS["C18"]["stages"] + [st for st in PROPS["C05"]["stages"] if st["name"] == "c05precancel"]

# the tick interval a config-file stage is built with (the configured iteration frequency, or the
# distribution's 100 ms sub-tick) is part of the parsed plan: the config stage of C14/C15 also
# decides that part of C09 (cadence of a file stage) and of C12 (the interval a distributed stage
# function is to be called at)
_CFG_STAGE = dict(name="c14config", pkg="c14", test="TestC14Config", access=[FILE_ACCESS], timeout_quick=300, timeout_thorough=3000)
PROPS["C09"]["stages"] = PROPS["C09"]["stages"] + [_CFG_STAGE]
PROPS["C12"]["stages"] = PROPS["C12"]["stages"] + [_CFG_STAGE]
# ... and of C11: a gaussian stage of a config file answers what the gaussian trigger built from the
# stage's own resolved options answers
PROPS["C11"]["stages"] = PROPS["C11"]["stages"] + [_CFG_STAGE]
PROPS["C11"]["rule"] += "; gaussian stages of config files (stage c14config) against a profile built directly from the stage's own resolved options"
PROPS["C09"]["rule"] += "; the plan parsed from config files (stage c14config): every stage's tick interval against the model's"
PROPS["C12"]["rule"] += "; the plan parsed from config files (stage c14config): a distributed stage is ticked at the distribution's sub-tick interval"

# what the twelfth seed series added: in through the outermost door, and the failure paths
_SURFACE = {
    "C02": "scripted-rate runs that hold the ticking goroutine up for more than two periods",
    "C03": "every third identifier's invocation ends as a failed one (Fail, FailNow, failed require, panic)",
    "C05": "stage c05window: what a trigger finds left on its context for trigger durations absent, below, inside the guard, at and beyond max-duration (predicate window_ok)",
    "C06": "stage c06many: combined scenarios whose parts register 50-2000 setup cleanups each: all once, exactly reversed",
    "C08": "the generous earlier execution on the very same instance and command",
    "C10": "ramps built through the run command's flag set next to a --max-duration shorter than, equal to and longer than --ramp-duration",
    "C11": "profiles built through the gaussian command's flag set, --peak 0s included",
    "C13": "stage c13triggers: constant, ramp and staged through their Calculate...Rate functions, exact differential with one mirrored draw per tick",
    "C14": "run file / chart file with a directory, '.', a missing path, an empty file or no argument",
    "C15": "stages with an entry the OS refuses to set next to eight valid parameters",
    "C16": "scenario functions returning no iteration function; per-run plan counts against result and metric",
    "C17": "measured iterations with a slow cleanup of their own, panicking bodies included",
    "C18": "stage c18inrun: no goroutine of the runner after Run.Do, the context cancelled before the run, during setup, in an iteration, by a setup cleanup",
    "C20": "stage c20interrupted: a combined iteration in flight when the run is cancelled",
}
for _pid, _txt in _SURFACE.items():
    PROPS[_pid]["rule"] = PROPS[_pid]["rule"] + "; surface and failure paths: " + _txt

# what the progress reporter's calls and Run.Do's calls on the shared Result do to each other
# (nested read locks against a pending writer) wedges the runner's goroutine when it goes wrong:
# the lock stage of C05 also decides that part of C18; whole runs (interrupted ones included)
# whose totals are compared with what the bodies executed also decide C17's "cover all iterations"
PROPS["C18"]["stages"] = PROPS["C18"]["stages"] + [st for st in PROPS["C05"]["stages"] if st["name"] == "c05locks"]
PROPS["C17"]["stages"] = PROPS["C17"]["stages"] + [st for st in PROPS["C01"]["stages"] if st["name"] in ("c01runs", "c02runs")]

# what the thirteenth seed series added (the same direction as the twelfth)
_SURFACE2 = {
    "C01": "config-file runs interrupted while a burst of hundreds of thousands is being reported dropped; whole runs interrupted mid-run",
    "C02": "rapid pool histories under continuous progress snapshots",
    "C03": "f1 run file from the command line with max-iterations in the file next to a max-failures absent, below, above it",
    "C04": "stage c04gateway: a push gateway that takes 1.3 s to answer a periodic push - the workers go on starting iterations",
    "C05": "stage c05cli: no goroutine of f1 after ExecuteWithArgs, every way an execution can end",
    "C06": "whole runs with failure tolerances set (a failed setup or setup cleanup fails the run all the same)",
    "C07": "stage c07logfile: child processes whose log file cannot be created, iterations failing through the logging APIs",
    "C08": "CLI runs with --memprofile / --cpuprofile",
    "C09": "intervals that are no whole number of milliseconds",
    "C12": "ramps ending inside a cycle with distribution regular / random",
    "C13": "gaussian through CalculateGaussianRate in the triggers differential",
    "C15": "stage c15big: config files of 9-20 thousand stages read through run file",
    "C16": "an interrupted run with a 5.6 s drain in front of a push gateway",
    "C17": "whole runs of C01 (interrupted ones included): totals cover every iteration the bodies executed",
    "C18": "the lock stage of C05: the reporter's and Run.Do's calls on the shared Result never wedge each other",
    "C19": "results carrying two errors",
}
for _pid, _txt in _SURFACE2.items():
    PROPS[_pid]["rule"] = PROPS[_pid]["rule"] + "; " + _txt
