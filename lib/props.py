"""Per-property configuration of the checks."""

RUN_ACCESS = ("internal/run", "run_access.go")

PROPS = {}


def prop(**kw):
    PROPS[kw["id"]] = kw
    return kw


def c08_key(c, model):
    # family key of a failing verdict case: which way it is wrong
    if c["impl"] == "crash":
        return "verdict-crash"
    return "verdict-differs"


prop(
    id="C08",
    stages=[dict(name="c08", pkg="c08", test="TestC08", access=[RUN_ACCESS], timeout_quick=240, timeout_thorough=1200)],
    key=c08_key,
    rule="(nerrs,s,f,d,ignore-dropped,max-failures,max-failures-rate) tuples: corpus witnesses, boundary-heavy generator "
         "(100f = rate*total +-1, failures = max-failures +-1, zero runs), Result built directly and via recorded outcomes, "
         "plus real CLI runs; non-trivial = no earlier disjunct fires and a failure rate is configured, so the rate clause decides; "
         "distinct = distinct argument tuples",
    assumptions=["counts below 2^63/100 so that Go's uint64 products do not wrap (generator stays below 1e9)",
                 "Go harness, -overlay build and the add-only accessor internal/run/zz_verif_run_access.go",
                 "extraction (ExtrOcamlBasic) and ocaml/driver.ml"],
)
