"""Texts for MANIFEST.json, per property."""
PENDING_REASON = {}
META = {}

META["C08"] = dict(
    design_ref="DESIGN.md section 5, C08",
    technique="Coq proof (lia) that the transcribed verdict function equals the documented rational rule for all counts/options; exact differential correspondence of Result.Failed and the CLI exit status against the extracted model",
    text="Theorems C08_total, C08_verdict, C08_cli: the model of Result.Failed is total and equals the documented rule (exact rational comparison) for every count triple, error count and option combination; "
         "the model is tied to the code by an exact differential check (boundary-heavy generated tuples, Result built directly and from recorded outcomes, real CLI runs), so an edit that changes the verdict on any sampled input is reported with that input.",
    note="Trusted: Coq kernel; extraction (ExtrOcamlBasic) + ocaml/driver.ml; the Go harness and overlay build; Go uint64 arithmetic modelled on Z (no wrap-around below 2^63/100 iterations). The theorem is about the model; the differential check samples the correspondence.",
)
