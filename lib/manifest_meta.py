"""Texts for MANIFEST.json, per property."""
PENDING_REASON = {}
META = {}

META["C08"] = dict(
    design_ref="DESIGN.md section 5, C08",
    technique="Coq proof (lia) that the transcribed verdict function equals the documented rational rule for all counts/options; exact differential correspondence of Result.Failed and the CLI exit status against the extracted model",
    text="Theorems C08_total, C08_verdict, C08_cli: the model of Result.Failed is total and equals the documented rule (exact rational comparison) for every count triple, error count and option combination; "
         "the model is tied to the code by an exact differential check (boundary-heavy generated tuples, Result built directly and from recorded outcomes, real CLI runs), so an edit that changes the verdict on any sampled input is reported with that input.",
    note="Trusted: Coq kernel; extraction (ExtrOcamlBasic) + ocaml/driver.ml; the Go harness and overlay build; Go uint64 arithmetic modelled on Z (no wrap-around below 2^63/100 iterations). The theorem is about the model; the differential check samples the correspondence.",
)

META["C12"] = dict(
    design_ref="DESIGN.md section 5, C12",
    technique="Coq proof by induction over sub-ticks and cycles (invariant acc = i*rate mod N) for all N, rate sequences and random sources; exact differential correspondence of api.NewDistribution against the extracted stepper, property predicate dist_ok on disagreement",
    text="Theorems C12_regular, C12_random, C12_passthrough, C12_cycle_length: for every cycle length N>=1, every non-negative time-varying rate oracle, every non-negative random source and any number of cycles, each cycle of the modelled stepper sums exactly to its rate, is non-negative, evaluates the underlying rate once and (regular) is even; <=100ms and 'none' are the identity. "
         "Refuted/C12_pinned.v machine-checks that the pinned float accumulator violated this (witness in the corpus). The stepper is tied to the code by exact per-sub-tick differential testing with scripted oracles.",
    note="Trusted: Coq kernel; extraction + driver; Go harness; no int wrap-around (rate*1 + acc < 2^63). The rate function and random source are oracles (Section-style parameters), so the theorem holds for any behaviour of theirs within the stated sign constraints.",
)
