"""Texts for MANIFEST.json, per property."""
PENDING_REASON = {}
META = {}

META["C08"] = dict(
    design_ref="DESIGN.md section 5, C08",
    technique="Coq proof (lia) that the transcribed verdict function equals the documented rational rule for all counts/options; exact differential correspondence of Result.Failed and the CLI exit status against the extracted model",
    text="Theorems C08_total, C08_verdict, C08_cli: the model of Result.Failed is total and equals the documented rule (exact rational comparison) for every count triple, error count and option combination; "
         "the model is tied to the code by an exact differential check (boundary-heavy generated tuples, Result built directly and from recorded outcomes, real CLI runs), so an edit that changes the verdict on any sampled input is reported with that input.",
    note="Trusted: Coq kernel; extraction (ExtrOcamlBasic) + ocaml/driver.ml; the Go harness and overlay build; Go uint64 arithmetic modelled on Z (no wrap-around below 2^63/100 iterations). The theorem is about the model; the differential check samples the correspondence.",
)

META["C12"] = dict(
    design_ref="DESIGN.md section 5, C12",
    technique="Coq proof by induction over sub-ticks and cycles (invariant acc = i*rate mod N) for all N, rate sequences and random sources; exact differential correspondence of api.NewDistribution against the extracted stepper, property predicate dist_ok on disagreement",
    text="Theorems C12_regular, C12_random, C12_passthrough, C12_cycle_length: for every cycle length N>=1, every non-negative time-varying rate oracle, every non-negative random source and any number of cycles, each cycle of the modelled stepper sums exactly to its rate, is non-negative, evaluates the underlying rate once and (regular) is even; <=100ms and 'none' are the identity. "
         "Refuted/C12_pinned.v machine-checks that the pinned float accumulator violated this (witness in the corpus). The stepper is tied to the code by exact per-sub-tick differential testing with scripted oracles.",
    note="Trusted: Coq kernel; extraction + driver; Go harness; no int wrap-around (rate*1 + acc < 2^63). The rate function and random source are oracles (Section-style parameters), so the theorem holds for any behaviour of theirs within the stated sign constraints.",
)

META["C10"] = dict(
    design_ref="DESIGN.md section 5, C10",
    technique="Coq proof by induction over query lists that the stateful stage cursor refines a stateless reference (all stage lists, zero-length stages, any non-decreasing times); shape (within targets, monotone) and closeness (within 1 + 5|delta|/2^53 of the exact rational value) proved for the binary64 interpolation term itself from Flocq's correct-rounding theorems (monotone rounding, relative error 2^-53 per operation); bit-exact differential correspondence of CalculateStagedRate/CalculateRampRate against the extracted binary64 (Flocq) model, plus primitive-level correspondence of Go float64 ops",
    text="Theorems C10_cursor_refines(+default_start), C10_selected_stage, C10_chained, C10_zero_after_end, C10_total_duration, C10_ramp_refines, C10_ramp_zero_after hold for the binary64 model as it is. C10_within_targets, C10_monotone_in_stage, C10_ramp_shape, C10_close, C10_ramp_close hold for the binary64 term for int64 durations and target differences below 2^53 (f64_exact). C10_interp_ok_sound: every model value satisfies the predicate interp_ok that the harness evaluates on every output of the implementation. C10_within_one_refuted: the literal reading |v - exact| <= 1 is false by a float epsilon on a concrete input (recorded known finding; the excess is bounded by C10_close).",
    note="Trusted: Coq kernel + standard real-number/classical axioms that Flocq's definitions carry (listed per theorem in the evidence); extraction + driver; harness. Target differences of 2^53 and more are outside the shape/closeness theorems (Go's float64(delta) already rounds them). Negative durations and non-monotone query times are outside the statement.",
)

META["C13"] = dict(
    design_ref="DESIGN.md section 5, C13",
    technique="Coq proof on the exact layer (telescoping sum and a contraction bound on the carried balance, by induction over ticks, nia) for every admissible run, i.e. every random outcome; bit-exact differential correspondence of api.WithJitter against the extracted binary64 model with the math/rand source mirrored; proof that the binary64 step is an admissible step with exactly carried integer balance (four correctly rounded operations, round-half-away, clamp, truncation); admissibility predicate also evaluated on every run of the implementation",
    text="C13_composed_history (with C13_composed_bound, C13_step_upper): for every run of the jitter and whatever non-negative parts each period's value is spread into, i.e. for the trigger as the CLI builds it (jitter under a distribution) the running totals of the jittered and the un-jittered trigger differ at every sub-tick by at most R(1+j) + B(2+j) + 1 with B the bound of C13_bounded, derived from C13_bounded at period ends and the admissible step. Theorems C13_identity, C13_telescope, C13_bounded, C13_nonneg, C13_checker_sound (exact layer), C13_f64_admissible, C13_f64_total (binary64 code): for jitter below 100% and rates in [0,R], in every admissible run the difference between requested and emitted totals is the carried balance and stays within (jn*R+jd)/(jd-jn) at every prefix, outputs are non-negative, zero jitter is the identity. Admissibility (each value within jitter% + 1 of rate+balance; exact carry) of what the binary64 code emits is proved from Flocq's correct-rounding theorems (C13_f64_admissible: every finite cosine value in [-1,1], jitter a positive normal float below 100, magnitudes below 2^49) and additionally checked per run by jit_ok.",
    note="Trusted: Coq kernel (+ axioms carried by Flocq definitions for theorems mentioning the float model); math.Cos and math/rand are oracles taken from the run; extraction + driver; harness. Outside the theorems: jitter >= 100 %, subnormal jitter percentages, magnitudes of 2^49 and more.",
)

META["C01"] = dict(
    design_ref="DESIGN.md section 5, C01",
    technique="Coq proof of an inductive invariant over a small-step thread model (one step per atomic/lock operation) for every schedule, program and snapshot cadence; refutation witness for the pinned code; stress-based oracle correspondence on the real ActiveScenario/Result with the extracted predicate, plus sequential differential of the primitives",
    text="Theorems C01_counts_exact and C01_no_loss_mid_run: for every worker count, outcome sequence per worker, number of periodic snapshotters and snapshots, metrics on/off and every interleaving of the atomic steps, the totals stored by the final collector and the exported sample counts equal the program's success/fail/dropped counts, and in every reachable state lifetime + running + drained-not-yet-merged = count operations executed. "
         "Refuted/C01_pinned.v proves the pinned collect loses a record. The model is tied to the code by stress runs of the real recording and snapshot paths judged by the extracted predicate, whole runs with forced snapshots, and an exact sequential differential of Stats.",
    note="Trusted: Coq kernel; the step granularity (sequentially consistent atomics, Result.mu as a lock, Observe as one step); extraction + driver; harness. Real schedules are sampled by stress, the theorem quantifies over the model's schedules.",
)

META["C17"] = dict(
    design_ref="DESIGN.md section 5, C17",
    technique="Coq proof by induction over operation sequences that the accumulator arithmetic (Add/Update/Reset with 0 as 'no minimum') refines a reference computed from the history; exact differential correspondence of progress.Stats on generated op sequences; measured-interval half proved on the iteration life-cycle model (C06 file) and observed with sleeping bodies",
    text="Theorems C17_aggregate, C17_monotone_counts, C17_min_mean_max: for every sequence of positive durations per outcome with snapshots/totals anywhere, each snapshot's lifetime figures are (integer mean, count, min, max) of all durations recorded so far and its period figures those since the previous snapshot; counts never decrease; min <= mean <= max. The position of the clock reads around the body (C17_measured_interval) is proved on the life-cycle model of C06.",
    note="Trusted: Coq kernel; extraction + driver; harness. Sequential use only (the concurrent counting part is C01). Wall-clock magnitudes are the runtime's nanotime, observed one-sidedly.",
)

META["C06"] = dict(
    design_ref="DESIGN.md section 5, C06",
    technique="Coq proofs by structural induction over action lists of an executable model of T/CheckResults/teardown/ActiveScenario/Run.Do for every scenario program (any registrations, failures, panics in setup, bodies and cleanups); exact event-log differential against the real ActiveScenario and whole Run.Do runs",
    text="Theorems C06_iteration_cleanups, C06_worker_sequential, C06_run_lifecycle (+ C17_measured_interval): for every program the cleanups registered by a body run exactly once in reverse order after the body and the outcome record and before the worker's next body, whatever fails or panics; setup runs once and first, iterations only if it did not fail, its cleanups run once in reverse order in the teardown phase between the iterations and the return, and the run is failed iff setup or a setup cleanup failed. "
         "The event log of the real code (per worker and per run, all ways of ending) is compared exactly with the model.",
    note="Trusted: Coq kernel; Go's recover semantics as modelled (FailNow sentinel vs other panics); the run-level model abstracts the worker pool to one EIterations phase (the placement of real iterations relative to teardown is observed in whole runs by the harness, and the pool itself is C02-C05); extraction + driver; harness.",
)

META["C07"] = dict(
    design_ref="DESIGN.md section 5, C07",
    technique="Coq proofs by induction over action lists: recorded outcome = marks_failure(body) for any handle state and any body; independence of consecutive iterations; exact differential on one worker and oracle correspondence (extracted predicate) on whole runs in all trigger modes with per-id outcome plans",
    text="Theorems C07_classification, C07_independent, C07_worker_outcomes: an iteration is recorded failed iff its body contains Fail/FailNow (Error, Fatal, failed assertion) or a panic with any value; the handle state left by earlier iterations never influences events or outcome of the next; the worker reports every iteration by its own outcome; C07_concurrent_marks: failures reported by n >= 1 helper goroutines at the same time (each a read of tearingDown followed by an atomic store, stepped in any order) leave the handle marked failed and nothing else changed (stage c07conc drives that on the real T). Checked against the real code per iteration (exact) and per run (planned counts vs Result vs metrics).",
    note="Trusted: Coq kernel; recover semantics; scenario contract (FailNow from the iteration goroutine); extraction + driver; harness.",
)

META["C20"] = dict(
    design_ref="DESIGN.md section 5, C20",
    technique="Coq proofs by induction over the component list (concatenation lemmas for executed prefixes); exact event-log differential of the real f1.CombineScenarios through ActiveScenario.Setup/Run, handle identity by pointer",
    text="Theorems C20_all_in_order, C20_stop, C20_iteration: when no component stops all components' events appear once each in the given order (setup and every iteration); the first component that stops (FailNow/panic) ends that setup/iteration after its own prefix, later components do not run, and it is reported failed; the combined iteration's outcome is the disjunction of the components' classifications and each iteration starts from all components again.",
    note="Trusted: Coq kernel; the model represents 'same handle' by threading one handle through the concatenated bodies (pointer identity is checked by the harness); extraction + driver; harness.",
)

META["C16"] = dict(
    design_ref="DESIGN.md section 5, C16",
    technique="Coq proofs: permutation lemma for the sorted-key/value pairing (any label map, any insertion order), counting lemma for Observe by induction over outcomes, last-run lemma for Reset; exact differential of Registry.Gather() against the extracted model for component-level and whole-run histories",
    text="Theorems C16_pairing, C16_series_labels, C16_no_mixing, C16_counts, C16_setup_failure, C16_disabled: for every static-label map the label names/values of every series pair each key with its own value; after any earlier runs the metrics are those of the last run alone; the iteration family holds per result label exactly the recorded number of samples and the setup family one sample labelled with the setup outcome; nothing is recorded for iterations when iteration metrics are off. Gather() of the real registry is compared exactly with the model.",
    note="Trusted: Coq kernel; Prometheus SummaryVec semantics (WithLabelValues positional pairing, Reset, Observe) as modelled; extraction + driver; harness.",
)

META["C14"] = dict(
    design_ref="DESIGN.md section 5, C14",
    technique="Coq proofs over executable ports of ParseRate/ParseStages/Calculate*Rate validation/ParseConfigFile (on the decoded value): totality (no Crash outcome), well-formedness, and an iff between acceptance and a three-form reference grammar; exact outcome/value differential on grammar-based and near-miss inputs, constructor tuples and generated config ASTs; library ports (ParseDuration, Atoi) compared primitive by primitive; malformed byte stream for crash-freedom",
    text="Theorems C14_rate_total, C14_rate_wf, C14_rate_means, C14_constructors_runnable, C14_config, C14_config_total: ParseRate never crashes, accepts exactly N | N/<duration> | N/<unit> with a positive unit and returns (N, that unit); every constructor and every accepted config yields positive tick intervals / at least one user and at least one worker; the config parser has no crashing outcome for any combination of present and absent fields. "
         "C14_pinned_refuted machine-checks the three pinned ParseRate defects. Eight fix: commits repaired the input families that crashed or were accepted but could not run.",
    note="Trusted: Coq kernel (+ axioms carried by Flocq definitions through ParseDuration's fraction arithmetic); the statements start at strings and at the decoded config value: gopkg.in/yaml.v3, cobra/pflag and strconv.ParseFloat (weights) are library code, exercised but not modelled; TrimSpace modelled for ASCII; extraction + driver; harness.",
)

META["C15"] = dict(
    design_ref="DESIGN.md section 5, C15",
    technique="Coq proofs by induction over the stage list of the ParseConfigFile model (kept = those with scheduled end after now, in order; suffix lemma; total = sum of all; field-wise default merge; one-to-one limits); exact plan differential on generated configs x restart instants; oracle predicate on real file-triggered runs for sequencing and environment hand-over",
    text="Theorems C15_kept, C15_defaults, C15_suffix: for every accepted config the plan holds, in file order, exactly the stages with stage-start + cumulative duration after now (all when no stage-start; a suffix for non-negative durations), the total is the sum of all stage durations, limits map one-to-one, and a stage is parsed from the field-wise merge of its own and the default section. Run-time sequencing and environment set/unset are observed on real runs (predicate c15_run_ok), not proved.",
    note="Trusted: Coq kernel; YAML decoding not modelled; the run-time half (sequential stages, env present during / absent after) is exploration-level evidence inside this check; extraction + driver; harness.",
)

META["C19"] = dict(
    design_ref="DESIGN.md section 5, C19",
    technique="Coq proofs: decimal print/parse round-trip (induction on digits), marker-search lemmas (bytes of durations/numbers are below the markers' lead byte) giving read_progress(render_progress d) = counts for all data, banner = verdict by construction of the render function; byte-exact differential of Render() in both colour modes and field-exact comparison of Log() against the extracted model, plus the Result.Summary()/Progress() glue",
    text="Theorems C19_decimal_roundtrip, C19_progress_roundtrip, C19_banner, C19_log_counts, C19_percent_close: for all counts below 2^64 and all durations/periods/statistics the progress line, read back, states exactly (successful, dropped when non-zero, failed); every count is printed by an exactly invertible decimal printer; the summary banner is the verdict flag; the structured group carries the same counts. "
         "That the model's bytes are the templates' bytes (both colour modes), and that rendering never panics (zero iterations, zero and negative durations, odd error texts), is established by exact comparison on generated data. C19_percent_close: the printed percentage (hundredths q) satisfies |q/100 - 100*val/total| <= 0.005 + 10001/2^53 for all 0 <= val <= total < 2^46 (proved from Flocq's correct rounding of the one division and the half-even decimal conversion).",
    note="Trusted: Coq kernel (+ Flocq-carried axioms where rate/percent floats appear); text/template + fmt behaviour re-implemented and compared; extraction + driver; harness. The result-summary counterpart of the round-trip is checked by comparison, not proved.",
)

META["C11"] = dict(
    design_ref="DESIGN.md section 5, C11",
    technique="Coq proofs on the exact layer (remainder carry over rational rates: telescoping, per-tick floor/floor+1, peak bound; weight index = window number mod len proved against the code's loop), real-analysis proofs that the density is unimodal and that the left Riemann sum the calculator forms is within one slot of peak density of the window's probability mass (Coquelicot RInt), Flocq proof that the binary64 remainder carry loses only the rounding of one addition per tick; bit-exact differential of NewCalculator.For / CalculateGaussianRate.Rate against the extracted binary64 model with exp/erfc values as oracles; per-window property predicate on the implementation's outputs",
    text="Theorems C11_carry, C11_step, C11_peak, C11_unimodal, C11_weight_index: for any non-negative exact rates the carried remainder makes D*sum(out) + rem_n = sum(rates) + rem_0 with 0 <= rem < D (nothing lost, never negative), each tick emits floor or floor+1 of its rate, no tick exceeds the largest-rate tick by more than one, the real density is largest nearest its mean, and the weight used is that of (window number) mod (number of weights). "
         "C11_discretisation, C11_volume: for every mean, deviation, window start, slot width and slot count the sum of width*density differs from the window's probability mass by at most width*peak density, so with real arithmetic the emitted total lies in (V - V*h*peak/mass - 1, V + V*h*peak/mass]. C11_for_is_fstep, C11_float_step, C11_peak_f64, C11_float_carry, C11_volume_f64: every binary64 step emits floor(rate) or floor(rate)+1 (never rounded up to floor+2), so no tick exceeds the float-rate peak tick by more than one; the binary64 loop keeps its remainder in [0,1), emits no negative value and loses only sum(2^-53 (rate+1) + 2^-1075) to rounding; composed, the emitted total is within 1 + that + eps*(V+disc) + disc of the volume when the float rates are within a relative eps of the real ones. "
         "Hypothesis, not proved: eps, i.e. the accuracy of Go's math.Exp / math.Erfc; the harness measures the end-to-end volume per generated parameter set (gauss_ok).",
    note="Trusted: Coq kernel + standard real-number axioms (sig_forall_dec, sig_not_dec, classic, functional_extensionality_dep: Coq reals, Flocq, Coquelicot); math.Exp/math.Erfc as oracles; extraction + driver; harness.",
)

META["C18"] = dict(
    design_ref="DESIGN.md section 5, C18",
    technique="Coq proof of an inductive invariant over a labelled transition model of the runner (callers, abstract-time environment, goroutine select) for every execution; refutation witness for the pinned Start/Stop; trace-admissibility correspondence: the real Runner's totally ordered event log is checked by the extracted checker, plus held-invocation script, goroutine-leak check and one-sided cadence bound",
    text="C18_timed_checker_sound: in every timed run of the model in which timer and ticker events never come early, the timed log of schedule steps and function starts is accepted by runner_timed_ok (moving on no earlier than the next schedule's start delay after the current schedule started, a Restart re-arming it; a function start no earlier than one period after its schedule started). Theorems C18_once_per_tick, C18_stop_quiescent, C18_no_goroutine_left, C18_schedule_progress: in every execution the function is never invoked before Start and at most once per tick delivered by the active schedule's ticker; once Stop has returned no step starts or ends the function, ever; Stop returns only after the goroutine exited and after cancellation its exit is always enabled; the timer moves to the next schedule (last one stays) and Restart returns to the first. Refuted/C18_pinned.v proves the pinned code invokes the function after Stop returned.",
    note="Trusted: Coq kernel; channel/select/timer semantics as modelled (timers never early, select may take any ready case); premise first StartDelay < 1h placeholder; the trace checker accepts every visible trace of the model (theorem C18_checker_accepts_model); wall-clock accuracy is the runtime's (one-sided checks only); extraction + driver; harness.",
)

META["C02"] = dict(
    design_ref="DESIGN.md section 5, C02",
    technique="Coq proofs of inductive invariants over a small-step model of the trigger pool (ticker, N workers, stopper, limit path, cancel; one step per atomic/lock/cond operation) for every schedule, tick list and worker count: conservation, lock discipline, nothing accepted after a halt, silent limit; machine-checked refutation of the pinned pool in two histories; oracle correspondence (extracted predicate) on histories driven on the real TriggerPool",
    text="Theorems C02_conservation_inv, C02_conservation, C02_limit_silent: in every reachable state requested = started + dropped + being-recorded + silently discarded + in hand + pending, hence at the end requested = started + dropped + discarded with nothing pending; once the limit path halted the pool no swap yields a drop, no tick is accepted, and jobs superseded/drained when all ids were already handed out are discarded silently. Refuted/C02_pinned.v proves both pinned races (limit gap: spurious drops; late tick: lost requests). Four defects of the real pool were repaired (fix: commits).",
    note="Trusted: Coq kernel; the step granularity and the semantics of sync/atomic, Mutex and Cond as modelled; real schedules are sampled by stress (narrow windows such as a tick between two instructions of the limit path are covered by the theorem, not reliably by the harness); extraction + driver; harness.",
)

META["C03"] = dict(
    design_ref="DESIGN.md section 5, C03",
    technique="Coq proof of an id invariant (issued ids are k..1; started + in-transit ids are a permutation of them; k <= limit; k = limit once the limit was exceeded) over the same pool model for every schedule; oracle correspondence on ids observed in pool histories and whole runs of every trigger mode incl. multi-stage config files",
    text="Theorems C03_ids_inv, C03_exact: every invocation observes a distinct id, the ids observed at the end are exactly 1..k for the k started iterations, k <= N, and k = N whenever the limit was ever exceeded (the trigger kept requesting until the limit stopped it). Observed ids of real runs (all modes, limits 1-400, concurrency 1-100, file stages) are judged by the extracted predicate.",
    note="Trusted: Coq kernel; atomic fetch-and-add semantics; the continuous pool and the per-stage pools share the same PoolManager counter (observed in whole runs, not separately modelled); extraction + driver; harness.",
)

META["C04"] = dict(
    design_ref="DESIGN.md section 5, C04",
    technique="Coq proof that the number of workers in a body never exceeds the pool size in any reachable state (worker i owns handle i by construction); instance witnesses (computation) that all workers can be busy; oracle correspondence with an in-flight high-water mark, a live handle set and a rendezvous in real runs of the five rate/users triggers",
    text="Theorem C04_bound: in every reachable state in_flight <= concurrency and the pool keeps exactly `concurrency` workers. C04_no_lost_wakeup: in every reachable state with pending requests, the pool running and the ticking goroutine not between its swap and its broadcast, no worker is parked on the condition variable (no lost wake-up; every pool size, every schedule). C04_all_usable_instances additionally exhibits schedules with all workers busy for pools of 1-4 workers (a general existence statement is observed on the real pools by rendezvous bodies that only return when `concurrency` of them overlap).",
    note="Trusted: Coq kernel; handle distinctness is structural in the model and observed (pointer set) in the code; the 'all workers usable' direction is the no-lost-wake-up invariant plus C05_pool_progress; extraction + driver; harness.",
)

META["C09"] = dict(
    design_ref="DESIGN.md section 5, C09",
    technique="Coq proofs by list induction over the delivered-tick sequence of a transducer model of the ticking loop: shape of the action sequence, requests = evaluated values, nothing after the context ends, and the cadence bound 1 + floor(e/interval) under the never-early ticker hypothesis; one-sided timing correspondence on real runs with a logging rate function, judged by the extracted predicate",
    text="Theorems C09_loop, C09_unchanged, C09_nothing_after_done, C09_cadence: the loop evaluates the rate at once and then once per received tick, each evaluation's value is exactly the following request, nothing is evaluated or requested after the context ended, and for any scheduling delays at most 1 + floor(e/interval) evaluations happen within elapsed time e, given that the j-th received tick is not earlier than j intervals after the first evaluation; C09_stage_bound: a trigger of constant value k that stops evaluating dur after its first evaluation (a stage of a config file) requests at most k (1 + floor(dur/interval)) iterations - the count predicate stage_count_ok applied to real config-file stages.",
    note="Trusted: Coq kernel; the Go ticker's behaviour (never early, capacity-one channel) is a hypothesis of the cadence theorem, observed one-sidedly by the harness; wall-clock accuracy is the runtime's; extraction + driver; harness.",
)

META["C05"] = dict(
    design_ref="DESIGN.md section 5, C05",
    technique="Coq proofs: run-level labelled transition model (main goroutine of Run.Do, progress goroutine, writer-preferring RWMutex, environment events) whose invariant, deadlock-freedom and quiescence are established by exhaustive evaluation inside the kernel over the finite set of invariant states and lifted to all reachable states; pool-level progress and no-accept-after-stop from the pool invariants; machine-checked wedging schedule for the pinned Stop; correspondence by a mode x ending x body-pattern matrix of real runs judged by an extracted predicate, and a gate script on sources instrumented from the working tree plus a sync-op drift check",
    text="Theorems C05_no_deadlock, C05_quiescent, C05_wait_bounded, C05_stop_points, C05_pool_progress, C05_trigger_window (the window Run.run computes never lies beyond the earlier of max-duration less the 10 ms guard and the trigger's own duration; predicate window_ok on what real triggers find left on their context): in every reachable run-level state Do has returned, or main waits for an environment event (ending, pool completion, completion timeout), or a goroutine can move - the nested read locks of the final rendering can never be cut by a late progress tick; at the return the progress goroutine has exited, holds no lock and has not run since; the wait for in-flight iterations ends with the timeout; once the pool is told to stop no request is accepted; with the context cancelled the pool never deadlocks (no lost wake-up). "
         "Refuted/C05_pinned.v proves the pinned code wedges. Partial: termination is deadlock-freedom + environment obligations, not a ranking function; timer punctuality is the runtime's.",
    note="Trusted: Coq kernel (vm_compute for the finite enumerations); RWMutex/Cond/channel/timer semantics as modelled; the pool is abstracted at run level; real interleavings are sampled except for the scripted late-tick history; extraction + driver; harness; tools/instrument. Known finding (KNOWN_FINDINGS.txt): a users stage of a config file waits for its workers without bound.",
)
