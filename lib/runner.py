"""run_check: one property, one tier. See DESIGN.md section 2 for the pipeline."""
import json
import os
import sys
import time

from xcheck import cross_check
from verif import (VERIF, REPO, Scratch, build_harness, coq_build, coq_property, coqchk, hygiene, instrument,
                   known_findings, log, ocaml_build, run_driver, run_harness, syncops_drift)

STD_AXIOMS = {
    "ClassicalDedekindReals.sig_forall_dec": "standard library real-number axiom",
    "ClassicalDedekindReals.sig_not_dec": "standard library real-number axiom",
    "FunctionalExtensionality.functional_extensionality_dep": "standard library functional extensionality",
    "Classical_Prop.classic": "standard library excluded middle",
    "functional_extensionality_dep": "standard library functional extensionality",
    "classic": "standard library excluded middle",
    "sig_forall_dec": "standard library real-number axiom",
    "sig_not_dec": "standard library real-number axiom",
}


def parse_case_line(line):
    parts = line.split("\t")
    if parts[0] == "!FAIL":
        return {"fail": True, "key": parts[1] if len(parts) > 1 else "", "what": parts[2] if len(parts) > 2 else ""}
    head = parts[0].strip()
    impl = parts[1] if len(parts) > 1 else ""
    tags = [t for t in (parts[2].split(",") if len(parts) > 2 else []) if t]
    cmd = head.split(" ", 1)[0]
    return {"fail": False, "head": head, "cmd": cmd, "impl": impl, "tags": tags}


def impl_as_value(impl):
    """Canonical impl answer -> a driver value for the *_ok predicates:
    'ok X' -> X ; 'err' -> [] is not a value, so ok-predicates are only used on ok answers."""
    if impl.startswith("ok "):
        return impl[3:].strip()
    return None


def write_replay(pid, name, payload):
    d = os.path.join(VERIF, "replays")
    os.makedirs(d, exist_ok=True)
    p = os.path.join(d, "%s_%s.json" % (pid, name))
    with open(p, "w") as fh:
        json.dump(payload, fh, indent=1)
    return p


def run_check(spec, tier, seed, only_stage=None):
    pid = spec["id"]
    t0 = time.time()
    violations = []     # dicts: key, what, replay payload, concrete(bool)
    known_printed = []
    notes = []
    trusted = []
    samples = []
    hist = {}
    stats = {}
    evaluations = 0
    nontrivial_set = set()
    tags_count = {}
    traces = 0

    # ---------------- proof side
    bad = hygiene()
    if bad:
        violations.append({"key": "proof_hygiene", "concrete": False,
                           "what": "forbidden construct in the Coq development: " + "; ".join(bad[:5]),
                           "unchecked": "hygiene"})
    ok, out = coq_build(clean=(tier == "thorough" and os.environ.get("VERIF_CLEAN") == "1"))
    if not ok:
        violations.append({"key": "proof_build", "concrete": False,
                           "what": "Coq development does not build: " + out[-1500:], "unchecked": "make coq"})
    prop = coq_property(pid)
    obligations = len(prop["theorems"])
    discharged = obligations if prop["ok"] else 0
    if not prop["ok"]:
        violations.append({"key": "proof_" + pid, "concrete": False,
                           "what": "Properties/%s.v no longer checks: %s" % (pid, prop["output"][-1500:]),
                           "unchecked": "theorems of Properties/%s.v" % pid})
    axioms_used = set()
    for th in prop["theorems"]:
        a = prop["assumptions"].get(th)
        if a is None:
            if prop["ok"]:
                violations.append({"key": "proof_assumptions", "concrete": False,
                                   "what": "no Print Assumptions output for theorem " + th, "unchecked": th})
            continue
        if not a:
            trusted.append("%s: Closed under the global context" % th)
        else:
            trusted.append("%s: Axioms: %s" % (th, ", ".join(a)))
            for ax in a:
                axioms_used.add(ax)
                short = ax.split(".")[-1]
                if ax not in STD_AXIOMS and short not in STD_AXIOMS:
                    violations.append({"key": "proof_axiom", "concrete": False,
                                       "what": "theorem %s depends on non-standard axiom %s" % (th, ax), "unchecked": th})
    checker_cmd = "cd /verif/coq && make -j16 && " + prop["cmd"]
    if tier == "thorough" and os.environ.get("VERIF_COQCHK", "1") == "1" and prop["ok"]:
        ok, out = coqchk(pid)
        checker_cmd += " && coqchk -silent -o -Q theories F1 F1.Properties." + pid
        if not ok:
            violations.append({"key": "proof_coqchk", "concrete": False, "what": "coqchk failed: " + out[-1500:],
                               "unchecked": "coqchk"})
        else:
            tail = [l for l in out.split("\n") if l.strip()][-12:]
            notes.append("coqchk: " + " | ".join(tail))
    ok, out = ocaml_build()
    if not ok:
        violations.append({"key": "extraction_build", "concrete": False, "what": "extraction/driver build failed: " + out[-1500:],
                           "unchecked": "ocaml/driver"})

    # ---------------- implementation side
    stage_reports = []
    with Scratch(pid) as scratch:
        if spec.get("drift"):
            # glue code the models rest on without driving it through hooks: its listing of
            # synchronisation, time/context-control and same-package calls against the committed one
            try:
                _ov, listing = instrument(scratch)
                diffs, _cur = syncops_drift(listing, spec["drift"])
                for key, exp, cur in diffs[:5]:
                    violations.append({"key": "corr_ops_" + key.split("::")[-1], "concrete": False,
                                       "what": "the synchronisation / control operations of %s changed: modelled %r, now %r; the theorems are about a program the code no longer is"
                                               % (key, exp, cur),
                                       "unchecked": "corr_ops_" + key.split("::")[-1]})
                stats["glue.syncop_entries_compared"] = len(spec["drift"])
            except Exception as ex:
                violations.append({"key": "corr_instrument_glue", "concrete": False,
                                   "what": "instrumentation of the current sources failed: %s" % ex,
                                   "unchecked": "corr_instrument_glue"})
        for stage in spec["stages"]:
            if only_stage and stage["name"] != only_stage:
                continue
            sname = stage["name"]
            extra_overlay = None
            if stage.get("instrument"):
                try:
                    extra_overlay, listing = instrument(scratch)
                    diffs, _cur = syncops_drift(listing, stage.get("drift", []))
                    for key, exp, cur in diffs[:5]:
                        violations.append({"key": "corr_ops_" + key.split("::")[-1], "concrete": False,
                                           "what": "the synchronisation operations of %s changed: modelled %r, now %r; the theorems are about a program the code no longer is"
                                                   % (key, exp, cur),
                                           "unchecked": "corr_ops_" + key.split("::")[-1]})
                    stats[sname + ".syncop_functions_compared"] = len(stage.get("drift", []))
                except Exception as ex:  # instrumentation failed on the current sources
                    violations.append({"key": "corr_instrument_" + sname, "concrete": False,
                                       "what": "instrumentation of the current sources failed: %s" % ex,
                                       "unchecked": "corr_instrument_" + sname})
                    continue
            ok, out, binp = build_harness(scratch, stage["pkg"], stage.get("access", ()), extra_overlay)
            if not ok:
                violations.append({"key": "corr_build_" + sname, "concrete": False,
                                   "what": "harness %s no longer builds against /repo's working tree: %s" % (sname, out[-1500:]),
                                   "unchecked": "corr_build_" + sname})
                continue
            timeout = stage.get("timeout_" + tier, stage.get("timeout", 600))
            st0 = time.time()
            rc, out, lines, st = run_harness(binp, scratch, stage["test"], seed, tier, timeout,
                                             extra_env=stage.get("env"), name=sname)
            stage_wall = time.time() - st0
            for k, v in (st.get("hist") or {}).items():
                hist.setdefault(k, {})
                for b, n in v.items():
                    hist[k][b] = hist[k].get(b, 0) + n
            for k, v in (st.get("stats") or {}).items():
                stats[sname + "." + k] = v
            cases = [parse_case_line(l) for l in lines if l.strip()]
            heads = [c["head"] for c in cases if not c["fail"]]
            try:
                answers = run_driver(heads)
            except Exception as ex:
                violations.append({"key": "corr_driver_" + sname, "concrete": False,
                                   "what": "model driver failed: %s" % ex, "unchecked": "corr_driver_" + sname})
                answers = None
            # the property predicate itself, evaluated on every answer of the
            # implementation (not only on disagreements) where the spec asks for it
            if spec.get("check_ok_always") and answers is not None:
                okheads, okcases = [], []
                for c in cases:
                    if c["fail"]:
                        continue
                    okp = (spec.get("ok_pred") or {}).get(c["cmd"])
                    val = impl_as_value(c["impl"])
                    if okp and okp != "exact" and val is not None:
                        okheads.append("%s %s %s" % (okp, c["head"].split(" ", 1)[1] if " " in c["head"] else "", val))
                        okcases.append(c)
                try:
                    okans = run_driver(okheads)
                except Exception as ex:
                    okans = []
                    violations.append({"key": "corr_driver_ok_" + sname, "concrete": False,
                                       "what": "model driver failed on predicates: %s" % ex, "unchecked": "corr_driver_" + sname})
                nbad = 0
                for c, a in zip(okcases, okans):
                    if a != "T":
                        nbad += 1
                        if nbad <= 5:
                            violations.append({"key": "pred_%s_%s" % (pid, c["cmd"]), "concrete": a == "F",
                                               "what": "property predicate is %s on the implementation's answer %r for input %s"
                                                       % (a, c["impl"][:300], c["head"][:300]),
                                               "unchecked": "pred_%s_%s" % (pid, c["cmd"]),
                                               "case": {"stage": sname, "case": c["head"], "impl": c["impl"]}})
                stats[sname + ".predicate_evaluations"] = len(okans)
            # extraction cross-check: the first cases of this run, re-evaluated inside the kernel
            if answers is not None and not spec.get("no_xcheck"):
                nx, badx, errx = cross_check(pid, heads, answers, limit=(50 if tier == "quick" else 300))
                stats[sname + ".extraction_crosschecked_in_kernel"] = nx
                if errx:
                    violations.append({"key": "corr_extraction_" + sname, "concrete": False,
                                       "what": "in-kernel cross-check of the extracted code could not be evaluated: %s" % errx,
                                       "unchecked": "corr_extraction_" + sname})
                for h, a in badx[:3]:
                    violations.append({"key": "corr_extraction_" + sname, "concrete": False,
                                       "what": "extracted OCaml code answers %r where vm_compute evaluates otherwise for %s" % (a[:200], h[:300]),
                                       "unchecked": "corr_extraction_" + sname})
            ai = 0
            n_mis = 0
            for c in cases:
                if c["fail"]:
                    if c["key"].startswith("unchecked:"):
                        violations.append({"key": "corr_" + c["key"][10:], "concrete": False, "what": c["what"],
                                           "unchecked": "corr_" + c["key"][10:] + "_" + sname})
                    else:
                        violations.append({"key": c["key"], "concrete": True, "what": c["what"],
                                           "case": {"stage": sname, "fail": c}})
                    continue
                evaluations += 1
                for t in c["tags"]:
                    tags_count[t] = tags_count.get(t, 0) + 1
                if "nt" in c["tags"]:
                    nontrivial_set.add(c["head"])
                if "trace" in c["tags"]:
                    traces += 1
                if answers is None:
                    continue
                model = answers[ai]
                ai += 1
                if len(samples) < 6 and ("nt" in c["tags"] or evaluations % 997 == 1):
                    samples.append({"case": c["head"][:400], "impl": c["impl"][:200], "model": model[:200]})
                if model == c["impl"]:
                    continue
                n_mis += 1
                if n_mis > 200:
                    continue
                v = classify(spec, sname, c, model)
                violations.append(v)
            if rc != 0:
                tail = out[-3000:]
                violations.append({"key": "harness_exit_" + sname, "concrete": False,
                                   "what": "harness %s exited with status %d (crash of the process, failed internal assertion or timeout): %s"
                                           % (sname, rc, tail),
                                   "unchecked": "corr_run_" + sname,
                                   "case": {"stage": sname, "last_case": lines[-1] if lines else None}})
            stage_reports.append({"stage": sname, "cases": len(cases), "mismatches": n_mis, "wall_s": round(stage_wall, 2), "rc": rc})
            log("[%s] stage %s: %d cases, %d mismatches, rc=%d, %.1fs" % (pid, sname, len(cases), n_mis, rc, stage_wall))

    # ---------------- known findings, report
    known, fixed = known_findings(pid)
    known_keys = {k: w for k, w in known}
    reported = []
    seen_known = set()
    for v in violations:
        if v["key"] in known_keys:
            if v["key"] not in seen_known:
                seen_known.add(v["key"])
                known_printed.append("KNOWN-FINDING: property=%s key=%s %s" % (pid, v["key"], known_keys[v["key"]]))
            continue
        reported.append(v)

    # concrete violations first; if there is none, everything else is "no-failing-input-found"
    concrete = [v for v in reported if v.get("concrete")]
    unch = [v for v in reported if not v.get("concrete")]
    out_lines = list(known_printed)
    nrep = 0
    seen = set()
    for v in concrete:
        if v["key"] in seen:
            continue
        seen.add(v["key"])
        nrep += 1
        if nrep > 10:
            break
        path = write_replay(pid, "%s_%d" % (safe(v["key"]), nrep), {
            "property": pid, "tier": tier, "seed": seed, "kind": "failing-input", "key": v["key"],
            "what": v["what"], "case": v.get("case"),
            "replay": "cd /verif && VERIF_SEED=%d bin/check %s %s" % (seed, pid, tier)})
        out_lines.append("VIOLATION property=%s replay=%s" % (pid, path))
    if unch and not concrete:
        names = sorted({v.get("unchecked", v["key"]) for v in unch})
        path = write_replay(pid, "unchecked", {
            "property": pid, "tier": tier, "seed": seed, "kind": "no-failing-input-found",
            "no_longer_checks": names,
            "details": [{"key": v["key"], "what": v["what"], "case": v.get("case")} for v in unch[:20]],
            "replay": "cd /verif && VERIF_SEED=%d bin/check %s %s" % (seed, pid, tier)})
        out_lines.append("VIOLATION property=%s replay=%s no-failing-input-found" % (pid, path))
    elif unch:
        # recorded in the replay of the first concrete violation's directory as a side file
        write_replay(pid, "also_unchecked", {"property": pid, "details": [{"key": v["key"], "what": v["what"]} for v in unch[:20]]})

    wall = time.time() - t0
    rule = spec.get("rule", "")
    evidence = {
        "property_id": pid,
        "tier": tier,
        "seed": seed,
        "level": "proof",
        "coverage": {
            "obligations": obligations,
            "discharged": discharged,
            "checker_cmd": checker_cmd,
            "trusted_base": trusted + spec.get("trusted_extra", []),
            "theorems": prop["theorems"],
            "examples_non_vacuity": prop["examples"],
            "axioms": sorted(axioms_used),
            "evaluations": evaluations,
            "distinct_nontrivial": len(nontrivial_set),
            "rule": rule,
            "samples": samples,
            "traces_validated_against_impl": traces,
            "tags": tags_count,
            "histograms": hist,
            "harness_stats": stats,
            "stages": stage_reports,
            "known_findings_seen": known_printed,
            "notes": notes,
        },
        "assumptions": spec.get("assumptions", []),
        "wall_s": round(wall, 2),
        "violations": len([l for l in out_lines if l.startswith("VIOLATION")]),
    }
    os.makedirs(os.path.join(VERIF, "evidence"), exist_ok=True)
    with open(os.path.join(VERIF, "evidence", pid + ".json"), "w") as fh:
        json.dump(evidence, fh, indent=1)
    for l in out_lines:
        print(l)
    sys.stdout.flush()
    nviol = evidence["violations"]
    log("[%s] %s tier: %d theorems, %d cases, %d distinct non-trivial, %d violation line(s), %.1fs"
        % (pid, tier, obligations, evaluations, len(nontrivial_set), nviol, wall))
    return 1 if nviol else 0


def safe(s):
    return "".join(ch if ch.isalnum() or ch in "-_" else "_" for ch in s)[:60]


def classify(spec, sname, c, model):
    """A disagreement between model and implementation on one case. If the
    compared observable is pinned exactly by the theorems (no ok-predicate
    registered), the disagreement IS a failing input: the theorem says the
    model's answer is the only one the property allows. Otherwise the extracted
    property predicate <cmd>_ok is evaluated on the implementation's answer."""
    okp = (spec.get("ok_pred") or {}).get(c["cmd"], "exact")
    keyf = spec.get("key")
    key = keyf(c, model) if keyf else "corr_%s_%s" % (spec["id"], c["cmd"])
    base = {"key": key, "case": {"stage": sname, "case": c["head"], "impl": c["impl"], "model": model, "tags": c["tags"]}}
    if model.startswith("DRIVER-ERROR"):
        base.update({"concrete": False, "what": "model driver error on %s: %s" % (c["head"][:200], model),
                     "unchecked": "corr_%s_%s" % (spec["id"], c["cmd"])})
        return base
    if okp == "exact" and c["cmd"].endswith("_ok") and c["impl"] == "T":
        base.update({"concrete": True,
                     "what": "the extracted property predicate %s evaluates to %s on the values observed on the implementation: %s"
                             % (c["cmd"], model, c["head"][:400])})
        return base
    if okp == "exact":
        base.update({"concrete": True,
                     "what": "implementation answers %r where the property requires %r on input: %s" % (c["impl"], model, c["head"][:300])})
        return base
    val = impl_as_value(c["impl"])
    verdict = None
    if val is not None:
        try:
            verdict = run_driver(["%s %s %s" % (okp, c["head"].split(" ", 1)[1] if " " in c["head"] else "", val)])[0]
        except Exception as ex:
            verdict = "DRIVER-ERROR %s" % ex
    else:
        # crash / err where the model has a value (or the reverse)
        verdict = "F" if spec.get("nonok_is_violation", True) else "T"
    if verdict == "F":
        base.update({"concrete": True,
                     "what": "property predicate %s is false on the implementation's answer %r (model: %r) for input: %s"
                             % (okp, c["impl"], model, c["head"][:300])})
    else:
        base.update({"concrete": False,
                     "what": "implementation and model differ (%r vs %r) on %s but the property predicate %s holds there (%s)"
                             % (c["impl"], model, c["head"][:300], okp, verdict),
                     "unchecked": "corr_%s_%s" % (spec["id"], c["cmd"])})
    return base
