//go:build verif

// Package kit is the shared part of the correspondence harness. It lives in
// /verif and is mapped into the f1 module by `go test -overlay` only.
package kit

import (
	"bufio"
	"encoding/json"
	"fmt"
	"os"
	"sort"
	"strconv"
	"strings"
	"sync"
)

// ---------------------------------------------------------------- PRNG

// Rand is splitmix64: every random choice of a harness derives from one
// state seeded by VERIF_SEED, so a disagreement replays exactly.
type Rand struct{ s uint64 }

func NewRand(seed uint64) *Rand { return &Rand{s: seed*0x9E3779B97F4A7C15 + 0x1234567} }

func (r *Rand) U64() uint64 {
	r.s += 0x9E3779B97F4A7C15
	z := r.s
	z = (z ^ (z >> 30)) * 0xBF58476D1CE4E5B9
	z = (z ^ (z >> 27)) * 0x94D049BB133111EB
	return z ^ (z >> 31)
}

// Intn returns a value in [0,n).
func (r *Rand) Intn(n int) int {
	if n <= 0 {
		return 0
	}
	return int(r.U64() % uint64(n))
}

func (r *Rand) I64n(n int64) int64 {
	if n <= 0 {
		return 0
	}
	return int64(r.U64() % uint64(n))
}

// Range returns a value in [lo,hi].
func (r *Rand) Range(lo, hi int64) int64 { return lo + r.I64n(hi-lo+1) }

func (r *Rand) Bool() bool       { return r.U64()&1 == 1 }
func (r *Rand) Chance(p int) bool { return r.Intn(100) < p }

// Pick returns one of the arguments.
func Pick[T any](r *Rand, xs ...T) T { return xs[r.Intn(len(xs))] }

// Fork derives an independent generator (for goroutines).
func (r *Rand) Fork() *Rand { return NewRand(r.U64()) }

func Seed() uint64 {
	s := os.Getenv("VERIF_SEED")
	if s == "" {
		return 1
	}
	v, err := strconv.ParseUint(s, 10, 64)
	if err != nil {
		// allow negative / odd seeds
		iv, _ := strconv.ParseInt(s, 10, 64)
		return uint64(iv)
	}
	return v
}

func Thorough() bool { return os.Getenv("VERIF_TIER") == "thorough" }

// N picks a count by tier.
func N(quick, thorough int) int {
	if Thorough() {
		return thorough
	}
	return quick
}

// ---------------------------------------------------------------- values

func B(b bool) string {
	if b {
		return "T"
	}
	return "F"
}

func I[T ~int | ~int64 | ~uint64 | ~int32 | ~uint32 | ~uint8 | ~uint16 | ~int8 | ~int16 | ~uint](x T) string {
	switch v := any(x).(type) {
	case uint64:
		return strconv.FormatUint(v, 10)
	case uint:
		return strconv.FormatUint(uint64(v), 10)
	}
	return strconv.FormatInt(int64(x), 10)
}

func Ints[T ~int | ~int64 | ~uint64 | ~uint8](xs []T) string {
	var b strings.Builder
	b.WriteByte('[')
	for i, x := range xs {
		if i > 0 {
			b.WriteByte(',')
		}
		b.WriteString(I(x))
	}
	b.WriteByte(']')
	return b.String()
}

// Str renders a Go string as the list of its bytes.
func Str(s string) string { return Ints([]byte(s)) }

func List(items ...string) string { return "[" + strings.Join(items, ",") + "]" }

func Strs(xs []string) string {
	items := make([]string, len(xs))
	for i, x := range xs {
		items[i] = Str(x)
	}
	return List(items...)
}

// ---------------------------------------------------------------- output

type Out struct {
	mu     sync.Mutex
	w      *bufio.Writer
	f      *os.File
	stats  map[string]any
	hist   map[string]map[string]int
	ncases int
}

var (
	outOnce sync.Once
	out     *Out
)

// Get opens the case file named by VERIF_OUT (default: stdout).
func Get() *Out {
	outOnce.Do(func() {
		o := &Out{stats: map[string]any{}, hist: map[string]map[string]int{}}
		path := os.Getenv("VERIF_OUT")
		if path == "" {
			o.f = os.Stdout
		} else {
			f, err := os.OpenFile(path, os.O_CREATE|os.O_WRONLY|os.O_APPEND, 0o644)
			if err != nil {
				panic(err)
			}
			o.f = f
		}
		o.w = bufio.NewWriterSize(o.f, 1<<20)
		out = o
	})
	return out
}

// Case records one correspondence case: the model command with its arguments,
// the implementation's observed answer in canonical syntax, and tags
// ("nt" marks a case that exercises the non-trivial branch of the rule; any
// other tag is counted in the evidence histogram).
func (o *Out) Case(cmd string, args []string, impl string, tags ...string) {
	o.mu.Lock()
	defer o.mu.Unlock()
	o.ncases++
	fmt.Fprintf(o.w, "%s %s\t%s\t%s\n", cmd, strings.Join(args, " "), impl, strings.Join(tags, ","))
}

// Fail records a property violation established by the harness itself on
// ground truth it owns (used where no model evaluation is needed to see it,
// e.g. a run that never returned). what must be one line.
func (o *Out) Fail(key, what string) {
	o.mu.Lock()
	defer o.mu.Unlock()
	fmt.Fprintf(o.w, "!FAIL\t%s\t%s\n", key, strings.ReplaceAll(what, "\n", " | "))
}

// Unchecked reports that the harness could not exercise the implementation the way a stage
// needs (hooks not passed, an accessor that no longer applies, ...): the correspondence is
// broken, which is reported without a failing input.
func (o *Out) Unchecked(name, what string) { o.Fail("unchecked:"+name, what) }

func (o *Out) Count(hist, bucket string) {
	o.mu.Lock()
	defer o.mu.Unlock()
	h := o.hist[hist]
	if h == nil {
		h = map[string]int{}
		o.hist[hist] = h
	}
	h[bucket]++
}

func (o *Out) Stat(key string, v any) {
	o.mu.Lock()
	defer o.mu.Unlock()
	o.stats[key] = v
}

func (o *Out) AddStat(key string, n int64) {
	o.mu.Lock()
	defer o.mu.Unlock()
	cur, _ := o.stats[key].(int64)
	o.stats[key] = cur + n
}

// Close flushes cases and writes the statistics beside them.
func (o *Out) Close() {
	o.mu.Lock()
	defer o.mu.Unlock()
	o.w.Flush()
	if p := os.Getenv("VERIF_STATS"); p != "" {
		all := map[string]any{"stats": o.stats, "hist": o.hist, "cases": o.ncases}
		b, _ := json.MarshalIndent(all, "", " ")
		_ = os.WriteFile(p, b, 0o644)
	}
}

// Bucket names a magnitude class for histograms.
func Bucket(n int64) string {
	switch {
	case n < 0:
		return "<0"
	case n == 0:
		return "0"
	case n < 10:
		return "1-9"
	case n < 100:
		return "10-99"
	case n < 10000:
		return "100-9999"
	case n < 1000000:
		return "1e4-1e6"
	default:
		return ">1e6"
	}
}

// Guard runs f and reports whether it panicked.
func Guard(f func()) (crashed bool, val any) {
	defer func() {
		if r := recover(); r != nil {
			crashed = true
			val = r
		}
	}()
	f()
	return false, nil
}

// Res renders an outcome in the model's res syntax.
func Res(crashed bool, err error, ok string) string {
	switch {
	case crashed:
		return "crash"
	case err != nil:
		return "err"
	default:
		return "ok " + ok
	}
}

// CorpusLines reads /verif/corpus/<name> (one case per line, '#' comments).
func CorpusLines(name string) []string {
	dir := os.Getenv("VERIF_CORPUS")
	if dir == "" {
		dir = "/verif/corpus"
	}
	b, err := os.ReadFile(dir + "/" + name)
	if err != nil {
		return nil
	}
	var res []string
	for _, l := range strings.Split(string(b), "\n") {
		l = strings.TrimSpace(l)
		if l == "" || strings.HasPrefix(l, "#") {
			continue
		}
		res = append(res, l)
	}
	return res
}

func SortedKeys[V any](m map[string]V) []string {
	ks := make([]string, 0, len(m))
	for k := range m {
		ks = append(ks, k)
	}
	sort.Strings(ks)
	return ks
}
