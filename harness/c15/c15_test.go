//go:build verif

package c15

import (
	"context"
	"fmt"
	"os"
	"path/filepath"
	"sort"
	"strconv"
	"strings"
	"sync"
	"testing"
	"time"

	"github.com/form3tech-oss/f1/v2/internal/options"
	"github.com/form3tech-oss/f1/v2/internal/ui"
	"github.com/form3tech-oss/f1/v2/internal/verifh/kit"
	"github.com/form3tech-oss/f1/v2/internal/verifh/runkit"
	f1testing "github.com/form3tech-oss/f1/v2/pkg/f1/testing"
)

type entry struct {
	at   time.Time
	tag  string
	only map[int]bool
	// how many of the tagged stage's six further parameters (VERIF_MORE_<stage>_<k>) are present
	more int
}

// Real file-triggered runs: every stage exports VERIF_STAGE=<i> and
// VERIF_ONLY_<i>=1; iteration bodies read the environment at entry.
func TestC15Runs(t *testing.T) {
	o := kit.Get()
	defer o.Close()
	r := kit.NewRand(kit.Seed() + 15)
	dir := t.TempDir()
	rounds := kit.N(6, 40)
	for round := 0; round < rounds; round++ {
		ns := int(r.Range(2, 4))
		conc := 2
		var b strings.Builder
		b.WriteString("scenario: verifscenario\ndefault:\n  jitter: 0\n  distribution: none\n  concurrency: 2\n")
		// every third run is cut short while a stage with parameters is still triggering: by
		// max-duration (rounds 2, 8, ...) or by cancelling the run (rounds 5, 11, ...)
		cut := round%3 == 2
		maxDur := "5s"
		if cut && round%6 == 2 {
			maxDur = "140ms"
		}
		b.WriteString("limits:\n  max-duration: " + maxDur + "\n  concurrency: " + strconv.Itoa(conc) + "\n  max-iterations: 0\n  ignore-dropped: true\nstages:\n")
		for i := 0; i < ns; i++ {
			mode := kit.Pick(r, "constant", "constant", "users", "staged")
			b.WriteString(fmt.Sprintf("  - duration: %dms\n    mode: %s\n", r.Range(90, 160), mode))
			switch mode {
			case "constant":
				b.WriteString("    rate: " + kit.Pick(r, "4/10ms", "10/20ms", "2/5ms") + "\n")
			case "staged":
				b.WriteString("    stages: 50ms:10,50ms:3\n    iteration-frequency: 10ms\n")
			}
			b.WriteString(fmt.Sprintf("    parameters:\n      VERIF_STAGE: \"%d\"\n      VERIF_ONLY_%d: \"1\"\n", i+1, i+1))
			for k := 0; k < 6; k++ {
				b.WriteString(fmt.Sprintf("      VERIF_MORE_%d_%d: \"y\"\n", i+1, k))
			}
			if round%2 == 1 {
				// an entry the operating system refuses to set (the KEY=VALUE typo for KEY: VALUE): the
				// stage's other parameters are present all the same
				b.WriteString(fmt.Sprintf("      \"VERIF_TYPO_%d=1\": \"x\"\n", i+1))
			}
		}
		if round%2 == 1 {
			o.Count("file-run", "stages with a parameter the OS rejects")
		}
		path := filepath.Join(dir, fmt.Sprintf("c15_%d.yaml", round))
		_ = os.WriteFile(path, []byte(b.String()), 0o600)

		var mu sync.Mutex
		var entries []entry
		scenario := func(*f1testing.T) f1testing.RunFn {
			return func(*f1testing.T) {
				e := entry{at: time.Now(), tag: os.Getenv("VERIF_STAGE"), only: map[int]bool{}}
				for i := 1; i <= ns; i++ {
					if os.Getenv("VERIF_ONLY_"+strconv.Itoa(i)) != "" {
						e.only[i] = true
					}
				}
				for k := 0; k < 6; k++ {
					if os.Getenv("VERIF_MORE_"+e.tag+"_"+strconv.Itoa(k)) != "" {
						e.more++
					}
				}
				mu.Lock()
				entries = append(entries, e)
				mu.Unlock()
			}
		}
		ctx, cancelRun := context.WithCancel(context.Background())
		if cut && round%6 == 5 {
			go func() { time.Sleep(140 * time.Millisecond); cancelRun() }()
		}
		out, hung, dump := runkit.DoTimeout(runkit.Config{Mode: "file", FileArg: path, Scenario: scenario, Ctx: ctx,
			Opts: options.RunOptions{}}, 60*time.Second)
		cancelRun()
		if hung {
			o.Fail("c15-run-hung", "file run did not return: "+dump[:min(len(dump), 2000)])
			continue
		}
		if out.Err != nil || out.Result == nil {
			o.Fail("c15-run-error", fmt.Sprintf("file run failed: %v", out.Err))
			continue
		}
		// after the run: no stage parameter remains set
		left := 0
		if os.Getenv("VERIF_STAGE") != "" {
			left++
		}
		for i := 1; i <= ns; i++ {
			if os.Getenv("VERIF_ONLY_"+strconv.Itoa(i)) != "" {
				left++
			}
			for k := 0; k < 6; k++ {
				if os.Getenv("VERIF_MORE_"+strconv.Itoa(i)+"_"+strconv.Itoa(k)) != "" {
					left++
				}
			}
		}
		mu.Lock()
		es := append([]entry(nil), entries...)
		mu.Unlock()
		sort.Slice(es, func(i, j int) bool { return es[i].at.Before(es[j].at) })
		anomalies, maxTag := 0, 0
		seen := map[int]int{}
		for _, e := range es {
			tg, _ := strconv.Atoi(e.tag)
			if tg == 0 || tg < maxTag || !e.only[tg] || len(e.only) != 1 || e.more != 6 {
				anomalies++
				continue
			}
			if tg > maxTag {
				maxTag = tg
			}
			seen[tg]++
		}
		// iterations that were taken by a worker just before their stage stopped may start a
		// few milliseconds into the next stage: tolerate at most `concurrency` of them per boundary
		tolerated := conc * (ns - 1)
		stagesSeen := len(seen)
		if cut {
			// the run ended inside the second stage: only the stages that started can have been seen
			o.Count("file-run", "cut short mid-stage")
			ns = stagesSeen
		} else {
			o.Count("file-run", "complete")
		}
		tags := []string{"filerun", "nt"}
		o.AddStat("file_run_iterations", int64(len(es)))
		o.AddStat("file_run_anomalies", int64(anomalies))
		// c15_run_ok left anomalies tolerated stages_seen stages
		o.Case("c15_run_ok", []string{kit.I(left), kit.I(anomalies), kit.I(tolerated), kit.I(stagesSeen), kit.I(ns)}, "T", tags...)
	}
}

// The trigger as the CLI builds it (file.Rate(...).New(flags)) from a config whose stage-start
// lies in the real past, so that some stages have already finished: its total duration is
// still the sum of ALL stage durations (the run is capped by it), whatever was dropped.
func TestC15Trigger(t *testing.T) {
	o := kit.Get()
	defer o.Close()
	r := kit.NewRand(kit.Seed() + 151)
	dir := t.TempDir()
	n := kit.N(40, 400)
	for i := 0; i < n; i++ {
		ns := int(r.Range(1, 6))
		var durs []int64
		var total int64
		for k := 0; k < ns; k++ {
			d := r.Range(1, 600) * int64(time.Second)
			durs = append(durs, d)
			total += d
		}
		// restart instant: before the start, inside some stage, never after the end (10s margin)
		back := kit.Pick(r, int64(-30*time.Second), 0, r.Range(0, total-int64(10*time.Second)), r.Range(0, total-int64(10*time.Second)))
		if back > total-int64(10*time.Second) {
			back = 0
		}
		start := time.Now().Add(-time.Duration(back)).UTC()
		var b strings.Builder
		b.WriteString("scenario: verifscenario\nlimits:\n  max-duration: 1h\n  concurrency: 2\n  max-iterations: 0\n  ignore-dropped: true\n")
		b.WriteString("schedule:\n  stage-start: \"" + start.Format(time.RFC3339Nano) + "\"\nstages:\n")
		for _, d := range durs {
			b.WriteString(fmt.Sprintf("  - duration: %s\n    mode: constant\n    rate: 1/s\n    jitter: 0\n    distribution: none\n", time.Duration(d)))
		}
		path := filepath.Join(dir, fmt.Sprintf("c15t_%d.yaml", i))
		_ = os.WriteFile(path, []byte(b.String()), 0o600)
		cfg := runkit.Config{Mode: "file", FileArg: path}
		trig, err := runkit.BuildTrigger(&cfg, ui.NewDiscardOutput())
		if err != nil || trig == nil {
			o.Fail("c15-trigger-error", fmt.Sprintf("a config with unfinished stages was rejected: %v", err))
			continue
		}
		kept := strings.Count(trig.Description, "\n") // not used by the predicate beyond bounds
		if kept < 1 {
			kept = 1
		}
		if kept > ns {
			kept = ns
		}
		tags := []string{"trigger"}
		if back > 0 {
			tags = append(tags, "nt", "restarted")
			o.Count("restart", "stage-start in the past")
		} else {
			o.Count("restart", "fresh")
		}
		o.Case("c15_trigger_ok", []string{kit.Ints(durs), kit.I(int64(trig.Duration)), kit.I(kept)}, "T", tags...)
	}
}
