//go:build verif

package c14

import (
	"fmt"
	"github.com/form3tech-oss/f1/v2/internal/trigger/api"
	"github.com/form3tech-oss/f1/v2/pkg/f1"
	f1testing "github.com/form3tech-oss/f1/v2/pkg/f1/testing"
	"math"
	"os"
	"path/filepath"
	"runtime"
	"sort"
	"strconv"
	"strings"
	"sync/atomic"
	"testing"
	"time"

	"github.com/form3tech-oss/f1/v2/internal/trigger/constant"
	"github.com/form3tech-oss/f1/v2/internal/trigger/file"
	"github.com/form3tech-oss/f1/v2/internal/trigger/gaussian"
	"github.com/form3tech-oss/f1/v2/internal/trigger/ramp"
	"github.com/form3tech-oss/f1/v2/internal/trigger/rate"
	"github.com/form3tech-oss/f1/v2/internal/trigger/staged"
	"github.com/form3tech-oss/f1/v2/internal/verifh/kit"
)

// ---------------------------------------------------------------- generators for strings

var alphabet = []string{"0", "1", "2", "5", "9", "/", ".", "-", "+", "e", "µ", "s", "m", "h", "n", "u", ":", ",", " "}

func genDurStr(r *kit.Rand) string {
	units := []string{"ns", "us", "µs", "μs", "ms", "s", "m", "h"}
	n := int(r.Range(1, 3))
	var b strings.Builder
	if r.Chance(8) {
		b.WriteString(kit.Pick(r, "-", "+"))
	}
	for i := 0; i < n; i++ {
		switch r.Intn(6) {
		case 0:
			b.WriteString(strconv.FormatInt(r.Range(0, 100), 10) + "." + strconv.FormatInt(r.Range(0, 999), 10))
		case 1:
			b.WriteString("." + strconv.FormatInt(r.Range(0, 99), 10))
		case 2:
			b.WriteString(strconv.FormatInt(r.Range(0, 9), 10) + ".")
		default:
			b.WriteString(strconv.FormatInt(kit.Pick(r, r.Range(0, 10), r.Range(0, 100000), 0, 1), 10))
		}
		b.WriteString(units[r.Intn(len(units))])
	}
	if r.Chance(5) {
		return "0"
	}
	return b.String()
}

func mutate(r *kit.Rand, s string) string {
	if s == "" {
		return alphabet[r.Intn(len(alphabet))]
	}
	bs := []byte(s)
	i := r.Intn(len(bs))
	switch r.Intn(4) {
	case 0: // delete
		return string(bs[:i]) + string(bs[i+1:])
	case 1: // duplicate
		return string(bs[:i+1]) + string(bs[i:])
	case 2: // insert
		return string(bs[:i]) + alphabet[r.Intn(len(alphabet))] + string(bs[i:])
	default: // replace
		return string(bs[:i]) + alphabet[r.Intn(len(alphabet))] + string(bs[i+1:])
	}
}

func genRateStr(r *kit.Rand) string {
	var s string
	n := strconv.FormatInt(kit.Pick(r, r.Range(0, 20), r.Range(0, 1000000), 0, 1), 10)
	switch r.Intn(6) {
	case 0:
		s = n
	case 1:
		s = n + "/" + kit.Pick(r, "s", "m", "h", "ms", "us", "ns", "µs")
	case 2:
		s = n + "/" + genDurStr(r)
	case 3:
		s = n + "/" + strconv.FormatInt(r.Range(0, 500), 10) + kit.Pick(r, "ms", "s", "m")
	case 4:
		s = kit.Pick(r, "5/", "1/.5s", "1/0s", "1/00s", "1/0", "/s", "-1/s", "+3/s", "1/-5s", "1/+5s", "1//s", "1/s/s", " 1/s", "1/ s", "1/1e3s", "", "/", "1/µ", "1/.s", "1/5", "01/01s", "9223372036854775807/s", "9223372036854775808/s", "1/9223372036854775807ns", "1/9223372036s", "1/2562048h")
	default:
		s = n + "/" + genDurStr(r)
	}
	k := kit.Pick(r, 0, 0, 0, 1, 1, 2)
	for i := 0; i < k; i++ {
		s = mutate(r, s)
	}
	return s
}

func genStagesStr(r *kit.Rand) string {
	n := int(r.Range(1, 5))
	parts := make([]string, n)
	for i := range parts {
		sp := func() string { return kit.Pick(r, "", "", " ", "  ", "\t") }
		parts[i] = sp() + genDurStr(r) + sp() + ":" + sp() + strconv.FormatInt(kit.Pick(r, r.Range(0, 100), r.Range(-5, 5), 0), 10) + sp()
	}
	s := strings.Join(parts, ",")
	if r.Chance(10) {
		s = kit.Pick(r, "", ",", ":", "1s", "1s:", ":1", "1s:1:1", "1s:1,", "1s:1,,2s:2", "0s:1, 10s:1", "1s:x", "x:1", "1s:1.5", "1s: +3", "1s :-0")
	}
	k := kit.Pick(r, 0, 0, 0, 1, 2)
	for i := 0; i < k; i++ {
		s = mutate(r, s)
	}
	return s
}

func isASCII(s string) bool {
	for i := 0; i < len(s); i++ {
		// the model's TrimSpace is ASCII-only; 'µ'/'μ' bytes are fine (not white space)
		if s[i] == 0xC2 && i+1 < len(s) && (s[i+1] == 0x85 || s[i+1] == 0xA0) {
			return false
		}
	}
	return true
}

// ---------------------------------------------------------------- primitives

func TestC14Prims(t *testing.T) {
	o := kit.Get()
	defer o.Close()
	r := kit.NewRand(kit.Seed() + 140)
	n := kit.N(3000, 50000)
	for i := 0; i < n; i++ {
		switch r.Intn(3) {
		case 0:
			s := genDurStr(r)
			for k := kit.Pick(r, 0, 0, 1, 2); k > 0; k-- {
				s = mutate(r, s)
			}
			if r.Chance(5) {
				s = kit.Pick(r, "9223372036854775807ns", "9223372036854775808ns", "-9223372036854775808ns", "2562047h47m16.854775807s", "2562047h47m16.854775808s",
					"0.9223372036854775808h", "1.00000000000000000000000000001s", "999999999999999999999h", ".1234567890123456789h", "1e3s", "1h1", "3.3.3s")
			}
			d, err := time.ParseDuration(s)
			out := "err"
			if err == nil {
				out = "ok " + kit.I(int64(d))
			}
			o.Case("go_parse_duration", []string{kit.Str(s)}, out, "nt")
		case 1:
			s := kit.Pick(r, strconv.FormatInt(r.Range(-1000, 1000), 10), strconv.FormatInt(int64(r.U64()), 10), "+"+strconv.FormatInt(r.Range(0, 99), 10),
				"", "+", "-", "1_000", "0x10", "9223372036854775807", "9223372036854775808", "-9223372036854775808", "-9223372036854775809", "00012", " 1", "1 ", "1.0", "١")
			for k := kit.Pick(r, 0, 0, 1); k > 0; k-- {
				s = mutate(r, s)
			}
			v, err := strconv.Atoi(s)
			out := "err"
			if err == nil {
				out = "ok " + kit.I(v)
			}
			o.Case("go_atoi", []string{kit.Str(s)}, out, "nt")
		default:
			s := kit.Pick(r, "", " ", "a", " a", "a ", "\t a b \n", "  ", "\v\fx\r", "a\tb") + kit.Pick(r, "", " ", "x ", "\n")
			o.Case("go_trim_space", []string{kit.Str(s)}, kit.Str(strings.TrimSpace(s)), "nt")
		}
	}
}

// ---------------------------------------------------------------- ParseRate / ParseStages

func rateOut(s string) string {
	var n int
	var u time.Duration
	var err error
	crashed, _ := kit.Guard(func() { n, u, err = rate.ParseRate(s) })
	return kit.Res(crashed, err, kit.List(kit.I(n), kit.I(int64(u))))
}

func stagesOut(s string) string {
	var st []staged.Stage
	var err error
	crashed, _ := kit.Guard(func() { st, err = staged.ParseStages(s) })
	items := make([]string, len(st))
	for i, x := range st {
		items[i] = kit.List(kit.I(int64(x.Duration)), kit.I(x.EndTarget))
	}
	return kit.Res(crashed, err, kit.List(items...))
}

func TestC14Rate(t *testing.T) {
	o := kit.Get()
	defer o.Close()
	r := kit.NewRand(kit.Seed() + 141)
	for _, s := range []string{"5/", "1/.5s", "1/0s", "1/00s", "1/0", "10/s", "7", "3/1m30s", "2/100ms", "1/µs"} {
		o.Case("parse_rate", []string{kit.Str(s)}, rateOut(s), "corpus", "nt")
	}
	if kit.Thorough() {
		// every string of up to 4 symbols over the alphabet
		var rec func(prefix string, depth int)
		rec = func(prefix string, depth int) {
			o.Case("parse_rate", []string{kit.Str(prefix)}, rateOut(prefix), "exhaustive")
			if depth == 0 {
				return
			}
			for _, a := range alphabet {
				rec(prefix+a, depth-1)
			}
		}
		rec("", 4)
	}
	n := kit.N(4000, 60000)
	for i := 0; i < n; i++ {
		s := genRateStr(r)
		tags := []string{"rate"}
		if strings.Contains(s, "/") {
			tags = append(tags, "nt")
		}
		o.Count("rate-outcome", strings.SplitN(rateOut(s), " ", 2)[0])
		o.Case("parse_rate", []string{kit.Str(s)}, rateOut(s), tags...)
	}
	n = kit.N(2500, 40000)
	for i := 0; i < n; i++ {
		s := genStagesStr(r)
		if !isASCII(s) {
			continue
		}
		tags := []string{"stages"}
		if strings.Contains(s, ",") {
			tags = append(tags, "nt")
		}
		o.Count("stages-outcome", strings.SplitN(stagesOut(s), " ", 2)[0])
		o.Case("parse_stages", []string{kit.Str(s)}, stagesOut(s), tags...)
	}
}

// ---------------------------------------------------------------- constructors

func TestC14Ctors(t *testing.T) {
	o := kit.Get()
	defer o.Close()
	r := kit.NewRand(kit.Seed() + 142)
	dists := []string{"none", "regular", "random", "bogus", "", "Regular"}
	n := kit.N(1500, 20000)
	for i := 0; i < n; i++ {
		dist := dists[kit.Pick(r, 0, 1, 2, 0, 1, 2, 3, 4, 5)]
		switch r.Intn(4) {
		case 0:
			rs := genRateStr(r)
			var iv, tot time.Duration
			var err error
			crashed, _ := kit.Guard(func() {
				rt, e := constant.CalculateConstantRate(0, rs, dist)
				err = e
				if e == nil {
					iv, tot = rt.IterationDuration, rt.Duration
					usable(rt, nil)
				}
			})
			o.Case("calc_constant", []string{kit.Str(rs), kit.Str(dist)}, kit.Res(crashed, err, kit.List(kit.I(int64(iv)), kit.I(int64(tot)))), "ctor", "nt")
		case 1:
			a, b := genRateStr(r), genRateStr(r)
			if r.Chance(60) {
				u := kit.Pick(r, "s", "100ms", "1m", "10ms")
				a = strconv.FormatInt(r.Range(0, 50), 10) + "/" + u
				b = strconv.FormatInt(r.Range(0, 50), 10) + "/" + kit.Pick(r, u, u, u, "s")
			}
			dur := kit.Pick(r, int64(0), 1, 1_000_000_000, 5_000_000_000, 99_999_999, 100_000_000, -1_000_000_000)
			var iv, tot time.Duration
			var err error
			crashed, _ := kit.Guard(func() {
				rt, e := ramp.CalculateRampRate(a, b, dist, time.Duration(dur), 0)
				err = e
				if e == nil {
					iv, tot = rt.IterationDuration, rt.Duration
					usable(rt, nil)
				}
			})
			o.Case("calc_ramp", []string{kit.Str(a), kit.Str(b), kit.Str(dist), kit.I(dur)}, kit.Res(crashed, err, kit.List(kit.I(int64(iv)), kit.I(int64(tot)))), "ctor", "nt")
		case 2:
			st := genStagesStr(r)
			if !isASCII(st) {
				continue
			}
			freq := kit.Pick(r, int64(0), -1, 1, 1_000_000, 100_000_000, 1_000_000_000, 250_000_000)
			var iv, tot time.Duration
			var err error
			// --startTime: none, in the past, in the future (the profile has not begun when it is first evaluated)
			var start *time.Time
			switch r.Intn(3) {
			case 1:
				t := time.Now().Add(-time.Duration(r.Range(1, 100)) * time.Second)
				start = &t
			case 2:
				t := time.Now().Add(time.Duration(r.Range(1, 100)) * time.Minute)
				start = &t
			}
			crashed, _ := kit.Guard(func() {
				rt, e := staged.CalculateStagedRate(0, time.Duration(freq), st, dist, start)
				err = e
				if e == nil {
					iv, tot = rt.IterationDuration, rt.Duration
					usable(rt, start)
				}
			})
			o.Case("calc_staged", []string{kit.I(freq), kit.Str(st), kit.Str(dist)}, kit.Res(crashed, err, kit.List(kit.I(int64(iv)), kit.I(int64(tot)))), "ctor", "nt")
		default:
			freq := kit.Pick(r, int64(0), -5, 1_000_000_000, 100_000_000, 60_000_000_000)
			sd := kit.Pick(r, int64(0), -1, 1, 60_000_000_000, 3_600_000_000_000)
			w := kit.Pick(r, "", "1,1", "1.0,2.5,3", "0,0", "a", "1,,2", "1,x", " 1", "1e3,-2", "NaN", "Inf,1")
			wok := weightsOK(w)
			var iv, tot time.Duration
			var err error
			crashed, _ := kit.Guard(func() {
				rt, e := gaussian.CalculateGaussianRate(1000, 0, time.Hour, time.Duration(freq), 30*time.Minute, time.Duration(sd), w, dist)
				err = e
				if e == nil {
					iv, tot = rt.IterationDuration, rt.Duration
					usable(rt, nil)
				}
			})
			o.Case("calc_gaussian", []string{kit.I(freq), kit.I(sd), kit.B(wok), kit.Str(dist)}, kit.Res(crashed, err, kit.List(kit.I(int64(iv)), kit.I(int64(tot)))), "ctor", "nt")
		}
	}
}

// usable: an accepted trigger's rate function can be evaluated - before its start time, at it,
// inside the profile and after its end, several times over - without crashing the process.
func usable(rt *api.Rates, start *time.Time) {
	base := time.Now()
	if start != nil {
		base = *start
	}
	tot := rt.Duration
	for rep := 0; rep < 2; rep++ {
		for _, at := range []time.Time{time.Now(), base.Add(-time.Hour), base, base.Add(time.Nanosecond), base.Add(tot / 2), base.Add(tot), base.Add(tot + time.Second)} {
			_ = rt.Rate(at)
		}
	}
}

// weightsOK: strconv.ParseFloat accepts every non-empty comma-separated part
// (library oracle handed to the model).
func weightsOK(w string) bool {
	for _, s := range strings.Split(w, ",") {
		if s == "" {
			continue
		}
		if _, err := strconv.ParseFloat(s, 64); err != nil {
			return false
		}
	}
	return true
}

// ---------------------------------------------------------------- config files

type stageAST struct {
	mode, startRate, endRate, rate, dist, weights, stages *string
	conc                                                  *int64
	jitter, volume                                        *float64
	dur, freq, repeat, peak, stddev                       *int64
	params                                                *map[string]string
}

type cfgAST struct {
	scenario                              *string
	def                                   stageAST
	maxDur, conc, maxIter, maxFail, maxFR *int64
	ign                                   *bool
	start                                 *int64 // unix seconds
	stages                                []stageAST
	noStagesKey                           bool
}

func sp(s string) *string   { return &s }
func ip(i int64) *int64     { return &i }
func fp(f float64) *float64 { return &f }

func q(s string) string { return strconv.Quote(s) }

func (s stageAST) yaml(ind string) string {
	var b strings.Builder
	w := func(k, v string) { b.WriteString(ind + k + ": " + v + "\n") }
	if s.mode != nil {
		w("mode", q(*s.mode))
	}
	if s.startRate != nil {
		w("start-rate", q(*s.startRate))
	}
	if s.endRate != nil {
		w("end-rate", q(*s.endRate))
	}
	if s.rate != nil {
		w("rate", q(*s.rate))
	}
	if s.dist != nil {
		w("distribution", q(*s.dist))
	}
	if s.weights != nil {
		w("weights", q(*s.weights))
	}
	if s.stages != nil {
		w("stages", q(*s.stages))
	}
	if s.conc != nil {
		w("concurrency", kit.I(*s.conc))
	}
	if s.jitter != nil {
		w("jitter", strconv.FormatFloat(*s.jitter, 'g', -1, 64))
	}
	if s.volume != nil {
		w("volume", strconv.FormatFloat(*s.volume, 'g', -1, 64))
	}
	d := func(k string, v *int64) {
		if v != nil {
			w(k, time.Duration(*v).String())
		}
	}
	d("duration", s.dur)
	d("iteration-frequency", s.freq)
	d("repeat", s.repeat)
	d("peak", s.peak)
	d("standard-deviation", s.stddev)
	if s.params != nil {
		if len(*s.params) == 0 {
			w("parameters", "{}")
		} else {
			b.WriteString(ind + "parameters:\n")
			for _, k := range kit.SortedKeys(*s.params) {
				b.WriteString(ind + "  " + k + ": " + q((*s.params)[k]) + "\n")
			}
		}
	}
	return b.String()
}

func (c cfgAST) yaml() string {
	var b strings.Builder
	if c.scenario != nil {
		b.WriteString("scenario: " + q(*c.scenario) + "\n")
	}
	if ds := c.def.yaml("  "); ds != "" {
		b.WriteString("default:\n" + ds)
	}
	var lim strings.Builder
	if c.maxDur != nil {
		lim.WriteString("  max-duration: " + time.Duration(*c.maxDur).String() + "\n")
	}
	if c.conc != nil {
		lim.WriteString("  concurrency: " + kit.I(*c.conc) + "\n")
	}
	if c.maxIter != nil {
		lim.WriteString("  max-iterations: " + kit.I(*c.maxIter) + "\n")
	}
	if c.maxFail != nil {
		lim.WriteString("  max-failures: " + kit.I(*c.maxFail) + "\n")
	}
	if c.maxFR != nil {
		lim.WriteString("  max-failures-rate: " + kit.I(*c.maxFR) + "\n")
	}
	if c.ign != nil {
		lim.WriteString("  ignore-dropped: " + strconv.FormatBool(*c.ign) + "\n")
	}
	if lim.Len() > 0 {
		b.WriteString("limits:\n" + lim.String())
	}
	if c.start != nil {
		b.WriteString("schedule:\n  stage-start: " + q(time.Unix(*c.start, 0).UTC().Format(time.RFC3339)) + "\n")
	}
	if !c.noStagesKey {
		if len(c.stages) == 0 {
			b.WriteString("stages: []\n")
		} else {
			b.WriteString("stages:\n")
			for _, s := range c.stages {
				y := s.yaml("    ")
				if y == "" {
					b.WriteString("  - {}\n")
				} else {
					b.WriteString("  - " + strings.TrimPrefix(y, "    "))
				}
			}
		}
	}
	return b.String()
}

func optS(p *string) string {
	if p == nil {
		return "[]"
	}
	return kit.List(kit.Str(*p))
}
func optI(p *int64) string {
	if p == nil {
		return "[]"
	}
	return kit.List(kit.I(*p))
}
func optF(p *float64) string {
	if p == nil {
		return "[]"
	}
	return kit.List(kit.I(math.Float64bits(*p)))
}

func encParams(m map[string]string) string {
	ks := kit.SortedKeys(m)
	items := make([]string, len(ks))
	for i, k := range ks {
		items[i] = kit.List(kit.Str(k), kit.Str(m[k]))
	}
	return kit.List(items...)
}

func (s stageAST) enc() string {
	w := "[]"
	if s.weights != nil {
		w = kit.List(kit.B(weightsOK(*s.weights)))
	}
	p := "[]"
	if s.params != nil {
		p = kit.List(encParams(*s.params))
	}
	return kit.List(optS(s.mode), optS(s.startRate), optS(s.endRate), optS(s.rate), optS(s.dist), w, optS(s.stages),
		optI(s.conc), optF(s.jitter), optF(s.volume), optI(s.dur), optI(s.freq), optI(s.repeat), optI(s.peak), optI(s.stddev), p)
}

func (c cfgAST) enc() string {
	ign := "[]"
	if c.ign != nil {
		ign = kit.List(kit.B(*c.ign))
	}
	st := "[]"
	if c.start != nil {
		st = kit.List(kit.I(*c.start * 1_000_000_000))
	}
	items := make([]string, len(c.stages))
	for i, s := range c.stages {
		items[i] = s.enc()
	}
	return kit.List(optS(c.scenario), c.def.enc(), kit.List(optI(c.maxDur), optI(c.conc), optI(c.maxIter), optI(c.maxFail), optI(c.maxFR), ign), st, kit.List(items...))
}

var modes = []string{"constant", "ramp", "staged", "gaussian", "users"}

func maybe[T any](r *kit.Rand, pct int, v T) *T {
	if r.Chance(pct) {
		return &v
	}
	return nil
}

func genStage(r *kit.Rand, present int, valid bool) stageAST {
	var s stageAST
	mode := modes[r.Intn(len(modes))]
	if !valid && r.Chance(10) {
		mode = kit.Pick(r, "bogus", "", "Constant")
	}
	s.mode = maybe(r, present, mode)
	rateStr := func() string {
		if valid || r.Chance(70) {
			return strconv.FormatInt(r.Range(0, 30), 10) + "/" + kit.Pick(r, "s", "100ms", "10ms", "1m", "500ms")
		}
		return genRateStr(r)
	}
	s.rate = maybe(r, present, rateStr())
	u := kit.Pick(r, "s", "100ms", "10ms")
	s.startRate = maybe(r, present, strconv.FormatInt(r.Range(0, 30), 10)+"/"+u)
	s.endRate = maybe(r, present, strconv.FormatInt(r.Range(31, 60), 10)+"/"+kit.Pick(r, u, u, u, "s"))
	dist := kit.Pick(r, "none", "none", "regular", "random")
	if !valid && r.Chance(8) {
		dist = "bogus"
	}
	s.dist = maybe(r, present, dist)
	s.weights = maybe(r, present, kit.Pick(r, "", "1,1", "1.5,2", "x", "0,0"))
	if valid {
		s.weights = maybe(r, present, kit.Pick(r, "", "1,1", "1.5,2"))
	}
	stg := "100ms:10,200ms:0"
	if !valid && r.Chance(20) {
		stg = genStagesStr(r)
		if !isASCII(stg) {
			stg = "x"
		}
	}
	s.stages = maybe(r, present, stg)
	s.conc = maybe(r, present, kit.Pick(r, r.Range(1, 20), r.Range(1, 20), 0, -1))
	if valid {
		s.conc = maybe(r, present, r.Range(1, 20))
	}
	s.jitter = maybe(r, present, kit.Pick(r, 0.0, 0.0, 5.0, 20.5, 50.0))
	s.volume = maybe(r, present, kit.Pick(r, 100.0, 86400.0, 0.0))
	s.dur = maybe(r, present, kit.Pick(r, r.Range(1, 50)*100_000_000, r.Range(0, 3)*1_000_000_000, 0))
	s.freq = maybe(r, present, kit.Pick(r, int64(100_000_000), 1_000_000_000, 10_000_000, 0, -1_000_000))
	if valid {
		s.freq = maybe(r, present, kit.Pick(r, int64(100_000_000), 1_000_000_000, 10_000_000))
	}
	s.repeat = maybe(r, present, kit.Pick(r, int64(3_600_000_000_000), 60_000_000_000))
	s.peak = maybe(r, present, kit.Pick(r, int64(1_800_000_000_000), 500_000_000))
	s.stddev = maybe(r, present, kit.Pick(r, int64(60_000_000_000), 1_000_000_000, 0))
	if valid {
		s.stddev = maybe(r, present, kit.Pick(r, int64(60_000_000_000), 1_000_000_000))
	}
	if r.Chance(present) {
		m := map[string]string{}
		for k := int(r.Range(0, 3)); k > 0; k-- {
			m[kit.Pick(r, "FOO", "BAR", "VERIF_X", "A_B")] = kit.Pick(r, "1", "two", "", "x y")
		}
		s.params = &m
	}
	return s
}

func genCfg(r *kit.Rand) cfgAST {
	var c cfgAST
	valid := r.Chance(60)
	req := 100
	if !valid {
		req = 90
	}
	c.scenario = maybe(r, req, "scn")
	c.def = genStage(r, kit.Pick(r, 100, 70, 30, 0), valid)
	c.maxDur = maybe(r, req, r.Range(1, 10)*1_000_000_000)
	c.conc = maybe(r, req, kit.Pick(r, r.Range(1, 50), r.Range(1, 50), r.Range(1, 50), 0, -3))
	if valid {
		c.conc = ip(r.Range(1, 50))
	}
	c.maxIter = maybe(r, req, kit.Pick(r, int64(0), 1000))
	c.maxFail = maybe(r, 50, r.Range(0, 10))
	c.maxFR = maybe(r, 50, r.Range(0, 100))
	c.ign = maybe(r, req, r.Bool())
	if r.Chance(60) {
		c.start = ip(1_700_000_000 + r.Range(0, 1000))
	}
	n := int(r.Range(1, 6))
	if !valid && r.Chance(10) {
		n = 0
		c.noStagesKey = r.Bool()
	}
	for i := 0; i < n; i++ {
		c.stages = append(c.stages, genStage(r, kit.Pick(r, 100, 80, 50, 20), valid))
	}
	return c
}

func planOut(rs *file.RunnableStages, evalAt time.Time) string {
	items := make([]string, len(rs.Stages))
	for i, s := range rs.Stages {
		items[i] = kit.List(kit.I(int64(s.StageDuration)), kit.I(int64(s.IterationDuration)), kit.I(s.UsersConcurrency), encParams(s.Params))
	}
	return kit.List(kit.Str(rs.Scenario), kit.List(items...), kit.I(int64(rs.VerifTotalDuration())), kit.I(int64(rs.MaxDuration)),
		kit.I(rs.Concurrency), kit.I(rs.MaxIterations), kit.I(rs.VerifMaxFailures()), kit.I(rs.VerifMaxFailuresRate()), kit.B(rs.IgnoreDropped))
}

func TestC14Config(t *testing.T) {
	o := kit.Get()
	defer o.Close()
	r := kit.NewRand(kit.Seed() + 143)
	n := kit.N(1500, 25000)
	for i := 0; i < n; i++ {
		c := genCfg(r)
		if i%10 == 3 && len(c.stages) >= 2 {
			// staged stages that take their iteration frequency (and their sub-stages) from the default
			// section, an earlier one shorter than that frequency, a later one longer: each stage's tick
			// interval is the configured frequency (or the distribution's sub-tick), whatever came before
			sp := func(v string) *string { return &v }
			c.def.mode, c.def.stages = sp("staged"), sp("100ms:10,200ms:0")
			c.def.freq = ip(kit.Pick(r, int64(1_000_000_000), 2_000_000_000, 500_000_000))
			for k := 0; k < 2; k++ {
				c.stages[k].mode, c.stages[k].freq, c.stages[k].stages = nil, nil, nil
			}
			c.stages[0].dur = ip(kit.Pick(r, int64(400_000_000), 100_000_000, 300_000_000))
			c.stages[1].dur = ip(kit.Pick(r, int64(3_000_000_000), 5_000_000_000))
			o.Count("config", "staged stages inheriting the default iteration frequency, a short one first")
		}
		y := c.yaml()
		// now: before start, at every stage boundary +-1ns, after the end
		var now int64 = 1_700_000_000_000_000_000 + r.Range(0, 2000)*1_000_000_000
		var cand []int64
		if c.start != nil {
			cum := int64(0)
			cand = append(cand, -5_000_000_000, 0)
			for _, s := range c.stages {
				d := s.dur
				if d == nil {
					d = c.def.dur
				}
				if d != nil {
					cum += *d
				}
				cand = append(cand, cum-1, cum, cum+1)
			}
			cand = append(cand, cum+1_000_000_000)
			now = *c.start*1_000_000_000 + cand[r.Intn(len(cand))]
		}
		var rs *file.RunnableStages
		var err error
		crashed, _ := kit.Guard(func() { rs, err = file.ParseConfigFile([]byte(y), time.Unix(0, now)) })
		out := kit.Res(crashed, err, "")
		if !crashed && err == nil {
			out = "ok " + planOut(rs, time.Unix(0, now))
		}
		tags := []string{"config"}
		if c.start != nil && len(c.stages) >= 2 {
			tags = append(tags, "nt")
		}
		if !crashed && err == nil {
			// the jitter in force, seen from outside: 24 evaluations of every stage's rate function
			// at one instant either all agree (0) or vary (1); users stages have no rate function
			obs := make([]string, len(rs.Stages))
			for k, s := range rs.Stages {
				obs[k] = "0"
				if s.UsersConcurrency != 0 || s.Rate == nil {
					continue
				}
				at := time.Unix(0, now)
				var first int
				rateCrashed, pv := kit.Guard(func() {
					first = s.Rate(at)
					for q := 0; q < 23; q++ {
						if s.Rate(at) != first {
							obs[k] = "1"
						}
					}
					// and at a few other instants: the rate function of an accepted stage must be usable
					for _, d := range []time.Duration{-time.Hour, s.StageDuration / 2, s.StageDuration, s.StageDuration + time.Second} {
						_ = s.Rate(at.Add(d))
					}
				})
				if rateCrashed {
					o.Fail("config-rate-crash", fmt.Sprintf("the rate function of stage %d of an accepted config panicked (%v); config:\n%s", k, pv, y))
				}
			}
			o.Case("config_jitter_ok", []string{c.enc(), kit.I(now), kit.List(obs...)}, "T", "config", "jitter")
			// gaussian stages: what the stage's rate function answers is what the gaussian trigger built
			// directly from the stage's own resolved options (the stage's value, else the default
			// section's) answers - whatever other stages the file holds
			// (the profile carries fractions from call to call: both sides start fresh - the file is read
			// once more for this - and are asked the same instants in the same order)
			first := len(c.stages) - len(rs.Stages)
			fresh, ferr := file.ParseConfigFile([]byte(y), time.Unix(0, now))
			if ferr != nil || len(fresh.Stages) != len(rs.Stages) {
				first = -1
			}
			for k := range rs.Stages {
				if first < 0 {
					break
				}
				s := fresh.Stages[k]
				if s.UsersConcurrency != 0 || s.Rate == nil {
					continue
				}
				ast := c.stages[first+k]
				str := func(a, b *string) string {
					if a != nil {
						return *a
					}
					if b != nil {
						return *b
					}
					return ""
				}
				if str(ast.mode, c.def.mode) != "gaussian" || str(ast.dist, c.def.dist) != "none" {
					continue
				}
				i64 := func(a, b *int64) (int64, bool) {
					if a != nil {
						return *a, true
					}
					if b != nil {
						return *b, true
					}
					return 0, false
				}
				f64 := func(a, b *float64) (float64, bool) {
					if a != nil {
						return *a, true
					}
					if b != nil {
						return *b, true
					}
					return 0, false
				}
				vol, ok1 := f64(ast.volume, c.def.volume)
				jit, ok2 := f64(ast.jitter, c.def.jitter)
				rep, ok3 := i64(ast.repeat, c.def.repeat)
				frq, ok4 := i64(ast.freq, c.def.freq)
				pk, ok5 := i64(ast.peak, c.def.peak)
				sd, ok6 := i64(ast.stddev, c.def.stddev)
				if !(ok1 && ok2 && ok3 && ok4 && ok5 && ok6) || jit != 0 {
					continue
				}
				want, e := gaussian.CalculateGaussianRate(vol, 0, time.Duration(rep), time.Duration(frq), time.Duration(pk), time.Duration(sd), str(ast.weights, c.def.weights), "none")
				if e != nil {
					continue
				}
				at := time.Unix(0, now)
				differs := ""
				gcrash, _ := kit.Guard(func() {
					for q := 0; q < 40 && differs == ""; q++ {
						tq := at.Add(time.Duration(q) * time.Duration(rep) / 40)
						if a, b := s.Rate(tq), want.Rate(tq); a != b {
							differs = fmt.Sprintf("at +%s the stage answers %d, the trigger built from the stage's own options %d", tq.Sub(at), a, b)
						}
					}
				})
				o.Count("config", "gaussian stage compared with a directly built profile")
				if differs != "" && !gcrash {
					o.Fail("config-gaussian-stage-differs", fmt.Sprintf("gaussian stage %d (peak %s, repeat %s, deviation %s): %s; config:\n%s", first+k, time.Duration(pk), time.Duration(rep), time.Duration(sd), differs, y))
				}
			}
		}
		o.Count("config-outcome", strings.SplitN(out, " ", 2)[0])
		o.Count("config-stages", kit.I(len(c.stages)))
		o.Case("parse_config", []string{c.enc(), kit.I(now)}, out, tags...)
		if c.start != nil && i%3 == 0 && !crashed && err == nil {
			// the same bytes read again at other instants (a restart, a chart and then a run), later
			// and earlier ones: every reading plans from the file and its own instant alone
			for q := int(r.Range(2, 4)); q > 0; q-- {
				again := *c.start*1_000_000_000 + cand[r.Intn(len(cand))]
				var rs2 *file.RunnableStages
				var err2 error
				crashed2, _ := kit.Guard(func() { rs2, err2 = file.ParseConfigFile([]byte(y), time.Unix(0, again)) })
				out2 := kit.Res(crashed2, err2, "")
				if !crashed2 && err2 == nil {
					out2 = "ok " + planOut(rs2, time.Unix(0, again))
				}
				o.Case("parse_config", []string{c.enc(), kit.I(again)}, out2, append(tags, "reread")...)
			}
			o.Count("config", "same bytes read at several instants")
		}
	}
}

// arbitrary bytes and mutated documents must never crash the parser
func TestC14Fuzz(t *testing.T) {
	o := kit.Get()
	defer o.Close()
	r := kit.NewRand(kit.Seed() + 144)
	n := kit.N(3000, 60000)
	crashes := 0
	for i := 0; i < n; i++ {
		var doc []byte
		if r.Chance(30) {
			doc = make([]byte, r.Intn(200))
			for k := range doc {
				doc[k] = byte(r.Intn(256))
			}
		} else if r.Chance(25) {
			// structural damage: a stage item (or a whole section) emptied out, as an editor leaves it
			lines := strings.Split(genCfg(r).yaml(), "\n")
			var out []string
			skipIndent := -1
			for _, ln := range lines {
				ind := len(ln) - len(strings.TrimLeft(ln, " "))
				if skipIndent >= 0 {
					if strings.TrimSpace(ln) != "" && ind > skipIndent {
						continue // body of the emptied item
					}
					skipIndent = -1
				}
				t := strings.TrimSpace(ln)
				if strings.HasPrefix(t, "- ") && r.Chance(30) {
					out = append(out, ln[:ind]+kit.Pick(r, "-", "- ~", "- null", "- {}", "- []"))
					skipIndent = ind
					continue
				}
				if strings.HasSuffix(t, ":") && r.Chance(10) {
					out = append(out, ln+kit.Pick(r, " ~", " null", " {}", " []", ""))
					skipIndent = ind
					continue
				}
				out = append(out, ln)
			}
			doc = []byte(strings.Join(out, "\n"))
		} else {
			y := genCfg(r).yaml()
			doc = []byte(y)
			for k := int(r.Range(1, 6)); k > 0 && len(doc) > 0; k-- {
				p := r.Intn(len(doc))
				switch r.Intn(3) {
				case 0:
					doc[p] = byte(kit.Pick(r, ':', '-', ' ', '\n', '{', '[', '"', '#', '0', 'x', '&', '*', '!'))
				case 1:
					doc = append(doc[:p], doc[p+1:]...)
				default:
					doc = append(doc[:p], append([]byte{byte(r.Intn(256))}, doc[p:]...)...)
				}
			}
		}
		crashed, v := kit.Guard(func() { _, _ = file.ParseConfigFile(doc, time.Unix(1_700_000_000, 0)) })
		if crashed {
			crashes++
			if crashes <= 3 {
				o.Fail("config-bytes-crash", fmt.Sprintf("ParseConfigFile panicked (%v) on document %q", v, string(doc)))
			}
		}
	}
	o.Stat("fuzz_documents", n)
	o.Case("fuzz_crashes", []string{kit.I(crashes)}, "T", "fuzz", "nt")
	_ = sort.Strings
}

// ---------------------------------------------------------------- flag level: the run command with values at the ends of their types

// Every combination is either rejected with an error before the scenario's setup runs, or runs
// (setup executed, the command returns): never a crash, never a run that starts with a trigger
// that cannot run.
func TestC14CLI(t *testing.T) {
	o := kit.Get()
	defer o.Close()
	r := kit.NewRand(kit.Seed() + 145)
	maxIters := []string{"0", "1", "7", "9223372036854775807", "9223372036854775808", "18446744073709551615", "-1", "x"}
	concs := []string{"1", "2", "50", "0", "-1", "x"}
	durs := []string{"150ms", "1s", "0s", "-1s", "10ms", "x"}
	mfs := []string{"0", "1", "18446744073709551615", "-1"}
	mfrs := []string{"0", "100", "101", "-1", "50"}
	for i := 0; i < kit.N(40, 400); i++ {
		mode := kit.Pick(r, "constant", "users", "staged", "ramp", "gaussian")
		args := []string{"run", mode, "c14cli"}
		pick := func(flag string, vals []string, validFirst int) {
			if r.Chance(80) {
				v := vals[r.Intn(len(vals))]
				if r.Chance(60) {
					v = vals[r.Intn(validFirst)]
				}
				args = append(args, flag, v)
			}
		}
		pick("--max-iterations", maxIters, 6)
		pick("--concurrency", concs, 3)
		pick("--max-duration", durs, 2)
		pick("--max-failures", mfs, 3)
		pick("--max-failures-rate", mfrs, 2)
		hasDur := false
		for _, a := range args {
			if a == "--max-duration" {
				hasDur = true
			}
		}
		if !hasDur {
			args = append(args, "--max-duration", "150ms")
		}
		switch mode {
		case "constant":
			args = append(args, "--rate", kit.Pick(r, "2/10ms", "1/s", "0/s"))
		case "staged":
			args = append(args, "--stages", kit.Pick(r, "0s:2,100ms:2", "50ms:5"), "--iterationFrequency", "10ms")
		case "ramp":
			args = append(args, "--start-rate", "1/10ms", "--end-rate", "5/10ms", "--ramp-duration", "100ms")
		case "gaussian":
			args = append(args, "--volume", "5000", "--repeat", "1s", "--iteration-frequency", "10ms", "--peak", "100ms", "--standard-deviation", "100ms")
		}
		// the file argument of `run file` / `chart file`: something that is not a readable config -
		// a directory, a path that does not exist, no argument at all, an empty file: rejected
		if i%8 == 5 {
			dir := t.TempDir()
			empty := filepath.Join(dir, "empty.yaml")
			_ = os.WriteFile(empty, nil, 0o600)
			target := []string{dir, ".", filepath.Join(dir, "missing.yaml"), empty, ""}[(i/8)%5]
			args = []string{[]string{"run", "chart"}[(i/40)%2], "file"}
			if target != "" {
				args = append(args, target)
			}
			if (i/8)%2 == 1 && args[0] == "run" {
				args = append(args, "-v")
			}
			o.Count("cli", "file argument that is no config")
		}
		var setups, iters atomic.Int64
		inst := f1.New()
		inst.Add("c14cli", func(*f1testing.T) f1testing.RunFn {
			setups.Add(1)
			return func(*f1testing.T) { iters.Add(1) }
		})
		var err error
		done := make(chan struct{})
		var crashed bool
		var pv any
		go func() {
			defer close(done)
			crashed, pv = kit.Guard(func() { err = inst.ExecuteWithArgs(args) })
		}()
		select {
		case <-done:
		case <-time.After(60 * time.Second):
			buf := make([]byte, 1<<20)
			buf = buf[:runtime.Stack(buf, true)]
			o.Fail("cli-hung", fmt.Sprintf("f1 %s did not return within 60s; goroutines:\n%s", strings.Join(args, " "), string(buf[:min(len(buf), 6000)])))
			continue
		}
		switch {
		case crashed:
			o.Fail("input-crash-cli", fmt.Sprintf("f1 %s crashed: %v", strings.Join(args, " "), pv))
		case err != nil && setups.Load() == 0:
			o.Count("cli", "rejected before setup")
		case setups.Load() == 1:
			o.Count("cli", "ran")
		default:
			o.Fail("cli-neither-rejected-nor-run", fmt.Sprintf("f1 %s: error %v, setup executed %d times", strings.Join(args, " "), err, setups.Load()))
		}
		o.Case("fuzz_crashes", []string{kit.I(map[bool]int{false: 0, true: 1}[crashed])}, "T", "cli", "nt")
	}
}
