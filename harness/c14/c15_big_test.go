//go:build verif

package c14

import (
	"fmt"
	"os"
	"path/filepath"
	"strings"
	"testing"
	"time"

	"github.com/form3tech-oss/f1/v2/internal/options"
	"github.com/form3tech-oss/f1/v2/internal/trigger/file"
	"github.com/form3tech-oss/f1/v2/internal/ui"
	"github.com/form3tech-oss/f1/v2/internal/verifh/kit"
	"github.com/form3tech-oss/f1/v2/internal/verifh/runkit"
)

// Long plans: config files of thousands of parameterised stages (more than a mebibyte of YAML),
// read the way `f1 run file <path>` reads them. The trigger plans every stage of the file: its
// duration is the sum of all stage durations, as parsing the same bytes directly gives.
func TestC15BigFile(t *testing.T) {
	o := kit.Get()
	defer o.Close()
	r := kit.NewRand(kit.Seed() + 155)
	dir := t.TempDir()
	for i := 0; i < kit.N(2, 6); i++ {
		nst := int(kit.Pick(r, 9000, 14000, 20000))
		var b strings.Builder
		b.WriteString("scenario: verifscenario\ndefault:\n  mode: constant\n  rate: 1/s\n  jitter: 0\n  distribution: none\n  concurrency: 2\n")
		b.WriteString("limits:\n  max-duration: 1000h\n  concurrency: 2\n  max-iterations: 0\n  ignore-dropped: true\nstages:\n")
		var want time.Duration
		durs := make([]int64, 0, nst)
		for k := 0; k < nst; k++ {
			d := time.Duration(1+k%3) * time.Second
			want += d
			durs = append(durs, int64(d))
			b.WriteString(fmt.Sprintf("  - duration: %s\n    parameters:\n      VERIF_BIG_STAGE: \"stage-%06d-of-a-generated-plan\"\n", d, k))
			if i%2 == 1 && k%50 == 0 {
				b.WriteString("    # a comment line between the stages of a generated plan, to vary where a byte offset falls\n")
			}
		}
		content := b.String()
		path := filepath.Join(dir, fmt.Sprintf("big_%d.yaml", i))
		_ = os.WriteFile(path, []byte(content), 0o600)
		direct, derr := file.ParseConfigFile([]byte(content), time.Now())
		if derr != nil {
			o.Fail("c15-big-parse", "generated plan rejected: "+derr.Error())
			continue
		}
		cfg := runkit.Config{Mode: "file", FileArg: path, Opts: options.RunOptions{}}
		var got time.Duration
		var stagesDesc string
		crashed, _ := kit.Guard(func() {
			trig, e := runkit.BuildTrigger(&cfg, ui.NewDiscardOutput())
			if e == nil {
				got, stagesDesc = trig.Duration, trig.Description
			}
		})
		o.Count("big-file", fmt.Sprintf("%d stages, %d KiB", nst, len(content)/1024))
		if crashed || got != want || len(direct.Stages) != nst || !strings.HasPrefix(stagesDesc, fmt.Sprintf("%d ", nst)) {
			o.Fail("long-plan-cut-short", fmt.Sprintf("config file of %d stages (%d bytes): read through `run file` the trigger lasts %s and describes itself as %q; the stages add up to %s (parsing the bytes directly: %d stages)",
				nst, len(content), got, stagesDesc, want, len(direct.Stages)))
		}
		o.Case("c15_trigger_ok", []string{kit.Ints(durs), kit.I(int64(got)), kit.I(len(direct.Stages))}, "T", "big", "nt")
	}
}
