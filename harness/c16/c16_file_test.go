//go:build verif

package c16

import (
	"context"
	"fmt"
	"os"
	"path/filepath"
	"strconv"
	"sync/atomic"
	"testing"
	"time"

	"github.com/form3tech-oss/f1/v2/internal/options"
	"github.com/form3tech-oss/f1/v2/internal/verifh/kit"
	"github.com/form3tech-oss/f1/v2/internal/verifh/runkit"
	f1testing "github.com/form3tech-oss/f1/v2/pkg/f1/testing"
)

// Config-file runs whose stages mix users and rate stages in every order, with bodies that outlive
// the stage that started them (so that iterations are still in flight, and requests still pending,
// when the last stage stops triggering): the exported iteration metric and the final result of the
// run count the same iterations, outcome by outcome.
func TestC16File(t *testing.T) {
	o := kit.Get()
	defer o.Close()
	r := kit.NewRand(kit.Seed() + 167)
	dir := t.TempDir()
	n := kit.N(6, 40)
	orders := [][]string{{"users", "rate"}, {"rate", "users", "rate"}, {"users", "users", "rate"}, {"rate", "rate"}, {"users", "rate", "users"}, {"rate", "users"}}
	for i := 0; i < n; i++ {
		order := orders[i%len(orders)]
		body := time.Duration(r.Range(60, 170)) * time.Millisecond
		yaml := "scenario: verifscenario\ndefault:\n  mode: constant\n  rate: 1/100ms\n  jitter: 0\n  distribution: none\n  concurrency: 6\n" +
			"limits:\n  max-duration: 5s\n  concurrency: 6\n  max-iterations: 0\n  ignore-dropped: " + strconv.FormatBool(i%2 == 0) + "\nstages:\n"
		for k, kind := range order {
			d := 200 + 100*((i+k)%2)
			if kind == "users" {
				yaml += fmt.Sprintf("  - duration: %dms\n    mode: users\n    concurrency: %d\n", d, r.Range(1, 3))
			} else if (i+k)%3 == 0 {
				yaml += fmt.Sprintf("  - duration: %dms\n    mode: staged\n    stages: 0s:%d,%dms:%d\n    iteration-frequency: 50ms\n", d, r.Range(1, 4), d, r.Range(1, 4))
			} else {
				yaml += fmt.Sprintf("  - duration: %dms\n    mode: constant\n    rate: %d/%dms\n", d, r.Range(1, 9), kit.Pick(r, 50, 100))
			}
		}
		path := filepath.Join(dir, "c16_"+strconv.Itoa(i)+".yaml")
		_ = os.WriteFile(path, []byte(yaml), 0o600)
		m := runkit.NewMetrics(nil, true)
		var ran atomic.Int64
		cfg := runkit.Config{Mode: "file", FileArg: path, Metrics: m, Ctx: context.Background(),
			Opts: options.RunOptions{MaxFailuresRate: 100},
			Scenario: func(*f1testing.T) f1testing.RunFn {
				return func(t *f1testing.T) {
					k := ran.Add(1)
					time.Sleep(body)
					if k%3 == 0 {
						t.Fail()
					}
				}
			}}
		out, hung, _ := runkit.DoTimeout(cfg, 60*time.Second)
		if hung || out.Err != nil || out.Result == nil {
			o.Fail("c16-file-run", "file run did not complete")
			continue
		}
		sn := out.Result.Snapshot()
		iter, _, _ := runkit.SampleCounts(m)
		good := iter["success"] == sn.SuccessfulIterationDurations.Count && iter["fail"] == sn.FailedIterationDurations.Count && iter["dropped"] == sn.DroppedIterationCount
		if !good {
			o.Fail("metric-differs-from-result", fmt.Sprintf("config file with stages %v (bodies of %v): the final result reports %d successful / %d failed / %d dropped, the exported iteration metric holds %d success / %d fail / %d dropped samples\n%s",
				order, body, sn.SuccessfulIterationDurations.Count, sn.FailedIterationDurations.Count, sn.DroppedIterationCount, iter["success"], iter["fail"], iter["dropped"], yaml))
		}
		o.Count("file-run", fmt.Sprint(order))
		o.AddStat("file-iterations", ran.Load())
		tags := []string{"file"}
		if ran.Load() > 3 {
			tags = append(tags, "nt")
		}
		total := ran.Load()
		o.Case("c01_ok", []string{kit.I(total - total/3), kit.I(total / 3), kit.I(sn.DroppedIterationCount),
			kit.I(sn.SuccessfulIterationDurations.Count), kit.I(sn.FailedIterationDurations.Count), kit.I(sn.DroppedIterationCount),
			"T", kit.I(iter["success"]), kit.I(iter["fail"]), kit.I(iter["dropped"])}, "T", tags...)
	}
}
