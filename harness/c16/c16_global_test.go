//go:build verif

package c16

import (
	"fmt"
	"net/http/httptest"
	"os"
	"os/exec"
	"sort"
	"strconv"
	"strings"
	"sync/atomic"
	"testing"

	"github.com/form3tech-oss/f1/v2/internal/metrics"
	"github.com/form3tech-oss/f1/v2/internal/verifh/kit"
	"github.com/form3tech-oss/f1/v2/pkg/f1"
	f1metrics "github.com/form3tech-oss/f1/v2/pkg/f1/metrics"
	f1testing "github.com/form3tech-oss/f1/v2/pkg/f1/testing"
)

// The process-wide metrics instance, the way an embedding program gets it: f1.New() with static
// labels and a push gateway in the environment, one execution. Something in the process may have
// asked for the instance before the first execution (metrics.Instance(), the public GetMetrics(), a
// handle timing a stage outside a run): that changes nothing about what the run exports. The
// instance is created once per process, so this stage is one execution in a process of its own.
func TestC16Global(t *testing.T) {
	o := kit.Get()
	defer o.Close()
	r := kit.NewRand(kit.Seed() + 168)
	for early := 0; early < 3; early++ {
		iters := r.Range(4, 14)
		cmd := exec.Command(os.Args[0], "-test.run", "^TestC16GlobalChild$", "-test.count=1")
		cmd.Env = append(os.Environ(), fmt.Sprintf("VERIF_C16_CHILD=%d:%d:%d", early, iters, r.Range(0, 1<<30)))
		outb, _ := cmd.CombinedOutput()
		how := []string{"nothing asked for the instance before the run", "metrics.Instance() called before the first execution", "GetMetrics() called before the first execution"}[early]
		o.Count("global-instance", how)
		var ran, success, fail, dropped, series int64
		missing, labels := "", ""
		found := false
		for _, line := range strings.Split(string(outb), "\n") {
			if strings.HasPrefix(line, "C16GLOBAL ") {
				found = true
				_, _ = fmt.Sscanf(line, "C16GLOBAL %d %d %d %d %d %q %q", &ran, &success, &fail, &dropped, &series, &missing, &labels)
			}
		}
		if !found || ran != iters {
			o.Fail("c16-run", "execution through f1.New() in a process of its own did not run its iterations: "+string(outb[:min(len(outb), 1500)]))
			continue
		}
		if missing != "" || series == 0 {
			o.Fail("static-labels-missing", fmt.Sprintf("%s; f1.New().WithStaticMetrics(%s), one run of %d iterations against a push gateway: %d series pushed, static labels missing on %s",
				how, labels, iters, series, missing))
		}
		if success != iters-iters/3 || fail != iters/3 {
			o.Fail("gateway-differs-from-result", fmt.Sprintf("%s; run of %d iterations (every third fails) through f1.New() with a push gateway in the environment: the gateway holds %d success / %d fail iteration samples",
				how, iters, success, fail))
		}
		o.Case("c01_ok", []string{kit.I(iters - iters/3), kit.I(iters / 3), "0", kit.I(iters - iters/3), kit.I(iters / 3), "0",
			"T", kit.I(success), kit.I(fail), kit.I(dropped)}, "T", "global", "nt")
	}
}

// the child: one process, one metrics instance, one execution
func TestC16GlobalChild(t *testing.T) {
	spec := os.Getenv("VERIF_C16_CHILD")
	if spec == "" {
		t.Skip("runs as a child of TestC16Global")
	}
	var early int
	var iters, seed int64
	_, _ = fmt.Sscanf(spec, "%d:%d:%d", &early, &iters, &seed)
	r := kit.NewRand(uint64(seed))
	gw := &gateway{}
	srv := httptest.NewServer(gw)
	defer srv.Close()
	t.Setenv("PROMETHEUS_PUSH_GATEWAY", srv.URL)
	switch early {
	case 1:
		_ = metrics.Instance()
	case 2:
		_ = f1metrics.GetMetrics()
	}
	labels := genLabels(r)
	labels["product"] = "fps"
	var n atomic.Int64
	inst := f1.New().WithStaticMetrics(labels)
	inst.Add("c16global", func(*f1testing.T) f1testing.RunFn {
		return func(t *f1testing.T) {
			if n.Add(1)%3 == 0 {
				t.Fail()
			}
		}
	})
	_, _ = kit.Guard(func() {
		_ = inst.ExecuteWithArgs([]string{"run", "users", "c16global", "-c", "1", "--max-iterations", strconv.FormatInt(iters, 10), "--max-failures-rate", "100"})
	})
	got := gw.iterationCounts()
	var missing []string
	series := 0
	gw.mu.Lock()
	for name, f := range gw.families {
		if !strings.HasPrefix(name, "form3_loadtest") {
			continue
		}
		for _, mt := range f.GetMetric() {
			series++
			lab := map[string]string{}
			for _, l := range mt.GetLabel() {
				lab[l.GetName()] = l.GetValue()
			}
			for k, v := range labels {
				if lab[k] != v {
					missing = append(missing, name+"{"+k+"}")
				}
			}
		}
	}
	gw.mu.Unlock()
	sort.Strings(missing)
	fmt.Printf("\nC16GLOBAL %d %d %d %d %d %q %q\n", n.Load(), got["success"], got["fail"], got["dropped"], series, strings.Join(missing, ","), fmt.Sprint(labels))
}
