//go:build verif

package c16

import (
	"bytes"
	"context"
	"errors"
	"fmt"
	"github.com/form3tech-oss/f1/v2/internal/envsettings"
	io_prometheus_client "github.com/prometheus/client_model/go"
	"github.com/prometheus/common/expfmt"
	"io"
	"net/http"
	"net/http/httptest"
	"sort"
	"strconv"
	"sync"
	"sync/atomic"
	"testing"
	"time"

	"github.com/sirupsen/logrus"

	"github.com/form3tech-oss/f1/v2/internal/log"
	"github.com/form3tech-oss/f1/v2/internal/metrics"
	"github.com/form3tech-oss/f1/v2/internal/options"
	"github.com/form3tech-oss/f1/v2/internal/progress"
	"github.com/form3tech-oss/f1/v2/internal/verifh/kit"
	"github.com/form3tech-oss/f1/v2/internal/verifh/runkit"
	"github.com/form3tech-oss/f1/v2/internal/workers"
	"github.com/form3tech-oss/f1/v2/pkg/f1/scenarios"
	f1testing "github.com/form3tech-oss/f1/v2/pkg/f1/testing"
)

type pair struct{ n, v string }
type series struct {
	pairs []pair
	count uint64
}

func lessPairs(a, b []pair) bool {
	for i := 0; i < len(a) && i < len(b); i++ {
		if a[i].n != b[i].n {
			return a[i].n < b[i].n
		}
		if a[i].v != b[i].v {
			return a[i].v < b[i].v
		}
	}
	return len(a) < len(b)
}

func gatherObs(m *metrics.Metrics) string {
	_, _, fams := runkit.SampleCounts(m)
	var setup, iter []series
	for _, f := range fams {
		for _, mt := range f.GetMetric() {
			var s series
			for _, l := range mt.GetLabel() {
				s.pairs = append(s.pairs, pair{l.GetName(), l.GetValue()})
			}
			sort.Slice(s.pairs, func(i, j int) bool { return s.pairs[i].n < s.pairs[j].n })
			s.count = mt.GetSummary().GetSampleCount()
			switch f.GetName() {
			case "form3_loadtest_setup":
				setup = append(setup, s)
			case "form3_loadtest_iteration":
				iter = append(iter, s)
			}
		}
	}
	enc := func(ss []series) string {
		sort.Slice(ss, func(i, j int) bool { return lessPairs(ss[i].pairs, ss[j].pairs) })
		items := make([]string, len(ss))
		for i, s := range ss {
			ps := make([]string, len(s.pairs))
			for k, p := range s.pairs {
				ps[k] = kit.List(kit.Str(p.n), kit.Str(p.v))
			}
			items[i] = kit.List(kit.List(ps...), kit.I(s.count))
		}
		return kit.List(items...)
	}
	return kit.List(enc(setup), enc(iter))
}

var keyPool = []string{"a", "ab", "abc", "b", "zone", "app", "env", "Env", "_x", "a1", "a_", "region", "B", "z9"}

func genLabels(r *kit.Rand) map[string]string {
	n := int(r.Range(0, 8))
	m := map[string]string{}
	for len(m) < n {
		k := keyPool[r.Intn(len(keyPool))]
		// values: arbitrary, sometimes equal to other keys, sometimes empty
		v := kit.Pick(r, keyPool[r.Intn(len(keyPool))], "v"+strconv.Itoa(r.Intn(5)), "", "ü-ñ", k)
		m[k] = v
	}
	return m
}

func encLabels(r *kit.Rand, m map[string]string) string {
	// the model takes the bindings in any order: shuffle
	ks := kit.SortedKeys(m)
	for i := len(ks) - 1; i > 0; i-- {
		j := r.Intn(i + 1)
		ks[i], ks[j] = ks[j], ks[i]
	}
	items := make([]string, len(ks))
	for i, k := range ks {
		items[i] = kit.List(kit.Str(k), kit.Str(m[k]))
	}
	return kit.List(items...)
}

type runPlan struct {
	name        string
	setupFailed bool
	outs        []int // 0 success 1 fail 2 dropped
}

func encRuns(rs []runPlan) string {
	items := make([]string, len(rs))
	for i, rp := range rs {
		items[i] = kit.List(kit.Str(rp.name), kit.B(rp.setupFailed), kit.Ints(rp.outs))
	}
	return kit.List(items...)
}

// component level: the real ActiveScenario records setup, iterations and drops;
// the reset between runs is the call Run.Do makes first.
func TestC16Component(t *testing.T) {
	o := kit.Get()
	defer o.Close()
	r := kit.NewRand(kit.Seed() + 16)
	n := kit.N(250, 3000)
	for i := 0; i < n; i++ {
		labels := genLabels(r)
		enabled := r.Chance(85)
		m := runkit.NewMetrics(labels, enabled)
		nruns := int(r.Range(1, 4))
		var plans []runPlan
		for k := 0; k < nruns; k++ {
			rp := runPlan{name: kit.Pick(r, "scn", "other", "scn"), setupFailed: r.Chance(15)}
			ln := int(r.Range(0, 30))
			for j := 0; j < ln; j++ {
				rp.outs = append(rp.outs, kit.Pick(r, 0, 0, 1, 2))
			}
			plans = append(plans, rp)
			m.Reset()
			cur := 0
			setupHow := r.Intn(4)
			sc := &scenarios.Scenario{Name: rp.name, ScenarioFn: func(st *f1testing.T) f1testing.RunFn {
				if rp.setupFailed {
					switch setupHow { // every way a setup can fail is a failed setup
					case 0:
						st.Fail()
					case 1:
						st.FailNow()
					case 2:
						panic("setup panicked")
					default:
						var m map[string]int
						m["x"] = 1
					}
				}
				return func(t *f1testing.T) {
					if rp.outs[cur] == 1 {
						t.Fail()
					}
				}
			}}
			as := workers.NewActiveScenario(sc, m, &progress.Stats{}, log.NewDiscardLogger(), logrus.New())
			as.Setup()
			if as.Failed() {
				continue
			}
			st := as.VerifNewIterationState()
			for j, oc := range rp.outs {
				cur = j
				if oc == 2 {
					as.RecordDroppedIteration()
				} else {
					workers.VerifStateT(st).Reset(strconv.Itoa(j + 1))
					as.Run(st)
				}
			}
		}
		tags := []string{"component"}
		if len(labels) >= 2 {
			tags = append(tags, "nt")
		}
		o.Count("labels", kit.I(len(labels)))
		o.Count("runs", kit.I(nruns))
		o.Case("gather_obs", []string{encLabels(r, labels), kit.B(enabled), encRuns(plans)}, "ok "+gatherObs(m), tags...)
	}
}

// whole runs: consecutive Run.Do on one metrics instance
func TestC16Runs(t *testing.T) {
	o := kit.Get()
	defer o.Close()
	r := kit.NewRand(kit.Seed() + 161)
	n := kit.N(8, 60)
	for i := 0; i < n; i++ {
		labels := genLabels(r)
		m := runkit.NewMetrics(labels, true)
		nruns := int(r.Range(1, 3))
		var plans []runPlan
		ok := true
		for k := 0; k < nruns; k++ {
			rp := runPlan{name: "scn" + strconv.Itoa(k%2), setupFailed: r.Chance(15)}
			if i%3 == 0 {
				// the same scenario twice: the first run records iterations, the setup of the second fails
				rp.name = "scn0"
				rp.setupFailed = k == 1
				nruns = 2
			}
			iters := int(r.Range(1, 25))
			failEvery := kit.Pick(r, 0, 2, 3)
			// some iterations pass but leave a cleanup that fails (Fail, FailNow or a panic in the
			// cleanup): whatever the run makes of them, metric and final result must agree
			badCleanupEvery := kit.Pick(r, 0, 0, 2, 5)
			for id := 1; id <= iters; id++ {
				if failEvery > 0 && id%failEvery == 0 {
					rp.outs = append(rp.outs, 1)
				} else {
					rp.outs = append(rp.outs, 0)
				}
			}
			// a scenario function that hands back no iteration function at all, without failing its
			// setup: the setup sample says success (that is what the setup did), every iteration fails
			nilRun := i%7 == 5 && i%3 != 0 && !rp.setupFailed
			if nilRun {
				for k := range rp.outs {
					rp.outs[k] = 1
				}
				badCleanupEvery = 0
				o.Count("run", "scenario returns no iteration function")
			}
			plans = append(plans, rp)
			cfg := runkit.Config{Mode: "users", Name: rp.name, Metrics: m, Ctx: context.Background(),
				Opts: options.RunOptions{MaxDuration: 5 * time.Second, Concurrency: 1, MaxIterations: uint64(iters), MaxFailuresRate: 100},
				Scenario: func(st *f1testing.T) f1testing.RunFn {
					if rp.setupFailed {
						st.Fail()
					}
					if nilRun {
						return nil
					}
					return func(t *f1testing.T) {
						id, _ := strconv.Atoi(t.Iteration)
						if badCleanupEvery > 0 && id%badCleanupEvery == 1 {
							t.Cleanup(func() {
								switch id % 3 {
								case 0:
									t.Fail()
								case 1:
									t.FailNow()
								default:
									panic("cleanup panicked")
								}
							})
						}
						if rp.outs[id-1] == 1 {
							t.Fail()
						}
					}
				}}
			out, hung, _ := runkit.DoTimeout(cfg, 60*time.Second)
			if hung || out.Err != nil {
				o.Fail("c16-run", "run did not complete")
				ok = false
				break
			}
			if out.Result != nil {
				// the exported iteration metric against the final result of this very run
				sn := out.Result.Snapshot()
				iter, _, _ := runkit.SampleCounts(m)
				if iter["success"] != sn.SuccessfulIterationDurations.Count || iter["fail"] != sn.FailedIterationDurations.Count || iter["dropped"] != sn.DroppedIterationCount {
					o.Fail("metric-differs-from-result", fmt.Sprintf("after a run of %d iterations (every %d-th failing, failing cleanups every %d) the final result reports %d successful / %d failed / %d dropped, the exported iteration metric holds %d success / %d fail / %d dropped samples",
						iters, failEvery, badCleanupEvery, sn.SuccessfulIterationDurations.Count, sn.FailedIterationDurations.Count, sn.DroppedIterationCount, iter["success"], iter["fail"], iter["dropped"]))
				}
				if badCleanupEvery > 0 {
					o.Count("run", "with failing cleanups")
				} else if !rp.setupFailed {
					// the plan's own outcome counts against the result and the exported metric of this very
					// run (a run whose scenario handed back no iteration function included: all fail)
					var wantFail int64
					for _, oc := range rp.outs {
						wantFail += int64(oc)
					}
					o.Case("c01_ok", []string{kit.I(int64(len(rp.outs)) - wantFail), kit.I(wantFail), "0",
						kit.I(sn.SuccessfulIterationDurations.Count), kit.I(sn.FailedIterationDurations.Count), kit.I(sn.DroppedIterationCount),
						"T", kit.I(iter["success"]), kit.I(iter["fail"]), kit.I(iter["dropped"])}, "T", "run", "per-run", "nt")
				}
			}
		}
		if !ok {
			continue
		}
		tags := []string{"run"}
		if len(labels) >= 2 {
			tags = append(tags, "nt")
		}
		o.Case("gather_obs", []string{encLabels(r, labels), "T", encRuns(plans)}, "ok "+gatherObs(m), tags...)
	}
}

// concurrent workers: iterations of different outcomes are recorded at the same time on one
// instance with static labels; the exported series and counts only depend on the multiset of
// outcomes, so the same model applies
func TestC16Concurrent(t *testing.T) {
	o := kit.Get()
	defer o.Close()
	r := kit.NewRand(kit.Seed() + 162)
	n := kit.N(6, 60)
	for i := 0; i < n; i++ {
		labels := genLabels(r)
		for len(labels) == 0 {
			labels = genLabels(r)
		}
		m := runkit.NewMetrics(labels, true)
		m.Reset()
		nw := int(kit.Pick(r, 2, 4, 8, 12))
		per := int(r.Range(100, 400))
		rp := runPlan{name: "scn"}
		for j := 0; j < nw*per; j++ {
			rp.outs = append(rp.outs, kit.Pick(r, 0, 1, 2))
		}
		sc := &scenarios.Scenario{Name: rp.name, ScenarioFn: func(*f1testing.T) f1testing.RunFn {
			return func(t *f1testing.T) {
				id, _ := strconv.Atoi(t.Iteration)
				if rp.outs[id-1] == 1 {
					t.Fail()
				}
			}
		}}
		as := workers.NewActiveScenario(sc, m, &progress.Stats{}, log.NewDiscardLogger(), logrus.New())
		as.Setup()
		start := make(chan struct{})
		var wg sync.WaitGroup
		for w := 0; w < nw; w++ {
			st := as.VerifNewIterationState()
			wg.Add(1)
			go func(w int) {
				defer wg.Done()
				<-start
				for j := w * per; j < (w+1)*per; j++ {
					if rp.outs[j] == 2 {
						as.RecordDroppedIteration()
					} else {
						workers.VerifStateT(st).Reset(strconv.Itoa(j + 1))
						as.Run(st)
					}
				}
			}(w)
		}
		close(start)
		wg.Wait()
		o.Count("workers", kit.I(nw))
		o.Case("gather_obs", []string{encLabels(r, labels), "T", encRuns([]runPlan{rp})}, "ok "+gatherObs(m), "concurrent", "nt")
	}
}

// ---------------------------------------------------------------- exported = what the push gateway holds

// gateway is a push gateway as f1 sees one: every push replaces the group, so it holds the
// content of the push that arrived last; it can take its time to answer.
type gateway struct {
	mu       sync.Mutex
	families map[string]*io_prometheus_client.MetricFamily
	lastSeq  uint64
	arrivals atomic.Uint64
	delay    time.Duration
}

func (g *gateway) ServeHTTP(w http.ResponseWriter, req *http.Request) {
	seq := g.arrivals.Add(1)
	body, err := io.ReadAll(req.Body)
	_ = req.Body.Close()
	if err != nil {
		w.WriteHeader(http.StatusInternalServerError)
		return
	}
	fams := map[string]*io_prometheus_client.MetricFamily{}
	dec := expfmt.NewDecoder(bytes.NewReader(body), expfmt.ResponseFormat(req.Header))
	for {
		f := &io_prometheus_client.MetricFamily{}
		if err := dec.Decode(f); err != nil {
			if errors.Is(err, io.EOF) {
				break
			}
			w.WriteHeader(http.StatusBadRequest)
			return
		}
		fams[f.GetName()] = f
	}
	g.mu.Lock()
	if seq > g.lastSeq {
		g.lastSeq = seq
		if req.Method == http.MethodPost && g.families != nil {
			// POST replaces only the metric families present in the push; PUT replaces the whole group
			for name, f := range fams {
				g.families[name] = f
			}
		} else {
			g.families = fams
		}
	}
	g.mu.Unlock()
	time.Sleep(g.delay)
	w.WriteHeader(http.StatusAccepted)
}

func (g *gateway) iterationCounts() map[string]uint64 {
	g.mu.Lock()
	defer g.mu.Unlock()
	counts := map[string]uint64{}
	if f := g.families["form3_loadtest_iteration"]; f != nil {
		for _, mt := range f.GetMetric() {
			lab := map[string]string{}
			for _, l := range mt.GetLabel() {
				lab[l.GetName()] = l.GetValue()
			}
			if lab["stage"] == "iteration" {
				counts[lab["result"]] += mt.GetSummary().GetSampleCount()
			}
		}
	}
	return counts
}

// Runs against a push gateway: once the run is over the gateway holds, per result label, exactly
// as many iteration samples as the final result reports - also when the gateway answers slowly and
// the run ends while a periodic push (every 5 s) is still unanswered.
func TestC16Push(t *testing.T) {
	o := kit.Get()
	defer o.Close()
	r := kit.NewRand(kit.Seed() + 163)
	type plan struct {
		dur, delay time.Duration
	}
	plans := []plan{{time.Duration(r.Range(150, 400)) * time.Millisecond, 0}, {time.Duration(r.Range(150, 400)) * time.Millisecond, 30 * time.Millisecond},
		{time.Duration(5200+r.Range(0, 300)) * time.Millisecond, time.Second}}
	for k := 0; k < kit.N(0, 4); k++ {
		plans = append(plans, plan{time.Duration(5100+r.Range(0, 800)) * time.Millisecond, time.Duration(r.Range(300, 1500)) * time.Millisecond})
	}
	// two runs of the same scenario on one metrics instance and one gateway: the second run's setup
	// fails, so it has no iterations - and the gateway must not go on showing the first run's
	for k := 0; k < kit.N(1, 4); k++ {
		gw := &gateway{}
		srv := httptest.NewServer(gw)
		settings := envsettings.Settings{}
		settings.Prometheus.PushGateway = srv.URL
		m := runkit.NewMetrics(genLabels(r), true)
		for round := 0; round < 2; round++ {
			failSetup := round == 1
			cfg := runkit.Config{Mode: "users", Name: "scnpush", Metrics: m, Ctx: context.Background(), Settings: settings,
				Opts: options.RunOptions{MaxDuration: 3 * time.Second, Concurrency: 2, MaxIterations: uint64(r.Range(3, 12)), MaxFailuresRate: 100},
				Scenario: func(st *f1testing.T) f1testing.RunFn {
					if failSetup {
						st.Fail()
					}
					return func(*f1testing.T) {}
				}}
			out, hung, _ := runkit.DoTimeout(cfg, 60*time.Second)
			if hung || out.Result == nil {
				o.Fail("c16-run", "run against a push gateway did not complete")
				break
			}
			sn := out.Result.Snapshot()
			got := gw.iterationCounts()
			if got["success"] != sn.SuccessfulIterationDurations.Count || got["fail"] != sn.FailedIterationDurations.Count || got["dropped"] != sn.DroppedIterationCount {
				o.Fail("gateway-keeps-earlier-run", fmt.Sprintf("run %d of the same scenario on one metrics instance and gateway (setup fails: %v): the final result reports %d successful / %d failed / %d dropped, the gateway holds %d success / %d fail / %d dropped iteration samples",
					round+1, failSetup, sn.SuccessfulIterationDurations.Count, sn.FailedIterationDurations.Count, sn.DroppedIterationCount, got["success"], got["fail"], got["dropped"]))
			}
			o.Case("c01_ok", []string{kit.I(sn.SuccessfulIterationDurations.Count), kit.I(sn.FailedIterationDurations.Count), kit.I(sn.DroppedIterationCount),
				kit.I(sn.SuccessfulIterationDurations.Count), kit.I(sn.FailedIterationDurations.Count), kit.I(sn.DroppedIterationCount),
				"T", kit.I(got["success"]), kit.I(got["fail"]), kit.I(got["dropped"])}, "T", "push", "consecutive", "nt")
		}
		srv.Close()
		o.Count("gateway", "two runs, second setup fails")
	}
	// an interrupted run whose in-flight iterations take more than five seconds to finish (less than
	// the completion timeout): the run waits for them, and what the gateway holds afterwards is the
	// final result, those late iterations included
	{
		gw := &gateway{}
		srv := httptest.NewServer(gw)
		settings := envsettings.Settings{}
		settings.Prometheus.PushGateway = srv.URL
		ctx, cancelRun := context.WithCancel(context.Background())
		began := time.Now()
		go func() { time.Sleep(300 * time.Millisecond); cancelRun() }()
		cfg := runkit.Config{Mode: "users", Ctx: ctx, Settings: settings,
			Opts: options.RunOptions{MaxDuration: 30 * time.Second, Concurrency: 2, MaxFailuresRate: 100},
			Scenario: func(*f1testing.T) f1testing.RunFn {
				return func(*f1testing.T) {
					if time.Since(began) > 240*time.Millisecond {
						time.Sleep(5600 * time.Millisecond) // in flight when the interrupt arrives
						return
					}
					time.Sleep(10 * time.Millisecond)
				}
			}}
		out, hung, _ := runkit.DoTimeout(cfg, 60*time.Second)
		cancelRun()
		srv.Close()
		if hung || out.Err != nil || out.Result == nil {
			o.Fail("c16-run", "interrupted run against a push gateway did not complete")
		} else {
			sn := out.Result.Snapshot()
			got := gw.iterationCounts()
			if got["success"] != sn.SuccessfulIterationDurations.Count || got["fail"] != sn.FailedIterationDurations.Count || got["dropped"] != sn.DroppedIterationCount {
				o.Fail("gateway-differs-from-result", fmt.Sprintf("run interrupted after 300 ms with two iterations in flight that take 5.6 s more (%d pushes arrived): the final result reports %d successful / %d failed / %d dropped, the gateway holds %d success / %d fail / %d dropped iteration samples",
					gw.arrivals.Load(), sn.SuccessfulIterationDurations.Count, sn.FailedIterationDurations.Count, sn.DroppedIterationCount, got["success"], got["fail"], got["dropped"]))
			}
			o.Count("gateway", "interrupted run, slow drain")
			o.Case("c01_ok", []string{kit.I(sn.SuccessfulIterationDurations.Count), kit.I(sn.FailedIterationDurations.Count), kit.I(sn.DroppedIterationCount),
				kit.I(sn.SuccessfulIterationDurations.Count), kit.I(sn.FailedIterationDurations.Count), kit.I(sn.DroppedIterationCount),
				"T", kit.I(got["success"]), kit.I(got["fail"]), kit.I(got["dropped"])}, "T", "push", "interrupted", "nt")
		}
	}
	for pi, p := range plans {
		gw := &gateway{delay: p.delay}
		srv := httptest.NewServer(gw)
		settings := envsettings.Settings{}
		settings.Prometheus.PushGateway = srv.URL
		var n atomic.Int64
		// the scenario's own teardown fails in the first plan: the run is a failed one, its
		// metrics are exported all the same
		teardownFails := pi == 0
		cfg := runkit.Config{Mode: "constant", Flags: map[string]string{"rate": "2/100ms", "distribution": "none"}, Ctx: context.Background(), Settings: settings,
			Opts: options.RunOptions{MaxDuration: p.dur, Concurrency: 10, MaxFailuresRate: 100, IgnoreDropped: true}, Wait: 5 * time.Second,
			Scenario: func(st *f1testing.T) f1testing.RunFn {
				if teardownFails {
					st.Cleanup(func() { st.Fail() })
				}
				return func(t *f1testing.T) {
					if n.Add(1)%3 == 0 {
						t.Fail()
					}
				}
			}}
		out, hung, _ := runkit.DoTimeout(cfg, 60*time.Second)
		srv.Close()
		if hung || out.Err != nil || out.Result == nil {
			o.Fail("c16-run", "run against a push gateway did not complete")
			continue
		}
		sn := out.Result.Snapshot()
		got := gw.iterationCounts()
		if got["success"] != sn.SuccessfulIterationDurations.Count || got["fail"] != sn.FailedIterationDurations.Count || got["dropped"] != sn.DroppedIterationCount {
			o.Fail("gateway-differs-from-result", fmt.Sprintf("run of %s against a push gateway answering after %s (%d pushes arrived): the final result reports %d successful / %d failed / %d dropped, the gateway holds %d success / %d fail / %d dropped iteration samples",
				p.dur, p.delay, gw.arrivals.Load(), sn.SuccessfulIterationDurations.Count, sn.FailedIterationDurations.Count, sn.DroppedIterationCount, got["success"], got["fail"], got["dropped"]))
		}
		o.Count("gateway", map[bool]string{true: "slow, run ends during a periodic push", false: "prompt"}[p.delay >= 300*time.Millisecond])
		o.Case("c01_ok", []string{kit.I(sn.SuccessfulIterationDurations.Count), kit.I(sn.FailedIterationDurations.Count), kit.I(sn.DroppedIterationCount),
			kit.I(sn.SuccessfulIterationDurations.Count), kit.I(sn.FailedIterationDurations.Count), kit.I(sn.DroppedIterationCount),
			"T", kit.I(got["success"]), kit.I(got["fail"]), kit.I(got["dropped"])}, "T", "push", "nt")
	}
}
