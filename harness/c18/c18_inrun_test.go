//go:build verif

package c18

import (
	"context"
	"fmt"
	"runtime"
	"strings"
	"testing"
	"time"

	"github.com/form3tech-oss/f1/v2/internal/options"
	"github.com/form3tech-oss/f1/v2/internal/verifh/kit"
	"github.com/form3tech-oss/f1/v2/internal/verifh/runkit"
	f1testing "github.com/form3tech-oss/f1/v2/pkg/f1/testing"
)

func runnerGoroutines() int {
	buf := make([]byte, 1<<20)
	n := runtime.Stack(buf, true)
	c := 0
	for _, g := range strings.Split(string(buf[:n]), "\n\n") {
		if strings.Contains(g, "internal/raterun.") {
			c++
		}
	}
	return c
}

// The runner inside a run (the progress reporter of Run.Do): whenever the run's context is
// cancelled - before the run, while the scenario is being set up, in the middle of an iteration,
// during the setup's cleanups - and however the run ends, no goroutine of the runner is left once
// Run.Do has returned.
func TestC18InRun(t *testing.T) {
	o := kit.Get()
	defer o.Close()
	r := kit.NewRand(kit.Seed() + 185)
	for i := 0; i < kit.N(10, 80); i++ {
		when := i % 5
		ctx, cancel := context.WithCancel(context.Background())
		if when == 0 {
			cancel()
		}
		scenario := func(st *f1testing.T) f1testing.RunFn {
			if when == 1 {
				cancel() // interrupted while being set up; the setup itself succeeds
			}
			if when == 3 {
				st.Cleanup(func() { cancel() })
			}
			return func(*f1testing.T) {
				if when == 2 {
					cancel()
				}
				time.Sleep(time.Duration(r.Range(0, 3)) * time.Millisecond)
			}
		}
		mode := []string{"users", "constant"}[(i/5)%2]
		flags := map[string]string{}
		if mode == "constant" {
			flags["rate"] = "5/10ms"
			flags["distribution"] = "none"
		}
		out, hung, _ := runkit.DoTimeout(runkit.Config{Mode: mode, Flags: flags, Scenario: scenario, Ctx: ctx,
			Opts: options.RunOptions{MaxDuration: 150 * time.Millisecond, Concurrency: 2, IgnoreDropped: true}}, 60*time.Second)
		cancel()
		if hung {
			o.Fail("c18-inrun-hung", "run did not return")
			continue
		}
		_ = out
		left := 0
		for w := 0; w < 40; w++ { // a goroutine that is on its way out gets 200 ms
			if left = runnerGoroutines(); left == 0 {
				break
			}
			time.Sleep(5 * time.Millisecond)
		}
		how := []string{"cancelled before the run", "cancelled during setup", "cancelled in an iteration", "cancelled by a setup cleanup", "not cancelled"}[when]
		o.Count("in-run", how)
		if left > 0 {
			o.Fail("runner-goroutine-left", fmt.Sprintf("%s run, context %s: %d goroutine(s) of the progress runner still alive 200 ms after Run.Do returned", mode, how, left))
		}
		o.Case("c01_ok", []string{"0", "0", "0", kit.I(left), "0", "0", "F", "0", "0", "0"}, "T", "in-run", "nt")
	}
}
