//go:build verif

package c18

import (
	"context"
	"fmt"
	"strings"
	"sync"
	"sync/atomic"
	"testing"
	"time"

	"go.uber.org/goleak"

	"github.com/form3tech-oss/f1/v2/internal/raterun"
	"github.com/form3tech-oss/f1/v2/internal/verifh/hook"
	"github.com/form3tech-oss/f1/v2/internal/verifh/kit"
)

type logT struct {
	mu    sync.Mutex
	evs   []string
	t0    time.Time // set (before Start) when the run keeps a timed log
	timed []string  // [code, k, ns since t0] of schedule steps (7, 8) and function starts (1)
	ns    int       // number of schedules (0: the schedule index is not tracked)
	cur   atomic.Int64
}

// step tracks the index of the active schedule from the goroutine's schedule steps, so that a
// function start can be attributed when two schedules have the same frequency
func (l *logT) step(first bool) {
	if l.ns == 0 {
		return
	}
	if first {
		l.cur.Store(0)
	} else if c := l.cur.Load(); int(c)+1 < l.ns {
		l.cur.Store(c + 1)
	}
}

func (l *logT) addT(code, k int) {
	l.mu.Lock()
	if !l.t0.IsZero() {
		l.timed = append(l.timed, kit.List(kit.I(code), kit.I(k), kit.I(int64(time.Since(l.t0)))))
	}
	l.mu.Unlock()
}

func (l *logT) add(e string) {
	l.mu.Lock()
	l.evs = append(l.evs, e)
	l.mu.Unlock()
}

func TestC18(t *testing.T) {
	o := kit.Get()
	defer o.Close()
	r := kit.NewRand(kit.Seed() + 18)
	n := kit.N(40, 400)
	for i := 0; i < n; i++ {
		one(o, r)
	}
	if hooksSeen.Load() == 0 {
		o.Unchecked("c18-hooks", "no startFirst/startNext hook was ever passed: the runner's loop is not where the instrumenter expects it")
	}
	o.Stat("schedule_hooks_seen", hooksSeen.Load())
	for i := 0; i < kit.N(3, 20); i++ {
		restartWhileBusy(o, r)
	}
}

var hooksSeen atomic.Int64

// installHooks logs the goroutine's schedule steps (sources instrumented from the working
// tree: a hook precedes the calls of startFirst and startNext in the runner's loop).
func installHooks(lg *logT, firsts *atomic.Int64) {
	hook.Set(func(p string) {
		switch {
		case strings.HasSuffix(p, ".startFirst"):
			hooksSeen.Add(1)
			lg.step(true)
			lg.addT(7, 0)
			lg.add("[7]")
			if firsts != nil {
				firsts.Add(1)
			}
		case strings.HasSuffix(p, ".startNext"):
			hooksSeen.Add(1)
			lg.step(false)
			lg.addT(8, 0)
			lg.add("[8]")
		}
	})
}

// A Restart issued while the function is executing is delivered once the goroutine is back at
// its select: the restart channel holds it (capacity one), and every pass through the select
// picks uniformly among the ready cases, so it is taken within a few ticks.
func restartWhileBusy(o *kit.Out, r *kit.Rand) {
	sched := []raterun.Schedule{{StartDelay: time.Millisecond, Frequency: 3 * time.Millisecond},
		{StartDelay: time.Duration(r.Range(10, 25)) * time.Millisecond, Frequency: 7 * time.Millisecond}}
	lg := &logT{}
	var firsts atomic.Int64
	installHooks(lg, &firsts)
	defer hook.Set(nil)
	holdAt := int(r.Range(1, 6))
	held := make(chan struct{})
	release := make(chan struct{})
	var calls, after atomic.Int64
	var restarted atomic.Bool
	fn := func(f time.Duration) {
		k := int64(0)
		if f == sched[1].Frequency {
			k = 1
		}
		lg.add(kit.List("1", kit.I(k)))
		if restarted.Load() {
			after.Add(1)
		}
		if int(calls.Add(1)) == holdAt {
			close(held)
			<-release
		}
		lg.add("[2]")
	}
	rn, err := raterun.New(fn, sched)
	if err != nil {
		o.Fail("c18-new", "raterun.New failed")
		return
	}
	ctx, cancel := context.WithCancel(context.Background())
	defer cancel()
	lg.add("[0]")
	rn.Start(ctx)
	select {
	case <-held:
	case <-time.After(5 * time.Second):
		o.Fail("c18-busy-script", "the function was never invoked")
		rn.Stop()
		return
	}
	lg.add("[3]")
	done := make(chan struct{})
	go func() { rn.Restart(); close(done) }()
	select {
	case <-done:
	case <-time.After(2 * time.Second):
		o.Fail("restart-blocked", "Restart did not return within 2s while the function was executing although the restart channel was empty")
	}
	restarted.Store(true)
	close(release)
	deadline := time.Now().Add(3 * time.Second)
	for firsts.Load() == 0 && after.Load() < 60 && time.Now().Before(deadline) {
		time.Sleep(time.Millisecond)
	}
	got := firsts.Load()
	lg.add("[4]")
	rn.Stop()
	lg.add("[5]")
	if got == 0 && hooksSeen.Load() == 0 {
		o.Unchecked("c18-hooks", "no startFirst/startNext hook was ever passed: the busy-restart script cannot see the runner go back to the first schedule")
		return
	}
	if got == 0 {
		o.Fail("restart-lost", fmt.Sprintf("Restart was called (and returned) while invocation %d of the function was executing; %d further invocations later the runner still had not gone back to the first schedule", holdAt, after.Load()))
	}
	lg.mu.Lock()
	evs := append([]string(nil), lg.evs...)
	lg.mu.Unlock()
	o.Count("script", "restart while the function executes")
	o.Case("runner_trace_ok", []string{"2", kit.List(evs...)}, "T", "runner", "busy-restart", "nt")
}

func one(o *kit.Out, r *kit.Rand) {
	ns := int(r.Range(1, 3))
	var sched []raterun.Schedule
	freqIdx := map[time.Duration]int{}
	// a slow later schedule behind a fast first one: a tick of the fast ticker that is still
	// pending when the slow schedule starts must not be taken for a tick of the slow one
	slowLater := r.Chance(40)
	// the second schedule far behind the first: a Restart then arrives while the runner is on
	// its first schedule, and must push the second schedule's start out again
	farSecond := r.Chance(35)
	sameAsBefore := r.Chance(30)
	if sameAsBefore {
		ns = 3
	}
	for k := 0; k < ns; k++ {
		f := time.Duration(2+3*k+r.Intn(2)) * time.Millisecond // distinct per schedule
		if slowLater && k > 0 {
			f = time.Duration(40+15*k+r.Intn(5)) * time.Millisecond
		}
		d := time.Duration(r.Range(8, 30)) * time.Millisecond
		if farSecond && k == 1 {
			d = time.Duration(r.Range(60, 90)) * time.Millisecond
		}
		if k == 0 {
			d = time.Duration(r.Range(0, 3)) * time.Millisecond
		}
		if sameAsBefore && k > 0 && k == ns-2 {
			f = sched[k-1].Frequency // two neighbouring schedules of the same frequency, a different one behind them
		}
		sched = append(sched, raterun.Schedule{StartDelay: d, Frequency: f})
		if _, dup := freqIdx[f]; !dup {
			freqIdx[f] = k
		}
	}
	lg := &logT{ns: ns}
	lg.cur.Store(-1)
	installHooks(lg, nil)
	defer hook.Set(nil)
	fnDur := time.Duration(r.Range(0, 12)) * time.Millisecond
	if slowLater {
		fnDur = time.Duration(r.Range(2, 7)) * time.Millisecond // overruns the fast ticks, well below the slow period
	}
	var restartCalls []int64
	var startsMu sync.Mutex
	var starts []string
	var t0 time.Time
	blockFirst := r.Chance(35) // hold one invocation until released: the Stop-vs-running-function script
	release := make(chan struct{})
	var once sync.Once
	held := make(chan struct{})
	counts := make([]int, ns)
	var cmu sync.Mutex
	fn := func(f time.Duration) {
		k, ok := freqIdx[f]
		if !ok {
			k = 99
		}
		if c := int(lg.cur.Load()); c >= 0 && c < ns && sched[c].Frequency == f {
			k = c // the active schedule has this frequency (it may share it with its neighbour)
		}
		at := time.Since(t0)
		lg.addT(1, k)
		lg.add(kit.List("1", kit.I(k)))
		startsMu.Lock()
		starts = append(starts, kit.List(kit.I(k), kit.I(int64(at))))
		startsMu.Unlock()
		cmu.Lock()
		if k < ns {
			counts[k]++
		}
		cmu.Unlock()
		if blockFirst {
			did := false
			once.Do(func() { did = true })
			if did {
				close(held)
				<-release
			}
		}
		if fnDur > 0 {
			time.Sleep(fnDur)
		}
		lg.add("[2]")
	}
	before := goleak.IgnoreCurrent()
	t0 = time.Now() // before New: the first schedule's start-delay timer is armed there
	lg.t0 = t0
	rn, err := raterun.New(fn, sched)
	if err != nil {
		o.Fail("c18-new", "raterun.New failed")
		return
	}
	ctx, cancel := context.WithCancel(context.Background())
	defer cancel()
	lg.add("[0]")
	rn.Start(ctx)
	restarts := int(kit.Pick(r, 0, 0, 1, 2))
	if blockFirst && restarts > 1 {
		// Restart blocks while an earlier restart is still buffered; with an invocation held
		// by the harness the second one would never be taken
		restarts = 1
	}
	for k := 0; k < restarts; k++ {
		time.Sleep(time.Duration(r.Range(1, 40)) * time.Millisecond)
		restartCalls = append(restartCalls, int64(time.Since(t0)))
		lg.add("[3]")
		rn.Restart()
	}
	time.Sleep(time.Duration(r.Range(0, 60)) * time.Millisecond)
	useStop := r.Chance(75)
	stopReturnedWhileHeld := false
	if blockFirst {
		select {
		case <-held:
			// the function is executing and will not return until released
			if useStop {
				done := make(chan struct{})
				if r.Chance(40) {
					// an interrupted run: the context given to Start is cancelled first, then Stop is called
					lg.add("[6]")
					cancel()
					o.Count("ending", "cancel, then stop, while the function executes")
				}
				go func() { lg.add("[4]"); rn.Stop(); lg.add("[5]"); close(done) }()
				select {
				case <-done:
					stopReturnedWhileHeld = true
				case <-time.After(40 * time.Millisecond):
				}
				close(release)
				<-done
			} else {
				lg.add("[6]")
				cancel()
				close(release)
			}
		case <-time.After(100 * time.Millisecond):
			close(release)
			blockFirst = false
		}
	}
	if !blockFirst {
		if useStop {
			lg.add("[4]")
			rn.Stop()
			lg.add("[5]")
		} else {
			lg.add("[6]")
			cancel()
		}
	}
	elapsed := time.Since(t0)
	// observe: anything invoked late shows up in the log
	time.Sleep(35 * time.Millisecond)
	leak := goleak.Find(before)
	lg.mu.Lock()
	evs := append([]string(nil), lg.evs...)
	lg.mu.Unlock()
	if stopReturnedWhileHeld {
		o.Fail("stop-returned-while-function-running", "Stop returned although the run function was still executing (held by the harness)")
	}
	if leak != nil {
		o.Fail("runner-goroutine-left", fmt.Sprintf("a goroutine of the runner remains after Stop/cancel: %v", leak)[:400])
	}
	// one-sided cadence: schedule k cannot have fired more often than elapsed/freq + 1; after a
	// cancel the goroutine may still take ticks until its select picks the cancellation, so the
	// clock runs until the counts are read
	elapsed = time.Since(t0)
	cmu.Lock()
	for k, c := range counts {
		bound := int(elapsed/sched[k].Frequency) + 2
		if c > bound {
			o.Fail("more-invocations-than-ticks", fmt.Sprintf("schedule %d (every %s) invoked %d times in %s", k, sched[k].Frequency, c, elapsed))
		}
	}
	cmu.Unlock()
	tags := []string{"runner"}
	if restarts > 0 || blockFirst {
		tags = append(tags, "nt")
	}
	o.Count("schedules", kit.I(ns))
	o.Count("ending", map[bool]string{true: "stop", false: "cancel"}[useStop])
	o.Count("held-invocation", kit.B(blockFirst))
	hooked := false
	invoked := false
	for _, e := range evs {
		if e == "[7]" || e == "[8]" {
			hooked = true
		}
		if strings.HasPrefix(e, "[1,") {
			invoked = true
		}
	}
	if invoked && !hooked {
		// the first schedule can only have been started by a startNext step: the hooks are not in place
		o.Unchecked("c18-hooks", "the function was invoked but no startFirst/startNext hook was passed: the trace cannot be checked")
	} else {
		o.Case("runner_trace_ok", []string{kit.I(ns), kit.List(evs...)}, "T", tags...)
	}
	// one-sided timing: an invocation with schedule k's frequency never comes before that
	// schedule's own first tick can have been delivered (Start + delays up to k + one period)
	var delays, freqs []int64
	for _, sc := range sched {
		delays = append(delays, int64(sc.StartDelay))
		freqs = append(freqs, int64(sc.Frequency))
	}
	startsMu.Lock()
	st := append([]string(nil), starts...)
	startsMu.Unlock()
	o.Count("profile", map[bool]string{true: "slow schedule behind a fast one, overrunning function", false: "fast schedules"}[slowLater])
	o.Case("runner_times_ok", []string{kit.Ints(delays), kit.Ints(freqs), kit.Ints(restartCalls), kit.List(st...)}, "T", append(tags, "times")...)
	// the same, exactly along the run: every schedule step and function start against the instant
	// its schedule was started (needs the hooks)
	if hooked || !invoked {
		lg.mu.Lock()
		timed := append([]string(nil), lg.timed...)
		lg.mu.Unlock()
		o.Case("runner_timed_ok", []string{kit.Ints(delays), kit.Ints(freqs), kit.List(timed...)}, "T", append(tags, "timed")...)
	}
}
