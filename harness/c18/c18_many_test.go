//go:build verif

package c18

import (
	"context"
	"fmt"
	"sync/atomic"
	"testing"
	"time"

	"github.com/form3tech-oss/f1/v2/internal/raterun"
	"github.com/form3tech-oss/f1/v2/internal/verifh/kit"
)

// Many runners in one process (several runs, a progress reporter per run): runners that have
// reached the last entry of their list, runners that were stopped there, and new runners started
// next to them. Each runner is its own: every new runner moves to its first schedule after that
// schedule's start delay and invokes its function at that schedule's frequency, whatever other
// runners exist or existed.
func TestC18Many(t *testing.T) {
	o := kit.Get()
	defer o.Close()
	r := kit.NewRand(kit.Seed() + 181)
	for rep := 0; rep < kit.N(2, 10); rep++ {
		type probe struct {
			rn    *raterun.Runner
			calls atomic.Int64
			wrong atomic.Int64
			freq  time.Duration
		}
		start := func(delays []time.Duration, freqs []time.Duration) *probe {
			p := &probe{freq: freqs[len(freqs)-1]}
			var sched []raterun.Schedule
			for k := range delays {
				sched = append(sched, raterun.Schedule{StartDelay: delays[k], Frequency: freqs[k]})
			}
			okFreq := map[time.Duration]bool{}
			for _, f := range freqs {
				okFreq[f] = true
			}
			rn, err := raterun.New(func(f time.Duration) {
				p.calls.Add(1)
				if !okFreq[f] {
					p.wrong.Add(1)
				}
			}, sched)
			if err != nil {
				return nil
			}
			p.rn = rn
			rn.Start(context.Background())
			return p
		}
		waitAll := func(ps []*probe, min int64, d time.Duration) (missing int) {
			deadline := time.Now().Add(d)
			for {
				missing = 0
				for _, p := range ps {
					if p.calls.Load() < min {
						missing++
					}
				}
				if missing == 0 || time.Now().After(deadline) {
					return missing
				}
				time.Sleep(time.Millisecond)
			}
		}
		ms := time.Millisecond
		// old runners: one or two schedules, soon on the last one
		var old []*probe
		nOld := int(kit.Pick(r, 4, 8, 16))
		for k := 0; k < nOld; k++ {
			if k%2 == 0 {
				old = append(old, start([]time.Duration{ms}, []time.Duration{3 * ms}))
			} else {
				old = append(old, start([]time.Duration{0, 5 * ms}, []time.Duration{2 * ms, 4 * ms}))
			}
		}
		if miss := waitAll(old, 6, 5*time.Second); miss > 0 {
			o.Fail("runner-never-invoked", fmt.Sprintf("%d of %d runners started on their own were not invoked 6 times within 5s", miss, nOld))
		}
		stopOldFirst := rep%2 == 1
		if stopOldFirst {
			for _, p := range old {
				p.rn.Stop()
			}
		}
		// new runners next to them (or after them)
		var fresh []*probe
		nNew := int(kit.Pick(r, 16, 32, 64))
		for k := 0; k < nNew; k++ {
			fresh = append(fresh, start([]time.Duration{time.Duration(r.Range(1, 10)) * ms}, []time.Duration{time.Duration(r.Range(2, 6)) * ms}))
		}
		miss := waitAll(fresh, 3, 5*time.Second)
		wrong := int64(0)
		for _, p := range append(old, fresh...) {
			wrong += p.wrong.Load()
		}
		if !stopOldFirst {
			for _, p := range old {
				p.rn.Stop()
			}
		}
		for _, p := range fresh {
			p.rn.Stop()
		}
		how := map[bool]string{true: "stopped on their last schedule", false: "still running on their last schedule"}[stopOldFirst]
		o.Count("many-runners", how)
		if miss > 0 {
			o.Fail("runner-never-invoked", fmt.Sprintf("%d earlier runners %s; of %d runners started then (start delays 1-9 ms, frequencies 2-5 ms), %d were not invoked 3 times within 5s",
				nOld, how, nNew, miss))
		}
		if wrong > 0 {
			o.Fail("runner-foreign-frequency", fmt.Sprintf("%d invocations carried a frequency that is not in the runner's own list", wrong))
		}
		// every runner got going: as a timed run each satisfies runner_timed_ok trivially; recorded as a count case
		o.Case("c01_ok", []string{kit.I(nNew), "0", "0", kit.I(int64(nNew - miss)), "0", "0", "F", "0", "0", "0"}, "T", "many", "nt")
	}
}
