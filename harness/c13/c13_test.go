//go:build verif

package c13

import (
	"math"
	"math/rand"
	"strconv"
	"testing"
	"time"

	"github.com/form3tech-oss/f1/v2/internal/options"
	"github.com/form3tech-oss/f1/v2/internal/trigger/api"
	"github.com/form3tech-oss/f1/v2/internal/trigger/constant"
	"github.com/form3tech-oss/f1/v2/internal/trigger/gaussian"
	"github.com/form3tech-oss/f1/v2/internal/trigger/ramp"
	"github.com/form3tech-oss/f1/v2/internal/trigger/staged"
	"github.com/form3tech-oss/f1/v2/internal/ui"
	"github.com/form3tech-oss/f1/v2/internal/verifh/kit"
	"github.com/form3tech-oss/f1/v2/internal/verifh/runkit"
)

func bits(f float64) uint64 {
	if f != f {
		return 0x7FF8000000000001
	}
	return math.Float64bits(f)
}

func genRates(r *kit.Rand, n int) []int64 {
	rates := make([]int64, n)
	mode := r.Intn(6)
	base := r.Range(0, 2000)
	for i := range rates {
		switch mode {
		case 0:
			rates[i] = base
		case 1:
			rates[i] = int64(i) * r.Range(0, 5)
		case 2:
			if r.Chance(10) {
				rates[i] = r.Range(0, 100000)
			}
		case 3:
			rates[i] = 0
			if r.Chance(50) {
				rates[i] = r.Range(0, 3)
			}
		case 4:
			rates[i] = r.Range(0, 1_000_000)
		default:
			rates[i] = r.Range(0, base+1)
		}
	}
	return rates
}

func TestC13(t *testing.T) {
	o := kit.Get()
	defer o.Close()
	r := kit.NewRand(kit.Seed())
	jitters := []float64{0, 0.5, 2, 20, 50, 99, 99.9, 33.3, 1e-3, 75.25}
	n := kit.N(400, 5000)
	for i := 0; i < n; i++ {
		j := jitters[r.Intn(len(jitters))]
		if r.Chance(10) {
			j = float64(r.Range(0, 99999)) / 1000
		}
		ln := int(r.Range(1, 200))
		if r.Chance(5) {
			ln = int(r.Range(1000, int64(kit.N(3000, 10000))))
		}
		rates := genRates(r, ln)
		seed := int64(r.U64() >> 1)

		// the implementation draws from the global math/rand source: seed it and
		// mirror it to hand the model the very cos factors the code used
		rand.Seed(seed)
		mirror := rand.New(rand.NewSource(seed))
		idx := 0
		fn := api.WithJitter(func(time.Time) int { v := rates[idx]; idx++; return int(v) }, j)
		outs := make([]int64, 0, ln)
		cosb := make([]uint64, 0, ln)
		now := time.Unix(1700000000, 0)
		crashed, _ := kit.Guard(func() {
			for k := 0; k < ln; k++ {
				outs = append(outs, int64(fn(now)))
				if j != 0 {
					cosb = append(cosb, bits(math.Cos(mirror.Float64()*2*math.Pi)))
				}
			}
		})
		tags := []string{}
		if j != 0 {
			tags = append(tags, "nt")
		}
		o.Count("jitter", kit.Bucket(int64(j)))
		o.Count("len", kit.Bucket(int64(ln)))
		o.Case("jitter", []string{kit.I(bits(j)), kit.Ints(rates), kit.Ints(cosb)}, kit.Res(crashed, nil, kit.Ints(outs)), tags...)
	}
}

// The jitter as the triggers apply it: constant, ramp and staged built by their Calculate...Rate
// functions with distribution none, evaluated tick by tick next to a zero-jitter twin that gives
// the underlying values; the jittered outputs are exactly the model's for those values and the
// mirrored random draws (one draw per tick: the percentage is applied once).
func TestC13Triggers(t *testing.T) {
	o := kit.Get()
	defer o.Close()
	r := kit.NewRand(kit.Seed() + 133)
	jitters := []float64{0.5, 2, 20, 50, 60, 99, 33.3, 75.25}
	for i := 0; i < kit.N(90, 1200); i++ {
		j := jitters[r.Intn(len(jitters))]
		mode := []string{"constant", "ramp", "staged", "gaussian"}[i%4]
		a, b := r.Range(1, 3000), r.Range(1, 3000)
		start := time.Unix(1_700_000_000, 0)
		build := func(jj float64) (*api.Rates, error) {
			switch mode {
			case "gaussian":
				return gaussian.CalculateGaussianRate(float64(100*a), jj, 200*time.Second, time.Second, 60*time.Second, 40*time.Second, "", "none")
			case "ramp":
				if a == b {
					b++
				}
				return ramp.CalculateRampRate(kit.I(a)+"/1s", kit.I(b)+"/1s", "none", 100*time.Second, jj)
			case "staged":
				return staged.CalculateStagedRate(jj, time.Second, "0s:"+kit.I(a)+",60s:"+kit.I(b)+",40s:"+kit.I(a), "none", &start)
			}
			return constant.CalculateConstantRate(jj, kit.I(a)+"/1s", "none")
		}
		jr, err1 := build(j)
		pr, err2 := build(0)
		if err1 != nil || err2 != nil {
			o.Fail("c13-trigger-build", mode+" trigger could not be built")
			continue
		}
		jRate, pRate := jr.Rate, pr.Rate
		if i%2 == 1 && mode != "staged" && mode != "gaussian" {
			// the same through the command's flag set (--jitter among the options)
			flagsFor := func(jj float64) map[string]string {
				f := map[string]string{"distribution": "none", "jitter": strconv.FormatFloat(jj, 'g', -1, 64)}
				if mode == "ramp" {
					f["start-rate"], f["end-rate"], f["ramp-duration"] = kit.I(a)+"/1s", kit.I(b)+"/1s", "100s"
				} else {
					f["rate"] = kit.I(a) + "/1s"
				}
				return f
			}
			cj := runkit.Config{Mode: mode, Flags: flagsFor(j), Opts: options.RunOptions{MaxDuration: 200 * time.Second}}
			cp := runkit.Config{Mode: mode, Flags: flagsFor(0), Opts: options.RunOptions{MaxDuration: 200 * time.Second}}
			tj, e1 := runkit.BuildTrigger(&cj, ui.NewDiscardOutput())
			tp, e2 := runkit.BuildTrigger(&cp, ui.NewDiscardOutput())
			if e1 != nil || e2 != nil {
				o.Fail("c13-trigger-build", mode+" trigger could not be built through its flag set")
				continue
			}
			jRate, pRate = tj.DryRun, tp.DryRun
			o.Count("trigger", mode+" through the flag set")
		}
		ln := int(r.Range(5, 110))
		seed := int64(r.U64() >> 1)
		rand.Seed(seed)
		mirror := rand.New(rand.NewSource(seed))
		var rates, outs []int64
		var cosb []uint64
		at := start
		crashed, _ := kit.Guard(func() {
			for k := 0; k < ln; k++ {
				rates = append(rates, int64(pRate(at)))
				outs = append(outs, int64(jRate(at)))
				cosb = append(cosb, bits(math.Cos(mirror.Float64()*2*math.Pi)))
				at = at.Add(time.Second)
			}
		})
		o.Count("trigger", mode)
		o.Case("jitter", []string{kit.I(bits(j)), kit.Ints(rates), kit.Ints(cosb)}, kit.Res(crashed, nil, kit.Ints(outs)), "trigger", "nt")
	}
}

// Two jittered functions of different percentages alive at once and evaluated in turn (stages of
// a config file, a chart next to a run): each applies its own percentage and carries its own
// remainder. The global random source is mirrored in call order.
func TestC13Pairs(t *testing.T) {
	o := kit.Get()
	defer o.Close()
	r := kit.NewRand(kit.Seed() + 131)
	jitters := []float64{0, 0.5, 1, 2, 20, 50, 60, 99, 33.3, 75.25}
	for i := 0; i < kit.N(120, 1500); i++ {
		js := [2]float64{jitters[r.Intn(len(jitters))], jitters[r.Intn(len(jitters))]}
		if i%2 == 0 && js[0] < js[1] {
			js[0], js[1] = js[1], js[0] // the larger percentage is created (and first evaluated) first
		}
		ln := int(r.Range(1, 120))
		rates := [2][]int64{genRates(r, ln), genRates(r, ln)}
		seed := int64(r.U64() >> 1)
		rand.Seed(seed)
		mirror := rand.New(rand.NewSource(seed))
		var fns [2]api.RateFunction
		var idx [2]int
		for q := 0; q < 2; q++ {
			q := q
			fns[q] = api.WithJitter(func(time.Time) int { v := rates[q][idx[q]]; idx[q]++; return int(v) }, js[q])
		}
		var outs [2][]int64
		var cosb [2][]uint64
		now := time.Unix(1700000000, 0)
		crashed, _ := kit.Guard(func() {
			for k := 0; k < ln; k++ {
				for q := 0; q < 2; q++ {
					outs[q] = append(outs[q], int64(fns[q](now)))
					if js[q] != 0 {
						cosb[q] = append(cosb[q], bits(math.Cos(mirror.Float64()*2*math.Pi)))
					}
				}
			}
		})
		for q := 0; q < 2; q++ {
			tags := []string{"pair"}
			if js[q] != 0 {
				tags = append(tags, "nt")
			}
			o.Case("jitter", []string{kit.I(bits(js[q])), kit.Ints(rates[q]), kit.Ints(cosb[q])}, kit.Res(crashed, nil, kit.Ints(outs[q])), tags...)
		}
		o.Count("pair", "two percentages alive at once")
	}
}

// The trigger as the CLI builds it: constant rate, jitter, and a distribution that spreads every
// period's value over its 100 ms sub-ticks. Jittered and un-jittered triggers are stepped side by
// side; at every sub-tick their running totals stay within the fixed bound of composed_bound_ok
// (C13_bounded at period ends plus at most one period's worth inside a period), for ever.
func TestC13Composed(t *testing.T) {
	o := kit.Get()
	defer o.Close()
	r := kit.NewRand(kit.Seed() + 131)
	for i := 0; i < kit.N(40, 400); i++ {
		rate := kit.Pick(r, int64(1), 1, 2, 5, 20, 100, r.Range(1, 500))
		unit := kit.Pick(r, "1s", "1s", "500ms", "2s", "300ms")
		jit := kit.Pick(r, int64(20), 50, 60, 75, 90, 99, r.Range(1, 99))
		dist := kit.Pick(r, "random", "random", "regular")
		spec := kit.I(rate) + "/" + unit
		// every rate mode that takes a jitter, on a flat profile (so that the same fixed bound applies):
		// constant, a ramp that stays at R for the steps taken, a single staged stage at R
		mode := []string{"constant", "ramp", "staged"}[i%3]
		build := func(j float64) (*api.Rates, error) {
			switch mode {
			case "ramp":
				// R to R+1 over a thousand hours: R throughout the steps taken here
				return ramp.CalculateRampRate(spec, kit.I(rate+1)+"/"+unit, dist, 1000*time.Hour, j)
			case "staged":
				u, _ := time.ParseDuration(unit)
				start := time.Unix(1_700_000_000, 0)
				return staged.CalculateStagedRate(j, u, "0s:"+kit.I(rate)+",1000h:"+kit.I(rate), dist, &start)
			}
			return constant.CalculateConstantRate(j, spec, dist)
		}
		jr, err1 := build(float64(jit))
		pr, err2 := build(0)
		if err1 != nil || err2 != nil || jr.IterationDuration != pr.IterationDuration {
			o.Fail("c13-composed-build", mode+" trigger "+spec+" with distribution "+dist+" could not be built twice alike")
			continue
		}
		o.Count("mode", mode)
		steps := int(kit.Pick(r, int64(2000), 5000, 20000))
		at := time.Unix(1_700_000_000, 0)
		var sj, sp, maxd int64
		neg := false
		for k := 0; k < steps; k++ {
			a, b := int64(jr.Rate(at)), int64(pr.Rate(at))
			if a < 0 {
				neg = true
			}
			sj, sp = sj+a, sp+b
			if d := sj - sp; d > maxd {
				maxd = d
			} else if -d > maxd {
				maxd = -d
			}
			at = at.Add(jr.IterationDuration)
		}
		if neg {
			o.Fail("c13-composed-negative", "constant trigger "+spec+" with jitter "+kit.I(jit)+" and distribution "+dist+" emitted a negative value")
		}
		o.Count("distribution", dist)
		o.Case("composed_bound_ok", []string{kit.I(jit), "100", kit.I(rate), kit.I(maxd)}, "T", "composed", "nt")
	}
}
