//go:build verif

package c08

import (
	"context"
	"errors"
	"fmt"
	"github.com/form3tech-oss/f1/v2/internal/verifh/runkit"
	"os"
	"path/filepath"
	"sync/atomic"
	"testing"
	"time"

	"github.com/form3tech-oss/f1/v2/internal/metrics"
	"github.com/form3tech-oss/f1/v2/internal/options"
	"github.com/form3tech-oss/f1/v2/internal/progress"
	"github.com/form3tech-oss/f1/v2/internal/run"
	"github.com/form3tech-oss/f1/v2/internal/verifh/kit"
	"github.com/form3tech-oss/f1/v2/pkg/f1"
	f1testing "github.com/form3tech-oss/f1/v2/pkg/f1/testing"
)

type vcase struct {
	nerrs   int
	s, f, d uint64
	ign     bool
	mf      uint64
	mr      int
}

func (c vcase) args() []string {
	return []string{kit.I(c.nerrs), kit.I(c.s), kit.I(c.f), kit.I(c.d), kit.B(c.ign), kit.I(c.mf), kit.I(c.mr)}
}

func (c vcase) opts() options.RunOptions {
	return options.RunOptions{IgnoreDropped: c.ign, MaxFailures: c.mf, MaxFailuresRate: c.mr}
}

func (c vcase) nontrivial() bool {
	// the rate clause decides: no earlier disjunct fires and a rate is set
	if c.nerrs > 0 || (!c.ign && c.d > 0) || (c.mf > 0 && c.f > c.mf) {
		return false
	}
	return c.mr > 0
}

func errsN(n int) []error {
	var es []error
	for i := 0; i < n; i++ {
		es = append(es, errors.New("e"))
	}
	return es
}

func evalDirect(c vcase) string {
	var got bool
	crashed, _ := kit.Guard(func() {
		r := run.VerifResultFrom(c.opts(), errsN(c.nerrs), progress.Snapshot{
			DroppedIterationCount:        c.d,
			SuccessfulIterationDurations: progress.IterationDurationsSnapshot{Count: c.s},
			FailedIterationDurations:     progress.IterationDurationsSnapshot{Count: c.f},
		})
		got = r.Failed()
	})
	return kit.Res(crashed, nil, kit.B(got))
}

func evalRecorded(c vcase) string {
	var got bool
	crashed, _ := kit.Guard(func() {
		r := run.VerifResultFrom(c.opts(), errsN(c.nerrs), progress.Snapshot{})
		st := r.VerifStats()
		// every fourth case records iterations that took no measurable time (a coarse clock): they
		// count all the same
		zero := (c.s+c.f+c.d)%4 == 1
		for i := uint64(0); i < c.s; i++ {
			d := int64(1000 + i)
			if zero {
				d = 0
			}
			st.Record(metrics.SuccessResult, d)
		}
		for i := uint64(0); i < c.f; i++ {
			d := int64(2000 + i)
			if zero {
				d = 0
			}
			st.Record(metrics.FailedResult, d)
		}
		for i := uint64(0); i < c.d; i++ {
			st.Record(metrics.DroppedResult, 0)
		}
		r.GetTotals()
		got = r.Failed()
	})
	return kit.Res(crashed, nil, kit.B(got))
}

func gen(r *kit.Rand, small bool) vcase {
	var c vcase
	c.nerrs = kit.Pick(r, 0, 0, 0, 0, 0, 0, 1, 2, 3)
	c.ign = r.Bool()
	c.mr = kit.Pick(r, 0, 0, 1, 2, 5, 10, 33, 50, 99, 100, int(r.Range(1, 100)))
	c.mf = uint64(kit.Pick(r, 0, 0, 0, 1, 5, int(r.Range(1, 50))))
	lim := int64(1_000_000_000)
	if small {
		lim = 120
	}
	switch r.Intn(6) {
	case 0: // zeros
		c.s, c.f, c.d = 0, 0, 0
		if r.Bool() {
			c.d = uint64(r.Range(0, 3))
		}
	case 1, 2: // boundary of the rate: 100 f = mr * total +- 1
		mr := int64(c.mr)
		if mr == 0 {
			mr = 5
			c.mr = 5
		}
		f := r.Range(1, lim/200+1)
		// total such that mr*total is near 100 f
		total := (100 * f) / mr
		total += r.Range(-1, 1)
		if total < f {
			total = f
		}
		c.f = uint64(f)
		rest := total - f
		if !c.ign || r.Bool() {
			c.s, c.d = uint64(rest), 0
		} else {
			dd := r.Range(0, rest)
			c.d, c.s = uint64(dd), uint64(rest-dd)
		}
	case 3: // boundary of max-failures
		if c.mf == 0 {
			c.mf = uint64(r.Range(1, 20))
		}
		c.f = uint64(int64(c.mf) + r.Range(-1, 1))
		c.s = uint64(r.Range(0, lim))
		c.d = 0
	default:
		c.s = uint64(r.Range(0, lim))
		c.f = uint64(r.Range(0, lim/10))
		if r.Chance(30) {
			c.d = uint64(r.Range(0, lim/10))
		}
		if r.Chance(30) {
			c.f = 0
		}
	}
	return c
}

func TestC08(t *testing.T) {
	o := kit.Get()
	defer o.Close()
	r := kit.NewRand(kit.Seed())

	// corpus first: the refutation witnesses of the pinned code
	corpus := []vcase{
		{0, 0, 0, 0, false, 0, 5},
		{0, 16, 1, 0, false, 0, 5},
		{0, 0, 0, 0, true, 3, 50},
		{0, 17, 1, 0, true, 0, 5},
		{0, 19, 1, 0, false, 0, 5},
		{0, 18, 1, 0, false, 0, 5},
		{0, 10, 1, 9, true, 0, 5},
	}
	emit := func(c vcase, how string, impl string) {
		tags := []string{how}
		if c.nontrivial() {
			tags = append(tags, "nt")
		}
		o.Case("verdict", c.args(), impl, tags...)
		o.Count("clause", clause(c))
		o.Count("total", kit.Bucket(int64(c.s+c.f+c.d)))
	}
	for _, c := range corpus {
		emit(c, "direct", evalDirect(c))
		emit(c, "recorded", evalRecorded(c))
	}

	if kit.Thorough() {
		// exhaustive small scope: all triples <= 12, all options in a grid
		for _, mr := range []int{0, 1, 5, 10, 50, 99, 100} {
			for _, mf := range []uint64{0, 1, 3} {
				for _, ign := range []bool{false, true} {
					for s := uint64(0); s <= 12; s++ {
						for f := uint64(0); f <= 12; f++ {
							for d := uint64(0); d <= 3; d++ {
								c := vcase{0, s, f, d, ign, mf, mr}
								emit(c, "direct", evalDirect(c))
							}
						}
					}
				}
			}
		}
	}

	n := kit.N(4000, 60000)
	for i := 0; i < n; i++ {
		c := gen(r, false)
		emit(c, "direct", evalDirect(c))
	}
	n = kit.N(300, 3000)
	for i := 0; i < n; i++ {
		c := gen(r, true)
		emit(c, "recorded", evalRecorded(c))
	}

	// whole runs (Run.Do) that are interrupted while their setup is still executing: the verdict
	// still says whether setup failed
	for i := 0; i < kit.N(12, 60); i++ {
		how := i % 4 // 0: setup passes; 1: Fail; 2: FailNow; 3: panic
		ctx, cancel := context.WithCancel(context.Background())
		scenario := func(st *f1testing.T) f1testing.RunFn {
			cancel() // the interrupt arrives during setup
			switch how {
			case 1:
				st.Fail()
			case 2:
				st.FailNow()
			case 3:
				panic("setup panicked")
			}
			return func(*f1testing.T) {}
		}
		ign := r.Bool()
		mode := kit.Pick(r, "users", "constant")
		flags := map[string]string{}
		if mode == "constant" {
			flags = map[string]string{"rate": "1/100ms", "distribution": "none"}
		}
		cfg := runkit.Config{Mode: mode, Flags: flags, Scenario: scenario, Ctx: ctx,
			Opts: options.RunOptions{MaxDuration: time.Second, Concurrency: 2, IgnoreDropped: ign}}
		out, hung, _ := runkit.DoTimeout(cfg, 30*time.Second)
		cancel()
		if hung || out.Result == nil {
			o.Fail("verdict-run", fmt.Sprintf("a run interrupted during setup did not return a result (hung=%v, err=%v)", hung, out.Err))
			continue
		}
		sn := out.Result.Snapshot()
		nerrs := 0
		if how > 0 {
			nerrs = 1
		}
		c := vcase{nerrs, sn.SuccessfulIterationDurations.Count, sn.FailedIterationDurations.Count, sn.DroppedIterationCount, ign, 0, 0}
		o.Count("clause", "interrupted during setup")
		o.Case("verdict", c.args(), kit.Res(false, nil, kit.B(out.Result.Failed())), "run", "interrupted-setup", "nt")
	}

	// end to end through the CLI: exit status of real runs
	n = kit.N(40, 240)
	for i := 0; i < n; i++ {
		cliCase(o, r, i)
	}
}

func clause(c vcase) string {
	switch {
	case c.nerrs > 0:
		return "errors"
	case !c.ign && c.d > 0:
		return "dropped"
	case c.mf == 0 && c.mr == 0:
		return "no-tolerance"
	case c.mf > 0 && c.f > c.mf:
		return "max-failures"
	case c.mr > 0:
		return "rate"
	default:
		return "max-failures-under"
	}
}

// cliCase runs `run users -c 1 --max-iterations n` against a scenario that
// fails exactly its first f iterations, and records whether the CLI returned
// an error. Users mode never drops, so the counts are known exactly.
func cliCase(o *kit.Out, r *kit.Rand, idx int) {
	n := r.Range(1, 40)
	f := r.Range(0, n)
	if r.Chance(25) {
		f = 0
	}
	mr := kit.Pick(r, 0, 5, 10, 50, int(r.Range(1, 100)))
	mf := kit.Pick(r, 0, 0, 1, int(r.Range(1, 20)))
	if r.Chance(40) && f > 0 { // put the share next to the threshold
		mr = int(100 * f / n)
		if r.Bool() && mr > 1 {
			mr--
		}
		if mr == 0 {
			mr = 1
		}
	}
	if r.Chance(30) && f > 0 {
		// both tolerances given: the count tolerance is respected, the share tolerance is not (or the reverse)
		if r.Bool() {
			mf = int(f + r.Range(0, 3))
			mr = int(100*f/n) - int(r.Range(1, 5))
			if mr < 1 {
				mr = 1
			}
		} else if f > 1 {
			mf = int(f - 1)
			mr = int(100*f/n) + int(r.Range(1, 5))
			if mr > 100 {
				mr = 100
			}
		}
	}
	if r.Chance(25) {
		// the ends of the option ranges: a share tolerance of 100 (or 99) percent, a count tolerance
		// equal to (one less / one more than) the iteration limit, alone and together
		switch r.Intn(4) {
		case 0:
			mr, mf = kit.Pick(r, 100, 100, 99), 0
		case 1:
			mr, mf = 0, int(n+kit.Pick(r, int64(0), 0, -1, 1))
		case 2:
			mr, mf = 100, int(n+kit.Pick(r, int64(0), 0, -1, 1))
		default:
			mr, mf = kit.Pick(r, 100, 99), int(kit.Pick(r, int64(1), n))
		}
		if mf < 0 {
			mf = 0
		}
		if f == 0 {
			f = kit.Pick(r, int64(1), n, n/2+1)
			if f > n {
				f = n
			}
		}
		o.Count("cli", "tolerance at the end of its range")
	}
	setupFails := r.Chance(10)
	// the scenario's own teardown (a cleanup registered during setup) fails - in any of the ways a
	// cleanup can fail; the iterations themselves are not affected
	teardownHow := 0
	if !setupFails && idx%5 == 3 {
		teardownHow = 1 + (idx/5)%5 // every way in turn
	}

	markSetupT := teardownHow > 0 && (idx/5)%2 == 0
	if markSetupT {
		o.Count("cli", "scenario handle marked during the run, teardown fails")
	}
	var started atomic.Int64
	name := fmt.Sprintf("c08cli%d", idx)
	inst := f1.New()
	inst.Add(name, func(t *f1testing.T) f1testing.RunFn {
		if setupFails {
			t.Fail()
		}
		if teardownHow > 0 {
			t.Cleanup(func() {
				switch teardownHow {
				case 1:
					t.Fail()
				case 2:
					t.FailNow()
				case 3:
					panic(errors.New("teardown panicked with an error"))
				case 4:
					panic("teardown panicked with a string")
				default:
					var m map[string]int
					m["x"] = 1
				}
			})
		}
		setupT := t
		return func(t *f1testing.T) {
			k := started.Add(1)
			if markSetupT && k == 1 {
				setupT.Fail() // an iteration marks the scenario's own handle: not an iteration outcome, not a setup failure
			}
			if k <= f {
				t.Fail()
			}
		}
	})
	ign := r.Bool()
	// no tolerance option at all: any failed iteration fails the run
	bare := idx%5 == 1 && !setupFails
	if bare {
		mf, mr, ign = 0, 0, false
		if f == 0 && idx%2 == 1 {
			f = 1 + r.Range(0, n-1)
		}
	}
	args := []string{
		"run", "users", name, "-c", "1", "-d", "5s",
		"--max-iterations", kit.I(n),
	}
	// a tolerance of zero is also what the run has when the option is not given at all
	omitted := 0
	if mf != 0 || (idx%2 == 0 && !bare) {
		args = append(args, "--max-failures", kit.I(mf))
	} else {
		omitted++
	}
	if mr != 0 || (idx%4 < 2 && !bare) {
		args = append(args, "--max-failures-rate", kit.I(mr))
	} else {
		omitted++
	}
	if ign {
		args = append(args, "--ignore-dropped")
	} else {
		omitted++
	}
	// the same through config files: the file of the measured run names no tolerance at all, the
	// file of an earlier execution in this process names generous ones
	viaFile := bare && idx%2 == 0
	if viaFile {
		dir, derr := os.MkdirTemp("", "verif_c08_")
		if derr != nil {
			return
		}
		defer os.RemoveAll(dir)
		cfgFile := func(file, scenario, limits string, iters int64) string {
			path := filepath.Join(dir, file)
			_ = os.WriteFile(path, []byte("scenario: "+scenario+"\ndefault:\n  mode: users\n  jitter: 0\n  distribution: none\n"+
				"limits:\n  max-duration: 5s\n  concurrency: 1\n  max-iterations: "+kit.I(iters)+"\n  ignore-dropped: false\n"+limits+
				"stages:\n  - duration: 5s\n    mode: users\n    concurrency: 1\n"), 0o600)
			return path
		}
		var k0 atomic.Int64
		other := f1.New()
		other.Add(name+"gen", func(*f1testing.T) f1testing.RunFn {
			return func(t *f1testing.T) {
				if k0.Add(1)%2 == 0 {
					t.Fail()
				}
			}
		})
		tolerant := cfgFile("tolerant.yaml", name+"gen", "  max-failures: 1000\n  max-failures-rate: 100\n", 6)
		_, _ = kit.Guard(func() { _ = other.ExecuteWithArgs([]string{"run", "file", tolerant}) })
		args = []string{"run", "file", cfgFile("strict.yaml", name, "", n)}
		o.Count("cli", "config file without tolerances after a run from a file with generous ones")
	}
	// profiling options of the root command ride along: the verdict and the returned error are the run's
	if !viaFile && idx%6 == 4 {
		pdir, perr := os.MkdirTemp("", "verif_c08p_")
		if perr == nil {
			defer os.RemoveAll(pdir)
			switch (idx / 6) % 3 {
			case 0:
				args = append(args, "--memprofile", filepath.Join(pdir, "mem.prof"))
			case 1:
				args = append(args, "--cpuprofile", filepath.Join(pdir, "cpu.prof"))
			default:
				args = append(args, "--memprofile", filepath.Join(pdir, "mem.prof"), "--cpuprofile", filepath.Join(pdir, "cpu.prof"))
			}
			o.Count("cli", "with profiling options")
		}
	}
	var err error
	if !viaFile && omitted > 0 && (bare || idx%3 != 1) {
		// an earlier execution in this process (another instance, another trigger mode) was given
		// generous tolerances: they are that run's, not this one's
		var k0 atomic.Int64
		other := f1.New()
		other.Add(name+"gen", func(*f1testing.T) f1testing.RunFn {
			return func(t *f1testing.T) {
				if k0.Add(1)%2 == 0 {
					t.Fail()
				}
			}
		})
		if idx%4 == 1 {
			// ... on the very same instance and command: its options were that execution's
			was := f
			f = n / 2
			_, _ = kit.Guard(func() {
				_ = inst.ExecuteWithArgs([]string{"run", "users", name, "-c", "1", "-d", "5s", "--max-iterations", kit.I(n),
					"--max-failures", "1000", "--max-failures-rate", "100", "--ignore-dropped"})
			})
			f = was
			started.Store(0)
			o.Count("cli", "tolerance options omitted after an execution of the same instance that was given generous ones")
		} else {
			_, _ = kit.Guard(func() {
				_ = other.ExecuteWithArgs([]string{"run", "constant", name + "gen", "-r", "4/10ms", "-d", "60ms", "-c", "2",
					"--max-failures", "1000", "--max-failures-rate", "100", "--ignore-dropped"})
			})
		}
		o.Count("cli", "tolerance options omitted after a run that was given generous ones")
	}
	if r.Chance(30) && !setupFails && teardownHow == 0 {
		// a second execution in one process stands on its own: first a run in which every iteration
		// fails (or none), then the run whose verdict is compared
		was := f
		f = kit.Pick(r, n, int64(0))
		_, _ = kit.Guard(func() { _ = inst.ExecuteWithArgs(args) })
		f = was
		started.Store(0)
		o.Count("cli", "second execution on the same instance")
	}
	crashed, _ := kit.Guard(func() { err = inst.ExecuteWithArgs(args) })
	nerrs := 0
	s, ff := n-f, f
	if setupFails {
		nerrs, s, ff = 1, 0, 0
	} else if started.Load() != n {
		// the run did not execute exactly n iterations: not this property's
		// business (C03); skip the case rather than guess the counts
		o.Count("cli", "skipped-count-mismatch")
		return
	}
	if teardownHow > 0 {
		nerrs = 1
		o.Count("cli", "failing teardown")
	}
	// users mode never drops, so the counts of the run are known exactly
	c := vcase{nerrs, uint64(s), uint64(ff), 0, ign, uint64(mf), mr}
	impl := kit.Res(crashed, nil, kit.B(err != nil))
	tags := []string{"cli"}
	if c.nontrivial() {
		tags = append(tags, "nt")
	}
	o.Case("cli", c.args(), impl, tags...)
	o.Count("cli", "run")
}
