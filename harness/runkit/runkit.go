//go:build verif

// Package runkit builds and executes real f1 runs (run.NewRun / Run.Do) for
// the whole-run parts of the correspondence checks.
package runkit

import (
	"context"
	"fmt"
	f1log "github.com/form3tech-oss/f1/v2/internal/log"
	"io"
	"log/slog"
	"runtime"
	"time"

	"github.com/prometheus/client_golang/prometheus"
	io_prometheus_client "github.com/prometheus/client_model/go"
	"github.com/spf13/pflag"

	"github.com/form3tech-oss/f1/v2/internal/envsettings"
	"github.com/form3tech-oss/f1/v2/internal/metrics"
	"github.com/form3tech-oss/f1/v2/internal/options"
	"github.com/form3tech-oss/f1/v2/internal/run"
	"github.com/form3tech-oss/f1/v2/internal/trigger/api"
	"github.com/form3tech-oss/f1/v2/internal/trigger/constant"
	"github.com/form3tech-oss/f1/v2/internal/trigger/file"
	"github.com/form3tech-oss/f1/v2/internal/trigger/gaussian"
	"github.com/form3tech-oss/f1/v2/internal/trigger/ramp"
	"github.com/form3tech-oss/f1/v2/internal/trigger/staged"
	"github.com/form3tech-oss/f1/v2/internal/trigger/users"
	"github.com/form3tech-oss/f1/v2/internal/ui"
	"github.com/form3tech-oss/f1/v2/pkg/f1/scenarios"
	f1testing "github.com/form3tech-oss/f1/v2/pkg/f1/testing"
)

type Config struct {
	Mode     string            // constant | staged | ramp | gaussian | users | file
	Flags    map[string]string // trigger flags
	FileArg  string            // file mode: path of the yaml file
	Opts     options.RunOptions
	Scenario f1testing.ScenarioFn
	// Scenarios, when set, is the registration the run uses (it holds a scenario called Name):
	// several runs on one registration, as several executions of one f1 instance are
	Scenarios *scenarios.Scenarios
	Name      string
	Metrics   *metrics.Metrics // nil: fresh private registry, iteration metrics on
	Labels    map[string]string
	Ctx       context.Context
	Wait      time.Duration  // waitForCompletionTimeout (default 10s)
	OnRun     func(*run.Run) // called before Do
	WrapRate  func(api.RateFunction) api.RateFunction
	Debug     bool                 // run with a logger on which debug records are enabled (they go nowhere)
	Settings  envsettings.Settings // environment settings of the run (push gateway, ...)
	LogKind   int                  // 0: f1's discard logger (info and above enabled); 1: every level enabled; 2: no level enabled
}

// Logger returns a logger that writes nowhere: kind 0 is f1's own discard logger (info and above
// enabled), kind 1 has every level enabled, kind 2 has no level enabled at all - not even error,
// as a handler handed in through F1.WithLogger may.
func Logger(kind int) *slog.Logger {
	switch kind % 3 {
	case 1:
		return slog.New(slog.NewTextHandler(io.Discard, &slog.HandlerOptions{Level: slog.LevelDebug - 4}))
	case 2:
		return slog.New(slog.NewTextHandler(io.Discard, &slog.HandlerOptions{Level: slog.Level(100)}))
	}
	return f1log.NewDiscardLogger()
}

// DebugOutput is an output whose logger has every level enabled and discards what it is given.
func DebugOutput() *ui.Output {
	return ui.NewOutput(Logger(1), ui.NewDiscardPrinter(), false, false)
}

type Outcome struct {
	Result  *run.Result
	Err     error
	Metrics *metrics.Metrics
	Trigger *api.Trigger
	Elapsed time.Duration
}

func builder(mode string, out *ui.Output) (api.Builder, error) {
	switch mode {
	case "constant":
		return constant.Rate(), nil
	case "staged":
		return staged.Rate(), nil
	case "ramp":
		return ramp.Rate(), nil
	case "gaussian":
		return gaussian.Rate(out), nil
	case "users":
		return users.Rate(), nil
	case "file":
		return file.Rate(out), nil
	}
	return api.Builder{}, fmt.Errorf("unknown mode %s", mode)
}

// BuildTrigger constructs the trigger exactly as the CLI does: through the
// builder's flag set.
func BuildTrigger(cfg *Config, out *ui.Output) (*api.Trigger, error) {
	b, err := builder(cfg.Mode, out)
	if err != nil {
		return nil, err
	}
	fs := pflag.NewFlagSet("verif", pflag.ContinueOnError)
	fs.AddFlagSet(b.Flags)
	fs.Duration("max-duration", cfg.Opts.MaxDuration, "")
	var args []string
	for k, v := range cfg.Flags {
		args = append(args, "--"+k+"="+v)
	}
	if cfg.Mode == "file" {
		args = append(args, cfg.FileArg)
	}
	if err := fs.Parse(args); err != nil {
		return nil, err
	}
	return b.New(fs)
}

func NewMetrics(labels map[string]string, iterationMetrics bool) *metrics.Metrics {
	return metrics.NewInstance(prometheus.NewRegistry(), iterationMetrics, labels)
}

// Do builds the trigger and the run and executes it.
func Do(cfg Config) Outcome {
	out := ui.NewDiscardOutput()
	trig, err := BuildTrigger(&cfg, out)
	if err != nil {
		return Outcome{Err: fmt.Errorf("trigger: %w", err)}
	}
	return DoWithTrigger(cfg, trig)
}

func DoWithTrigger(cfg Config, trig *api.Trigger) Outcome {
	out := ui.NewDiscardOutput()
	if cfg.Debug {
		out = DebugOutput()
	} else if cfg.LogKind != 0 {
		out = ui.NewOutput(Logger(cfg.LogKind), ui.NewDiscardPrinter(), false, false)
	}
	if cfg.Name == "" {
		cfg.Name = "verifscenario"
	}
	scs := cfg.Scenarios
	if scs == nil {
		scs = scenarios.New()
		scs.Add(&scenarios.Scenario{Name: cfg.Name, ScenarioFn: cfg.Scenario})
	}
	m := cfg.Metrics
	if m == nil {
		m = NewMetrics(cfg.Labels, true)
	}
	opts := cfg.Opts
	if cfg.Mode == "file" {
		// as runCmdExecute does for builders with IgnoreCommonFlags
		opts.Scenario = trig.Options.Scenario
		opts.MaxDuration = trig.Options.MaxDuration
		opts.Concurrency = trig.Options.Concurrency
		opts.MaxIterations = trig.Options.MaxIterations
		opts.MaxFailures = trig.Options.MaxFailures
		opts.MaxFailuresRate = trig.Options.MaxFailuresRate
		opts.IgnoreDropped = trig.Options.IgnoreDropped
	} else {
		opts.Scenario = cfg.Name
	}
	opts.Verbose = true // no log file
	wait := cfg.Wait
	if wait == 0 {
		wait = 10 * time.Second
	}
	r, err := run.NewRun(opts, scs, trig, wait, cfg.Settings, m, out)
	if err != nil {
		return Outcome{Err: fmt.Errorf("new run: %w", err), Metrics: m, Trigger: trig}
	}
	if cfg.OnRun != nil {
		cfg.OnRun(r)
	}
	ctx := cfg.Ctx
	if ctx == nil {
		ctx = context.Background()
	}
	t0 := time.Now()
	res, err := r.Do(ctx)
	return Outcome{Result: res, Err: err, Metrics: m, Trigger: trig, Elapsed: time.Since(t0)}
}

// SampleCounts returns, for the iteration summary family, the sample count per
// result label (stage "iteration" only), and the setup family's samples per result.
func SampleCounts(m *metrics.Metrics) (iter map[string]uint64, setup map[string]uint64, fams []*io_prometheus_client.MetricFamily) {
	iter, setup = map[string]uint64{}, map[string]uint64{}
	fams, _ = m.Registry.Gather()
	for _, f := range fams {
		for _, mt := range f.GetMetric() {
			var result, stage string
			for _, l := range mt.GetLabel() {
				if l.GetName() == "result" {
					result = l.GetValue()
				}
				if l.GetName() == "stage" {
					stage = l.GetValue()
				}
			}
			switch f.GetName() {
			case "form3_loadtest_iteration":
				if stage == "iteration" {
					iter[result] += mt.GetSummary().GetSampleCount()
				}
			case "form3_loadtest_setup":
				setup[result] += mt.GetSummary().GetSampleCount()
			}
		}
	}
	return iter, setup, fams
}

// DoTimeout runs Do in a goroutine and reports hung=true (with a goroutine
// dump) if it has not returned after d; the run is then abandoned.
func DoTimeout(cfg Config, d time.Duration) (out Outcome, hung bool, dump string) {
	ch := make(chan Outcome, 1)
	go func() { ch <- Do(cfg) }()
	select {
	case out = <-ch:
		return out, false, ""
	case <-time.After(d):
		buf := make([]byte, 1<<20)
		n := runtime.Stack(buf, true)
		return Outcome{}, true, string(buf[:n])
	}
}

// QuickMode returns trigger flags (and, for file mode, the yaml text) for a
// short run of the given mode; pick selects a variant.
func QuickMode(mode string, pick int) (flags map[string]string, yaml string) {
	flags = map[string]string{}
	switch mode {
	case "constant":
		flags["rate"] = []string{"20/10ms", "5/5ms", "100/20ms"}[pick%3]
		flags["distribution"] = []string{"none", "regular", "random"}[pick%3]
	case "staged":
		flags["stages"] = []string{"60ms:30,60ms:5", "0s:10,100ms:40", "30ms:8,30ms:8,60ms:0"}[pick%3]
		flags["iterationFrequency"] = "10ms"
		flags["distribution"] = "none"
	case "ramp":
		flags["start-rate"] = []string{"2/10ms", "40/10ms"}[pick%2]
		flags["end-rate"] = []string{"40/10ms", "2/10ms"}[pick%2]
		flags["ramp-duration"] = "120ms"
		flags["distribution"] = "none"
	case "gaussian":
		flags["volume"] = "3000"
		flags["repeat"] = "1s"
		flags["iteration-frequency"] = "10ms"
		flags["peak"] = "100ms"
		flags["standard-deviation"] = "80ms"
		flags["distribution"] = "none"
	case "users":
	case "file":
		yaml = `scenario: verifscenario
default:
  mode: constant
  rate: 10/10ms
  jitter: 0
  distribution: none
  concurrency: 4
limits:
  max-duration: 2s
  concurrency: 8
  max-iterations: 0
  ignore-dropped: true
stages:
  - duration: 80ms
    mode: constant
    rate: 12/10ms
  - duration: 80ms
    mode: users
    concurrency: 3
  - duration: 80ms
    mode: staged
    stages: 40ms:20,40ms:2
    iteration-frequency: 10ms
`
	}
	return flags, yaml
}

var Modes = []string{"constant", "staged", "ramp", "gaussian", "users", "file"}
