//go:build verif

// Package hook is called from instrumented copies of f1 sources (generated at
// check time by tools/instrument and mapped in by -overlay). At is a no-op
// unless a handler is installed by a harness.
package hook

import "sync/atomic"

var handler atomic.Pointer[func(string)]

// At marks a synchronisation point "<Func>#<k>:<operation>".
func At(point string) {
	if h := handler.Load(); h != nil {
		(*h)(point)
	}
}

// Set installs (or, with nil, removes) the handler.
func Set(h func(string)) {
	if h == nil {
		handler.Store(nil)
		return
	}
	handler.Store(&h)
}
