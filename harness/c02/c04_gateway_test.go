//go:build verif

package c02

import (
	"context"
	"fmt"
	"io"
	"net/http"
	"net/http/httptest"
	"sync"
	"sync/atomic"
	"testing"
	"time"

	"github.com/form3tech-oss/f1/v2/internal/envsettings"
	"github.com/form3tech-oss/f1/v2/internal/options"
	"github.com/form3tech-oss/f1/v2/internal/verifh/kit"
	"github.com/form3tech-oss/f1/v2/internal/verifh/runkit"
	f1testing "github.com/form3tech-oss/f1/v2/pkg/f1/testing"
)

// A push gateway that answers slowly: while a periodic push (every five seconds) waits for its
// answer, the run's workers go on executing iterations - all `concurrency` of them stay usable.
func TestC04SlowGateway(t *testing.T) {
	o := kit.Get()
	defer o.Close()
	r := kit.NewRand(kit.Seed() + 44)
	for i := 0; i < kit.N(1, 4); i++ {
		conc := int(kit.Pick(r, 3, 4, 6))
		var mu sync.Mutex
		var slowFrom, slowTo time.Time
		var pushes atomic.Int64
		began := time.Now()
		srv := httptest.NewServer(http.HandlerFunc(func(w http.ResponseWriter, req *http.Request) {
			_, _ = io.Copy(io.Discard, req.Body)
			if time.Since(began) > 3*time.Second && pushes.Add(1) == 1 {
				mu.Lock()
				slowFrom = time.Now()
				mu.Unlock()
				time.Sleep(1300 * time.Millisecond)
				mu.Lock()
				slowTo = time.Now()
				mu.Unlock()
			}
			w.WriteHeader(http.StatusOK)
		}))
		settings := envsettings.Settings{}
		settings.Prometheus.PushGateway = srv.URL
		ob := &obs{live: map[*f1testing.T]bool{}}
		var startsMu sync.Mutex
		var starts []time.Time
		mode := []string{"users", "constant"}[i%2]
		flags := map[string]string{}
		if mode == "constant" {
			flags["rate"] = fmt.Sprintf("%d/20ms", conc)
			flags["distribution"] = "none"
		}
		out, hung, _ := runkit.DoTimeout(runkit.Config{Mode: mode, Flags: flags, Ctx: context.Background(), Settings: settings,
			Opts: options.RunOptions{MaxDuration: 6800 * time.Millisecond, Concurrency: conc, IgnoreDropped: true},
			Scenario: func(*f1testing.T) f1testing.RunFn {
				return func(t *f1testing.T) {
					ob.enter(t)
					defer ob.leave(t)
					startsMu.Lock()
					starts = append(starts, time.Now())
					startsMu.Unlock()
					time.Sleep(10 * time.Millisecond)
				}
			}}, 60*time.Second)
		srv.Close()
		if hung || out.Err != nil {
			o.Fail("c04-run-hung", "run against a slow push gateway did not return")
			continue
		}
		mu.Lock()
		from, to := slowFrom, slowTo
		mu.Unlock()
		if from.IsZero() || to.IsZero() {
			o.Count("gateway", "no periodic push seen (skipped)")
			continue
		}
		during := 0
		startsMu.Lock()
		for _, s := range starts {
			if s.After(from.Add(200*time.Millisecond)) && s.Before(to.Add(-100*time.Millisecond)) {
				during++
			}
		}
		startsMu.Unlock()
		o.Count("gateway", "slow answer to a periodic push, "+mode)
		// a second of 10 ms iterations on `conc` workers: anything near conc*100 is fine, a handful is not
		usable := during >= conc*10
		if !usable {
			o.Fail("not-all-workers-usable", fmt.Sprintf("%s run of %d workers (10 ms iterations) with a push gateway that took 1.3 s to answer a periodic push: %d iterations started during the second in the middle of that push",
				mode, conc, during))
		}
		o.Case("c04_ok", []string{kit.I(ob.hwm.Load()), kit.I(conc), kit.B(ob.shared.Load()), kit.B(usable)}, "T", "run", "gateway", "nt")
	}
}
