//go:build verif

package c02

import (
	"context"
	"strconv"
	"strings"
	"sync"
	"sync/atomic"
	"testing"
	"time"

	"github.com/form3tech-oss/f1/v2/internal/verifh/hook"
	"github.com/form3tech-oss/f1/v2/internal/verifh/kit"
	f1testing "github.com/form3tech-oss/f1/v2/pkg/f1/testing"
)

// Gate enumeration on sources instrumented from the working tree. Every synchronisation
// point of the trigger pool that the instrumenter finds ("<Func>#<k>:<op>", discovered at run
// time, so new points of a changed tree are enumerated too) is used once per script as a gate:
// the first goroutine arriving there is held while the rest of the system runs an adversary
// step to completion, then it is let go. These are exactly the schedules the Pool model
// quantifies over in which one thread is delayed at one program point; the oracles are the
// model's terminal theorems (conservation with the counter drained, ids, all workers usable).
//
//   stop script     ticker sends ticks; gate; cancel; the stopper runs; release; completion
//   limit script    limit 2, ticker sends ticks until the limit stops the pool; gate meanwhile
//   trigger script  workers idle; one small tick; gate; a tick of `nw` blocking iterations;
//                   release; all nw workers must come to execute concurrently

type gate struct {
	point    string
	armed    atomic.Bool
	paused   chan struct{}
	release  chan struct{}
	relOnce  sync.Once
	maxPause time.Duration
}

func newGate(point string) *gate {
	return &gate{point: point, paused: make(chan struct{}), release: make(chan struct{}), maxPause: 3 * time.Second}
}

func (g *gate) handler(p string) {
	if p == g.point && g.armed.CompareAndSwap(true, false) {
		close(g.paused)
		select {
		case <-g.release:
		case <-time.After(g.maxPause):
		}
	}
}

func (g *gate) open() { g.relOnce.Do(func() { close(g.release) }) }

func (g *gate) waitPaused(d time.Duration) bool {
	select {
	case <-g.paused:
		return true
	case <-time.After(d):
		return false
	}
}

func poolPoint(p string) bool {
	return strings.HasPrefix(p, "TriggerPool.") || strings.HasPrefix(p, "jobCounter.") ||
		strings.HasPrefix(p, "PoolManager.NextIteration") || strings.HasPrefix(p, "PoolManager.IterationsExhausted") ||
		strings.HasPrefix(p, "PoolManager.MaxIterationsReached") || strings.HasPrefix(p, "PoolManager.ReleaseIteration")
}

func TestPoolGate(t *testing.T) {
	o := kit.Get()
	defer o.Close()
	defer hook.Set(nil)

	// discovery: the three scripts without a gate, recording the points passed
	var seen sync.Map
	hook.Set(func(p string) {
		if poolPoint(p) {
			seen.Store(p, true)
		}
	})
	stopScript(o, nil, "discovery")
	limitScript(o, nil, "discovery")
	triggerScript(o, nil, "discovery")
	var points []string
	seen.Range(func(k, _ any) bool { points = append(points, k.(string)); return true })
	points = kit.SortedKeys(func() map[string]bool {
		m := map[string]bool{}
		for _, p := range points {
			m[p] = true
		}
		return m
	}())
	o.Stat("gate_points", len(points))
	if len(points) < 20 {
		o.Unchecked("gate-points", "only "+strconv.Itoa(len(points))+" synchronisation points of the trigger pool were passed: the pool is not where the instrumenter expects it")
		return
	}
	rounds := kit.N(1, 6)
	reached := 0
	for round := 0; round < rounds; round++ {
		for _, p := range points {
			for _, script := range []string{"stop", "limit", "trigger"} {
				g := newGate(p)
				hook.Set(g.handler)
				var hit bool
				switch script {
				case "stop":
					hit = stopScript(o, g, p)
				case "limit":
					hit = limitScript(o, g, p)
				default:
					hit = triggerScript(o, g, p)
				}
				hook.Set(nil)
				if hit {
					reached++
					o.Count("gate_script", script)
				} else {
					o.Count("gate_unreached", script)
				}
			}
		}
	}
	o.Stat("gate_scripts_with_pause", reached)
}

// ---------------------------------------------------------------- stop script

func stopScript(o *kit.Out, g *gate, point string) bool {
	const nw, sz = 2, 3
	ob := &obs{live: map[*f1testing.T]bool{}}
	m, pool, stats := newPool(nw, 0, func(t *f1testing.T) { ob.enter(t); ob.leave(t) })
	ctx, cancel := context.WithCancel(context.Background())
	defer cancel()
	wctx := pool.Start(ctx)
	time.Sleep(time.Millisecond)
	if g != nil {
		g.armed.Store(true)
	}
	var sure atomic.Int64     // ticks that returned before cancel was called
	var maybe atomic.Int64    // ticks in flight when cancel was called (each all or nothing)
	var cancelled atomic.Bool // set just before cancel()
	tdone := make(chan struct{})
	go func() {
		defer close(tdone)
		for k := 0; k < 6; k++ {
			was := cancelled.Load()
			pool.Trigger(wctx, sz)
			if !was && !cancelled.Load() {
				sure.Add(sz)
			} else {
				maybe.Add(1)
			}
			time.Sleep(300 * time.Microsecond)
		}
	}()
	hit := false
	if g != nil {
		hit = g.waitPaused(4 * time.Millisecond)
	} else {
		time.Sleep(2 * time.Millisecond)
	}
	if hit {
		time.Sleep(time.Millisecond) // the others go on
	}
	cancelled.Store(true)
	cancel()
	if g != nil {
		if !hit {
			hit = g.waitPaused(10 * time.Millisecond) // points of the shutdown path
		}
		time.Sleep(8 * time.Millisecond) // the adversary step (stopper, ticker, workers) runs to completion or blocks on the gate
		g.open()
	}
	select {
	case <-tdone:
	case <-time.After(10 * time.Second):
		o.Fail("gate-ticker-stuck", "stop script, gate "+point+": Trigger did not return within 10s after the gate was opened")
		return hit
	}
	if !waitDone(m, 10*time.Second) {
		o.Fail("gate-pool-not-complete", "stop script, gate "+point+": the pool did not complete within 10s after cancel")
		return hit
	}
	tot := stats.Total()
	started, dropped, pending := ob.started.Load(), int64(tot.DroppedIterationCount), pool.VerifPending()
	desc := "stop script (2 workers, ticks of 3, cancel while the first arrival at " + point + " is held, then released): "
	if pending > 0 {
		o.Fail("gate-pending-after-completion", desc+strconv.FormatInt(pending, 10)+" requested iteration(s) are still pending in the pool after it completed: neither started nor reported dropped")
	}
	acc := started + dropped
	okAcc := false
	for k := int64(0); k <= maybe.Load(); k++ {
		if acc == sure.Load()+k*sz {
			okAcc = true
		}
	}
	if !okAcc {
		o.Fail("gate-conservation", desc+"started "+kit.I(started)+" + dropped "+kit.I(dropped)+" is not the sum of the accepted ticks (returned before cancel: "+kit.I(sure.Load())+", in flight: "+kit.I(maybe.Load())+" of 3)")
	}
	o.Case("c03_ok", []string{kit.Ints(ob.idsDesc()), "0", "F"}, "T", "gate", "stop", "ids", "held-at="+point)
	o.Case("c02_ok", []string{kit.I(sure.Load() + maybe.Load()*sz), kit.I(started), kit.I(dropped), "T", kit.I(maybe.Load() * sz)}, "T", "gate", "stop", "nt", "held-at="+point)
	return hit
}

// ---------------------------------------------------------------- limit script

func limitScript(o *kit.Out, g *gate, point string) bool {
	const nw, limit = 2, 2
	ob := &obs{live: map[*f1testing.T]bool{}}
	m, pool, _ := newPool(nw, limit, func(t *f1testing.T) { ob.enter(t); ob.leave(t) })
	ctx, cancel := context.WithCancel(context.Background())
	defer cancel()
	wctx := pool.Start(ctx)
	time.Sleep(time.Millisecond)
	if g != nil {
		g.armed.Store(true)
	}
	tdone := make(chan struct{})
	go func() {
		defer close(tdone)
		// the trigger keeps requesting until the limit stops the pool
		deadline := time.Now().Add(5 * time.Second)
		for wctx.Err() == nil && time.Now().Before(deadline) {
			pool.Trigger(wctx, 2)
			time.Sleep(200 * time.Microsecond)
		}
	}()
	hit := false
	if g != nil {
		hit = g.waitPaused(6 * time.Millisecond)
		time.Sleep(6 * time.Millisecond)
		g.open()
	}
	select {
	case <-tdone:
	case <-time.After(10 * time.Second):
		o.Fail("gate-ticker-stuck", "limit script, gate "+point+": the ticking goroutine did not finish")
		return hit
	}
	if wctx.Err() == nil {
		o.Fail("gate-limit-not-reached", "limit script, gate "+point+": the pool was not stopped by the limit of 2 within 5s of ticks of 2")
		cancel()
	}
	if !waitDone(m, 10*time.Second) {
		o.Fail("gate-pool-not-complete", "limit script, gate "+point+": the pool did not complete within 10s after the limit")
		return hit
	}
	o.Case("c03_ok", []string{kit.Ints(ob.idsDesc()), kit.I(limit), "T"}, "T", "gate", "limit", "nt", "held-at="+point)
	return hit
}

// ---------------------------------------------------------------- trigger script

func triggerScript(o *kit.Out, g *gate, point string) bool {
	const nw = 2
	ob := &obs{live: map[*f1testing.T]bool{}}
	var block atomic.Bool
	proceed := make(chan struct{})
	m, pool, _ := newPool(nw, 0, func(t *f1testing.T) {
		ob.enter(t)
		if block.Load() {
			<-proceed
		}
		ob.leave(t)
	})
	ctx, cancel := context.WithCancel(context.Background())
	defer cancel()
	wctx := pool.Start(ctx)
	time.Sleep(time.Millisecond)
	if g != nil {
		g.armed.Store(true)
	}
	hit := false
	first := make(chan struct{})
	go func() { defer close(first); pool.Trigger(wctx, 1) }()
	if g != nil {
		hit = g.waitPaused(5 * time.Millisecond)
	} else {
		time.Sleep(time.Millisecond)
	}
	if g != nil && !hit {
		g.armed.Store(false)
	}
	// only a worker may be held while the next tick is sent: f1 has one ticking goroutine
	select {
	case <-first:
	case <-time.After(20 * time.Millisecond):
		// the ticking goroutine itself is at the gate (or behind a lock the held worker owns): let it go first
		if g != nil {
			g.open()
		}
		<-first
		hit = false
	}
	block.Store(true)
	second := make(chan struct{})
	go func() { defer close(second); pool.Trigger(wctx, nw) }()
	select {
	case <-second:
		time.Sleep(2 * time.Millisecond)
	case <-time.After(10 * time.Millisecond): // blocked on a lock the held worker owns
	}
	if g != nil {
		g.open()
	}
	<-second
	deadline := time.Now().Add(2 * time.Second)
	for ob.hwm.Load() < nw && time.Now().Before(deadline) {
		time.Sleep(100 * time.Microsecond)
	}
	hwm := ob.hwm.Load()
	close(proceed)
	cancel()
	if !waitDone(m, 10*time.Second) {
		o.Fail("gate-pool-not-complete", "trigger script, gate "+point+": the pool did not complete within 10s after cancel")
		return hit
	}
	if hwm < nw {
		o.Fail("gate-worker-not-usable", "trigger script (2 idle workers; a tick of 1; the first arrival at "+point+" is held while a tick of 2 blocking iterations is sent, then released): only "+kit.I(hwm)+" of 2 workers came to execute within 2s although 2 iterations were pending")
	}
	o.Case("c04_ok", []string{kit.I(hwm), kit.I(nw), kit.B(ob.shared.Load()), kit.B(hwm >= nw)}, "T", "gate", "trigger", "nt", "held-at="+point)
	o.Case("c03_ok", []string{kit.Ints(ob.idsDesc()), "0", "F"}, "T", "gate", "trigger", "ids", "held-at="+point)
	return hit
}
