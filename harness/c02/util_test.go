//go:build verif

package c02

import (
	"os"
	"strconv"
)

func writeFile(p, s string) error { return os.WriteFile(p, []byte(s), 0o600) }

// a config file whose limit falls inside one of several stages
func fileYaml(limit uint64) string {
	return `scenario: verifscenario
default:
  mode: constant
  jitter: 0
  distribution: none
limits:
  max-duration: 3s
  concurrency: 8
  max-iterations: ` + strconv.FormatUint(limit, 10) + `
  ignore-dropped: true
stages:
  - duration: 150ms
    rate: 6/10ms
  - duration: 150ms
    mode: users
    concurrency: 3
  - duration: 400ms
    rate: 20/10ms
  - duration: 5s
    mode: users
    concurrency: 2
`
}
