//go:build verif

package c02

import (
	"context"
	"fmt"
	"github.com/form3tech-oss/f1/v2/internal/trigger/api"
	"github.com/form3tech-oss/f1/v2/pkg/f1"
	"math"
	"os"
	"sort"
	"strconv"
	"strings"
	"sync"
	"sync/atomic"
	"testing"
	"time"

	"github.com/sirupsen/logrus"

	"github.com/form3tech-oss/f1/v2/internal/log"
	"github.com/form3tech-oss/f1/v2/internal/options"
	"github.com/form3tech-oss/f1/v2/internal/progress"
	"github.com/form3tech-oss/f1/v2/internal/trigger/users"
	"github.com/form3tech-oss/f1/v2/internal/ui"
	"github.com/form3tech-oss/f1/v2/internal/verifh/kit"
	"github.com/form3tech-oss/f1/v2/internal/verifh/runkit"
	"github.com/form3tech-oss/f1/v2/internal/workers"
	"github.com/form3tech-oss/f1/v2/pkg/f1/scenarios"
	f1testing "github.com/form3tech-oss/f1/v2/pkg/f1/testing"
)

type obs struct {
	mu       sync.Mutex
	ids      []int64
	raw      []string // the identifiers as the invocations observed them, kept as they were handed over
	started  atomic.Int64
	inflight atomic.Int64
	hwm      atomic.Int64
	live     map[*f1testing.T]bool
	shared   atomic.Bool
	// failEvery > 0: every failEvery-th identifier's invocation ends as a failed one (marked, stopped
	// or panicking, in turn): identifiers are handed out all the same, to failed iterations' successors too
	failEvery int64
}

func (o *obs) enter(t *f1testing.T) {
	o.started.Add(1)
	n := o.inflight.Add(1)
	for {
		h := o.hwm.Load()
		if n <= h || o.hwm.CompareAndSwap(h, n) {
			break
		}
	}
	id, _ := strconv.ParseInt(t.Iteration, 10, 64)
	o.mu.Lock()
	o.ids = append(o.ids, id)
	o.raw = append(o.raw, t.Iteration)
	if o.live[t] {
		o.shared.Store(true)
	}
	o.live[t] = true
	o.mu.Unlock()
}

func (o *obs) leave(t *f1testing.T) {
	o.mu.Lock()
	delete(o.live, t)
	o.mu.Unlock()
	o.inflight.Add(-1)
	if o.failEvery > 0 {
		if id, err := strconv.ParseInt(t.Iteration, 10, 64); err == nil && id%o.failEvery == 0 {
			switch (id / o.failEvery) % 4 {
			case 0:
				t.Fail()
			case 1:
				t.FailNow()
			case 2:
				t.Require().True(false)
			default:
				panic("iteration " + t.Iteration + " panics")
			}
		}
	}
}

func (o *obs) idsDesc() []int64 {
	o.mu.Lock()
	defer o.mu.Unlock()
	// the identifiers are read after the run, from what the invocations were given: an identifier
	// observed by an invocation is that invocation's for good
	ids := make([]int64, 0, len(o.raw))
	for k, s := range o.raw {
		id, err := strconv.ParseInt(s, 10, 64)
		if err != nil || id != o.ids[k] {
			id = -int64(k) - 1 // not what the invocation saw when it started: never a valid identifier
		}
		ids = append(ids, id)
	}
	sort.Slice(ids, func(i, j int) bool { return ids[i] > ids[j] })
	return ids
}

func newPool(nworkers int, limit uint64, body func(*f1testing.T)) (*workers.PoolManager, *workers.TriggerPool, *progress.Stats) {
	stats := &progress.Stats{}
	sc := &scenarios.Scenario{Name: "c02", ScenarioFn: func(*f1testing.T) f1testing.RunFn { return body }}
	as := workers.NewActiveScenario(sc, runkit.NewMetrics(nil, false), stats, log.NewDiscardLogger(), logrus.New())
	as.Setup()
	m := workers.New(limit, as)
	return m, m.NewTriggerPool(nworkers), stats
}

func waitDone(m *workers.PoolManager, d time.Duration) bool {
	select {
	case <-m.WaitForCompletion():
		return true
	case <-time.After(d):
		return false
	}
}

// ---------------------------------------------------------------- component histories on the real TriggerPool

func TestC02Pool(t *testing.T) {
	o := kit.Get()
	defer o.Close()
	r := kit.NewRand(kit.Seed() + 2)
	n := kit.N(250, 3000)
	for i := 0; i < kit.N(3, 20); i++ {
		burstHistory(o, r)
	}
	for i := 0; i < kit.N(4, 30); i++ {
		rapidHistory(o, r, i%2 == 0)
	}
	for i := 0; i < kit.N(600, 8000); i++ {
		usersLimitHistory(o, r)
	}
	for i := 0; i < kit.N(12, 120); i++ {
		usableHistory(o, r)
	}
	for i := 0; i < n; i++ {
		switch r.Intn(3) {
		case 0:
			sequentialHistory(o, r)
		case 1:
			racingCancelHistory(o, r)
		default:
			limitHistory(o, r)
		}
	}
}

// ticks are sent one after the other by one goroutine, the context is cancelled after the
// last one returned: every tick was requested, so requested = started + dropped exactly,
// as soon as the pool reports completion
func sequentialHistory(o *kit.Out, r *kit.Rand) {
	nw := int(kit.Pick(r, 1, 2, 3, 8, 32))
	ob := &obs{live: map[*f1testing.T]bool{}}
	hold := time.Duration(kit.Pick(r, 0, 0, 50, 500, 2000)) * time.Microsecond
	m, pool, stats := newPool(nw, 0, func(t *f1testing.T) {
		ob.enter(t)
		if hold > 0 {
			time.Sleep(hold)
		}
		ob.leave(t)
	})
	ctx, cancel := context.WithCancel(context.Background())
	wctx := pool.Start(ctx)
	requested := int64(0)
	nt := int(r.Range(1, 30))
	for k := 0; k < nt; k++ {
		sz := int(kit.Pick(r, r.Range(0, int64(3*nw)), 1, int64(nw), int64(10*nw)))
		if r.Chance(8) {
			sz = -int(r.Range(1, 5)) // a negative tick requests nothing (and supersedes what is pending)
		}
		pool.Trigger(wctx, sz)
		requested += int64(max(sz, 0))
		if r.Chance(60) {
			time.Sleep(time.Duration(r.Range(0, 800)) * time.Microsecond)
		}
	}
	cancel()
	if !waitDone(m, 30*time.Second) {
		o.Fail("pool-not-complete", "trigger pool did not complete within 30s after cancel")
		return
	}
	tot := stats.Total()
	emit(o, ob, requested, int64(tot.DroppedIterationCount), false, 0, nw, 0, "sequential")
}

// a very large tick is superseded while the workers are held, then triggering stops at once and
// the held iterations finish: when the pool reports completion every one of the superseded
// requests has been reported dropped (tens of thousands of records, taken right before the end)
func burstHistory(o *kit.Out, r *kit.Rand) {
	nw := int(kit.Pick(r, 1, 1, 2, 4))
	ob := &obs{live: map[*f1testing.T]bool{}}
	release := make(chan struct{})
	m, pool, stats := newPool(nw, 0, func(t *f1testing.T) {
		ob.enter(t)
		<-release
		ob.leave(t)
	})
	ctx, cancel := context.WithCancel(context.Background())
	wctx := pool.Start(ctx)
	big := int(r.Range(20000, 300000))
	pool.Trigger(wctx, big)
	deadline := time.Now().Add(5 * time.Second)
	for ob.started.Load() < int64(nw) && time.Now().Before(deadline) {
		time.Sleep(50 * time.Microsecond)
	}
	last := int(r.Range(0, 3))
	pool.Trigger(wctx, last) // supersedes big - nw pending requests
	cancel()
	close(release)
	if !waitDone(m, 30*time.Second) {
		o.Fail("pool-not-complete", "trigger pool did not complete within 30s after cancel")
		return
	}
	tot := stats.Total()
	emit(o, ob, int64(big+last), int64(tot.DroppedIterationCount), false, 0, nw, 0, "burst")
}

// thousands of ticks sent back to back while the workers claim requests without the lock: every
// claim races with a tick's swap. emptyTicks: every other tick requests nothing (it only
// supersedes what is pending), as most sub-ticks of a distributed low rate do.
func rapidHistory(o *kit.Out, r *kit.Rand, emptyTicks bool) {
	nw := int(kit.Pick(r, 8, 8, 32, 64))
	ob := &obs{live: map[*f1testing.T]bool{}}
	m, pool, stats := newPool(nw, 0, func(t *f1testing.T) { ob.enter(t); ob.leave(t) })
	ctx, cancel := context.WithCancel(context.Background())
	wctx := pool.Start(ctx)
	requested := int64(0)
	rounds := int(r.Range(2000, 6000))
	sz := nw/2 + int(r.Range(1, int64(nw)))
	// the progress reporter takes its snapshots while requests are being reported dropped (here far
	// more often than once a second): a report is a report, whenever a snapshot is taken
	var snapDone atomic.Bool
	var swg sync.WaitGroup
	swg.Add(1)
	go func() {
		defer swg.Done()
		for !snapDone.Load() {
			_ = stats.Snapshot(time.Second)
		}
	}()
	for k := 0; k < rounds; k++ {
		pool.Trigger(wctx, sz)
		requested += int64(sz)
		if emptyTicks {
			pool.Trigger(wctx, 0)
		}
	}
	cancel()
	defer func() { snapDone.Store(true); swg.Wait() }()
	if !waitDone(m, 30*time.Second) {
		o.Fail("pool-not-complete", "trigger pool did not complete within 30s after cancel")
		return
	}
	tot := stats.Total()
	kind := "rapid"
	if emptyTicks {
		kind = "rapid, empty ticks between"
	}
	emit(o, ob, requested, int64(tot.DroppedIterationCount), false, 0, nw, 0, kind)
}

// users mode against the limit: more users than iterations left, or as many users as the limit,
// all of them reaching the limit at the same instant; every invocation observes an id of 1..limit,
// each exactly once (thousands of short trials: the window is a few instructions wide)
func usersLimitHistory(o *kit.Out, r *kit.Rand) {
	users := int(kit.Pick(r, 16, 32, 8))
	limit := uint64(kit.Pick(r, int64(users), 3, int64(users)*2, 1))
	ob := &obs{live: map[*f1testing.T]bool{}, failEvery: 3}
	stats := &progress.Stats{}
	sc := &scenarios.Scenario{Name: "c03u", ScenarioFn: func(*f1testing.T) f1testing.RunFn {
		return func(t *f1testing.T) { ob.enter(t); ob.leave(t) }
	}}
	as := workers.NewActiveScenario(sc, runkit.NewMetrics(nil, false), stats, log.NewDiscardLogger(), logrus.New())
	as.Setup()
	m := workers.New(limit, as)
	pool := m.NewContinuousPool(users)
	ctx, cancel := context.WithCancel(context.Background())
	defer cancel()
	pool.Start(ctx)
	if !waitDone(m, 30*time.Second) {
		o.Fail("pool-not-complete", "continuous pool did not complete within 30s after the limit")
		return
	}
	o.Count("history", "users against the limit")
	o.Case("c03_ok", []string{kit.Ints(ob.idsDesc()), kit.I(int64(limit)), "T"}, "T", "users-limit", "ids", "nt")
}

// ONE tick of more requests than workers (any number, not only multiples of the pool size):
// every iteration waits until as many as there are workers execute at once - all of them can
func usableHistory(o *kit.Out, r *kit.Rand) {
	nw := int(kit.Pick(r, 2, 3, 4, 10, 16))
	n := nw + int(r.Range(1, int64(2*nw)))
	ob := &obs{live: map[*f1testing.T]bool{}}
	var arrived atomic.Int64
	rendezvous := make(chan struct{})
	var once sync.Once
	var ok atomic.Bool
	m, pool, stats := newPool(nw, 0, func(t *f1testing.T) {
		ob.enter(t)
		defer ob.leave(t)
		arrived.Add(1)
		if ob.inflight.Load() >= int64(nw) { // as many executing right now as there are workers
			once.Do(func() { ok.Store(true); close(rendezvous) })
		}
		select {
		case <-rendezvous:
		case <-time.After(1500 * time.Millisecond):
		}
	})
	ctx, cancel := context.WithCancel(context.Background())
	wctx := pool.Start(ctx)
	prelude := ""
	if r.Bool() {
		// ticks that ask for nothing (zero, or a negative value as a staged or jittered rate can
		// produce) come first: the workers are idle when the real tick arrives
		for k := int(r.Range(1, 3)); k > 0; k-- {
			v := int(kit.Pick(r, int64(0), -1, -1, -7))
			pool.Trigger(wctx, v)
			prelude += strconv.Itoa(v) + " "
			time.Sleep(time.Duration(r.Range(0, 3)) * time.Millisecond)
		}
		o.Count("history", "one tick after ticks asking for nothing")
	}
	pool.Trigger(wctx, n)
	deadline := time.Now().Add(5 * time.Second)
	for ob.started.Load() < int64(n) && time.Now().Before(deadline) {
		time.Sleep(200 * time.Microsecond)
	}
	cancel()
	if !waitDone(m, 30*time.Second) {
		o.Fail("pool-not-complete", "trigger pool did not complete within 30s after cancel")
		return
	}
	_ = stats
	o.Count("history", "one tick, all workers usable")
	if !ok.Load() {
		o.Fail("not-all-workers-usable", fmt.Sprintf("ticks %s%d on a pool of %d workers: the workers never all executed at the same time (at most %d did)", prelude, n, nw, ob.hwm.Load()))
	}
	o.Case("c04_ok", []string{kit.I(ob.hwm.Load()), kit.I(nw), kit.B(ob.shared.Load()), kit.B(ok.Load())}, "T", "usable", "conc", "nt")
}

// cancel races with the ticking goroutine: the tick in flight may be refused
func racingCancelHistory(o *kit.Out, r *kit.Rand) {
	nw := int(kit.Pick(r, 1, 2, 4, 16))
	ob := &obs{live: map[*f1testing.T]bool{}}
	m, pool, stats := newPool(nw, 0, func(t *f1testing.T) { ob.enter(t); ob.leave(t) })
	ctx, cancel := context.WithCancel(context.Background())
	wctx := pool.Start(ctx)
	var before atomic.Int64 // sizes of the ticks that returned before cancel was called
	var cancelled atomic.Bool
	var inflightMax atomic.Int64
	done := make(chan struct{})
	sz := int(r.Range(1, int64(2*nw)))
	go func() {
		defer close(done)
		for !cancelled.Load() && wctx.Err() == nil {
			pool.Trigger(wctx, sz)
			if !cancelled.Load() {
				before.Add(int64(sz))
			} else {
				inflightMax.Store(int64(sz))
			}
		}
	}()
	time.Sleep(time.Duration(r.Range(50, 3000)) * time.Microsecond)
	cancelled.Store(true)
	cancel()
	<-done
	if !waitDone(m, 30*time.Second) {
		o.Fail("pool-not-complete", "trigger pool did not complete within 30s after cancel")
		return
	}
	tot := stats.Total()
	// requested lies in [before, before + one tick]; use the upper bound with that slack as "discard" allowance
	emit(o, ob, before.Load()+int64(sz), int64(tot.DroppedIterationCount), true, int64(sz)+inflightMax.Load(), nw, 0, "racing-cancel")
}

// the limit ends the run; every tick waits until the previous one has been taken, so nothing
// is ever superseded: no iteration may be reported dropped, exactly `limit` start
func limitHistory(o *kit.Out, r *kit.Rand) {
	nw := int(kit.Pick(r, 1, 2, 3, 8))
	limit := uint64(r.Range(1, 60))
	ob := &obs{live: map[*f1testing.T]bool{}, failEvery: 3}
	m, pool, stats := newPool(nw, limit, func(t *f1testing.T) { ob.enter(t); ob.leave(t) })
	ctx, cancel := context.WithCancel(context.Background())
	defer cancel()
	wctx := pool.Start(ctx)
	requested := int64(0)
	for wctx.Err() == nil && requested < int64(limit)+int64(3*nw)+5 {
		sz := int(r.Range(1, int64(nw)))
		pool.Trigger(wctx, sz)
		requested += int64(sz)
		// wait until the jobs of this tick have all been taken (or the limit stopped the pool)
		deadline := time.Now().Add(2 * time.Second)
		for ob.started.Load() < min(requested, int64(limit)) && wctx.Err() == nil && time.Now().Before(deadline) {
			time.Sleep(20 * time.Microsecond)
		}
	}
	if !waitDone(m, 30*time.Second) {
		o.Fail("pool-not-complete", "trigger pool did not complete within 30s after the limit")
		return
	}
	tot := stats.Total()
	if tot.DroppedIterationCount != 0 {
		o.Fail("drop-reported-at-limit", "iterations reported dropped ("+strconv.FormatUint(tot.DroppedIterationCount, 10)+") although nothing was ever superseded and the run ended by the limit")
	}
	emit(o, ob, requested, int64(tot.DroppedIterationCount), true, requested, nw, int64(limit), "limit")
}

func emit(o *kit.Out, ob *obs, requested, dropped int64, lim bool, maxDiscard int64, nw int, limit int64, kind string) {
	started := ob.started.Load()
	tags := []string{kind}
	if dropped > 0 || lim {
		tags = append(tags, "nt")
	}
	o.Count("history", kind)
	o.Count("workers", kit.I(nw))
	o.Case("c02_ok", []string{kit.I(requested), kit.I(started), kit.I(dropped), kit.B(lim), kit.I(maxDiscard)}, "T", tags...)
	limitEnded := kind == "limit"
	o.Case("c03_ok", []string{kit.Ints(ob.idsDesc()), kit.I(limit), kit.B(limitEnded)}, "T", append(tags, "ids")...)
	o.Case("c04_ok", []string{kit.I(ob.hwm.Load()), kit.I(nw), kit.B(ob.shared.Load()), "T"}, "T", append(tags, "conc")...)
}

// ---------------------------------------------------------------- C04: all workers usable (rendezvous) and whole runs

// cliConcurrency: executions through the command line of ONE f1 instance. The run whose workers are
// counted gives --concurrency explicitly or leaves it out (the documented default is 100); it
// comes after an execution on the same instance that was given another concurrency - that one's
// option is its own. All the run's workers, no more and no fewer, execute at the same time.
func cliConcurrency(o *kit.Out, r *kit.Rand, idx int) {
	const def = 100
	earlier := int(kit.Pick(r, 2, 7, 130))
	explicit := idx%3 == 2
	want := def
	if explicit {
		want = int(kit.Pick(r, 3, 9, 40))
	}
	ob := &obs{live: map[*f1testing.T]bool{}}
	var measuring, ok atomic.Bool
	rendezvous := make(chan struct{})
	var once sync.Once
	inst := f1.New()
	name := fmt.Sprintf("c04cli%d", idx)
	inst.Add(name, func(*f1testing.T) f1testing.RunFn {
		return func(t *f1testing.T) {
			if !measuring.Load() {
				return
			}
			ob.enter(t)
			defer ob.leave(t)
			if ob.inflight.Load() >= int64(want) {
				once.Do(func() { ok.Store(true); close(rendezvous) })
			}
			select {
			case <-rendezvous:
			case <-time.After(1500 * time.Millisecond):
			}
		}
	})
	mode := []string{"users", "constant"}[idx%2]
	args := func(c int) []string {
		a := []string{"run", mode, name, "--max-duration", "400ms", "--ignore-dropped"}
		if mode == "constant" {
			a = append(a, "--rate", "300/20ms", "--distribution", "none")
		}
		if c > 0 {
			a = append(a, "--concurrency", strconv.Itoa(c))
		}
		return a
	}
	_, _ = kit.Guard(func() { _ = inst.ExecuteWithArgs(append(args(earlier), "--max-iterations", "5")) })
	measuring.Store(true)
	second := args(0)
	if explicit {
		second = args(want)
	}
	crashed, _ := kit.Guard(func() { _ = inst.ExecuteWithArgs(second) })
	if crashed {
		o.Fail("c04-cli-crash", "command-line run crashed")
		return
	}
	o.Count("cli", fmt.Sprintf("%s, second execution on one instance, concurrency explicit=%v", mode, explicit))
	if !ok.Load() || ob.hwm.Load() > int64(want) {
		o.Fail("not-all-workers-usable", fmt.Sprintf("f1 %v after f1 %v on the same instance: concurrency %d (explicit=%v, default %d), but at most %d iterations executed at the same time",
			second, args(earlier), want, explicit, def, ob.hwm.Load()))
	}
	o.Case("c04_ok", []string{kit.I(ob.hwm.Load()), kit.I(want), kit.B(ob.shared.Load()), kit.B(ok.Load())}, "T", "cli", mode, "nt")
}

func TestC04Runs(t *testing.T) {
	o := kit.Get()
	defer o.Close()
	r := kit.NewRand(kit.Seed() + 4)
	// config files: every stage starts its own pool on the run's one pool manager; stages of
	// different concurrency, bodies of a few ms: no two executing iterations may share a handle
	dir := t.TempDir()
	for rep := 0; rep < kit.N(2, 12); rep++ {
		fileHandles(o, r, dir, rep)
		fileUsers(o, r, dir, rep)
		fileUsersThenRate(o, r, dir, rep)
	}
	for rep := 0; rep < kit.N(2, 10); rep++ {
		cliConcurrency(o, r, rep)
	}
	n := kit.N(12, 90)
	for i := 0; i < n; i++ {
		mode := []string{"constant", "staged", "ramp", "gaussian", "users"}[i%5]
		conc := int(kit.Pick(r, 1, 2, 3, 5, 8, 16))
		ob := &obs{live: map[*f1testing.T]bool{}}
		var arrived atomic.Int64
		rendezvous := make(chan struct{})
		var once sync.Once
		var rendezvousOK atomic.Bool
		// ... and so do `conc` iterations that arrive once the run is under way (60 ms in):
		// the workers are all still usable after they have been through iterations of every kind,
		// including ones whose cleanups register further cleanups (every profile keeps triggering for 250 ms or more)
		var arrived2 atomic.Int64
		rendezvous2 := make(chan struct{})
		var once2 sync.Once
		var rendezvous2OK atomic.Bool
		runStart := time.Now()
		scenario := func(*f1testing.T) f1testing.RunFn {
			return func(t *f1testing.T) {
				ob.enter(t)
				defer ob.leave(t)
				n := arrived.Add(1)
				if n%3 == 1 {
					t.Cleanup(func() { t.Cleanup(func() {}) })
				}
				// the first iterations only return once `conc` of them execute at the same time
				if ob.inflight.Load() >= int64(conc) {
					once.Do(func() { rendezvousOK.Store(true); close(rendezvous) })
				}
				select {
				case <-rendezvous:
				case <-time.After(3 * time.Second):
				}
				if time.Since(runStart) > 60*time.Millisecond && !rendezvous2OK.Load() {
					arrived2.Add(1)
					if ob.inflight.Load() >= int64(conc) {
						once2.Do(func() { rendezvous2OK.Store(true); close(rendezvous2) })
					}
					select {
					case <-rendezvous2:
					case <-time.After(2 * time.Second):
					}
				}
			}
		}
		flags := map[string]string{}
		switch mode {
		case "constant":
			flags["rate"] = strconv.Itoa(4*conc) + "/10ms"
			flags["distribution"] = "none"
		case "staged":
			flags["stages"] = "50ms:" + strconv.Itoa(5*conc) + ",250ms:" + strconv.Itoa(5*conc)
			flags["iterationFrequency"] = "10ms"
			flags["distribution"] = "none"
		case "ramp":
			flags["start-rate"] = strconv.Itoa(2*conc) + "/10ms"
			flags["end-rate"] = strconv.Itoa(4*conc) + "/10ms"
			flags["ramp-duration"] = "280ms"
			flags["distribution"] = "none"
		case "gaussian":
			flags["volume"] = strconv.Itoa(2000 * conc)
			flags["repeat"] = "1s"
			flags["iteration-frequency"] = "10ms"
			flags["peak"] = "50ms"
			flags["standard-deviation"] = "300ms"
			flags["distribution"] = "none"
		}
		out, hung, dump := runkit.DoTimeout(runkit.Config{Mode: mode, Flags: flags, Scenario: scenario, Ctx: context.Background(),
			Opts: options.RunOptions{MaxDuration: 300 * time.Millisecond, Concurrency: conc, IgnoreDropped: true}}, 60*time.Second)
		if hung {
			o.Fail("c04-run-hung", "run did not return ("+mode+"): "+dump[:min(len(dump), 2000)])
			continue
		}
		if out.Err != nil {
			o.Fail("c04-run-error", "run failed ("+mode+")")
			continue
		}
		o.Count("mode", mode)
		o.Case("c04_ok", []string{kit.I(ob.hwm.Load()), kit.I(conc), kit.B(ob.shared.Load()), kit.B(rendezvousOK.Load() && rendezvous2OK.Load())}, "T", "run", mode, "nt")
		o.Case("c03_ok", []string{kit.Ints(ob.idsDesc()), "0", "F"}, "T", "run", mode, "ids")
	}
}

func fileHandles(o *kit.Out, r *kit.Rand, dir string, idx int) {
	big := int(r.Range(3, 8))
	small := int(r.Range(1, int64(big-1)))
	ob := &obs{live: map[*f1testing.T]bool{}}
	hold := time.Duration(r.Range(1, 30)) * time.Millisecond
	scenario := func(*f1testing.T) f1testing.RunFn {
		return func(t *f1testing.T) {
			ob.enter(t)
			defer ob.leave(t)
			time.Sleep(hold)
		}
	}
	yaml := "scenario: verifscenario\ndefault:\n  mode: constant\n  rate: " + strconv.Itoa(4*big) + "/10ms\n  jitter: 0\n  distribution: none\n  concurrency: " + strconv.Itoa(big) +
		"\nlimits:\n  max-duration: 2s\n  concurrency: " + strconv.Itoa(big) + "\n  max-iterations: 0\n  ignore-dropped: true\nstages:\n" +
		"  - duration: 60ms\n    mode: constant\n" +
		"  - duration: 60ms\n    mode: " + kit.Pick(r, "users", "constant") + "\n    concurrency: " + strconv.Itoa(small) + "\n" +
		"  - duration: 60ms\n    mode: constant\n" +
		"  - duration: 60ms\n    mode: constant\n    concurrency: " + strconv.Itoa(small) + "\n" +
		"  - duration: 60ms\n    mode: constant\n"
	file := dir + "/c04_" + strconv.Itoa(idx) + ".yaml"
	_ = writeFile(file, yaml)
	out, hung, dump := runkit.DoTimeout(runkit.Config{Mode: "file", FileArg: file, Scenario: scenario, Ctx: context.Background(),
		Opts: options.RunOptions{MaxDuration: 2 * time.Second, Concurrency: big, IgnoreDropped: true}}, 60*time.Second)
	if hung {
		o.Fail("c04-run-hung", "file run did not return: "+dump[:min(len(dump), 2000)])
		return
	}
	if out.Err != nil {
		o.Fail("c04-run-error", "file run failed: "+out.Err.Error())
		return
	}
	if ob.shared.Load() {
		o.Fail("shared-handle-within-run", "config file with stages of concurrency "+strconv.Itoa(big)+","+strconv.Itoa(small)+","+strconv.Itoa(big)+","+strconv.Itoa(small)+","+strconv.Itoa(big)+" and bodies of "+hold.String()+": two concurrently executing iterations were given the same T")
	}
	o.Count("mode", "file")
	// consecutive stages' pools may overlap for a moment, so only the handle part of the predicate is meaningful here
	o.Case("c04_ok", []string{kit.I(min(ob.hwm.Load(), int64(big))), kit.I(big), kit.B(ob.shared.Load()), "T"}, "T", "run", "file", "handles")
}

// A config file made of users stages only: a users stage ends when its users have finished
// their last iteration, so the next stage's users never run beside them - at no instant are more
// iterations executing than the largest stage concurrency, however long the iterations take.
func fileUsers(o *kit.Out, r *kit.Rand, dir string, idx int) {
	ob := &obs{live: map[*f1testing.T]bool{}}
	hold := time.Duration(r.Range(25, 90)) * time.Millisecond // well beyond the gap between two stages
	scenario := func(*f1testing.T) f1testing.RunFn {
		return func(t *f1testing.T) {
			ob.enter(t)
			defer ob.leave(t)
			time.Sleep(hold)
		}
	}
	ns := int(r.Range(2, 4))
	maxc := 0
	yaml := "scenario: verifscenario\ndefault:\n  mode: users\n  jitter: 0\n  distribution: none\n" +
		"limits:\n  max-duration: 3s\n  concurrency: 8\n  max-iterations: 0\n  ignore-dropped: true\nstages:\n"
	var cs []string
	for k := 0; k < ns; k++ {
		c := int(r.Range(1, 6))
		maxc = max(maxc, c)
		cs = append(cs, strconv.Itoa(c))
		yaml += "  - duration: " + strconv.Itoa(int(r.Range(60, 140))) + "ms\n    mode: users\n    concurrency: " + strconv.Itoa(c) + "\n"
	}
	file := dir + "/c04u_" + strconv.Itoa(idx) + ".yaml"
	_ = writeFile(file, yaml)
	out, hung, dump := runkit.DoTimeout(runkit.Config{Mode: "file", FileArg: file, Scenario: scenario, Ctx: context.Background(),
		Opts: options.RunOptions{MaxDuration: 3 * time.Second, Concurrency: 8, IgnoreDropped: true}}, 60*time.Second)
	if hung {
		o.Fail("c04-run-hung", "file run did not return: "+dump[:min(len(dump), 2000)])
		return
	}
	if out.Err != nil {
		o.Fail("c04-run-error", "file run failed: "+out.Err.Error())
		return
	}
	if ob.hwm.Load() > int64(maxc) {
		o.Fail("more-in-flight-than-concurrency", fmt.Sprintf("config file of users stages with concurrency %s and iterations of %s: %d iterations were executing at the same time", strings.Join(cs, ","), hold, ob.hwm.Load()))
	}
	o.Count("mode", "file of users stages")
	o.Case("c04_ok", []string{kit.I(ob.hwm.Load()), kit.I(maxc), kit.B(ob.shared.Load()), "T"}, "T", "run", "file", "users-stages", "nt")
}

// A users stage with its own concurrency (above or below the limits') followed by a rate stage:
// the users stage waits for its users, so the rate stage runs alone - with exactly the limits'
// concurrency: never more iterations executing than that, and, saturated, all of them.
func fileUsersThenRate(o *kit.Out, r *kit.Rand, dir string, idx int) {
	lim := int(r.Range(2, 5))
	users := lim + int(r.Range(2, 4))
	if r.Bool() {
		users = int(r.Range(1, int64(lim-1)))
	}
	var mu sync.Mutex
	inflight := map[string]int{}
	hwm := map[string]int{}
	scenario := func(*f1testing.T) f1testing.RunFn {
		return func(*f1testing.T) {
			st := os.Getenv("VERIF_C04_STAGE")
			mu.Lock()
			inflight[st]++
			hwm[st] = max(hwm[st], inflight[st])
			mu.Unlock()
			time.Sleep(40 * time.Millisecond)
			mu.Lock()
			inflight[st]--
			mu.Unlock()
		}
	}
	// a concurrency key left on the rate stage itself (as after switching it away from users) has
	// no meaning there: the stage still runs with the limits' concurrency
	strayKey := ""
	if r.Bool() {
		strayKey = "    concurrency: " + strconv.Itoa(lim+int(r.Range(1, 4))) + "\n"
	}
	yaml := "scenario: verifscenario\ndefault:\n  jitter: 0\n  distribution: none\n" +
		"limits:\n  max-duration: 3s\n  concurrency: " + strconv.Itoa(lim) + "\n  max-iterations: 0\n  ignore-dropped: true\nstages:\n" +
		"  - duration: 90ms\n    mode: users\n    concurrency: " + strconv.Itoa(users) + "\n    parameters:\n      VERIF_C04_STAGE: \"users\"\n" +
		"  - duration: 200ms\n    mode: constant\n    rate: " + strconv.Itoa(4*lim) + "/10ms\n" + strayKey + "    parameters:\n      VERIF_C04_STAGE: \"rate\"\n"
	file := dir + "/c04ur_" + strconv.Itoa(idx) + ".yaml"
	_ = writeFile(file, yaml)
	out, hung, dump := runkit.DoTimeout(runkit.Config{Mode: "file", FileArg: file, Scenario: scenario, Ctx: context.Background(),
		Opts: options.RunOptions{}}, 60*time.Second)
	if hung {
		o.Fail("c04-run-hung", "file run did not return: "+dump[:min(len(dump), 2000)])
		return
	}
	if out.Err != nil {
		o.Fail("c04-run-error", "file run failed: "+out.Err.Error())
		return
	}
	mu.Lock()
	hu, hr := hwm["users"], hwm["rate"]
	mu.Unlock()
	if hr != lim {
		o.Fail("rate-stage-after-users-stage-concurrency", fmt.Sprintf("config file with limits.concurrency %d: a users stage of concurrency %d followed by a saturated constant stage (%d/10ms, iterations of 40ms): at most %d iterations were executing at once during the constant stage (%d expected)", lim, users, 4*lim, hr, lim))
	}
	o.Count("mode", "file: users stage then rate stage")
	o.Case("c04_ok", []string{kit.I(hr), kit.I(lim), "F", kit.B(hr == lim)}, "T", "run", "file", "users-then-rate", "nt")
	o.Case("c04_ok", []string{kit.I(hu), kit.I(users), "F", "T"}, "T", "run", "file", "users-then-rate")
}

// ---------------------------------------------------------------- C03: whole runs ended by the limit, all modes and file stages

// cliFileLimit: `f1 run file <config>` from the command line, the limit written in the file next to
// a max-failures that is absent, smaller or larger than it: exactly max-iterations invocations,
// identifiers 1..N.
func cliFileLimit(o *kit.Out, r *kit.Rand, dir string, idx int) {
	n := r.Range(4, 30)
	mf := ""
	switch idx % 3 {
	case 1:
		mf = fmt.Sprintf("  max-failures: %d\n", r.Range(1, n-1))
	case 2:
		mf = fmt.Sprintf("  max-failures: %d\n", n+r.Range(1, 40))
	}
	name := fmt.Sprintf("c03cli%d", idx)
	yaml := "scenario: " + name + "\ndefault:\n  mode: constant\n  rate: 3/10ms\n  jitter: 0\n  distribution: none\n" +
		"limits:\n  max-duration: 5s\n  concurrency: 3\n  max-iterations: " + strconv.FormatInt(n, 10) + "\n  ignore-dropped: true\n" + mf +
		"stages:\n  - duration: 2s\n    mode: constant\n    rate: 3/10ms\n  - duration: 2s\n    mode: users\n    concurrency: 2\n"
	file := dir + "/" + name + ".yaml"
	_ = writeFile(file, yaml)
	ob := &obs{live: map[*f1testing.T]bool{}}
	inst := f1.New()
	inst.Add(name, func(*f1testing.T) f1testing.RunFn {
		return func(t *f1testing.T) { ob.enter(t); ob.leave(t) }
	})
	crashed, _ := kit.Guard(func() { _ = inst.ExecuteWithArgs([]string{"run", "file", file}) })
	if crashed {
		o.Fail("c03-cli-crash", "f1 run file crashed")
		return
	}
	o.Count("cli", "run file with max-iterations in the file, max-failures "+[]string{"absent", "below it", "above it"}[idx%3])
	o.Case("c03_ok", []string{kit.Ints(ob.idsDesc()), kit.I(n), "T"}, "T", "cli-file", "ids", "nt")
}

func TestC03Runs(t *testing.T) {
	o := kit.Get()
	defer o.Close()
	r := kit.NewRand(kit.Seed() + 3)
	n := kit.N(14, 120)
	dir := t.TempDir()
	cliDir := t.TempDir()
	for k := 0; k < kit.N(3, 18); k++ {
		cliFileLimit(o, r, cliDir, k)
	}
	for i := 0; i < n; i++ {
		mode := runkit.Modes[i%len(runkit.Modes)]
		limit := uint64(r.Range(1, 400))
		conc := int(kit.Pick(r, 1, 2, 8, 32, 100))
		ob := &obs{live: map[*f1testing.T]bool{}, failEvery: 3}
		var idChanged atomic.Int64
		var counting atomic.Bool
		counting.Store(true)
		scenario := func(*f1testing.T) f1testing.RunFn {
			return func(t *f1testing.T) {
				if !counting.Load() {
					return
				}
				ob.enter(t)
				if mode == "file" {
					// the invocation observes ONE id: read it again after the next stage has started
					before := t.Iteration
					id, _ := strconv.ParseInt(before, 10, 64)
					time.Sleep(time.Duration(id%4) * 20 * time.Millisecond)
					if t.Iteration != before {
						idChanged.Add(1)
					}
				}
				ob.leave(t)
			}
		}
		// every profile requests far more than the limit within the first second, so the
		// limit is what ends the run
		flags := map[string]string{}
		switch mode {
		case "constant":
			flags["rate"] = "50/10ms"
			flags["distribution"] = kit.Pick(r, "none", "regular")
		case "staged":
			flags["stages"] = "0s:60,3s:60"
			flags["iterationFrequency"] = "10ms"
			flags["distribution"] = "none"
		case "ramp":
			flags["start-rate"] = "40/10ms"
			flags["end-rate"] = "80/10ms"
			flags["ramp-duration"] = "3s"
			flags["distribution"] = "none"
		case "gaussian":
			flags["volume"] = "300000"
			flags["repeat"] = "3s"
			flags["iteration-frequency"] = "10ms"
			flags["peak"] = "500ms"
			flags["standard-deviation"] = "2s"
			flags["distribution"] = "none"
		}
		yaml := ""
		huge := mode != "file" && i%4 == 2
		maxDur := 3 * time.Second
		if huge {
			// a limit at the far end of its type never binds: the run ends by its duration, with
			// iterations numbered from 1
			limit = kit.Pick(r, uint64(math.MaxUint64), math.MaxUint64-1, 1<<63, 1<<63+1, math.MaxInt64)
			maxDur = 150 * time.Millisecond
			o.Count("limit", "at the far end of uint64")
		}
		cfg := runkit.Config{Mode: mode, Flags: flags, Scenario: scenario, Ctx: context.Background(),
			Opts: options.RunOptions{MaxDuration: maxDur, Concurrency: conc, MaxIterations: limit, IgnoreDropped: true}}
		if mode == "file" {
			// the limit binds in a rate stage (the first or the third) and a users stage follows it
			limit = uint64(kit.Pick(r, r.Range(1, 60), r.Range(1, 60), r.Range(120, 400)))
			cfg.Opts.MaxIterations = limit
			yaml = fileYaml(limit)
			cfg.FileArg = dir + "/c03_" + strconv.Itoa(i) + ".yaml"
			_ = writeFile(cfg.FileArg, yaml)
		}
		if i%3 == 1 {
			// the scenario is a combined one whose value has already been through a run in this
			// process (a second execution, or one registered under two names): this run stands on
			// its own - its part of the combined scenario is invoked once per iteration id
			cfg.Scenario = f1.CombineScenarios(scenario, func(*f1testing.T) f1testing.RunFn { return func(*f1testing.T) {} })
			counting.Store(false)
			pre := runkit.Config{Mode: "users", Scenario: cfg.Scenario, Ctx: context.Background(),
				Opts: options.RunOptions{MaxDuration: time.Second, Concurrency: 2, MaxIterations: 3, IgnoreDropped: true}}
			_, _, _ = runkit.DoTimeout(pre, 30*time.Second)
			counting.Store(true)
			o.Count("scenario", "combined, second run of the same value")
		}
		out, hung, dump := runkit.DoTimeout(cfg, 60*time.Second)
		if hung {
			o.Fail("c03-run-hung", "run did not return ("+mode+"): "+dump[:min(len(dump), 2000)])
			continue
		}
		if out.Err != nil || out.Result == nil {
			o.Fail("c03-run-error", "run failed ("+mode+")")
			continue
		}
		if idChanged.Load() > 0 {
			o.Fail("iteration-id-changed-during-invocation", "file run, limit "+strconv.FormatUint(limit, 10)+", concurrency "+strconv.Itoa(conc)+": "+strconv.FormatInt(idChanged.Load(), 10)+" invocation(s) saw T.Iteration change while they were executing (iterations of 0-60ms outliving their stage)")
		}
		ids := ob.idsDesc()
		// the trigger keeps requesting until the limit stops it whenever the run ended early
		ended := out.Elapsed < 2500*time.Millisecond
		if huge {
			ended = false
			if len(ids) == 0 {
				o.Fail("no-iteration-below-the-limit", fmt.Sprintf("%s run of 150ms with max-iterations %d: no iteration ran although the limit is nowhere near", mode, limit))
			}
		}
		o.Count("mode", mode)
		o.Case("c03_ok", []string{kit.Ints(ids), strconv.FormatUint(limit, 10), kit.B(ended)}, "T", "run", mode, "nt")
	}
}

// ---------------------------------------------------------------- C02: whole runs through the ticking goroutine of api.NewIterationWorker

// The rate function is scripted and logged; on its last scripted call it cancels the run and from
// then on requests 0, so every logged value was handed to the pool while triggering was on. The
// max-iterations limit, when set, is never reached (the workers are held, or the limit is far
// away), so nothing may be discarded: requested = started + dropped exactly, whatever the tick
// sizes are relative to the iterations the limit still allows.
func TestC02Runs(t *testing.T) {
	o := kit.Get()
	defer o.Close()
	r := kit.NewRand(kit.Seed() + 22)
	for i := 0; i < kit.N(10, 80); i++ {
		conc := int(r.Range(1, 4))
		held := r.Chance(70) // workers held until the run is cancelled: the pool stays saturated
		limit := uint64(0)
		switch r.Intn(3) {
		case 0:
			limit = uint64(conc) + uint64(r.Range(1, 6)) // near, but out of reach while the workers are held
			held = true
		case 1:
			limit = 100000
		}
		nticks := int(r.Range(3, 8))
		script := make([]int64, nticks)
		for k := range script {
			script[k] = kit.Pick(r, r.Range(0, 3), r.Range(3, 12), int64(conc), int64(conc)+r.Range(1, 9))
		}
		if i%5 == 2 {
			// a huge request superseded by the last ticks while the workers are held: hundreds of
			// thousands of drops are reported right before the run ends - all of them in its totals
			held, limit = true, 0
			nticks = 3
			script = []int64{r.Range(200000, 600000), 0, 0}
			if i%2 == 0 {
				// ... or still pending when the run is cancelled: reported dropped as triggering stops
				script = []int64{int64(conc), 0, r.Range(200000, 600000)}
			}
			o.Count("run", "burst superseded at the end")
		}
		ctx, cancel := context.WithCancel(context.Background())
		release := make(chan struct{})
		var mu sync.Mutex
		var values []int64
		calls := 0
		stallAt := 0
		if i%3 == 0 && nticks >= 4 {
			stallAt = 2
			o.Count("run", "ticking goroutine held up for more than two periods")
		}
		rateFn := func(time.Time) int {
			mu.Lock()
			defer mu.Unlock()
			calls++
			if calls > nticks {
				if calls == nticks+1 {
					cancel()
					close(release)
				}
				return 0
			}
			v := script[calls-1]
			values = append(values, v)
			if stallAt == calls {
				// the ticking goroutine is held up for more than two periods (a slow rate function, a
				// starved process): the tick it receives next is an old one - a request like any other
				time.Sleep(40 * time.Millisecond)
			}
			return int(v)
		}
		ob := &obs{live: map[*f1testing.T]bool{}}
		var phase, usersStarted atomic.Int64
		scenario := func(*f1testing.T) f1testing.RunFn {
			return func(t *f1testing.T) {
				if phase.Load() == 0 {
					usersStarted.Add(1) // an iteration of the users stage: not one of the rate trigger's requests
					time.Sleep(time.Millisecond)
					return
				}
				ob.enter(t)
				defer ob.leave(t)
				if held {
					<-release
				}
			}
		}
		trig := &api.Trigger{Trigger: api.NewIterationWorker(15*time.Millisecond, rateFn), Description: "verif"}
		// as in a config file: a users stage comes first on the run's pool manager, the rate
		// trigger is the second (and last) thing the run waits for
		usersFirst := i%4 == 1 || (i%5 == 2 && i%2 == 0)
		if usersFirst {
			rateStage := trig.Trigger
			trig.Trigger = func(c context.Context, out *ui.Output, pm *workers.PoolManager, opts options.RunOptions) {
				sctx, scancel := context.WithTimeout(c, 50*time.Millisecond)
				users.NewWorker(conc)(sctx, out, pm, opts)
				scancel()
				phase.Store(1)
				rateStage(c, out, pm, opts)
			}
			o.Count("run", "users stage first")
		} else {
			phase.Store(1)
		}
		cfg := runkit.Config{Mode: "custom", Scenario: scenario, Ctx: ctx,
			Opts: options.RunOptions{MaxDuration: 5 * time.Second, Concurrency: conc, MaxIterations: limit, IgnoreDropped: true}}
		out := runkit.DoWithTrigger(cfg, trig)
		cancel()
		if out.Err != nil || out.Result == nil {
			o.Fail("c02-run-error", fmt.Sprintf("run failed: %v", out.Err))
			continue
		}
		sn := out.Result.Snapshot()
		mu.Lock()
		var requested int64
		for _, v := range values {
			requested += v
		}
		vs := append([]int64(nil), values...)
		mu.Unlock()
		started := ob.started.Load()
		dropped := int64(sn.DroppedIterationCount)
		if limit > 0 && uint64(started+usersStarted.Load()) >= limit {
			o.Count("run", "limit reached (skipped)")
			continue
		}
		tags := []string{"run", "ticker"}
		if dropped > 0 {
			tags = append(tags, "nt")
		}
		o.Count("run", map[bool]string{true: "workers held", false: "instant workers"}[held]+map[bool]string{true: ", limit set", false: ", no limit"}[limit > 0])
		if requested != started+dropped {
			o.Fail("requests-lost-before-the-pool", fmt.Sprintf("ticks %v through api.NewIterationWorker, %d workers (held=%v), max-iterations %d: %d requested, %d started, %d reported dropped - %d request(s) neither started nor dropped although the limit was never reached",
				vs, conc, held, limit, requested, started, dropped, requested-started-dropped))
		}
		o.Case("c02_ok", []string{kit.I(requested), kit.I(started), kit.I(dropped), "F", "0"}, "T", tags...)
	}
}
