//go:build verif

package c12

import (
	"fmt"
	"testing"
	"time"

	"github.com/form3tech-oss/f1/v2/internal/trigger/api"
	"github.com/form3tech-oss/f1/v2/internal/trigger/ramp"
	"github.com/form3tech-oss/f1/v2/internal/verifh/kit"
)

var kinds = []string{"none", "regular", "random", "bogus"}

type dcase struct {
	kind     int // index in kinds
	interval int64
	rates    []int64
	rands    []int64
	calls    int
}

// run executes the case on api.NewDistribution with scripted oracles.
// A scripted source asked for more values than scripted returns 0, like the
// model's oracle (nth k l 0). The scripted random source panics for a
// non-positive argument exactly as rand.Intn does.
func run(c dcase) string {
	var iv time.Duration
	var outs []int64
	evals := 0
	var err error
	crashed, _ := kit.Guard(func() {
		ri := 0
		rateFn := func(time.Time) int {
			evals++
			if ri < len(c.rates) {
				v := c.rates[ri]
				ri++
				return int(v)
			}
			ri++
			return 0
		}
		di := 0
		randFn := func(n int) int {
			if n <= 0 {
				panic("invalid argument to Intn")
			}
			if di < len(c.rands) {
				v := c.rands[di]
				di++
				return int(v)
			}
			di++
			return 0
		}
		var fn api.RateFunction
		iv, fn, err = api.NewDistribution(api.DistributionType(kinds[c.kind]), time.Duration(c.interval), rateFn, randFn)
		if err != nil {
			return
		}
		// the time handed in is the ticker's: evenly spaced, or late, or with ticks lost while
		// the ticking goroutine was busy; the distribution counts calls, not time
		now := time.Unix(1700000000, 0)
		gaps := uint64(c.interval)*2654435761 + uint64(c.calls)
		for i := 0; i < c.calls; i++ {
			outs = append(outs, int64(fn(now)))
			gaps = gaps*6364136223846793005 + 1442695040888963407
			switch (gaps >> 33) % 8 {
			case 0:
				now = now.Add(2 * iv) // one tick lost
			case 1:
				now = now.Add(iv + iv/3) // late
			case 2:
				now = now.Add(5 * iv) // a stall
			default:
				now = now.Add(iv)
			}
		}
	})
	return kit.Res(crashed, err, kit.List(kit.I(int64(iv)), kit.Ints(outs), kit.I(evals)))
}

// runInterleaved builds one distribution per case and steps them in turn, one call each per round -
// several triggers alive in one process (the stages of a file, a chart next to a run). Every one of
// them is its own: the result per case is what run gives for that case alone.
func runInterleaved(cs []dcase) []string {
	type inst struct {
		iv    time.Duration
		fn    api.RateFunction
		err   error
		outs  []int64
		evals int
		now   time.Time
		gaps  uint64
		crash bool
	}
	insts := make([]*inst, len(cs))
	for k := range cs {
		c, in := cs[k], &inst{}
		insts[k] = in
		in.crash, _ = kit.Guard(func() {
			ri, di := 0, 0
			rateFn := func(time.Time) int {
				in.evals++
				ri++
				if ri-1 < len(c.rates) {
					return int(c.rates[ri-1])
				}
				return 0
			}
			randFn := func(n int) int {
				if n <= 0 {
					panic("invalid argument to Intn")
				}
				di++
				if di-1 < len(c.rands) {
					return int(c.rands[di-1])
				}
				return 0
			}
			in.iv, in.fn, in.err = api.NewDistribution(api.DistributionType(kinds[c.kind]), time.Duration(c.interval), rateFn, randFn)
		})
		in.now = time.Unix(1700000000, 0)
		in.gaps = uint64(c.interval)*2654435761 + uint64(c.calls)
	}
	for round := 0; ; round++ {
		active := false
		for k, in := range insts {
			if in.crash || in.err != nil || round >= cs[k].calls {
				continue
			}
			active = true
			crashed, _ := kit.Guard(func() { in.outs = append(in.outs, int64(in.fn(in.now))) })
			if crashed {
				in.crash = true
				continue
			}
			in.gaps = in.gaps*6364136223846793005 + 1442695040888963407
			switch (in.gaps >> 33) % 8 {
			case 0:
				in.now = in.now.Add(2 * in.iv)
			case 1:
				in.now = in.now.Add(in.iv + in.iv/3)
			case 2:
				in.now = in.now.Add(5 * in.iv)
			default:
				in.now = in.now.Add(in.iv)
			}
		}
		if !active {
			break
		}
	}
	res := make([]string, len(cs))
	for k, in := range insts {
		res[k] = kit.Res(in.crash, in.err, kit.List(kit.I(int64(in.iv)), kit.Ints(in.outs), kit.I(in.evals)))
	}
	return res
}

func emitInterleaved(o *kit.Out, r *kit.Rand) {
	n := int64(kit.Pick(r, 10, 10, 7, 25))
	cycles := int(r.Range(70, 110))
	steady := dcase{1, n * 100_000_000, nil, nil, cycles * int(n)}
	base := r.Range(1, 9)
	for k := 0; k < cycles; k++ {
		steady.rates = append(steady.rates, base)
	}
	moving := dcase{1, n * 100_000_000, nil, nil, cycles * int(n)}
	v := r.Range(3, 30)
	for k := 0; k < cycles; k++ {
		moving.rates = append(moving.rates, v)
		v += r.Range(1, 7)
	}
	cs := []dcase{steady, moving}
	if r.Bool() {
		rnd := gen(r, false)
		cs = append(cs, rnd)
	}
	for k, impl := range runInterleaved(cs) {
		o.Case("dist", cs[k].args(), impl, "interleaved", "nt")
	}
	o.Count("kind", "interleaved instances")
}

// rampCycles: the distribution as the ramp trigger composes it, the ramp ending INSIDE a cycle
// (a ramp duration that is no whole number of rate units): every cycle that began within the ramp
// hands out, over its sub-ticks, exactly the value the undistributed ramp has at the cycle's start.
func rampCycles(o *kit.Out, r *kit.Rand) {
	a, b := r.Range(5, 60), r.Range(61, 200)
	dur := time.Duration(r.Range(2, 6))*time.Second + time.Duration(kit.Pick(r, 300, 500, 700))*time.Millisecond
	dist := kit.Pick(r, "regular", "random")
	spec := func(v int64) string { return kit.I(v) + "/1s" }
	dr, e1 := ramp.CalculateRampRate(spec(a), spec(b), dist, dur, 0)
	pr, e2 := ramp.CalculateRampRate(spec(a), spec(b), "none", dur, 0)
	if e1 != nil || e2 != nil || dr.IterationDuration != 100*time.Millisecond {
		o.Fail("c12-ramp-build", "ramp with distribution "+dist+" could not be built")
		return
	}
	start := time.Unix(1_700_000_000, 0)
	cycles := int(dur/time.Second) + 2
	var want, got []int64
	for c := 0; c < cycles; c++ {
		at := start.Add(time.Duration(c) * time.Second)
		want = append(want, int64(pr.Rate(at)))
		var sum int64
		for k := 0; k < 10; k++ {
			sum += int64(dr.Rate(at.Add(time.Duration(k) * 100 * time.Millisecond)))
		}
		got = append(got, sum)
	}
	o.Count("kind", "ramp ending inside a cycle, "+dist)
	for c := range want {
		if want[c] != got[c] {
			o.Fail("dist-total-or-shape", fmt.Sprintf("ramp %s -> %s over %s with distribution %s: cycle sums %v, the undistributed ramp at the cycle starts %v", spec(a), spec(b), dur, dist, got, want))
			break
		}
	}
}

func (c dcase) args() []string {
	return []string{kit.I(c.kind), kit.I(c.interval), kit.Ints(c.rates), kit.Ints(c.rands), kit.I(c.calls)}
}

func steps(interval int64) int64 { return (interval / 1000000) / 100 }

func emit(o *kit.Out, c dcase, how string) {
	impl := run(c)
	tags := []string{how}
	n := steps(c.interval)
	nt := false
	if (c.kind == 1 || c.kind == 2) && c.interval > 100_000_000 {
		for _, r := range c.rates {
			if n > 0 && r%n != 0 {
				nt = true
			}
		}
	}
	if nt {
		tags = append(tags, "nt")
	}
	o.Case("dist", c.args(), impl, tags...)
	o.Count("kind", kinds[c.kind])
	o.Count("N", kit.Bucket(n))
}

func genRates(r *kit.Rand, cycles int, n int64) []int64 {
	rates := make([]int64, cycles)
	mode := r.Intn(5)
	base := r.Range(0, 300)
	for i := range rates {
		switch mode {
		case 0:
			rates[i] = base
		case 1:
			rates[i] = r.Range(0, 3*n+5)
		case 2:
			rates[i] = r.Range(0, 1<<31)
		case 3:
			rates[i] = kit.Pick(r, int64(0), 1, n-1, n, n+1, 2*n-1, 2*n+1)
			if rates[i] < 0 {
				rates[i] = 0
			}
		default:
			rates[i] = base + int64(i)*r.Range(0, 7)
		}
	}
	return rates
}

func gen(r *kit.Rand, big bool) dcase {
	var c dcase
	c.kind = kit.Pick(r, 1, 1, 1, 2, 2, 0, 3)
	// interval: mostly whole multiples of 100ms, sometimes ragged, sometimes <= 100ms
	var n int64
	switch r.Intn(10) {
	case 0:
		c.interval = kit.Pick(r, int64(0), 1, 50_000_000, 99_999_999, 100_000_000, 100_000_001, 199_999_999)
	case 1, 2:
		n = r.Range(1, 40)
		c.interval = n*100_000_000 + r.Range(0, 99_999_999)
	default:
		lim := int64(300)
		if big {
			lim = 3000
		}
		n = r.Range(1, lim)
		if r.Chance(30) {
			n = r.Range(1, 12)
		}
		c.interval = n * 100_000_000
	}
	n = steps(c.interval)
	if n < 1 {
		n = 1
	}
	cycles := int(r.Range(1, 6))
	if n <= 20 && r.Chance(30) {
		cycles = int(r.Range(1, 50))
	}
	c.rates = genRates(r, cycles, n)
	c.calls = int(int64(cycles) * n)
	if r.Chance(15) {
		c.calls = int(r.Range(0, int64(c.calls)+n)) // partial cycles too
	}
	if (c.kind == 2 || c.kind == 1) && r.Chance(6) {
		// negative rates (negative staged targets, NaN gaussian rates) must not crash
		for i := range c.rates {
			if r.Chance(50) {
				c.rates[i] = -r.Range(1, 3*n+5)
			}
		}
	}
	if c.kind == 2 {
		k := c.calls
		c.rands = make([]int64, k)
		mode := r.Intn(4)
		for i := range c.rands {
			switch mode {
			case 0:
				c.rands[i] = r.Range(0, 5)
			case 1:
				c.rands[i] = r.Range(0, 3*n)
			case 2:
				c.rands[i] = kit.Pick(r, int64(0), 0, 1, 1<<40)
			default:
				c.rands[i] = r.Range(0, 1<<31)
			}
		}
	}
	return c
}

func TestC12(t *testing.T) {
	o := kit.Get()
	defer o.Close()
	r := kit.NewRand(kit.Seed())

	// corpus: the refutation witness of the pinned float accumulator
	// (N, rate) = (2083, 15150070723101): one full cycle.
	emit(o, dcase{1, 2083 * 100_000_000, []int64{15150070723101}, nil, 2083}, "corpus")
	// goldens of the suite
	emit(o, dcase{1, 900_000_000, []int64{7}, nil, 9}, "corpus")
	emit(o, dcase{1, 1_000_000_000, []int64{5, 15, 12, 8}, nil, 40}, "corpus")
	emit(o, dcase{2, 1_000_000_000, []int64{28}, []int64{0, 1, 0, 0, 1, 0, 0, 0, 7}, 10}, "corpus")
	emit(o, dcase{2, 200_000_000, []int64{1}, []int64{5}, 2}, "corpus")

	if kit.Thorough() {
		// exhaustive small scope: N <= 60 x rate <= 400, one cycle each
		for n := int64(1); n <= 60; n++ {
			for rate := int64(0); rate <= 400; rate++ {
				emit(o, dcase{1, n * 100_000_000, []int64{rate}, nil, int(n)}, "exhaustive")
			}
		}
		// long cycles: one hour and one day of sub-ticks
		emit(o, dcase{1, 36000 * 100_000_000, []int64{35999, 36001, 1}, nil, 3 * 36000}, "long")
		emit(o, dcase{1, 864000 * 100_000_000, []int64{863999}, nil, 864000}, "long")
	}

	for i := 0; i < kit.N(3, 40); i++ {
		emitInterleaved(o, r)
	}
	for i := 0; i < kit.N(6, 60); i++ {
		rampCycles(o, r)
	}
	n := kit.N(1500, 20000)
	for i := 0; i < n; i++ {
		emit(o, gen(r, kit.Thorough()), "gen")
	}
}
