//go:build verif

package c06

import (
	"context"
	"errors"
	"fmt"
	"os"
	"runtime"
	"strconv"
	"strings"
	"sync"
	"sync/atomic"
	"testing"
	"time"

	"github.com/sirupsen/logrus"
	"github.com/stretchr/testify/assert"
	"github.com/stretchr/testify/require"

	"github.com/form3tech-oss/f1/v2/internal/metrics"
	"github.com/form3tech-oss/f1/v2/internal/options"
	"github.com/form3tech-oss/f1/v2/internal/progress"
	"github.com/form3tech-oss/f1/v2/internal/verifh/kit"
	"github.com/form3tech-oss/f1/v2/internal/verifh/runkit"
	"github.com/form3tech-oss/f1/v2/internal/workers"
	"github.com/form3tech-oss/f1/v2/pkg/f1"
	"github.com/form3tech-oss/f1/v2/pkg/f1/scenarios"
	f1testing "github.com/form3tech-oss/f1/v2/pkg/f1/testing"
)

// ---------------------------------------------------------------- action DSL

type act struct {
	kind int // 0 register c, 1 fail, 2 failnow, 3 panic(error), 4 panic(non-error), 5 mark n
	arg  int
	how  int // which API variant performs it
}

func (a act) enc() string {
	switch a.kind {
	case 0, 5:
		return kit.List(kit.I(a.kind), kit.I(a.arg))
	}
	return kit.List(kit.I(a.kind))
}

func encActs(as []act) string {
	items := make([]string, len(as))
	for i, a := range as {
		items[i] = a.enc()
	}
	return kit.List(items...)
}

func encTab(tab [][]act) string {
	items := make([]string, len(tab))
	for i, as := range tab {
		items[i] = encActs(as)
	}
	return kit.List(items...)
}

type prog struct {
	tab [][]act
	log *[]int64
	mu  *sync.Mutex
	div chan struct{} // closed when the event log grows beyond any finite case: the code under test diverges
}

const divergeAt = 100000

func (p prog) emit(v int64) {
	p.mu.Lock()
	*p.log = append(*p.log, v)
	n := len(*p.log)
	p.mu.Unlock()
	if n == divergeAt && p.div != nil {
		close(p.div)
	}
	if n >= divergeAt {
		select {} // park the diverging goroutine; the harness reports the case
	}
}

// the process-wide metrics instance that T.Time records stage durations on is created by the
// root command of a real f1 binary; the harness does the same once
func init() { metrics.Init(true) }

type custom struct{ x int }

type fieldErrors []string

func (f fieldErrors) Error() string { return "invalid fields" }

// exec runs an action list against a real T.
// timed: the action runs inside a t.Time stage (transparent to control flow: the stage's
// function is simply called, its duration recorded as a stage metric)
func (a act) timed() bool {
	if a.kind == 0 || a.kind == 5 {
		return a.how == 1
	}
	return a.how >= 32
}

func (p prog) exec(t *f1testing.T, as []act) {
	for _, a := range as {
		if a.timed() {
			b := a
			if b.kind == 0 || b.kind == 5 {
				b.how = 0
			} else {
				b.how -= 32
			}
			t.Time("stage", func() { p.exec(t, []act{b}) })
			continue
		}
		switch a.kind {
		case 0:
			c := a.arg
			t.Cleanup(func() {
				p.emit(int64(2*c + 1))
				p.exec(t, p.tab[c])
			})
		case 1:
			switch a.how % 3 {
			case 0:
				t.Fail()
			case 1:
				t.Error(errors.New("boom"))
			default:
				t.Errorf("boom %d", 1)
			}
		case 2:
			switch a.how % 5 {
			case 0:
				t.FailNow()
			case 1:
				t.Fatal(errors.New("fatal"))
			case 2:
				t.Fatalf("fatal %d", 2)
			case 3:
				t.Require().Equal(1, 2)
			default:
				require.True(t, false)
			}
		case 3:
			switch a.how % 7 {
			case 5:
				// Error / Fatal with a nil error: the iteration fails and the body stops there (on the
				// pinned code through the nil dereference inside the logging of the error)
				var noErr error
				t.Error(noErr)
				panic("unreachable: Error(nil) returned")
			case 6:
				var noErr error
				t.Fatal(noErr)
				panic("unreachable: Fatal(nil) returned")
			case 4:
				panic(fieldErrors{"a"}) // an error of a non-comparable dynamic type
			case 0:
				panic(errors.New("an error value"))
			case 1:
				var m map[string]int
				m["x"] = 1 // runtime error (implements error)
			case 2:
				var s []int
				_ = s[a.how] // index out of range
			default:
				panic(fmt.Errorf("wrapped: %w", errors.New("inner")))
			}
		case 4:
			switch a.how % 7 {
			case 6:
				// a value whose own String method panics (a typed nil pointer): whatever handles the
				// panic must not call it unguarded
				var tm *time.Time
				panic(tm)
			case 4:
				panic([]int{1, 2})
			case 5:
				panic(map[string]int{"x": 1})
			case 0:
				panic("a string")
			case 1:
				panic(42)
			case 2:
				panic(custom{7})
			default:
				panic(3.5)
			}
		case 5:
			p.emit(int64(2 * a.arg))
			if a.arg%3 != 2 {
				// an assertion that holds, made through the handle's own assertion object: it changes
				// nothing, whichever handle (setup, iteration, cleanup) it is made on
				t.Require().True(true)
				assert.NotNil(t, t)
			}
		}
	}
}

func genActs(r *kit.Rand, ncleanups int, maxLen int, markBase *int, failBias int) []act {
	n := int(r.Range(0, int64(maxLen)))
	var as []act
	for i := 0; i < n; i++ {
		x := r.Intn(100)
		switch {
		case x < 30 && ncleanups > 0:
			as = append(as, act{0, r.Intn(ncleanups), kit.Pick(r, 0, 0, 0, 1)})
		case x < 30+failBias:
			as = append(as, act{kit.Pick(r, 1, 2, 3, 4), 0, r.Intn(20) + kit.Pick(r, 0, 0, 32)})
		default:
			*markBase++
			as = append(as, act{5, 100 + *markBase, kit.Pick(r, 0, 0, 0, 1)})
		}
	}
	return as
}

func genTab(r *kit.Rand, markBase *int) [][]act {
	n := int(r.Range(0, 6))
	tab := make([][]act, n)
	for c := range tab {
		// cleanups log, may fail/panic, may register further cleanups
		tab[c] = genActs(r, n, 3, markBase, 25)
	}
	return tab
}

func newActive(name string, fn f1testing.ScenarioFn, stats *progress.Stats) *workers.ActiveScenario {
	return newActiveOf(&scenarios.Scenario{Name: name, ScenarioFn: fn}, stats)
}

// newActiveOf runs a registered scenario object: a second execution in one process gets the same object
// the handles' logger rotates between f1's discard logger, one with every level enabled and one
// with no level enabled at all: outcomes must not depend on what the logger lets through
var loggerKind atomic.Int64

func newActiveOf(sc *scenarios.Scenario, stats *progress.Stats) *workers.ActiveScenario {
	return newActiveOfM(sc, stats, runkit.NewMetrics(nil, true))
}

func newActiveOfM(sc *scenarios.Scenario, stats *progress.Stats, m *metrics.Metrics) *workers.ActiveScenario {
	return workers.NewActiveScenario(sc, m, stats, runkit.Logger(int(loggerKind.Add(1))), logrus.New())
}

// ---------------------------------------------------------------- C06/C07: one worker, generated bodies

func TestC06Worker(t *testing.T) {
	o := kit.Get()
	defer o.Close()
	r := kit.NewRand(kit.Seed() + 6)
	n := kit.N(600, 8000)
	for i := 0; i < n; i++ {
		mb := 0
		var logv []int64
		p := prog{tab: genTab(r, &mb), log: &logv, mu: &sync.Mutex{}, div: make(chan struct{})}
		nb := int(r.Range(1, 8))
		bodies := make([][]act, nb)
		for k := range bodies {
			bodies[k] = genActs(r, len(p.tab), 7, &mb, kit.Pick(r, 0, 10, 30))
		}
		stats := &progress.Stats{}
		cur := 0
		var dirty int64
		as := newActive("c06w", func(*f1testing.T) f1testing.RunFn {
			return func(t *f1testing.T) {
				if t.Failed() {
					dirty++
				}
				p.exec(t, bodies[cur])
			}
		}, stats)
		as.Setup()
		st := as.VerifNewIterationState()
		tt := workers.VerifStateT(st)
		var outcomes []string
		var crashed bool
		var pv any
		caseDone := make(chan struct{})
		go func() {
			defer close(caseDone)
			crashed, pv = kit.Guard(func() {
				for k := range bodies {
					cur = k
					before := stats.Total()
					tt.Reset(strconv.Itoa(k + 1))
					as.Run(st)
					after := stats.Total()
					ds := after.SuccessfulIterationDurations.Count - before.SuccessfulIterationDurations.Count
					df := after.FailedIterationDurations.Count - before.FailedIterationDurations.Count
					switch {
					case ds == 1 && df == 0:
						outcomes = append(outcomes, "F")
					case ds == 0 && df == 1:
						outcomes = append(outcomes, "T")
					default:
						outcomes = append(outcomes, fmt.Sprintf("%d", 100+ds*10+df))
					}
				}
			})
		}()
		select {
		case <-caseDone:
		case <-p.div:
			o.Fail("worker-diverged", "one worker, cleanup table "+encTab(p.tab)+", bodies "+kit.List(mapActs(bodies)...)+": the iteration never ends (more than 100000 cleanup/mark events)")
			continue
		case <-time.After(30 * time.Second):
			o.Fail("worker-stuck", "one worker, cleanup table "+encTab(p.tab)+", bodies "+kit.List(mapActs(bodies)...)+": the iterations did not finish within 30s")
			return
		}
		if crashed {
			o.Fail("worker-crash", fmt.Sprintf("a panic escaped the iteration: %v", pv))
		}
		if dirty > 0 {
			o.Fail("dirty-handle", fmt.Sprintf("T.Failed() was true at body entry %d times", dirty))
		}
		tags := []string{"worker"}
		nt := false
		for _, b := range bodies {
			reg, stop := false, false
			for _, a := range b {
				if a.kind == 0 {
					reg = true
				}
				if a.kind >= 2 && a.kind <= 4 {
					stop = true
				}
			}
			if reg && stop {
				nt = true
			}
		}
		if nt {
			tags = append(tags, "nt")
		}
		o.Count("bodies", kit.I(nb))
		o.Count("cleanups", kit.I(len(p.tab)))
		o.Case("worker_obs", []string{encTab(p.tab), kit.List(mapActs(bodies)...)},
			"ok "+kit.List(kit.Ints(logv), kit.List(outcomes...)), tags...)
	}
}

func mapActs(bs [][]act) []string {
	items := make([]string, len(bs))
	for i, b := range bs {
		items[i] = encActs(b)
	}
	return items
}

// ---------------------------------------------------------------- C06: run lifecycle through Run.Do

func TestC06Run(t *testing.T) {
	o := kit.Get()
	defer o.Close()
	r := kit.NewRand(kit.Seed() + 66)
	n := kit.N(60, 500)
	for i := 0; i < n; i++ {
		mb := 0
		var logv []int64
		p := prog{tab: genTab(r, &mb), log: &logv, mu: &sync.Mutex{}, div: make(chan struct{})}
		setupActs := genActs(r, len(p.tab), 6, &mb, kit.Pick(r, 0, 0, 15, 40))
		var iters, finishedIters atomic.Int64
		var lateBody atomic.Int64
		var inFlightAtTeardown atomic.Int64
		var tornDown, setupOK atomic.Bool
		// a run that lasts longer than the completion timeout, with iterations in flight when the
		// triggering stops: the setup cleanups still wait for them (they finish well within the timeout)
		longRun := i%5 == 4
		scenario := func(st *f1testing.T) f1testing.RunFn {
			// first registered = last to run: marks the end of the teardown phase
			st.Cleanup(func() { tornDown.Store(true) })
			p.exec(st, setupActs)
			setupOK.Store(!st.Failed()) // reached only when the setup neither panicked nor stopped
			// last registered = first to run: every started iteration must have finished by now
			st.Cleanup(func() { inFlightAtTeardown.Store(iters.Load() - finishedIters.Load()) })
			return func(t *f1testing.T) {
				if tornDown.Load() {
					lateBody.Add(1)
				}
				iters.Add(1)
				if longRun {
					time.Sleep(100 * time.Millisecond)
				}
				finishedIters.Add(1)
			}
		}
		mode := kit.Pick(r, "users", "constant")
		flags := map[string]string{}
		if mode == "constant" {
			flags["rate"] = "5/10ms"
			flags["distribution"] = "none"
		}
		ending := kit.Pick(r, "limit", "duration", "cancel")
		if longRun {
			ending = "duration"
		}
		opts := options.RunOptions{MaxDuration: 80 * time.Millisecond, Concurrency: 2, IgnoreDropped: true}
		// failure tolerances are about failed iterations: a failed setup or a failing setup cleanup
		// fails the run whatever tolerance it was given
		switch i % 3 {
		case 1:
			opts.MaxFailures = 1000
		case 2:
			opts.MaxFailuresRate = 100
		}
		if longRun {
			opts.MaxDuration = 550 * time.Millisecond
		}
		ctx, cancel := context.WithCancel(context.Background())
		switch ending {
		case "limit":
			opts.MaxIterations = uint64(r.Range(1, 20))
			opts.MaxDuration = 2 * time.Second
		case "cancel":
			opts.MaxDuration = 2 * time.Second
			go func() { time.Sleep(time.Duration(r.Range(0, 30)) * time.Millisecond); cancel() }()
		}
		var out runkit.Outcome
		var hung bool
		var dump string
		och := make(chan runkit.Outcome, 1)
		// the measured run is the second one on its registration: an earlier run of the same
		// registered scenario (its setup passed, it ran two iterations, it was torn down) is over
		rerun := i%4 == 1
		var scs *scenarios.Scenarios
		if rerun {
			current := func(st *f1testing.T) f1testing.RunFn {
				st.Cleanup(func() {})
				return func(*f1testing.T) {}
			}
			scs = scenarios.New()
			scs.Add(&scenarios.Scenario{Name: "verifscenario", ScenarioFn: func(st *f1testing.T) f1testing.RunFn { return current(st) }})
			first, h, _ := runkit.DoTimeout(runkit.Config{Mode: "users", Scenarios: scs, Ctx: context.Background(),
				Opts: options.RunOptions{MaxDuration: 2 * time.Second, Concurrency: 1, MaxIterations: 2}}, 60*time.Second)
			if h || first.Err != nil {
				o.Fail("run-error", "the earlier run on the registration did not complete")
				continue
			}
			current = scenario
			o.Count("run", "second run on one registration")
		}
		go func() {
			rcfg := runkit.Config{Mode: mode, Flags: flags, Scenario: scenario, Scenarios: scs, Opts: opts, Ctx: ctx}
			if longRun {
				rcfg.Wait = 400 * time.Millisecond // completion timeout shorter than the run, longer than any iteration
			}
			oc, h, d := runkit.DoTimeout(rcfg, 60*time.Second)
			hung, dump = h, d
			och <- oc
		}()
		select {
		case out = <-och:
		case <-p.div:
			cancel()
			o.Fail("run-diverged", "run ("+mode+","+ending+") with cleanup table "+encTab(p.tab)+" and setup "+encActs(setupActs)+": the teardown never ends (more than 100000 cleanup/mark events)")
			continue
		}
		cancel()
		if hung {
			o.Fail("run-hung", "Run.Do did not return within 60s ("+mode+","+ending+"): "+dump[:min(len(dump), 2500)])
			continue
		}
		if out.Err != nil || out.Result == nil {
			o.Fail("run-error", fmt.Sprintf("Run.Do failed: %v", out.Err))
			continue
		}
		if inFlightAtTeardown.Load() > 0 {
			o.Fail("teardown-before-iterations-finished", fmt.Sprintf("the setup cleanups started while %d started iteration(s) were still executing (%s, %s; run of %s, completion timeout %s, iterations of 100ms)",
				inFlightAtTeardown.Load(), mode, ending, opts.MaxDuration, map[bool]string{true: "400ms", false: "default"}[longRun]))
		}
		if longRun {
			o.Count("run", "longer than the completion timeout, iterations in flight at the end")
		}
		if lateBody.Load() > 0 {
			o.Fail("body-after-teardown", fmt.Sprintf("%d iteration bodies started after the setup cleanups ran (%s,%s)", lateBody.Load(), mode, ending))
		}
		p.mu.Lock()
		evs := append([]int64(nil), logv...)
		p.mu.Unlock()
		tags := []string{"run", mode, ending}
		if len(p.tab) > 0 {
			tags = append(tags, "nt")
		}
		// a cancel before the first tick legitimately yields zero iterations: the model only
		// says whether iterations are allowed to run, so report "ran" as "allowed" in that case
		ran := iters.Load() > 0
		if !ran && setupOK.Load() && ending == "cancel" {
			ran = true
			o.Count("run", "cancelled-before-first-iteration")
		}
		o.Case("run_obs", []string{encTab(p.tab), encActs(setupActs)},
			"ok "+kit.List(kit.Ints(evs), kit.B(ran), kit.B(out.Result.Failed())), tags...)
	}
}

// ---------------------------------------------------------------- C20: combined scenarios

func TestC20(t *testing.T) {
	o := kit.Get()
	defer o.Close()
	r := kit.NewRand(kit.Seed() + 20)
	n := kit.N(500, 6000)
	for i := 0; i < n; i++ {
		mb := 0
		var logv []int64
		p := prog{tab: genTab(r, &mb), log: &logv, mu: &sync.Mutex{}}
		nc := int(r.Range(0, 8))
		type comp struct{ setup, run []act }
		comps := make([]comp, nc)
		var fns []f1testing.ScenarioFn
		var setupHandles, runHandles []*f1testing.T
		warm := false
		warmed := uint64(0) // the warm-up iteration is a recorded success of its own
		stopBias := kit.Pick(r, 0, 0, 8, 25)
		for ci := range comps {
			comps[ci].setup = append([]act{{5, 2*ci + 1000, 0}}, genActs(r, len(p.tab), 3, &mb, stopBias/2)...)
			comps[ci].run = append([]act{{5, 2*ci + 1001, 0}}, genActs(r, len(p.tab), 4, &mb, stopBias)...)
			c := comps[ci]
			fns = append(fns, func(st *f1testing.T) f1testing.RunFn {
				setupHandles = append(setupHandles, st)
				p.exec(st, c.setup)
				return func(t *f1testing.T) {
					if warm {
						return // the warm-up iteration: every component passes, nothing is registered
					}
					runHandles = append(runHandles, t)
					p.exec(t, c.run)
				}
			})
		}
		stats := &progress.Stats{}
		combined := f1.CombineScenarios(fns...)
		registered := &scenarios.Scenario{Name: "c20", ScenarioFn: combined}
		// one metrics instance for everything this process does with the scenario, reset at the
		// start of every run as Run.Do does
		m := runkit.NewMetrics(nil, true)
		if r.Chance(40) {
			// the same combined scenario value is set up more than once in a process (a second
			// execution, or registered under two names): every setup stands on its own
			m.Reset()
			pre := newActiveOfM(registered, &progress.Stats{}, m)
			pre.Setup()
			if !pre.Failed() && r.Bool() {
				st0 := pre.VerifNewIterationState()
				workers.VerifStateT(st0).Reset("1")
				pre.Run(st0)
			}
			p.mu.Lock()
			logv = logv[:0]
			p.mu.Unlock()
			setupHandles, runHandles = nil, nil
			o.Count("setups", "second setup of the same combined scenario")
		} else {
			o.Count("setups", "first setup")
		}
		m.Reset()
		as := newActiveOfM(registered, stats, m)
		as.Setup()
		setupEvents := append([]int64(nil), logv...)
		setupFailed := as.Failed()
		logv = logv[:0]
		k := int(r.Range(1, 4))
		var outcomes []string
		if !setupFailed {
			st := as.VerifNewIterationState()
			tt := workers.VerifStateT(st)
			if r.Bool() {
				// the worker's handle has already been through an iteration that passed and left
				// nothing behind: the iterations that follow start from a clean handle all the same
				warm = true
				tt.Reset("0")
				as.Run(st)
				warm = false
				warmed = 1
				o.Count("handle", "recycled after a clean iteration")
			}
			for it := 0; it < k; it++ {
				runHandles = runHandles[:0]
				before := stats.Total()
				tt.Reset(strconv.Itoa(it + 1))
				as.Run(st)
				after := stats.Total()
				outcomes = append(outcomes, kit.B(after.FailedIterationDurations.Count > before.FailedIterationDurations.Count))
				for _, h := range runHandles {
					if h != tt {
						o.Fail("c20-handle", "a component's iteration function received a handle other than the iteration's")
					}
				}
			}
		} else {
			k = 0
		}
		for _, h := range setupHandles {
			if h != as.VerifSetupT() {
				o.Fail("c20-setup-handle", "a component's setup received a handle other than the setup handle")
			}
		}
		// the exported iteration metric reports the compared iterations by their outcome, whatever
		// ran on the instance before the reset
		if !setupFailed {
			iter, _, _ := runkit.SampleCounts(m)
			var nf, ns uint64
			for _, oc := range outcomes {
				if oc == "T" {
					nf++
				} else {
					ns++
				}
			}
			ns += warmed
			if iter["fail"] != nf || iter["success"] != ns {
				o.Fail("c20-metric-outcomes", fmt.Sprintf("%d iterations of a combined scenario (%d reported failed): the exported iteration metric holds %d fail / %d success samples", len(outcomes), nf, iter["fail"], iter["success"]))
			}
		}
		items := make([]string, nc)
		for ci, c := range comps {
			items[ci] = kit.List(encActs(c.setup), encActs(c.run))
		}
		tags := []string{"combine"}
		if nc >= 2 {
			tags = append(tags, "nt")
		}
		o.Count("components", kit.I(nc))
		o.Case("combine_obs", []string{encTab(p.tab), kit.List(items...), kit.I(k)},
			"ok "+kit.List(kit.List(kit.Ints(setupEvents), kit.B(setupFailed)), kit.List(kit.Ints(logv), kit.List(outcomes...))), tags...)
	}
}

// ---------------------------------------------------------------- C06: per-iteration cleanups when an iteration outlives its stage

// A config-file run starts a pool per stage; an iteration still running when the next stage
// starts must keep its own cleanups: each runs exactly once, after its body.
func TestC06FileCleanups(t *testing.T) {
	o := kit.Get()
	defer o.Close()
	r := kit.NewRand(kit.Seed() + 67)
	dir := t.TempDir()
	for i := 0; i < kit.N(2, 14); i++ {
		var mu sync.Mutex
		started := map[string]int{}
		cleaned := map[string]int{}
		early := 0 // cleanups that ran before their body had finished
		finished := map[string]bool{}
		scenario := func(*f1testing.T) f1testing.RunFn {
			return func(t *f1testing.T) {
				id := t.Iteration
				mu.Lock()
				started[id]++
				mu.Unlock()
				t.Cleanup(func() {
					mu.Lock()
					cleaned[id]++
					if !finished[id] {
						early++
					}
					mu.Unlock()
				})
				n, _ := strconv.Atoi(id)
				time.Sleep(time.Duration(n%4) * 25 * time.Millisecond)
				mu.Lock()
				finished[id] = true
				mu.Unlock()
			}
		}
		_, yaml := runkit.QuickMode("file", r.Intn(6))
		path := dir + "/c06f_" + strconv.Itoa(i) + ".yaml"
		_ = os.WriteFile(path, []byte(yaml), 0o600)
		out, hung, dump := runkit.DoTimeout(runkit.Config{Mode: "file", FileArg: path, Scenario: scenario, Ctx: context.Background(),
			Opts: options.RunOptions{}}, 60*time.Second)
		if hung {
			o.Fail("run-hung", "file run did not return: "+dump[:min(len(dump), 2000)])
			continue
		}
		if out.Err != nil {
			o.Fail("run-error", fmt.Sprintf("file run failed: %v", out.Err))
			continue
		}
		mu.Lock()
		var bodyRuns, cleanupRuns []int64
		for _, id := range kit.SortedKeys(started) {
			bodyRuns = append(bodyRuns, int64(started[id]))
			cleanupRuns = append(cleanupRuns, int64(cleaned[id]))
		}
		e := early
		mu.Unlock()
		o.Count("file-run-iterations", kit.Bucket(int64(len(bodyRuns))))
		o.Case("cleanups_once_ok", []string{kit.Ints(bodyRuns), kit.Ints(cleanupRuns), kit.I(e)}, "T", "file-cleanups", "nt")
	}
}

// A users stage followed by a rate stage whose iterations are still executing when triggering
// ends: the setup cleanups run only after every started iteration has finished (the completion
// timeout is far away), and the run returns after them.
func TestC06FileTeardown(t *testing.T) {
	o := kit.Get()
	defer o.Close()
	r := kit.NewRand(kit.Seed() + 68)
	dir := t.TempDir()
	for i := 0; i < kit.N(3, 16); i++ {
		var started, finished atomic.Int64
		var atTeardown atomic.Int64
		atTeardown.Store(-1)
		body := time.Duration(r.Range(120, 260)) * time.Millisecond
		scenario := func(st *f1testing.T) f1testing.RunFn {
			st.Cleanup(func() { atTeardown.Store(started.Load() - finished.Load()) })
			return func(*f1testing.T) {
				started.Add(1)
				time.Sleep(body)
				finished.Add(1)
			}
		}
		first := "  - duration: 80ms\n    mode: users\n    concurrency: 2\n"
		if r.Chance(30) {
			first = "  - duration: 80ms\n    mode: constant\n    rate: 1/20ms\n"
		}
		yaml := "scenario: verifscenario\ndefault:\n  jitter: 0\n  distribution: none\n  concurrency: 2\n" +
			"limits:\n  max-duration: 5s\n  concurrency: 6\n  max-iterations: 0\n  ignore-dropped: true\nstages:\n" + first +
			"  - duration: " + strconv.Itoa(int(r.Range(150, 300))) + "ms\n    mode: constant\n    rate: 1/40ms\n"
		if r.Bool() {
			yaml += "  - duration: 100ms\n    mode: users\n    concurrency: 1\n"
		}
		path := dir + "/c06t_" + strconv.Itoa(i) + ".yaml"
		_ = os.WriteFile(path, []byte(yaml), 0o600)
		out, hung, dump := runkit.DoTimeout(runkit.Config{Mode: "file", FileArg: path, Scenario: scenario, Ctx: context.Background(),
			Opts: options.RunOptions{}}, 60*time.Second)
		if hung {
			o.Fail("run-hung", "file run did not return: "+dump[:min(len(dump), 2000)])
			continue
		}
		if out.Err != nil {
			o.Fail("run-error", fmt.Sprintf("file run failed: %v", out.Err))
			continue
		}
		unfinished := started.Load() - finished.Load()
		if atTeardown.Load() != 0 || unfinished != 0 {
			o.Fail("teardown-before-iterations-finished", fmt.Sprintf("config file (first stage %q then a constant stage, iterations of %s): the setup cleanup ran while %d started iteration(s) had not finished; Run.Do returned with %d of %d iterations unfinished",
				strings.Fields(first)[4], body, atTeardown.Load(), unfinished, started.Load()))
		}
		o.Count("file-run-iterations", kit.Bucket(started.Load()))
		o.Case("cleanups_once_ok", []string{kit.Ints([]int64{1}), kit.Ints([]int64{1}), kit.I(max(atTeardown.Load(), 0) + unfinished)}, "T", "file-teardown", "nt")
	}
}

// A config file's users stage is interrupted at the very moment it comes up (the interrupt is
// sent as soon as the stage's parameter shows in the environment, while hundreds of users are
// still being started): no iteration starts after the setup cleanups have run or the run returned.
func TestC06StageComingUp(t *testing.T) {
	o := kit.Get()
	defer o.Close()
	r := kit.NewRand(kit.Seed() + 70)
	dir := t.TempDir()
	late, attempts := int64(0), kit.N(15, 80)
	for i := 0; i < attempts; i++ {
		var tornDown, returned atomic.Bool
		var afterTeardown, afterReturn atomic.Int64
		key := "VERIF_C06_STAGE_UP"
		scenario := func(st *f1testing.T) f1testing.RunFn {
			st.Cleanup(func() { tornDown.Store(true) })
			return func(*f1testing.T) {
				if tornDown.Load() {
					afterTeardown.Add(1)
				}
				if returned.Load() {
					afterReturn.Add(1)
				}
			}
		}
		users := int(kit.Pick(r, 300, 1000, 2000))
		yaml := "scenario: verifscenario\ndefault:\n  jitter: 0\n  distribution: none\n" +
			"limits:\n  max-duration: 5s\n  concurrency: 4\n  max-iterations: 0\n  ignore-dropped: true\nstages:\n" +
			"  - duration: 1s\n    mode: users\n    concurrency: " + strconv.Itoa(users) + "\n    parameters:\n      " + key + ": \"1\"\n"
		path := dir + "/c06up_" + strconv.Itoa(i) + ".yaml"
		_ = os.WriteFile(path, []byte(yaml), 0o600)
		ctx, cancel := context.WithCancel(context.Background())
		stopWatch := make(chan struct{})
		go func() {
			for {
				select {
				case <-stopWatch:
					return
				default:
				}
				if os.Getenv(key) != "" {
					cancel()
					return
				}
				runtime.Gosched()
			}
		}()
		_, hung, dump := runkit.DoTimeout(runkit.Config{Mode: "file", FileArg: path, Scenario: scenario, Ctx: ctx, Opts: options.RunOptions{}}, 60*time.Second)
		returned.Store(true)
		close(stopWatch)
		cancel()
		if hung {
			o.Fail("run-hung", "file run interrupted while its users stage came up did not return: "+dump[:min(len(dump), 2000)])
			continue
		}
		time.Sleep(30 * time.Millisecond)
		if n := afterTeardown.Load() + afterReturn.Load(); n > 0 {
			late += n
			if late == n {
				o.Fail("iterations-after-teardown", fmt.Sprintf("config file with a users stage of %d users, interrupted as the stage came up (attempt %d): %d iteration(s) started after the setup cleanups had run, %d after Run.Do had returned", users, i+1, afterTeardown.Load(), afterReturn.Load()))
			}
		}
	}
	o.Count("stage", "interrupted while coming up")
	o.Case("cleanups_once_ok", []string{kit.Ints([]int64{1}), kit.Ints([]int64{1}), kit.I(late)}, "T", "stage-coming-up", "nt")
}

// A run interrupted while its setup is still executing (and taking longer than the completion
// timeout): setup still runs to its end before anything else happens, and every cleanup it
// registered - before and after the interrupt - runs once, in reverse order, before the run returns.
func TestC06SlowSetup(t *testing.T) {
	o := kit.Get()
	defer o.Close()
	r := kit.NewRand(kit.Seed() + 69)
	for i := 0; i < kit.N(3, 20); i++ {
		var mu sync.Mutex
		var cleaned []int64
		var setupDone atomic.Bool
		ctx, cancel := context.WithCancel(context.Background())
		slow := time.Duration(r.Range(200, 450)) * time.Millisecond
		scenario := func(st *f1testing.T) f1testing.RunFn {
			st.Cleanup(func() { mu.Lock(); cleaned = append(cleaned, 1); mu.Unlock() })
			cancel() // the interrupt arrives now
			time.Sleep(slow)
			st.Cleanup(func() { mu.Lock(); cleaned = append(cleaned, 2); mu.Unlock() })
			setupDone.Store(true)
			return func(*f1testing.T) {}
		}
		mode := kit.Pick(r, "users", "constant")
		flags := map[string]string{}
		if mode == "constant" {
			flags = map[string]string{"rate": "1/100ms", "distribution": "none"}
		}
		out, hung, dump := runkit.DoTimeout(runkit.Config{Mode: mode, Flags: flags, Scenario: scenario, Ctx: ctx, Wait: 100 * time.Millisecond,
			Opts: options.RunOptions{MaxDuration: 2 * time.Second, Concurrency: 2, IgnoreDropped: true}}, 60*time.Second)
		cancel()
		if hung {
			o.Fail("run-hung", "run interrupted during setup did not return: "+dump[:min(len(dump), 2000)])
			continue
		}
		doneAtReturn := setupDone.Load()
		mu.Lock()
		got := append([]int64(nil), cleaned...)
		mu.Unlock()
		_ = out
		if !doneAtReturn || len(got) != 2 || got[0] != 2 || got[1] != 1 {
			o.Fail("setup-abandoned", fmt.Sprintf("run interrupted %s before its setup ended (completion timeout 100ms): setup finished before Run.Do returned: %v; setup cleanups run at return (2 = registered after the interrupt, 1 = before): %v, want [2 1]", slow, doneAtReturn, got))
		}
		ok := int64(0)
		if !doneAtReturn {
			ok = 1
		}
		o.Count("setup", "interrupted while slow")
		o.Case("cleanups_once_ok", []string{kit.Ints([]int64{1, 1}), kit.Ints([]int64{int64(len(got)) / 2, (int64(len(got)) + 1) / 2}), kit.I(ok)}, "T", "slow-setup", "nt")
	}
}

// ---------------------------------------------------------------- C20: combined scenarios in whole file-triggered runs

// A config-file run starts a pool per stage; an iteration of a combined scenario that is still
// between two components when the next stage starts must go on with its own handle: every
// iteration's event log, grouped by the handle its first component received, equals the model's
// log of one iteration of the combined body; no handle is in use by two iterations at once; all
// iterations run the same program, so the run's failed / successful totals are all or nothing.
func TestC20File(t *testing.T) {
	o := kit.Get()
	defer o.Close()
	r := kit.NewRand(kit.Seed() + 2020)
	dir := t.TempDir()
	for i := 0; i < kit.N(8, 48); i++ {
		mb := 0
		var setupLog []int64
		tab := genTab(r, &mb)
		setupProg := prog{tab: tab, log: &setupLog, mu: &sync.Mutex{}}
		nc := int(r.Range(2, 5))
		type comp struct{ setup, run []act }
		comps := make([]comp, nc)
		stopBias := kit.Pick(r, 0, 10, 25)
		for ci := range comps {
			comps[ci].setup = []act{{5, 2*ci + 1000, 0}}
			comps[ci].run = append([]act{{5, 2*ci + 1001, 0}}, genActs(r, len(tab), 4, &mb, stopBias)...)
		}
		// the first component never stops the iteration, so that every iteration reaches the pause
		var first []act
		for _, a := range comps[0].run {
			if a.kind != 2 && a.kind != 3 && a.kind != 4 {
				first = append(first, a)
			}
		}
		comps[0].run = first
		type rec struct {
			id   string
			logv []int64
			p    prog
		}
		var mu sync.Mutex
		byHandle := map[*f1testing.T]*rec{}
		var recs []*rec
		shared, idChanged, lost := 0, 0, 0
		var seq atomic.Int64
		var fns []f1testing.ScenarioFn
		for ci := range comps {
			c, ci := comps[ci], ci
			fns = append(fns, func(st *f1testing.T) f1testing.RunFn {
				setupProg.exec(st, c.setup)
				return func(t *f1testing.T) {
					var rc *rec
					mu.Lock()
					if ci == 0 {
						if byHandle[t] != nil {
							shared++
						}
						rc = &rec{id: t.Iteration}
						rc.p = prog{tab: tab, log: &rc.logv, mu: &sync.Mutex{}}
						byHandle[t] = rc
						recs = append(recs, rc)
					} else {
						rc = byHandle[t]
					}
					mu.Unlock()
					if rc == nil {
						mu.Lock()
						lost++
						mu.Unlock()
						return
					}
					if ci == 0 {
						mine := rc
						t.Cleanup(func() {
							mu.Lock()
							if byHandle[t] == mine {
								delete(byHandle, t)
							}
							mu.Unlock()
						})
					}
					if ci == 1 {
						// every third iteration is still here when the next stage's pool starts
						if seq.Add(1)%3 == 0 {
							time.Sleep(110 * time.Millisecond)
						}
					}
					if t.Iteration != rc.id {
						mu.Lock()
						idChanged++
						mu.Unlock()
					}
					rc.p.exec(t, c.run)
				}
			})
		}
		_, yaml := runkit.QuickMode("file", r.Intn(6))
		path := dir + "/c20f_" + strconv.Itoa(i) + ".yaml"
		_ = os.WriteFile(path, []byte(yaml), 0o600)
		out, hung, dump := runkit.DoTimeout(runkit.Config{Mode: "file", FileArg: path, Scenario: f1.CombineScenarios(fns...), Ctx: context.Background(),
			Opts: options.RunOptions{}}, 60*time.Second)
		if hung {
			o.Fail("run-hung", "file run did not return: "+dump[:min(len(dump), 2000)])
			continue
		}
		if out.Result == nil {
			o.Fail("run-error", fmt.Sprintf("file run produced no result: %v", out.Err))
			continue
		}
		sn := out.Result.Snapshot()
		mu.Lock()
		n := int64(len(recs))
		if shared > 0 {
			o.Fail("c20-shared-handle", fmt.Sprintf("%d iterations of a combined scenario were handed a handle that another running iteration was still using (file run, %d iterations)", shared, n))
		}
		if idChanged > 0 {
			o.Fail("c20-iteration-id-changed", fmt.Sprintf("%d times a later component saw another iteration id on its handle than the first component of the same iteration", idChanged))
		}
		if lost > 0 {
			o.Fail("c20-handle", fmt.Sprintf("%d times a later component received a handle no first component had received", lost))
		}
		nf, ns := int64(sn.FailedIterationDurations.Count), int64(sn.SuccessfulIterationDurations.Count)
		items := make([]string, nc)
		for ci, c := range comps {
			items[ci] = kit.List(encActs(c.setup), encActs(c.run))
		}
		outcome := ""
		switch {
		case n == 0:
		case nf == n && ns == 0:
			outcome = "T"
		case ns == n && nf == 0:
			outcome = "F"
		default:
			o.Fail("c20-mixed-outcomes", fmt.Sprintf("all %d iterations ran the same combined program, yet %d were reported failed and %d successful", n, nf, ns))
		}
		seen := map[string]bool{}
		for _, rc := range recs {
			rc.p.mu.Lock()
			ev := kit.Ints(rc.logv)
			rc.p.mu.Unlock()
			if outcome == "" || seen[ev] || len(seen) >= 3 {
				continue
			}
			seen[ev] = true
			o.Case("combine_obs", []string{encTab(tab), kit.List(items...), kit.I(1)},
				"ok "+kit.List(kit.List(kit.Ints(setupLog), "F"), kit.List(ev, kit.List(outcome))), "combine", "file-run", "nt")
		}
		mu.Unlock()
		o.Count("file-run-iterations", kit.Bucket(n))
	}
}

// ---------------------------------------------------------------- C20: a combined iteration in flight when the run is interrupted

// The run is cancelled (what SIGINT / SIGTERM do) while the first part of a combined iteration
// executes; the parts after it still run on the same handle before the run returns, and a part
// that stops or fails the iteration then makes it a failed iteration of the run's result.
func TestC20Interrupted(t *testing.T) {
	o := kit.Get()
	defer o.Close()
	r := kit.NewRand(kit.Seed() + 206)
	for i := 0; i < kit.N(6, 40); i++ {
		how := i % 4
		var order []string
		var mu sync.Mutex
		var handles []*f1testing.T
		note := func(s string, h *f1testing.T) {
			mu.Lock()
			order = append(order, s)
			handles = append(handles, h)
			mu.Unlock()
		}
		hold := time.Duration(r.Range(120, 220)) * time.Millisecond
		first := func(*f1testing.T) f1testing.RunFn {
			return func(t *f1testing.T) { note("first", t); time.Sleep(hold) }
		}
		second := func(*f1testing.T) f1testing.RunFn {
			return func(t *f1testing.T) {
				note("second", t)
				switch how {
				case 0:
					t.FailNow()
				case 1:
					t.Fail()
				case 2:
					panic("second part panics")
				default:
					t.Require().True(false)
				}
			}
		}
		third := func(*f1testing.T) f1testing.RunFn { return func(t *f1testing.T) { note("third", t) } }
		ctx, cancel := context.WithCancel(context.Background())
		go func() { time.Sleep(time.Duration(r.Range(30, 80)) * time.Millisecond); cancel() }()
		mode := []string{"users", "constant"}[i%2]
		flags := map[string]string{}
		if mode == "constant" {
			flags["rate"] = "1/1s"
			flags["distribution"] = "none"
		}
		out, hung, _ := runkit.DoTimeout(runkit.Config{Mode: mode, Flags: flags, Scenario: f1.CombineScenarios(first, second, third), Ctx: ctx,
			Opts: options.RunOptions{MaxDuration: 10 * time.Second, Concurrency: 1}}, 60*time.Second)
		cancel()
		if hung || out.Err != nil || out.Result == nil {
			o.Fail("c20-interrupted-run", "interrupted run did not return")
			continue
		}
		mu.Lock()
		got := strings.Join(order, ",")
		same := len(handles) >= 2 && handles[0] == handles[1]
		mu.Unlock()
		want := "first,second"
		if how == 1 {
			want = "first,second,third" // Fail marks and goes on
		}
		sn := out.Result.Snapshot()
		if got != want || !same {
			o.Fail("c20-interrupted-parts", fmt.Sprintf("%s run cancelled while the first part of a combined iteration was executing: parts seen when the run returned: [%s] (want [%s]), on one handle: %v", mode, got, want, same))
		}
		o.Count("interrupted", mode)
		o.Case("c01_ok", []string{"0", "1", "0", kit.I(sn.SuccessfulIterationDurations.Count), kit.I(sn.FailedIterationDurations.Count), kit.I(sn.DroppedIterationCount),
			"F", "0", "0", "0"}, "T", "interrupted", "nt")
	}
}

// ---------------------------------------------------------------- C06 / C20: many setup cleanups of a combined scenario

// A combined scenario whose parts each register hundreds of cleanups during setup, on the one
// setup handle they share: after the run every one of them has run exactly once, and in the
// reverse of the order in which they were registered (parts are set up one after the other).
func TestC06ManySetupCleanups(t *testing.T) {
	o := kit.Get()
	defer o.Close()
	r := kit.NewRand(kit.Seed() + 606)
	for i := 0; i < kit.N(4, 30); i++ {
		parts := int(r.Range(2, 8))
		per := int(kit.Pick(r, 50, 400, 2000))
		var mu sync.Mutex
		var registered, ran []int
		var fns []f1testing.ScenarioFn
		for p := 0; p < parts; p++ {
			p := p
			fns = append(fns, func(st *f1testing.T) f1testing.RunFn {
				for k := 0; k < per; k++ {
					id := p*per + k
					mu.Lock()
					registered = append(registered, id)
					mu.Unlock()
					st.Cleanup(func() {
						mu.Lock()
						ran = append(ran, id)
						mu.Unlock()
					})
				}
				return func(*f1testing.T) {}
			})
		}
		out, hung, _ := runkit.DoTimeout(runkit.Config{Mode: "users", Scenario: f1.CombineScenarios(fns...), Ctx: context.Background(),
			Opts: options.RunOptions{MaxDuration: 2 * time.Second, Concurrency: 2, MaxIterations: 6}}, 60*time.Second)
		if hung || out.Err != nil || out.Result == nil {
			o.Fail("c06-many-run", "run did not complete")
			continue
		}
		mu.Lock()
		nreg, nran := len(registered), len(ran)
		reversed := nreg == nran
		if reversed {
			for k := range ran {
				if ran[k] != registered[nreg-1-k] {
					reversed = false
					break
				}
			}
		}
		mu.Unlock()
		o.Count("setup-cleanups", kit.Bucket(int64(parts*per)))
		if nreg != parts*per || nran != nreg || !reversed || out.Result.Failed() {
			o.Fail("setup-cleanups-not-once", fmt.Sprintf("combined scenario of %d parts registering %d setup cleanups each: %d registered, %d ran, in exactly reversed order: %v, run failed: %v",
				parts, per, nreg, nran, reversed, out.Result.Failed()))
		}
		o.Case("c01_ok", []string{kit.I(int64(parts * per)), "0", "0", kit.I(int64(nran)), "0", "0", "F", "0", "0", "0"}, "T", "many-cleanups", "nt")
	}
}
