//go:build verif

package c11

import (
	"math"
	"math/big"
	"strconv"
	"strings"
	"testing"
	"time"

	"github.com/form3tech-oss/f1/v2/internal/gaussian"
	"github.com/form3tech-oss/f1/v2/internal/options"
	tg "github.com/form3tech-oss/f1/v2/internal/trigger/gaussian"
	"github.com/form3tech-oss/f1/v2/internal/ui"
	"github.com/form3tech-oss/f1/v2/internal/verifh/kit"
	"github.com/form3tech-oss/f1/v2/internal/verifh/runkit"
)

const year1 = int64(62135596800)

var year1ns = new(big.Int).Mul(big.NewInt(year1), big.NewInt(1_000_000_000))

// unixOf returns the unix nanoseconds of absolute window number w (since year 1) plus off.
func unixOf(w, repeat, off int64) int64 {
	x := new(big.Int).Mul(big.NewInt(w), big.NewInt(repeat))
	x.Add(x, big.NewInt(off))
	x.Sub(x, year1ns)
	return x.Int64()
}

func windowOf(unix, repeat int64) int64 {
	x := new(big.Int).Add(big.NewInt(unix), year1ns)
	return x.Div(x, big.NewInt(repeat)).Int64()
}

func bits(f float64) uint64 {
	if f != f {
		return 0x7FF8000000000001
	}
	return math.Float64bits(f)
}

type gcase struct {
	volume                     float64
	repeat, freq, peak, stddev int64 // ns
	weights                    []float64
	windows                    int
	firstWindow                int64 // absolute window number (since year 1)
	viaRate                    bool
}

func gen(r *kit.Rand) gcase {
	var c gcase
	c.volume = kit.Pick(r, float64(r.Range(1, 1000)), float64(r.Range(1000, 10_000_000)), 86400, 100000, 23499)
	ticks := kit.Pick(r, r.Range(10, 200), r.Range(200, 1500), 60, 1440)
	c.freq = kit.Pick(r, int64(1_000_000_000), 100_000_000, 60_000_000_000, 5_000_000_000, 10_000_000, 250_000_000, 150_000_000, 1_250_000_000, 1_500_000, 7_500_000)
	c.repeat = ticks * c.freq
	c.peak = r.Range(0, c.repeat)
	if r.Chance(15) {
		c.peak = kit.Pick(r, int64(0), c.repeat/2, c.repeat-c.freq, c.repeat)
	}
	maxMul := c.repeat / c.freq
	c.stddev = c.freq * kit.Pick(r, int64(1), 2, 5, r.Range(1, maxMul+1), r.Range(5, maxMul/2+6), 10*maxMul)
	nw := kit.Pick(r, 0, 0, 1, 2, 3, 7)
	for i := 0; i < nw; i++ {
		c.weights = append(c.weights, kit.Pick(r, 1.0, 0.5, 2.0, 1.5, float64(r.Range(1, 10))/4, 0.0))
	}
	// a list may switch windows off (weight 0) but not all of them (the mean would be 0)
	allZero := nw > 0
	for _, w := range c.weights {
		if w != 0 {
			allZero = false
		}
	}
	if allZero {
		c.weights[0] = 1.0
	}
	c.windows = int(r.Range(1, 3))
	c.firstWindow = windowOf(1_700_000_000_000_000_000, c.repeat) + r.Range(1, 50)
	c.viaRate = r.Chance(45)
	return c
}

func TestC11(t *testing.T) {
	o := kit.Get()
	defer o.Close()
	r := kit.NewRand(kit.Seed() + 11)
	n := kit.N(60, 700)
	var prev gcase
	for i := 0; i < n; i++ {
		c := gen(r)
		// pairs of profiles of the SAME curve (peak, deviation, window) at different tick frequencies,
		// built one after the other in this process, the curve wide enough to have mass at the window's
		// ends: each profile is its own
		if i%4 == 2 && c.stddev < c.repeat/3 {
			c.stddev = (c.repeat / 3 / c.freq) * c.freq
		}
		if i%4 == 3 && prev.repeat > 0 {
			for _, f := range []int64{prev.freq * 2, prev.freq / 2, prev.freq * 5, prev.freq / 5, prev.freq * 10, prev.freq / 10, prev.freq * 3, prev.freq / 3} {
				if f > 0 && prev.repeat%f == 0 && prev.repeat/f >= 4 && prev.repeat/f <= 3000 && prev.stddev >= f {
					keepVia := c.viaRate
					c = prev
					c.freq, c.viaRate = f, keepVia
					o.Count("curve", "same curve as the profile before, other tick frequency")
					break
				}
			}
		}
		viaFlags := i%4 == 1
		if viaFlags && i%8 == 1 {
			c.peak = 0
		}
		prev = c
		dist, err := gaussian.NewDistribution(float64(c.peak), float64(c.stddev))
		if err != nil {
			continue
		}
		var rate func(time.Time) int
		blanks := 0
		if c.viaRate && r.Bool() {
			blanks = int(r.Range(1, 9))
			o.Count("weights-string", "with empty entries")
		}
		// a third way in: the trigger as `f1 run gaussian` builds it, from the builder's flag set, every
		// option written out - a peak offset of exactly zero (the window's first tick) included
		if viaFlags {
			c.viaRate = false
			o.Count("built", "through the command's flag set")
		}
		crashedCtor, _ := kit.Guard(func() {
			if viaFlags {
				ws := make([]string, len(c.weights))
				for k, w := range c.weights {
					ws[k] = strconv.FormatFloat(w, 'g', -1, 64)
				}
				cfg := runkit.Config{Mode: "gaussian", Flags: map[string]string{"volume": strconv.FormatFloat(c.volume, 'g', -1, 64), "repeat": time.Duration(c.repeat).String(),
					"iteration-frequency": time.Duration(c.freq).String(), "peak": time.Duration(c.peak).String(), "standard-deviation": time.Duration(c.stddev).String(),
					"weights": strings.Join(ws, ","), "distribution": "none", "jitter": "0"}, Opts: options.RunOptions{MaxDuration: time.Second}}
				if len(ws) == 0 {
					delete(cfg.Flags, "weights")
				}
				trig, e := runkit.BuildTrigger(&cfg, ui.NewDiscardOutput())
				if e == nil {
					rate = trig.DryRun
				}
				return
			}
			if c.viaRate {
				ws := make([]string, len(c.weights))
				for k, w := range c.weights {
					ws[k] = strconv.FormatFloat(w, 'g', -1, 64)
				}
				// empty entries in the weights string are skipped (a leading, doubled or trailing comma)
				if len(ws) > 0 && blanks > 0 {
					at := blanks % (len(ws) + 1)
					ws = append(ws[:at:at], append([]string{""}, ws[at:]...)...)
					if blanks%3 == 0 {
						ws = append(ws, "")
					}
				}
				rates, e := tg.CalculateGaussianRate(c.volume, 0, time.Duration(c.repeat), time.Duration(c.freq), time.Duration(c.peak),
					time.Duration(c.stddev), strings.Join(ws, ","), "none")
				if e == nil {
					rate = rates.Rate
				}
			} else {
				calc, e := tg.NewCalculator(time.Duration(c.peak), time.Duration(c.stddev), time.Duration(c.freq), c.weights, c.volume, time.Duration(c.repeat))
				if e == nil {
					rate = calc.For
				}
			}
		})
		if crashedCtor || rate == nil {
			o.Fail("gauss-ctor", "gaussian calculator could not be built for in-domain parameters")
			continue
		}
		nticks := int(c.repeat / c.freq)
		// oracle table: density at every slot of the window; normaliser's two CDF values
		table := make([]string, nticks)
		for k := 0; k < nticks; k++ {
			slot := int64(k) * c.freq
			table[k] = kit.List(kit.I(slot), kit.I(bits(dist.PDF(float64(slot)))))
		}
		cdfHi, cdfLo := dist.CDF(float64(c.repeat-c.freq)), dist.CDF(0)
		covered := cdfHi - cdfLo
		var ticks []int64
		var outs []int64
		crashed, _ := kit.Guard(func() {
			for w := 0; w < c.windows; w++ {
				for k := 0; k < nticks; k++ {
					unix := unixOf(c.firstWindow+int64(w), c.repeat, int64(k)*c.freq)
					ticks = append(ticks, unix)
					outs = append(outs, int64(rate(time.Unix(0, unix))))
				}
			}
		})
		wb := make([]uint64, len(c.weights))
		avg := 1.0
		if len(c.weights) > 0 {
			tot := 0.0
			for k, w := range c.weights {
				wb[k] = bits(w)
				tot += w
			}
			avg = tot / float64(len(c.weights))
		}
		tags := []string{"gauss"}
		if len(c.weights) > 0 || c.windows > 1 {
			tags = append(tags, "nt")
		}
		o.Count("ticks-per-window", kit.Bucket(int64(nticks)))
		o.Count("weights", kit.I(len(c.weights)))
		o.Count("sigma/freq", kit.Bucket(c.stddev/c.freq))
		o.Case("gauss", []string{kit.I(bits(c.volume)), kit.I(c.freq), kit.Ints(wb), kit.I(bits(cdfHi)), kit.I(bits(cdfLo)), kit.I(c.repeat),
			kit.List(table...), kit.Ints(ticks)}, kit.Res(crashed, nil, kit.Ints(outs)), tags...)
		if crashed || len(outs) != nticks*c.windows {
			continue
		}
		// the property itself, per full window
		p := int((c.peak + c.freq/2) / c.freq)
		if p >= nticks {
			p = nticks - 1
		}
		for w := 0; w < c.windows; w++ {
			wfac := 1.0
			if len(c.weights) > 0 {
				idx := int((c.firstWindow + int64(w)) % int64(len(c.weights)))
				wfac = c.weights[idx] / avg
			}
			expected := c.volume * wfac
			edge := c.volume * float64(c.freq) * (dist.PDF(0) + dist.PDF(float64(c.repeat-c.freq))) / covered * wfac
			ratio := float64(c.freq) / float64(c.stddev)
			tol := edge + 0.05*ratio*ratio*expected + 1e-6*expected + 2
			o.Case("gauss_ok", []string{kit.Ints(outs[w*nticks : (w+1)*nticks]), kit.I(p), kit.I(int64(math.Round(expected))), kit.I(int64(math.Ceil(tol)))}, "T", "window", "nt")
		}
	}
}
