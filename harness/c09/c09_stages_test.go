//go:build verif

package c09

import (
	"context"
	"fmt"
	"os"
	"path/filepath"
	"strconv"
	"sync"
	"sync/atomic"
	"testing"
	"time"

	"github.com/form3tech-oss/f1/v2/internal/options"
	"github.com/form3tech-oss/f1/v2/internal/trigger/api"
	"github.com/form3tech-oss/f1/v2/internal/ui"
	"github.com/form3tech-oss/f1/v2/internal/verifh/kit"
	"github.com/form3tech-oss/f1/v2/internal/verifh/runkit"
	"github.com/form3tech-oss/f1/v2/internal/workers"
	f1testing "github.com/form3tech-oss/f1/v2/pkg/f1/testing"
)

// Several rate triggers one after the other in ONE run, on the run's pool manager - what a config
// file's stages are: every one of them keeps the cadence of its own interval from its own first
// evaluation on, whatever ran before it in the same run.
func stagedTriggers(o *kit.Out, r *kit.Rand) {
	type stage struct {
		interval, dur time.Duration
		lg            *evalLog
		endsLate      bool
	}
	nst := int(r.Range(2, 3))
	var sts []*stage
	for k := 0; k < nst; k++ {
		iv := time.Duration(kit.Pick(r, 20, 30, 50)) * time.Millisecond
		d := time.Duration(r.Range(120, 260)) * time.Millisecond
		if k > 0 && r.Chance(70) {
			// an interval longer than everything that ran before this stage
			iv = time.Duration(kit.Pick(r, 300, 400, 500)) * time.Millisecond
			d = iv*2 + iv*time.Duration(r.Range(20, 70))/100
		}
		sts = append(sts, &stage{iv, d, &evalLog{}, iv <= 50*time.Millisecond && r.Chance(60)})
	}
	trig := &api.Trigger{Description: "verif stages", Trigger: func(ctx context.Context, out *ui.Output, pm *workers.PoolManager, opts options.RunOptions) {
		for _, st := range sts {
			if ctx.Err() != nil {
				return
			}
			lg := st.lg
			began := time.Now()
			stalled := false
			iv, dur, late := st.interval, st.dur, st.endsLate
			fn := func(time.Time) int {
				t := mono()
				lg.mu.Lock()
				lg.times = append(lg.times, t)
				lg.values = append(lg.values, 2)
				lg.mu.Unlock()
				// the stage ends while its ticking goroutine is behind: the evaluation in progress when
				// the stage's time is up takes more than an interval (a tick is due meanwhile)
				if late && !stalled && time.Since(began) > dur-20*time.Millisecond-iv {
					stalled = true
					time.Sleep(iv + iv/2)
				}
				return 2
			}
			sctx, cancel := context.WithTimeout(ctx, st.dur-20*time.Millisecond)
			api.NewIterationWorker(st.interval, fn)(sctx, out, pm, opts)
			cancel()
			time.Sleep(20 * time.Millisecond)
		}
	}}
	cfg := runkit.Config{Mode: "custom", Scenario: func(*f1testing.T) f1testing.RunFn { return func(*f1testing.T) {} }, Ctx: context.Background(),
		Opts: options.RunOptions{MaxDuration: 10 * time.Second, Concurrency: 8, IgnoreDropped: true}}
	out := runkit.DoWithTrigger(cfg, trig)
	if out.Err != nil || out.Result == nil {
		o.Fail("c09-run-error", fmt.Sprintf("staged run failed: %v", out.Err))
		return
	}
	for k, st := range sts {
		st.lg.mu.Lock()
		times := append([]int64(nil), st.lg.times...)
		values := append([]int64(nil), st.lg.values...)
		st.lg.mu.Unlock()
		tags := []string{"cadence", "stage"}
		if len(times) >= 3 {
			tags = append(tags, "nt")
		}
		o.Count("stage-trigger", fmt.Sprintf("stage %d of %d", k+1, nst))
		o.Case("c09_ok", []string{kit.I(int64(st.interval)), kit.Ints(times), kit.Ints(values), "0", "0", "F", "0"}, "T", tags...)
	}
}

// The same through a real config file: constant stages of k per interval, instant bodies; the
// stage an iteration belongs to is read from the stage's parameter. A stage of duration D that
// evaluates at most 1 + floor((D - 20 ms)/interval) times starts at most k times that many
// iterations (one-sided: late ticks only lower the count).
func fileStages(o *kit.Out, r *kit.Rand, dir string, idx int) {
	const key = "VERIF_C09_STAGE"
	type st struct {
		k, iv, d int64
	}
	var sts []st
	sts = append(sts, st{1, 50, r.Range(150, 250)})
	for n := int(r.Range(1, 2)); n > 0; n-- {
		iv := int64(kit.Pick(r, 300, 400, 500))
		sts = append(sts, st{r.Range(2, 5), iv, iv*2 - r.Range(60, 120)}) // evaluations at 0 and one interval later only
	}
	yaml := "scenario: verifscenario\ndefault:\n  mode: constant\n  rate: 1/s\n  jitter: 0\n  distribution: none\n  concurrency: 8\n" +
		"limits:\n  max-duration: 10s\n  concurrency: 8\n  max-iterations: 0\n  ignore-dropped: true\nstages:\n"
	for i, s := range sts {
		yaml += fmt.Sprintf("  - duration: %dms\n    mode: constant\n    rate: %d/%dms\n    parameters:\n      %s: \"s%d\"\n", s.d, s.k, s.iv, key, i)
	}
	path := filepath.Join(dir, "c09_"+strconv.Itoa(idx)+".yaml")
	_ = os.WriteFile(path, []byte(yaml), 0o600)
	var mu sync.Mutex
	counts := map[string]int64{}
	var total atomic.Int64
	cfg := runkit.Config{Mode: "file", FileArg: path, Ctx: context.Background(),
		Scenario: func(*f1testing.T) f1testing.RunFn {
			return func(*f1testing.T) {
				v := os.Getenv(key)
				mu.Lock()
				counts[v]++
				mu.Unlock()
				total.Add(1)
			}
		}}
	out, hung, _ := runkit.DoTimeout(cfg, 60*time.Second)
	if hung || out.Err != nil || out.Result == nil {
		o.Fail("c09-file-run", "file run did not complete")
		return
	}
	mu.Lock()
	defer mu.Unlock()
	for i, s := range sts {
		allowed := s.k * (1 + (s.d-20)/s.iv)
		got := counts["s"+strconv.Itoa(i)]
		o.Count("file-stage", fmt.Sprintf("constant %d per %dms", s.k, s.iv))
		// one iteration of the stage before may have been claimed just before that stage ended and run
		// its body after this stage's parameter appeared (a starved process): a slack of one
		if got > allowed+1 {
			o.Fail("stage-evaluated-too-often", fmt.Sprintf("stage %d of a config file (%d/%dms for %dms): %d iterations started while its parameter was set; 1 + floor(%dms/%dms) evaluations of %d allow %d\n%s",
				i+1, s.k, s.iv, s.d, got, s.d-20, s.iv, s.k, allowed, yaml))
		}
		tags := []string{"file-stage"}
		if i > 0 {
			tags = append(tags, "nt")
		}
		o.Case("stage_count_ok", []string{kit.I(s.k), kit.I(s.iv), kit.I(s.d - 20), kit.I(got), "1"}, "T", tags...)
	}
	o.AddStat("file-iterations", total.Load())
}

func TestC09Stages(t *testing.T) {
	o := kit.Get()
	defer o.Close()
	r := kit.NewRand(kit.Seed() + 99)
	dir := t.TempDir()
	for i := 0; i < kit.N(4, 30); i++ {
		stagedTriggers(o, r)
	}
	for i := 0; i < kit.N(3, 20); i++ {
		fileStages(o, r, dir, i)
	}
}
