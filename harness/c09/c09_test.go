//go:build verif

package c09

import (
	"context"
	"fmt"
	"runtime"
	"sync"
	"sync/atomic"
	"testing"
	"time"

	"github.com/form3tech-oss/f1/v2/internal/options"
	"github.com/form3tech-oss/f1/v2/internal/trigger/api"
	"github.com/form3tech-oss/f1/v2/internal/verifh/kit"
	"github.com/form3tech-oss/f1/v2/internal/verifh/runkit"
	f1testing "github.com/form3tech-oss/f1/v2/pkg/f1/testing"
)

type evalLog struct {
	mu     sync.Mutex
	times  []int64
	values []int64
}

var epoch = time.Now()

var runNo int

func mono() int64 { return int64(time.Since(epoch)) }

// one real run of a rate trigger built from api.NewIterationWorker (through the constant
// trigger's constructor when a distribution is wanted) with a logging rate function
func oneRun(o *kit.Out, r *kit.Rand, forceSaturated int) {
	interval := time.Duration(kit.Pick(r, 5, 10, 20, 50, 100, 300)) * time.Millisecond
	runNo++
	if runNo%3 == 0 {
		// intervals that are no whole number of milliseconds (a rate per 2500us, per 7.5ms)
		interval = time.Duration(kit.Pick(r, 2500, 7500, 12500, 1900)) * time.Microsecond
	}
	dist := kit.Pick(r, "none", "none", "regular", "random")
	profile := r.Intn(3)
	if r.Chance(25) {
		profile = 5
		dist = "none"
	}
	// saturated pool with idle ticks: one worker, bodies of almost half an interval, the
	// profile asks for 8, 0, 0, 8, 0, 0, ...: a tick of 0 is a request like any other (it
	// supersedes what is still pending), so nothing may start during the idle intervals
	saturated := forceSaturated == 1 || (forceSaturated == 0 && r.Chance(20))
	// a herd of idle workers and very short ticks of 1: thousands of races between the workers'
	// failed claims and the next tick's request; every tick still requests exactly its value
	herd := forceSaturated == 2
	if herd {
		interval = 20 * time.Microsecond
		dist = "none"
		profile = 4
	}
	if saturated {
		interval = time.Duration(kit.Pick(r, 60, 100)) * time.Millisecond
		dist = "none"
		profile = 3
	}
	var bodyStarts []int64
	var bsMu sync.Mutex
	lg := &evalLog{}
	base := int64(r.Range(0, 30))
	// a stall of the ticking goroutine (slow rate function, GC pause, starved process): one
	// evaluation takes longer than a whole number of intervals plus a fraction
	stallAt, stallFor := int64(-1), time.Duration(0)
	if !saturated && !herd && r.Chance(35) {
		stallAt = r.Range(0, 2)
		stallFor = time.Duration(r.Range(1, 3))*interval + interval*time.Duration(r.Range(20, 80))/100
		if dist != "none" {
			stallFor = time.Duration(r.Range(1, 3))*100*time.Millisecond + time.Duration(r.Range(20, 80))*time.Millisecond
		}
		if stallFor > 700*time.Millisecond {
			stallFor = 700 * time.Millisecond
		}
	}
	stall := func(k int64) {
		if k == stallAt {
			time.Sleep(stallFor)
		}
	}
	rateFn := func(time.Time) int {
		t := mono()
		lg.mu.Lock()
		k := int64(len(lg.times))
		var v int64
		switch profile {
		case 4:
			v = 1
		case 3:
			if k%3 == 0 {
				v = 8
			}
		case 0:
			v = base
		case 1:
			v = base + k
		case 5:
			// a profile that dips below zero (a staged profile before its start time, a negative
			// target): a negative value requests nothing
			v = []int64{3, -2, 0, 4, -7, base, -1}[k%7]
		default:
			v = (base * (k + 1)) % 17
		}
		lg.times = append(lg.times, t)
		lg.values = append(lg.values, v)
		lg.mu.Unlock()
		stall(k)
		return int(v)
	}
	// the distribution wraps the logged function: the property speaks about the function the
	// ticker evaluates, i.e. the distributed one; so log at the outermost level instead
	distInterval, distFn, err := api.NewDistribution(api.DistributionType(dist), interval, func(time.Time) int { return int(base) }, nil)
	if err != nil {
		return
	}
	tickInterval := interval
	var outer api.RateFunction = rateFn
	if dist != "none" {
		tickInterval = distInterval
		inner := distFn
		outer = func(t time.Time) int {
			v := int64(inner(t))
			tm := mono()
			lg.mu.Lock()
			k := int64(len(lg.times))
			lg.times = append(lg.times, tm)
			lg.values = append(lg.values, v)
			lg.mu.Unlock()
			stall(k)
			return int(v)
		}
	}
	trig := &api.Trigger{Trigger: api.NewIterationWorker(tickInterval, outer), Description: "verif"}
	// as the rate builders do: the dry-run function of the trigger is the very rate closure the
	// ticking goroutine evaluates; and every other run logs at debug level
	shareDryRun := r.Chance(60)
	if shareDryRun {
		trig.DryRun = outer
	}
	debug := r.Bool()
	var started atomic.Int64
	var setupDone atomic.Int64
	scenario := func(*f1testing.T) f1testing.RunFn {
		setupDone.Store(mono())
		return func(*f1testing.T) {
			started.Add(1)
			if saturated {
				bsMu.Lock()
				bodyStarts = append(bodyStarts, mono())
				bsMu.Unlock()
				time.Sleep(interval * 45 / 100)
			}
		}
	}
	// scheduling noise: busy goroutines competing with the ticking goroutine
	stopNoise := make(chan struct{})
	if !saturated && !herd && r.Chance(50) {
		for g := 0; g < runtime.GOMAXPROCS(0); g++ {
			go func() {
				for {
					select {
					case <-stopNoise:
						return
					default:
						for i := 0; i < 1000; i++ {
							_ = i * i
						}
						runtime.Gosched()
					}
				}
			}()
		}
	}
	if stallAt >= 0 {
		o.Count("stall", "ticking goroutine stalled once")
	} else {
		o.Count("stall", "none")
	}
	runFor := time.Duration(r.Range(3, 12))*tickInterval + 2*stallFor
	if runFor < 60*time.Millisecond {
		runFor = 60 * time.Millisecond
	}
	if runFor > 1500*time.Millisecond+2*stallFor {
		runFor = 1500*time.Millisecond + 2*stallFor
	}
	conc := 200
	if saturated {
		conc = 1
		runFor = 7*interval + interval/2
	}
	if herd {
		conc = 256
		runFor = 1000 * time.Millisecond
	}
	cfg := runkit.Config{Mode: "custom", Scenario: scenario, Ctx: context.Background(), Debug: debug,
		Opts: options.RunOptions{MaxDuration: runFor, Concurrency: conc, IgnoreDropped: true}}
	callAt := mono() // before the run's duration starts to count
	out := runkit.DoWithTrigger(cfg, trig)
	close(stopNoise)
	if shareDryRun && debug {
		o.Count("logging", "debug level, dry-run function shared with the trigger")
	}
	if out.Err != nil || out.Result == nil {
		o.Fail("c09-run-error", fmt.Sprintf("run failed: %v", out.Err))
		return
	}
	sn := out.Result.Snapshot()
	lg.mu.Lock()
	times := append([]int64(nil), lg.times...)
	values := append([]int64(nil), lg.values...)
	lg.mu.Unlock()
	// immediate first evaluation: it happens right when triggering starts, i.e. right after setup,
	// not one interval later (generous bound; only meaningful for intervals well above scheduling noise)
	if len(times) > 0 && tickInterval >= 100*time.Millisecond {
		delay := time.Duration(times[0] - setupDone.Load())
		if delay > max(tickInterval/2, 120*time.Millisecond) { // well above what a starved process adds
			o.Fail("first-evaluation-late", fmt.Sprintf("first rate evaluation %s after setup with a tick interval of %s", delay, tickInterval))
		}
	}
	if saturated {
		slack := int64(interval / 3)
		if slack > int64(25*time.Millisecond) {
			slack = int64(25 * time.Millisecond)
		}
		bsMu.Lock()
		late := 0
		for k := 0; k+1 < len(times); k++ {
			if values[k] != 0 {
				continue
			}
			for _, b := range bodyStarts {
				if b > times[k]+slack && b < times[k+1] {
					late++
				}
			}
		}
		bsMu.Unlock()
		o.Count("pool", "saturated, idle ticks")
		if late > 0 {
			o.Fail("started-during-zero-tick", fmt.Sprintf("interval %s, one worker, bodies of %s, profile 8,0,0,...: %d iteration(s) started more than %s after a tick that requested 0 and before the next tick (evaluations at %v, body starts at %v)",
				interval, interval*45/100, late, time.Duration(slack), times, bodyStarts))
		}
	} else {
		o.Count("pool", "plenty of instant workers")
	}
	tags := []string{"cadence"}
	if len(times) >= 3 {
		tags = append(tags, "nt")
	}
	o.Count("interval", tickInterval.String())
	o.Count("distribution", dist)
	o.AddStat("evaluations", int64(len(times)))
	// started + dropped ties the requests to the values (plenty of instant workers: every request starts or is superseded)
	// evaluations at or after callAt + runFor - 15 ms may have come after triggering stopped (the loop's
	// select picks at random between the cancellation and a tick that is ready too - with tiny
	// intervals or a starved process that can happen several times in a row): the pool refuses those
	// (triggering stops one iteration window - 10 ms - before max-duration; 15 ms are allowed for)
	late := int64(0)
	for _, tm := range times {
		if tm >= callAt+int64(runFor)-int64(15*time.Millisecond) {
			late++
		}
	}
	o.Count("late-evaluations", kit.Bucket(late))
	o.Case("c09_ok", []string{kit.I(int64(tickInterval)), kit.Ints(times), kit.Ints(values),
		kit.I(started.Load()), kit.I(sn.DroppedIterationCount), "T", kit.I(late)}, "T", tags...)
}

func TestC09(t *testing.T) {
	o := kit.Get()
	defer o.Close()
	r := kit.NewRand(kit.Seed() + 9)
	n := kit.N(14, 120)
	oneRun(o, r, 1)
	for i := 0; i < kit.N(2, 8); i++ {
		oneRun(o, r, 2)
	}
	for i := 0; i < n; i++ {
		oneRun(o, r, 0)
	}
}
