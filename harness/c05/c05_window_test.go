//go:build verif

package c05

import (
	"context"
	"fmt"
	"testing"
	"time"

	"github.com/form3tech-oss/f1/v2/internal/options"
	"github.com/form3tech-oss/f1/v2/internal/trigger/api"
	"github.com/form3tech-oss/f1/v2/internal/ui"
	"github.com/form3tech-oss/f1/v2/internal/verifh/kit"
	"github.com/form3tech-oss/f1/v2/internal/verifh/runkit"
	"github.com/form3tech-oss/f1/v2/internal/workers"
	f1testing "github.com/form3tech-oss/f1/v2/pkg/f1/testing"
)

// The triggering window as a trigger sees it: a trigger that requests nothing reads how much time
// is left on the context it is handed. For every pair (max-duration, trigger's own duration) -
// own duration absent, well below, just inside the 10 ms guard, equal to and beyond max-duration -
// no more is left than the earlier of max-duration less the guard and the trigger's duration.
func TestC05Window(t *testing.T) {
	o := kit.Get()
	defer o.Close()
	r := kit.NewRand(kit.Seed() + 55)
	for i := 0; i < kit.N(24, 200); i++ {
		maxD := time.Duration(r.Range(60, 400)) * time.Millisecond
		var trigD time.Duration
		switch i % 6 {
		case 0:
			trigD = 0
		case 1:
			trigD = maxD / 2
		case 2:
			trigD = maxD - time.Duration(r.Range(1, 9))*time.Millisecond // inside the guard
		case 3:
			trigD = maxD - 10*time.Millisecond - time.Duration(r.Range(0, 3))*time.Millisecond
		case 4:
			trigD = maxD
		default:
			trigD = maxD + time.Duration(r.Range(1, 50))*time.Millisecond
		}
		var remaining time.Duration
		hasDeadline := false
		trig := &api.Trigger{Description: "verif window", Duration: trigD,
			Trigger: func(ctx context.Context, _ *ui.Output, _ *workers.PoolManager, _ options.RunOptions) {
				if dl, ok := ctx.Deadline(); ok {
					hasDeadline = true
					remaining = time.Until(dl)
				}
			}}
		cfg := runkit.Config{Mode: "custom", Scenario: func(*f1testing.T) f1testing.RunFn { return func(*f1testing.T) {} }, Ctx: context.Background(),
			Opts: options.RunOptions{MaxDuration: maxD, Concurrency: 1}}
		out := runkit.DoWithTrigger(cfg, trig)
		if out.Err != nil || !hasDeadline {
			o.Fail("c05-window-run", fmt.Sprintf("run with max-duration %s and a trigger of %s: the trigger saw no deadline (%v)", maxD, trigD, out.Err))
			continue
		}
		o.Count("window", []string{"no own duration", "own duration well below", "own duration inside the guard", "own duration at the guard", "own duration = max-duration", "own duration beyond"}[i%6])
		o.Case("window_ok", []string{kit.I(int64(maxD)), kit.I(int64(trigD)), kit.I(int64(remaining)), "1000000"}, "T", "window", "nt")
	}
}
